CONSTANTS
  Vis = {"public", "seed", "both"}
  MaxOps = 4
  Dev = {"id-with-head"}
INIT Init
NEXT Next
INVARIANTS ServedOnlyIfAllowed
