CONSTANTS
  MaxSeq = 3
  MaxTasks = 100000
  MaxEpoch = 100000
  MaxOps = 100000
  Dev = {}
INIT TInit
NEXT TNext
POSTCONDITION Accepted
