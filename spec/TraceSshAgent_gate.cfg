\* gating only
CONSTANTS
  Orig = FALSE
  Ops <- AllOps
  Replies <- None
  WellFormed <- None
INIT TInit
NEXT TNext
INVARIANTS NoPanic
POSTCONDITION Accepted
