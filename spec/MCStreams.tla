------------------------------ MODULE MCStreams ------------------------------
EXTENDS Streams, Json, TLC
EmitInv == (Len(hist) = MaxOps \/ crashed \/ stolen) => PrintT(<<"CASE", ToJson([ops |-> hist])>>)
=============================================================================
