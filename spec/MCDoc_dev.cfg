\* sanity: a document family with the limit checked BEFORE deduplication would be refused here:
\* with MaxDelegates = 3 the list <<1, 1, 2, 2>> must be accepted; the invariant below says it never is
CONSTANTS
  Family = "small"
  MaxDelegates = 3
  CurrentVersion = 1
  MaxEdits = 0
  EditDids = {}
  EditThresholds = {}
  Payloads = {"project"}
  ListIds = {}
  ListThresholds = {}
  JsonDocs <- MCJsonDocs
INIT Init
NEXT Next
INVARIANTS LimitOnRawLength
