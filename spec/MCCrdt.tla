------------------------------- MODULE MCCrdt -------------------------------
(* Bounded instances of Crdt.tla.                                                               *)
(*  Mode "laws": states = (type, a, b, c) for every triple of the carrier; one CASE per PAIR      *)
(*               (emitted from the states with c = a): the two values and the model's join.       *)
(*  Mode "ops":  one LWW replica receiving up to MaxOps operations in every order; the delivery   *)
(*               order (hist) is hidden by VIEW; one CASE per distinct (replica, delivered set):   *)
(*               a delivery order, the structure, and what an observer must see (ObserveSpec).     *)
EXTENDS Crdt, Json, SequencesExt

CONSTANTS Mode, MaxOps

VARIABLE hist
View == <<ty, a, b, c, phase, m, ops>>

Asc(S) == SetToSortSeq(S, LAMBDA x, y : x < y)
MapSeq(f, Row(_, _)) == [i \in 1..Cardinality(DOMAIN f) |-> LET k == Asc(DOMAIN f)[i] IN Row(k, f[k])]
Enc(t, x) ==
    CASE t \in {"bool", "max", "min", "optmax", "redactable"} -> x
      [] t = "gset" -> Asc(x)
      [] t = "gmap" -> MapSeq(x, LAMBDA k, v : <<k, v>>)
      [] t \in {"lwwreg", "lwwregopt"} -> <<x.c, x.v>>
      [] t \in {"lwwmap", "lwwset"} -> MapSeq(x, LAMBDA k, r : <<k, r.c, r.v>>)

MCInit == IF Mode = "laws"
          THEN LawInit /\ m = <<>> /\ ops = {} /\ hist = <<>>
          ELSE LwwInit /\ ty = "bool" /\ a = FALSE /\ b = FALSE /\ c = FALSE /\ phase = 0 /\ hist = <<>>
MCNext == IF Mode = "laws"
          THEN LawNext /\ UNCHANGED <<m, ops, hist>>
          ELSE /\ Cardinality(ops) < MaxOps
               /\ \E op \in OpUniverse : Deliver(op) /\ hist' = Append(hist, op)
               /\ UNCHANGED lawvars

LawAssociative == (Mode = "laws" /\ phase = 3) => Associative
LawCommutative == (Mode = "laws" /\ phase = 3) => Commutative
LawIdempotent  == Mode = "laws" => Idempotent
LawClosed      == (Mode = "laws" /\ phase >= 2) => (Closed /\ UpperBound)
Lww == Mode = "ops" => (LwwObserver /\ LwwClock /\ LwwClock2)

Emit ==
    IF Mode = "laws"
    THEN (phase = 2) => PrintT(<<"CASE", ToJson([ty |-> ty, a |-> Enc(ty, a), b |-> Enc(ty, b), j |-> Enc(ty, Join(ty, a, b))])>>)
    ELSE PrintT(<<"CASE", ToJson([ty |-> "ops", path |-> hist, m |-> Enc("lwwmap", m),
                                   obs |-> [i \in 1..Cardinality(Keys) |-> <<Asc(Keys)[i], ObserveSpec(ops, Asc(Keys)[i])>>]])>>)
EmitInv == Emit
=============================================================================
