------------------------------ MODULE TraceWire ------------------------------
(* Validates executions recorded from the real Deserializer<MAX_INBOX_SIZE, Frame> against    *)
(* Wire.tla. The harness (c14_frames --mode record) drives the real code with random streams   *)
(* beyond the bounded model (up to 6 frames, real random messages, payloads up to 64 KiB and   *)
(* declared lengths up to 2^30-1, random chunking) and logs one event per call:                *)
(*   {"ev":"reset","frames":[descriptor...]}      a new connection and the stream it will get  *)
(*   {"ev":"input","n":k,"ok":bool,"alloc":a}     inbox.input(k bytes)                         *)
(*   {"ev":"next","res":"frame"|"none"|"error","buflen":b,"alloc":a,"eq":bool}                 *)
(*                                                inbox.deserialize_next()                     *)
(* Every event must be a step of Wire!Next (the same actions, no copy) whose successor state   *)
(* agrees with the logged observables; every invariant of Wire is evaluated in every state.    *)
EXTENDS Wire, Json, IOUtils, SequencesExt

Rec == ndJsonDeserialize(IOEnv.TRACE)

VARIABLE l
tvars == <<stream, fed, consumed, out, status, pc, peakAlloc, lastErr, l>>

TInit == /\ l = 1 /\ stream = <<>> /\ fed = 0 /\ consumed = 0 /\ out = <<>>
         /\ status = "open" /\ pc = "idle" /\ peakAlloc = 0 /\ lastErr = ""

Reset(r) == /\ WellFormed(r.frames)
            /\ stream' = r.frames /\ fed' = 0 /\ consumed' = 0 /\ out' = <<>>
            /\ status' = "open" /\ pc' = "idle" /\ peakAlloc' = 0 /\ lastErr' = ""

\* The observed allocation of the real call obeys the bound the model's ghost obeys.
AllocOK(r) == r.alloc <= K + Growth * fed'

TInput(r) == /\ r.n \in 1..(Total(stream) - fed)
             /\ Input(r.n)
             /\ r.ok = (status' # "overflow")
             /\ AllocOK(r)

TNextCall(r) ==
    /\ \/ r.res = "frame" /\ DeserializeFrame /\ r.eq     \* delivered frame = the frame encoded
       \/ r.res = "none"  /\ DeserializeIncomplete
       \/ r.res = "error" /\ DeserializeError
    /\ r.buflen = fed' - consumed'
    /\ AllocOK(r)

TNext == /\ l <= Len(Rec)
         /\ l' = l + 1
         /\ LET r == Rec[l] IN
            CASE r.ev = "reset" -> Reset(r)
              [] r.ev = "input" -> TInput(r)
              [] r.ev = "next"  -> TNextCall(r)
              [] OTHER -> FALSE        \* e.g. a logged panic: not a behaviour of the specification

TSpec == TInit /\ [][TNext]_tvars

Accepted ==
    IF TLCGet("stats").diameter - 1 = Len(Rec)
    THEN PrintT("TRACE-ACCEPTED")
    ELSE PrintT("TRACE-REJECTED at=" \o ToString(TLCGet("stats").diameter))
=============================================================================
