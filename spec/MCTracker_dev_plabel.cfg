CONSTANTS
  Actor <- A4
  Doc = {1, 2}
  Delegates <- Dlg2
  Threshold <- Thr2
  LabelSets <- LS2
  AssignSets <- AS2
  Titles = {0, 1}
  Bodies = {0}
  VerdictVals = {0, 1}
  SummaryVals = {0}
  Commit <- C2
  Anc <- Anc2
  Kinds <- MetaKinds
  FanKinds <- MetaKinds
  Creators <- A4
  MaxC = 2
  MaxE = 1
  MaxR = 2
  MaxRC = 0
  MaxV = 0
  MaxVC = 0
  Reactors = {}
  HeadInits <- H0
  Pushers = {}
  Variant = "labelAnyone"
  Emit = FALSE
INIT Init
NEXT Next
VIEW View
PROPERTIES C07_Patch
