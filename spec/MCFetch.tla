------------------------------ MODULE MCFetch ------------------------------
(* Bounded instances of Fetch.tla: scenario families (the "Tamper" choice of Init made finite). *)
(* Every terminal state prints one CASE line: the scenario and the model's expected outcome,    *)
(* which the harness (harness/src/bin/c01_fetch.rs) materialises and runs against the real      *)
(* radicle_fetch::clone / pull.                                                                *)
EXTENDS Fetch, Json

CONSTANTS Family,     \* which scenario families the initial states are drawn from (set of names)
          Junks,      \* tampering of plain references to combine with (subset of none/extra/moved/missing)
          DelCount,   \* C02 product: numbers of delegates to enumerate (subset of 1..N)
          LocalChoices \* C02 product: who the local node is (subset of 0..N; 0 = no namespace here)

SigCs == [ver : Vers, fl : Flavours]
Rids  == {"none", "i1", "i2", "i2f"}

Honest(ver) == [sig |-> [ver |-> ver, fl |-> "ok"], rid |-> Base(ver)["id"], junk |-> "none"]
Absent == [sig |-> NoSig, rid |-> "none", junk |-> "none"]
V(ver) == [ver |-> ver, fl |-> "ok"]

Sc(m, dels, t, lo, bl, fa, fo, ura, ra) ==
    [mode |-> m, delegates |-> dels, threshold |-> t, local |-> lo, blocked |-> bl,
     followAll |-> fa, followed |-> fo, useRefsAt |-> ura, refsAt |-> ra]

Use(x) == sc = x.sc /\ srv = x.srv /\ loc0 = x.loc

-----------------------------------------------------------------------------
\* Family "focus" (C01): delegates {1,2}; one focus namespace -- 2 (a delegate) or 3 (not a
\* delegate) -- gets every sigrefs commit x advertised rad/id x plain-ref tampering x local
\* state, under clone and pull; the other namespaces are honest (1 offers v2, the other v1).
FocusSrv == {[sig |-> s, rid |-> r, junk |-> j] : s \in SigCs, r \in Rids, j \in Junks}
            \cup {[sig |-> NoSig, rid |-> r, junk |-> "none"] : r \in Rids}
FocusLoc == {NoSig, V("v1"), V("v2"), V("v2f")}

FocusOne(m, t, f, fs, fl) ==
    [sc  |-> Sc(m, {1, 2}, t, 0, {}, TRUE, {}, FALSE, {}),
     srv |-> [ns \in NS |-> IF ns = f THEN fs ELSE IF ns = 1 THEN Honest("v2") ELSE Honest("v1")],
     loc |-> [ns \in NS |-> LocOf(IF m = "clone" THEN NoSig ELSE IF ns = f THEN fl ELSE V("v1"))]]
FocusInit ==
    \E m \in {"clone", "pull"}, t \in {1, 2}, f \in {2, 3}, fs \in FocusSrv, fl \in FocusLoc :
        (m = "clone" => fl = NoSig) /\ Use(FocusOne(m, t, f, fs, fl))

\* Family "refsat" (C01): pull with announced refs_at for the focus namespace (and optionally
\* for namespace 1): announced commit x what the peer advertises by now x local state x the
\* focus being blocked / being our own namespace.
RefsAtSrv == {[sig |-> s, rid |-> Base(s.ver)["id"], junk |-> "none"] :
                 s \in {V("v1"), V("v2"), V("v2f"), [ver |-> "v2", fl |-> "forged"], [ver |-> "v2", fl |-> "noRoot"]}}
             \cup {Absent}
RefsAtOne(f, av, fs, fl, bl, lo, both) ==
    [sc  |-> Sc("pull", {1, 2}, 1, lo, bl, TRUE, {}, TRUE,
                {[ns |-> f, ver |-> av]} \cup (IF both THEN {[ns |-> 1, ver |-> "v2"]} ELSE {})),
     srv |-> [ns \in NS |-> IF ns = f THEN fs ELSE IF ns = 1 THEN Honest("v2") ELSE Honest("v1")],
     loc |-> [ns \in NS |-> LocOf(IF ns = f THEN fl ELSE V("v1"))]]
RefsAtInit ==
    \E f \in {2, 3}, av \in Vers, fs \in RefsAtSrv, fl \in FocusLoc, bl \in {{}, {2}, {3}},
       lo \in {0, 2, 3}, both \in BOOLEAN :
        Use(RefsAtOne(f, av, fs, fl, bl, lo, both))

\* Family "pair" (C01): both namespace 2 (delegate) and 3 (not a delegate) tampered with at once,
\* from a reduced set of offers, pull only.
PairSrv == {[sig |-> [ver |-> "v2", fl |-> f], rid |-> "i2", junk |-> "none"] : f \in Flavours \ {"noId"}}
           \cup {Honest("v1"), Honest("v2f"), Absent,
                 [sig |-> [ver |-> "v2", fl |-> "noId"], rid |-> "none", junk |-> "none"],
                 [sig |-> [ver |-> "v2", fl |-> "noId"], rid |-> "i2", junk |-> "none"],
                 [sig |-> [ver |-> "v2", fl |-> "ok"], rid |-> "i2f", junk |-> "moved"],
                 [sig |-> NoSig, rid |-> "i1", junk |-> "none"]}
PairOne(t, s2, s3, l2, l3) ==
    [sc  |-> Sc("pull", {1, 2}, t, 0, {}, TRUE, {}, FALSE, {}),
     srv |-> [ns \in NS |-> IF ns = 2 THEN s2 ELSE IF ns = 3 THEN s3 ELSE Honest("v2")],
     loc |-> [ns \in NS |-> LocOf(IF ns = 2 THEN l2 ELSE IF ns = 3 THEN l3 ELSE V("v1"))]]
PairInit ==
    \E t \in {1, 2}, s2 \in PairSrv, s3 \in PairSrv, l2 \in {NoSig, V("v1"), V("v2")}, l3 \in {NoSig, V("v1"), V("v2")} :
        Use(PairOne(t, s2, s3, l2, l3))

\* Family "scope" (C01): followed scope, block list, own namespace -- who is asked for at all.
ScopeOne(m, fo, bl, lo, s3, l3) ==
    [sc  |-> Sc(m, {1}, 1, lo, bl, FALSE, fo, FALSE, {}),
     srv |-> [ns \in NS |-> IF ns = 3 THEN s3 ELSE Honest("v2")],
     loc |-> [ns \in NS |-> LocOf(IF m = "clone" THEN NoSig ELSE IF ns = 3 THEN l3 ELSE V("v1"))]]
ScopeInit ==
    \E m \in {"clone", "pull"}, fo \in SUBSET {2, 3}, bl \in SUBSET {1, 2, 3}, lo \in {0, 1, 2},
       s3 \in {Honest("v2"), Absent, [sig |-> [ver |-> "v2", fl |-> "forged"], rid |-> "i2", junk |-> "none"]},
       l3 \in {NoSig, V("v1")} :
        (m = "clone" => l3 = NoSig) /\ Use(ScopeOne(m, fo, bl, lo, s3, l3))

\* Family "delegates" (C02): delegates 1..k, every threshold, the local node a delegate / a
\* non-delegate namespace / not present, every combination of per-delegate offered states:
\*   absent   nothing stored, nothing offered        missing  stored v1, not offered
\*   new      nothing stored, v1 offered             behind   stored v2, v1 offered
\*   equal    stored v1, v1 offered                  ahead    stored v1, v2 offered
\*   diverged stored v2, v2f offered                 badsig   stored v1, forged v2 offered
\*   badref   stored v1, v2 offered whose rad/id is advertised but not signed
\*   idfork   stored v2, v2 offered, but the advertised rad/id diverges from the stored one
\*            (Policy::Abort inside the application stage)
DelStates == {"absent", "missing", "new", "behind", "equal", "ahead", "diverged", "badsig", "badref", "idfork"}
DelSrv(st) ==
    CASE st \in {"absent", "missing"} -> Absent
      [] st \in {"new", "behind", "equal"} -> Honest("v1")
      [] st = "ahead"    -> Honest("v2")
      [] st = "diverged" -> Honest("v2f")
      [] st = "badsig"   -> [sig |-> [ver |-> "v2", fl |-> "forged"], rid |-> "i2", junk |-> "none"]
      [] st = "badref"   -> [sig |-> [ver |-> "v2", fl |-> "noId"], rid |-> "i2", junk |-> "none"]
      [] st = "idfork"   -> [sig |-> [ver |-> "v2", fl |-> "ok"], rid |-> "i2f", junk |-> "none"]
DelLoc(st) ==
    CASE st \in {"absent", "new"} -> NoSig
      [] st \in {"behind", "diverged", "idfork"} -> V("v2")
      [] OTHER -> V("v1")
DelOne(m, k, t, lo, sts) ==
    [sc  |-> Sc(m, 1..k, t, lo, {}, TRUE, {}, FALSE, {}),
     srv |-> [ns \in NS |-> IF ns <= k THEN DelSrv(sts[ns]) ELSE Honest("v1")],
     loc |-> [ns \in NS |-> LocOf(IF m = "clone" THEN NoSig ELSE IF ns <= k THEN DelLoc(sts[ns]) ELSE NoSig)]]
\* (for a clone nothing is stored: states with the same offer collapse into one scenario)
DelInit ==
    \E k \in DelCount : \E m \in {"clone", "pull"}, t \in 1..k, lo \in LocalChoices, sts \in [1..k -> DelStates] :
        Use(DelOne(m, k, t, lo, sts))

\* Family "blockdel" (C02): a blocked delegate does not count, and is not written.
BlockDelOne(t, bl, sts) ==
    [sc  |-> Sc("pull", {1, 2}, t, 0, bl, TRUE, {}, FALSE, {}),
     srv |-> [ns \in NS |-> IF ns <= 2 THEN DelSrv(sts[ns]) ELSE Honest("v1")],
     loc |-> [ns \in NS |-> LocOf(IF ns <= 2 THEN DelLoc(sts[ns]) ELSE NoSig)]]
BlockDelInit ==
    \E t \in {1, 2}, bl \in {{1}, {2}, {3}}, sts \in [1..2 -> DelStates] : Use(BlockDelOne(t, bl, sts))

MCInit ==
    /\ \/ ("focus" \in Family /\ FocusInit)
       \/ ("refsat" \in Family /\ RefsAtInit)
       \/ ("scope" \in Family /\ ScopeInit)
       \/ ("pair" \in Family /\ PairInit)
       \/ ("delegates" \in Family /\ DelInit)
       \/ ("blockdel" \in Family /\ BlockDelInit)
    /\ Start

\* Every scenario of the families is a legal initial state of the unbounded module.
InitIsLegal == (pc = "canonical") => ScenarioOK

\* One CASE per terminal state.
CaseRec ==
    [mode |-> sc.mode, delegates |-> sc.delegates, threshold |-> sc.threshold, local |-> sc.local,
     blocked |-> sc.blocked, followAll |-> sc.followAll, followed |-> sc.followed,
     useRefsAt |-> sc.useRefsAt, refsAt |-> sc.refsAt, canon |-> TRUE,
     fewOffered |-> (~sc.useRefsAt /\ Cardinality({d \in Dels : OfferedValid(d)}) < Thr),
     srv |-> [ns \in NS |-> srv[ns]],
     loc |-> [ns \in NS |-> loc0[ns].sig],
     exp |-> [result |-> result, err |-> err, loc |-> [ns \in NS |-> loc[ns]],
              validDel |-> validDel, failedDel |-> failedDel, events |-> events]]
EmitInv == Done => PrintT(<<"CASE", ToJson(CaseRec)>>)
\* for the large instance: only a slice is printed (the harness samples from it anyway)
EmitSome == (Done /\ sc.mode = "pull" /\ sc.threshold \in {2, 3}) => PrintT(<<"CASE", ToJson(CaseRec)>>)
=============================================================================
