----------------------------- MODULE TraceGossip -----------------------------
(***************************************************************************)
(* Observer for executions recorded from the real `Service` (gossip half). *)
(* Each recorded step carries what the node did (announcements written per *)
(* peer, the gossip table, the address book, sessions) and this module     *)
(* rebuilds from those observations the ghost state the properties talk    *)
(* about -- who delivered which announcement to us, which announcements    *)
(* were ever legitimately stored, the last timestamp the node put on one   *)
(* of its own announcements -- and evaluates, at EVERY step of EVERY run,  *)
(* the clauses of                                                          *)
(*   C10 gossip is authenticated, fresh and never echoed back              *)
(*   C11 private repositories never leak through gossip                    *)
(*   C13 no remote input crashes the node (service part)                   *)
(*   C29 own announcement timestamps strictly increase                     *)
(* The clause predicates are the ones of Gossip.tla (the design model that *)
(* TLC explores exhaustively); here they are applied to the observed state.*)
(* A violated clause is reported (printed as a CASE line) with the step    *)
(* index and a classification used to tell known findings apart; checking  *)
(* continues so that the rest of the trace is still examined.              *)
(***************************************************************************)
EXTENDS Integers, Sequences, FiniteSets, TLC, Json, IOUtils, SequencesExt, FiniteSetsExt

Rec == ndJsonDeserialize(IOEnv.TRACE)

Self == 0
H == 3600000           \* MAX_TIME_DELTA in ms

VARIABLES
    l,          \* next record
    ann,        \* aid -> [node, kind, repo, ts, sig, repos]
    clock,      \* node clock (ms since start) after the last step
    table,      \* set of aids in the gossip table
    known,      \* nodes in the address book
    conn,       \* connected peers
    vis,        \* repo -> [private, allow, delegates, stored]
    visStart,   \* vis as it was when the node was last (re)initialised
    delivered,  \* aid -> set of peers whose delivery of it the node processed
    first,      \* aid -> the peer whose delivery was stored (0 = none)
    accepted,   \* aids that were ever stored in the table
    ownSeen,    \* own inventory / refs announcements seen so far
    ownMax,     \* greatest timestamp among them
    routing,    \* the routing table as observed: set of <<repo, node>>
    nviol       \* number of violations so far (keeps states distinct)

vars == <<l, ann, clock, table, known, conn, vis, visStart, delivered, first, accepted, ownSeen, ownMax, routing, nviol>>

-----------------------------------------------------------------------------
Key(a) == <<ann[a].node, ann[a].kind, ann[a].repo>>
Private(r) == r \in DOMAIN vis /\ vis[r].private
VisibleTo(v, r, q) == r \in DOMAIN v /\ (~v[r].private \/ q \in v[r].allow \/ q \in v[r].delegates)

VisOf(o) == [r \in {x[1] : x \in ToSet(o.vis)} |->
                LET x == CHOOSE y \in ToSet(o.vis) : y[1] = r IN
                [private |-> x[2], allow |-> ToSet(x[3]), delegates |-> ToSet(x[4]), stored |-> x[5]]]

Get(f, k, d) == IF k \in DOMAIN f THEN f[k] ELSE d

\* A delivery counts as "delivered it to us" when the node processed it: the announcement passed
\* the gates that precede storage (signature, horizon, known announcer).  Deliveries the node
\* discarded there leave no trace by design and cannot be remembered.
Processed(p, a) ==
    /\ p \in conn
    /\ ann[a].sig /\ ann[a].node # Self /\ ann[a].ts # -1000000000 /\ ann[a].ts <= clock + H
    /\ (ann[a].kind \in {"inv", "refs"} => ann[a].node \in known)

\* The violations of one recorded step `o` against the state before it.
StepViolations(o) ==
    LET op       == o.op
        name     == op[1]
        newTable == ToSet(o.table)
        added    == newTable \ table
        sends    == ToSet(o.sends)
        inAid    == o["in"]
        deliv2   == IF name = "ann" /\ inAid # 0 /\ Processed(o.op[2], inAid)
                    THEN [a \in DOMAIN delivered \cup {inAid} |->
                            IF a = inAid THEN Get(delivered, a, {}) \cup {op[2]} ELSE delivered[a]]
                    ELSE delivered
        v2       == VisOf(o)
        \* C10: what may be stored
        StoreOk(a) ==
            \/ ann[a].node = Self
            \/ /\ name = "ann" /\ a = inAid
               /\ ann[a].sig
               /\ ann[a].ts <= clock + H
               /\ \A b \in table : Key(b) = Key(a) => ann[b].ts < ann[a].ts
               /\ (ann[a].kind \in {"inv", "refs"} => ann[a].node \in known)
        storeViol == {[c |-> "C10_Store", aid |-> a, to |-> 0,
                       why |-> IF ~ann[a].sig THEN "bad-signature"
                               ELSE IF ann[a].ts > clock + H THEN "future"
                               ELSE IF \E b \in table : Key(b) = Key(a) /\ ann[b].ts >= ann[a].ts THEN "not-newer"
                               ELSE IF ann[a].kind \in {"inv", "refs"} /\ ann[a].node \notin known THEN "unknown-announcer"
                               ELSE "not-received-now"] : a \in {x \in added : ~StoreOk(x)}}
        acc2 == accepted \cup newTable
        \* C10: relays
        relayed == {s \in sends : ann[s[2]].node # Self}
        relayViol ==
            {[c |-> "C10_RelayUnaccepted", aid |-> s[2], to |-> s[1], why |-> name] :
                s \in {x \in relayed : x[2] \notin acc2 \/ ~ann[x[2]].sig}}
            \cup
            {[c |-> "C10_EchoToAnnouncer", aid |-> s[2], to |-> s[1], why |-> name] :
                s \in {x \in relayed : x[1] = ann[x[2]].node}}
            \cup
            {[c |-> "C10_EchoToDeliverer", aid |-> s[2], to |-> s[1],
              why |-> (IF Get(first, s[2], 0) = s[1] THEN "first-deliverer" ELSE "later-deliverer")
                      \o "/" \o ann[s[2]].kind \o "/" \o name] :
                s \in {x \in relayed : name # "sub" /\ x[1] \in Get(deliv2, x[2], {})}}
        \* C11
        refsViol ==
            {[c |-> "C11_RefsLeak", aid |-> s[2], to |-> s[1],
              why |-> (IF ann[s[2]].node = Self THEN "own" ELSE "relayed") \o "/" \o name
                      \o "/" \o (IF v2[ann[s[2]].repo].stored THEN "stored" ELSE "not-stored")] :
                s \in {x \in sends : /\ ann[x[2]].kind = "refs"
                                     /\ ann[x[2]].repo \in DOMAIN v2
                                     /\ ~VisibleTo(v2, ann[x[2]].repo, x[1])}}
        \* an own inventory announcement is judged when it is created (first seen): the node
        \* recomputes its inventory from storage at initialize() / on inventory changes
        invViol ==
            {[c |-> "C11_InventoryLeak", aid |-> a, to |-> 0,
              why |-> IF name \in {"init", "restart"}
                         \/ \E r \in ToSet(ann[a].repos) : r \in DOMAIN v2 /\ v2[r].private /\ r \in DOMAIN visStart /\ visStart[r].private
                      THEN "private-at-start" ELSE "made-private-while-running"] :
                a \in {x \in added \cup {s[2] : s \in sends} :
                            /\ ann[x].kind = "inv" /\ ann[x].node = Self /\ x \notin ownSeen
                            /\ \E r \in ToSet(ann[x].repos) : r \in DOMAIN v2 /\ v2[r].private}}
        \* C29
        newOwn == {a \in added \cup {s[2] : s \in sends} :
                        ann[a].node = Self /\ ann[a].kind \in {"inv", "refs"} /\ a \notin ownSeen}
        tsViol == {[c |-> "C29_NotIncreasing", aid |-> a, to |-> 0, why |-> name] :
                        a \in {x \in newOwn : \/ ann[x].ts <= ownMax
                                              \/ \E y \in newOwn : y # x /\ ann[y].ts = ann[x].ts}}
        \* Beyond the listed properties (informational clauses, prefix X_): the routing table.
        \* After an accepted inventory announcement the announcer's entries are exactly that
        \* inventory (sync_routing); a foreign entry only appears through the announcement being
        \* processed in this step (inventory listing it, or non-empty refs for it).
        newRouting == {<<x[1], x[2]>> : x \in ToSet(o.routing)}
        accIn == name = "ann" /\ inAid # 0 /\ inAid \in added
        routeViol ==
            (IF accIn /\ ann[inAid].kind = "inv" /\ {e[1] : e \in {x \in newRouting : x[2] = ann[inAid].node}} # ToSet(ann[inAid].repos)
             THEN {[c |-> "X_RoutingSync", aid |-> inAid, to |-> 0, why |-> "inventory-not-mirrored"]} ELSE {})
            \cup
            {[c |-> "X_RoutingUnjustified", aid |-> inAid, to |-> e[2], why |-> name] :
                e \in {x \in newRouting \ routing :
                          /\ x[2] # Self
                          /\ ~(accIn /\ ann[inAid].node = x[2] /\
                                ((ann[inAid].kind = "inv" /\ x[1] \in ToSet(ann[inAid].repos))
                                 \/ (ann[inAid].kind = "refs" /\ ann[inAid].repo = x[1] /\ ann[inAid].nrefs > 0)))}}
        panicViol == IF o.panic # "" THEN {[c |-> "C13_Panic", aid |-> inAid, to |-> 0, why |-> name \o ": " \o o.panic]} ELSE {}
    IN storeViol \cup relayViol \cup refsViol \cup invViol \cup tsViol \cup routeViol \cup panicViol

-----------------------------------------------------------------------------
Init ==
    /\ l = 1 /\ ann = <<>> /\ clock = 0 /\ table = {} /\ known = {} /\ conn = {} /\ vis = <<>> /\ visStart = <<>>
    /\ delivered = <<>> /\ first = <<>> /\ accepted = {} /\ ownSeen = {} /\ ownMax = -2000000000 /\ routing = {} /\ nviol = 0

Reset ==
    /\ Rec[l].ev = "init"
    /\ ann' = <<>> /\ clock' = 0 /\ table' = {} /\ known' = {} /\ conn' = {} /\ vis' = <<>> /\ visStart' = <<>>
    /\ delivered' = <<>> /\ first' = <<>> /\ accepted' = {} /\ ownSeen' = {} /\ ownMax' = -2000000000 /\ routing' = {}
    /\ UNCHANGED nviol

Def ==
    /\ Rec[l].ev = "def"
    /\ ann' = (Rec[l].aid :> [node |-> Rec[l].node, kind |-> Rec[l].kind, repo |-> Rec[l].repo,
                               ts |-> Rec[l].ts, sig |-> Rec[l].sig, repos |-> Rec[l].repos,
                               nrefs |-> Rec[l].nrefs]) @@ ann
    /\ UNCHANGED <<clock, table, known, conn, vis, visStart, delivered, first, accepted, ownSeen, ownMax, routing, nviol>>

Step ==
    /\ Rec[l].ev = "step"
    /\ LET o == Rec[l]
           V == StepViolations(o)
           newTable == ToSet(o.table)
           added == newTable \ table
           inAid == o["in"]
           newOwn == {a \in added \cup {s[2] : s \in ToSet(o.sends)} :
                        ann[a].node = Self /\ ann[a].kind \in {"inv", "refs"} /\ a \notin ownSeen}
       IN /\ (V # {} => PrintT(<<"CASE", ToJson([at |-> l, op |-> o.op, viol |-> V])>>))
          /\ nviol' = nviol + Cardinality(V)
          /\ clock' = o.clock
          /\ table' = newTable
          /\ known' = ToSet(o.known)
          /\ conn' = ToSet(o.conn)
          /\ vis' = VisOf(o)
          /\ visStart' = IF o.op[1] \in {"init", "restart"} THEN VisOf(o) ELSE visStart
          /\ accepted' = accepted \cup newTable
          /\ delivered' = IF o.op[1] = "ann" /\ inAid # 0 /\ Processed(o.op[2], inAid)
                          THEN (inAid :> (Get(delivered, inAid, {}) \cup {o.op[2]})) @@ delivered
                          ELSE delivered
          /\ first' = IF o.op[1] = "ann" /\ inAid # 0 /\ inAid \in added
                      THEN (inAid :> o.op[2]) @@ first
                      ELSE first
          /\ ownSeen' = ownSeen \cup newOwn
          /\ ownMax' = Max({ownMax} \cup {ann[a].ts : a \in newOwn})
          /\ routing' = {<<x[1], x[2]>> : x \in ToSet(o.routing)}
    /\ UNCHANGED ann

Next == /\ l <= Len(Rec)
        /\ l' = l + 1
        /\ (Reset \/ Def \/ Step)

Spec == Init /\ [][Next]_vars

Accepted ==
    IF TLCGet("stats").diameter - 1 = Len(Rec)
    THEN PrintT("TRACE-ACCEPTED")
    ELSE PrintT("TRACE-REJECTED at=" \o ToString(TLCGet("stats").diameter))
=============================================================================
