\* C05 quick: every change graph on the root + 3 changes (all dependency relations, redundant edges
\* included), timestamps in 1..2, every change valid (delegate or guest author).
CONSTANTS
  Atomic = TRUE
  SingleInPlace = FALSE
  DropDetached = TRUE
  Namespace = {1}
  M = 3
  MaxTs = 2
  Classes = {"ok", "guest"}
  MaxBad = 3
  FullCauses = 1
  AllowDetached = FALSE
  Emit = TRUE
  EmitMod = 1
INIT InitGraphs
NEXT NextGraphs
INVARIANTS TheoremsHold EmitInv
