CONSTANTS
  Node = {0, 1, 2}
  Local = 0
  FetcherOriginal = FALSE
  AnnouncerOriginal = FALSE
  AnCfgDomain = {}
  Mode = "fetcher"
  MaxR = 2
  MaxExtra = 1
  MaxReady = 1
  MaxResults = 9
  DegenerateRanges = FALSE
  EmitCases = TRUE
INIT Init
NEXT Next
VIEW View
INVARIANTS FeSuccessIffTarget FeHandsOutSound FeCountsSound EmitInv
