------------------------------- MODULE Stores -------------------------------
(***************************************************************************)
(* The node's persistent stores as in-memory tables.                       *)
(*                                                                         *)
(*   nodes      address book (only: which nodes are known; the routing and *)
(*              sync tables reference it: FOREIGN KEY .. ON DELETE CASCADE)*)
(*   routing    radicle::node::routing       (repo, node) -> timestamp     *)
(*   sync       radicle::node::seed::store   (repo, node) -> head, time    *)
(*   refs       radicle::node::refs::store   (repo, namespace, ref) -> oid, time *)
(*   seeding    radicle::node::policy::store repo -> scope, policy         *)
(*   following  radicle::node::policy::store node -> alias, policy         *)
(*   ann        radicle-node service::gossip::store                        *)
(*              (node, repo-or-none, kind) -> rowid, message, time, relay  *)
(*                                                                         *)
(* Every public method of a store is an operator  M(s, args)  from a state *)
(* record to the SET of possible outcomes [ret, s] (one element unless SQL *)
(* leaves the result open: `prune` with LIMIT and equal timestamps), and a *)
(* named action.  The SQL is transcribed: the conditional upserts          *)
(* (`ON CONFLICT DO UPDATE .. WHERE timestamp < ?`), what `changes()`      *)
(* reports, rowid allocation, RETURNING, transactions that roll back.      *)
(*                                                                         *)
(* Property C24 is stated as action properties over one step (st, st').    *)
(***************************************************************************)
EXTENDS Integers, Sequences, FiniteSets, SequencesExt, TLC

CONSTANTS Repos, Nodes, TS,    \* argument universes of the bounded instance (integers)
          Which,               \* stores explored: subset of {"routing","sync","refs","seeding","following","gossip"}
          MaxDepth,            \* operations per behaviour: a function store -> bound
          Variant              \* "fixed" = the code after the repair of seed/follow; "SeedKeepsBlock" = before;
                               \* "SyncIgnoresHead", "PruneForgetsLocal", "AnnNewerOrEqual": deliberately wrong

\* --------------------------------------------------------------------------
\* Finite maps

Put(f, k, x) == [y \in DOMAIN f \cup {k} |-> IF y = k THEN x ELSE f[y]]
Drop(f, K)   == [y \in DOMAIN f \ K |-> f[y]]
EmptyMap     == [y \in {} |-> 0]
MaxOf(S)     == CHOOSE x \in S : \A y \in S : y <= x

Empty == [nodes |-> {}, routing |-> EmptyMap, sync |-> EmptyMap, refs |-> EmptyMap,
          seeding |-> EmptyMap, following |-> EmptyMap, ann |-> EmptyMap]
Out(r, s) == {[ret |-> r, s |-> s]}

\* --------------------------------------------------------------------------
\* Address book (radicle::node::address::Store), as far as the other tables depend on it

\* insert: first announcement of a node (a fixed timestamp: later inserts are not newer)
NodeInsert(s, n) == Out(n \notin s.nodes, [s EXCEPT !.nodes = @ \cup {n}])
\* remove: DELETE FROM nodes; routing and repo-sync-status rows of the node go with it
NodeRemove(s, n) ==
    Out(n \in s.nodes, [s EXCEPT !.nodes = @ \ {n},
                                 !.routing = Drop(@, {k \in DOMAIN s.routing : k[2] = n}),
                                 !.sync = Drop(@, {k \in DOMAIN s.sync : k[2] = n})])

\* --------------------------------------------------------------------------
\* Routing table

\* add_inventory(ids, node, time): one transaction; per id
\*   INSERT .. ON CONFLICT DO UPDATE SET timestamp = ?3 WHERE timestamp < ?3
\* and the result is read off (changes() > 0, row existed before).
RECURSIVE AddIds(_, _, _, _, _)
AddIds(r, ids, n, t, acc) ==
    IF ids = <<>> THEN [ret |-> acc, r |-> r]
    ELSE LET k == <<Head(ids), n>>
             existed == k \in DOMAIN r
             changed == ~existed \/ r[k] < t
             res == IF ~changed THEN "NotUpdated" ELSE IF existed THEN "TimeUpdated" ELSE "SeedAdded"
         IN AddIds(IF changed THEN Put(r, k, t) ELSE r, Tail(ids), n, t, Append(acc, <<Head(ids), res>>))
AddInventory(s, ids, n, t) ==
    IF ids # <<>> /\ n \notin s.nodes THEN Out("err", s)         \* foreign key: nothing is written
    ELSE LET a == AddIds(s.routing, ids, n, t, <<>>) IN Out(a.ret, [s EXCEPT !.routing = a.r])

RemoveInventory(s, id, n) == Out(<<id, n>> \in DOMAIN s.routing, [s EXCEPT !.routing = Drop(@, {<<id, n>>})])
RemoveInventories(s, ids, n) ==
    Out("ok", [s EXCEPT !.routing = Drop(@, {<<ids[i], n>> : i \in DOMAIN ids})])

\* prune(oldest, limit, ignore):
\*   DELETE FROM routing WHERE node <> ?ignore AND rowid IN
\*     (SELECT rowid FROM routing WHERE timestamp < ?oldest ORDER BY timestamp LIMIT ?limit)
\* The code applies the LIMIT to the old rows *including* the ignored node's (so fewer than
\* `limit` rows may go although more are eligible); among rows with equal timestamps the choice is
\* SQLite's.  The statement does not fix that order, so the module also admits the other reading
\* (LIMIT applied to the eligible rows only).  limit = -1: none.
OldestFirst(r, cand, limit) ==
    IF limit < 0 \/ limit >= Cardinality(cand) THEN {cand}
    ELSE {S \in SUBSET cand : /\ Cardinality(S) = limit
                              /\ \A a \in S, b \in cand \ S : r[a] <= r[b]}
PruneDeletions(r, oldest, limit, ignore) ==
    LET old == {k \in DOMAIN r : r[k] < oldest}
        mine(S) == {k \in S : k[2] # ignore \/ Variant = "PruneForgetsLocal"}
    IN {mine(S) : S \in OldestFirst(r, old, limit)}             \* LIMIT, then the ignore filter (the code)
       \cup OldestFirst(r, mine(old), limit)                     \* ignore filter, then LIMIT
Prune(s, oldest, limit, ignore) ==
    {[ret |-> Cardinality(D), s |-> [s EXCEPT !.routing = Drop(@, D)]] : D \in PruneDeletions(s.routing, oldest, limit, ignore)}

\* --------------------------------------------------------------------------
\* Repository sync status: synced(rid, nid, head, time)
\*   INSERT .. ON CONFLICT DO UPDATE SET head = ?3, timestamp = ?4 WHERE timestamp < ?4 AND head <> ?3
Synced(s, rid, nid, head, t) ==
    LET k == <<rid, nid>> IN
    IF nid \notin s.nodes THEN Out("err", s)
    ELSE IF k \notin DOMAIN s.sync THEN Out(TRUE, [s EXCEPT !.sync = Put(@, k, <<head, t>>)])
    ELSE IF s.sync[k][2] < t /\ (s.sync[k][1] # head \/ Variant = "SyncIgnoresHead")
         THEN Out(TRUE, [s EXCEPT !.sync = Put(@, k, <<head, t>>)])
    ELSE Out(FALSE, s)

\* --------------------------------------------------------------------------
\* Cached refs: set / delete (no foreign key)
RefsSet(s, repo, ns, ref, oid, t) ==
    LET k == <<repo, ns, ref>> IN
    IF k \notin DOMAIN s.refs THEN Out(TRUE, [s EXCEPT !.refs = Put(@, k, <<oid, t>>)])
    ELSE IF s.refs[k][2] < t /\ s.refs[k][1] # oid THEN Out(TRUE, [s EXCEPT !.refs = Put(@, k, <<oid, t>>)])
    ELSE Out(FALSE, s)
RefsDelete(s, repo, ns, ref) ==
    Out(<<repo, ns, ref>> \in DOMAIN s.refs, [s EXCEPT !.refs = Drop(@, {<<repo, ns, ref>>})])

\* --------------------------------------------------------------------------
\* Policies.  Rows are <<scope, policy>> / <<alias, policy>>; the table defaults are
\* scope 'followed', alias '', policy 'allow'.

\* seed(id, scope).  Before the repair:  .. DO UPDATE SET scope = ?2 WHERE scope != ?2  -- a
\* blocked repository stayed blocked.  After: SET scope = ?2, policy = 'allow'
\* WHERE scope != ?2 OR policy != 'allow'.
Seed(s, r, scope) ==
    IF r \notin DOMAIN s.seeding THEN Out(TRUE, [s EXCEPT !.seeding = Put(@, r, <<scope, "allow">>)])
    ELSE LET row == s.seeding[r] IN
         IF Variant = "SeedKeepsBlock"
         THEN (IF row[1] # scope THEN Out(TRUE, [s EXCEPT !.seeding = Put(@, r, <<scope, row[2]>>)]) ELSE Out(FALSE, s))
         ELSE (IF row # <<scope, "allow">> THEN Out(TRUE, [s EXCEPT !.seeding = Put(@, r, <<scope, "allow">>)]) ELSE Out(FALSE, s))
SetSeedPolicy(s, r, p) ==
    IF r \notin DOMAIN s.seeding THEN Out(TRUE, [s EXCEPT !.seeding = Put(@, r, <<"followed", p>>)])
    ELSE IF s.seeding[r][2] # p THEN Out(TRUE, [s EXCEPT !.seeding = Put(@, r, <<s.seeding[r][1], p>>)])
    ELSE Out(FALSE, s)
Unseed(s, r) == Out(r \in DOMAIN s.seeding, [s EXCEPT !.seeding = Drop(@, {r})])
UnblockRid(s, r) ==
    IF r \in DOMAIN s.seeding /\ s.seeding[r][2] = "block" THEN Out(TRUE, [s EXCEPT !.seeding = Drop(@, {r})])
    ELSE Out(FALSE, s)

Follow(s, n, alias) ==
    IF n \notin DOMAIN s.following THEN Out(TRUE, [s EXCEPT !.following = Put(@, n, <<alias, "allow">>)])
    ELSE LET row == s.following[n] IN
         IF Variant = "SeedKeepsBlock"
         THEN (IF row[1] # alias THEN Out(TRUE, [s EXCEPT !.following = Put(@, n, <<alias, row[2]>>)]) ELSE Out(FALSE, s))
         ELSE (IF row # <<alias, "allow">> THEN Out(TRUE, [s EXCEPT !.following = Put(@, n, <<alias, "allow">>)]) ELSE Out(FALSE, s))
SetFollowPolicy(s, n, p) ==
    IF n \notin DOMAIN s.following THEN Out(TRUE, [s EXCEPT !.following = Put(@, n, <<"", p>>)])
    ELSE IF s.following[n][2] # p THEN Out(TRUE, [s EXCEPT !.following = Put(@, n, <<s.following[n][1], p>>)])
    ELSE Out(FALSE, s)
Unfollow(s, n) == Out(n \in DOMAIN s.following, [s EXCEPT !.following = Drop(@, {n})])
UnblockNid(s, n) ==
    IF n \in DOMAIN s.following /\ s.following[n][2] = "block" THEN Out(TRUE, [s EXCEPT !.following = Drop(@, {n})])
    ELSE Out(FALSE, s)

\* What the read API shows of a seeding row: the scope of a blocked repository is hidden.
SeedView(row) == IF row[2] = "block" THEN <<"-", "block">> ELSE row

\* --------------------------------------------------------------------------
\* Gossip store.  Key <<node, repo, kind>> (repo = 0 for node and inventory announcements);
\* row [id (rowid), val (which message), ts, relay]; relay: -1 don't relay (column default),
\* -2 to be relayed (NULL), t >= 0 relayed at t.

\* announced:  INSERT .. ON CONFLICT DO UPDATE SET message, signature, timestamp
\*             WHERE timestamp < ?6 RETURNING rowid      (relay keeps its value on update)
Announced(s, n, repo, kind, val, t) ==
    LET k == <<n, repo, kind>> IN
    IF k \notin DOMAIN s.ann
    THEN LET ids == {s.ann[x].id : x \in DOMAIN s.ann}
             id == IF ids = {} THEN 1 ELSE MaxOf(ids) + 1
         IN Out(id, [s EXCEPT !.ann = Put(@, k, [id |-> id, val |-> val, ts |-> t, relay |-> -1])])
    ELSE IF s.ann[k].ts < t \/ (Variant = "AnnNewerOrEqual" /\ s.ann[k].ts = t)
         THEN Out(s.ann[k].id, [s EXCEPT !.ann = Put(@, k, [s.ann[k] EXCEPT !.val = val, !.ts = t])])
    ELSE Out(0, s)                                               \* None
SetRelay(s, id, status) ==
    Out("ok", [s EXCEPT !.ann = [k \in DOMAIN s.ann |-> IF s.ann[k].id = id THEN [s.ann[k] EXCEPT !.relay = status] ELSE s.ann[k]]])
\* relays(now): UPDATE .. SET relay = now WHERE relay IS NULL RETURNING ..; sorted by rowid
Relays(s, now) ==
    LET K == {k \in DOMAIN s.ann : s.ann[k].relay = -2}
        ord == SetToSortSeq(K, LAMBDA a, b : s.ann[a].id < s.ann[b].id)
    IN Out([i \in DOMAIN ord |-> <<s.ann[ord[i]].id, ord[i][1], ord[i][2], ord[i][3], s.ann[ord[i]].val, s.ann[ord[i]].ts>>],
           [s EXCEPT !.ann = [k \in DOMAIN s.ann |-> IF k \in K THEN [s.ann[k] EXCEPT !.relay = now] ELSE s.ann[k]]])
GossipPrune(s, cutoff) ==
    LET D == {k \in DOMAIN s.ann : s.ann[k].ts < cutoff} IN Out(Cardinality(D), [s EXCEPT !.ann = Drop(@, D)])

\* --------------------------------------------------------------------------
\* Operations as data: <<method, args..>>

Outcomes(s, op) ==
    CASE op[1] = "node_insert"        -> NodeInsert(s, op[2])
      [] op[1] = "node_remove"        -> NodeRemove(s, op[2])
      [] op[1] = "add_inventory"      -> AddInventory(s, op[2], op[3], op[4])
      [] op[1] = "remove_inventory"   -> RemoveInventory(s, op[2], op[3])
      [] op[1] = "remove_inventories" -> RemoveInventories(s, op[2], op[3])
      [] op[1] = "prune"              -> Prune(s, op[2], op[3], op[4])
      [] op[1] = "synced"             -> Synced(s, op[2], op[3], op[4], op[5])
      [] op[1] = "refs_set"           -> RefsSet(s, op[2], op[3], op[4], op[5], op[6])
      [] op[1] = "refs_delete"        -> RefsDelete(s, op[2], op[3], op[4])
      [] op[1] = "seed"               -> Seed(s, op[2], op[3])
      [] op[1] = "set_seed_policy"    -> SetSeedPolicy(s, op[2], op[3])
      [] op[1] = "unseed"             -> Unseed(s, op[2])
      [] op[1] = "unblock_rid"        -> UnblockRid(s, op[2])
      [] op[1] = "follow"             -> Follow(s, op[2], op[3])
      [] op[1] = "set_follow_policy"  -> SetFollowPolicy(s, op[2], op[3])
      [] op[1] = "unfollow"           -> Unfollow(s, op[2])
      [] op[1] = "unblock_nid"        -> UnblockNid(s, op[2])
      [] op[1] = "announced"          -> Announced(s, op[2], op[3], op[4], op[5], op[6])
      [] op[1] = "set_relay"          -> SetRelay(s, op[2], op[3])
      [] op[1] = "relays"             -> Relays(s, op[2])
      [] op[1] = "gossip_prune"       -> GossipPrune(s, op[2])

\* The operations of the bounded instance, per store
IdSeqs   == {<<r>> : r \in Repos} \cup {<<a, b>> : a \in Repos, b \in Repos}
Limits   == {-1, 1, 2}
Heads    == {1, 2}
Scopes   == {"followed", "all"}
Policies == {"allow", "block"}
Aliases  == {"", "a", "b"}
Kinds    == {"node", "inventory", "refs"}
NodeOps  == {<<"node_insert", n>> : n \in Nodes} \cup {<<"node_remove", n>> : n \in Nodes}
Ops(w) ==
    CASE w = "routing" ->
            NodeOps
            \cup {<<"add_inventory", ids, n, t>> : ids \in IdSeqs, n \in Nodes, t \in TS}
            \cup {<<"remove_inventory", r, n>> : r \in Repos, n \in Nodes}
            \cup {<<"remove_inventories", ids, n>> : ids \in IdSeqs \cup {<<>>}, n \in Nodes}
            \cup {<<"prune", o, lim, n>> : o \in (TS \cup {MaxOf(TS) + 1}) \ {0}, lim \in Limits, n \in Nodes}
      [] w = "sync" ->
            NodeOps \cup {<<"synced", r, n, h, t>> : r \in Repos, n \in Nodes, h \in Heads, t \in TS}
      [] w = "refs" ->
            {<<"refs_set", r, n, 1, h, t>> : r \in Repos, n \in Nodes, h \in Heads, t \in TS}
            \cup {<<"refs_delete", r, n, 1>> : r \in Repos, n \in Nodes}
      [] w = "seeding" ->
            {<<"seed", r, sc>> : r \in Repos, sc \in Scopes} \cup {<<"set_seed_policy", r, p>> : r \in Repos, p \in Policies}
            \cup {<<"unseed", r>> : r \in Repos} \cup {<<"unblock_rid", r>> : r \in Repos}
      [] w = "following" ->
            {<<"follow", n, a>> : n \in Nodes, a \in Aliases} \cup {<<"set_follow_policy", n, p>> : n \in Nodes, p \in Policies}
            \cup {<<"unfollow", n>> : n \in Nodes} \cup {<<"unblock_nid", n>> : n \in Nodes}
      [] w = "gossip" ->
            {<<"announced", n, 0, k, x, t>> : n \in Nodes, k \in {"node", "inventory"}, x \in Heads, t \in TS \ {0}}
            \cup {<<"announced", n, r, "refs", x, t>> : n \in Nodes, r \in Repos, x \in Heads, t \in TS \ {0}}
            \cup {<<"set_relay", id, st>> : id \in 1..3, st \in {-1, -2, 1}}
            \cup {<<"relays", MaxOf(TS)>>}
            \cup {<<"gossip_prune", c>> : c \in (TS \cup {MaxOf(TS) + 1}) \ {0}}

\* --------------------------------------------------------------------------
\* State machine

VARIABLES w,     \* the store this behaviour exercises
          st,    \* the tables
          hist,  \* operations so far (for the replay; hidden from the fingerprint)
          last   \* [op, ret] of the last step (for the action properties; hidden likewise)
vars == <<w, st, hist, last>>
View == <<w, st>>

Init == w \in Which /\ st = Empty /\ hist = <<>> /\ last = [op |-> <<"init">>, ret |-> 0]

Step(op) == /\ Len(hist) < MaxDepth[w]
            /\ \E o \in Outcomes(st, op) : st' = o.s /\ last' = [op |-> op, ret |-> o.ret]
            /\ hist' = Append(hist, op)
            /\ UNCHANGED w
Do(name) == \E op \in Ops(w) : op[1] = name /\ Step(op)

\* one named action per store method
ANodeInsert == Do("node_insert")              ANodeRemove == Do("node_remove")
AAddInventory == Do("add_inventory")          ARemoveInventory == Do("remove_inventory")
ARemoveInventories == Do("remove_inventories") APrune == Do("prune")
ASynced == Do("synced")
ARefsSet == Do("refs_set")                    ARefsDelete == Do("refs_delete")
ASeed == Do("seed")                           ASetSeedPolicy == Do("set_seed_policy")
AUnseed == Do("unseed")                       AUnblockRid == Do("unblock_rid")
AFollow == Do("follow")                       ASetFollowPolicy == Do("set_follow_policy")
AUnfollow == Do("unfollow")                   AUnblockNid == Do("unblock_nid")
AAnnounced == Do("announced")                 ASetRelay == Do("set_relay")
ARelays == Do("relays")                       AGossipPrune == Do("gossip_prune")

Next == \/ ANodeInsert \/ ANodeRemove \/ AAddInventory \/ ARemoveInventory \/ ARemoveInventories \/ APrune
        \/ ASynced \/ ARefsSet \/ ARefsDelete
        \/ ASeed \/ ASetSeedPolicy \/ AUnseed \/ AUnblockRid
        \/ AFollow \/ ASetFollowPolicy \/ AUnfollow \/ AUnblockNid
        \/ AAnnounced \/ ASetRelay \/ ARelays \/ AGossipPrune

Spec == Init /\ [][Next]_vars

\* --------------------------------------------------------------------------
\* Invariants (shape) and C24 (action properties over a step st -> st', last' = what was called)

ForeignKeys == /\ \A k \in DOMAIN st.routing : k[2] \in st.nodes
               /\ \A k \in DOMAIN st.sync : k[2] \in st.nodes
RowidsUnique == \A a, b \in DOMAIN st.ann : a # b => st.ann[a].id # st.ann[b].id

Both(f, g) == DOMAIN f \cap DOMAIN g
Op  == last'.op
Ret == last'.ret

\* a routing entry's timestamp only increases
RoutingTimeMonotone == [][\A k \in Both(st.routing, st'.routing) : st'.routing[k] >= st.routing[k]]_vars
\* pruning never removes the local (ignored) node's entries, and only removes old ones
PruneKeepsLocal ==
    [][Op[1] = "prune" =>
          /\ \A k \in DOMAIN st.routing : (k[2] = Op[4] \/ st.routing[k] >= Op[2]) => k \in DOMAIN st'.routing
          /\ \A k \in DOMAIN st'.routing : k \in DOMAIN st.routing /\ st'.routing[k] = st.routing[k]
          /\ Ret = Cardinality(DOMAIN st.routing \ DOMAIN st'.routing)]_vars
\* sync status and cached refs only move to a strictly newer timestamp with a different value
SyncMovesForward ==
    [][\A k \in Both(st.sync, st'.sync) :
          st'.sync[k] # st.sync[k] => st'.sync[k][2] > st.sync[k][2] /\ st'.sync[k][1] # st.sync[k][1]]_vars
RefsMoveForward ==
    [][\A k \in Both(st.refs, st'.refs) :
          st'.refs[k] # st.refs[k] => st'.refs[k][2] > st.refs[k][2] /\ st'.refs[k][1] # st.refs[k][1]]_vars
\* seeding and following policies reflect the last write
SeedingReflectsLastWrite ==
    [][/\ Op[1] = "seed" => st'.seeding[Op[2]] = <<Op[3], "allow">>
       /\ Op[1] = "set_seed_policy" => Op[2] \in DOMAIN st'.seeding /\ st'.seeding[Op[2]][2] = Op[3]
       /\ Op[1] = "unseed" => Op[2] \notin DOMAIN st'.seeding
       /\ Op[1] = "unblock_rid" => (Op[2] \in DOMAIN st'.seeding => st'.seeding[Op[2]][2] = "allow")
       /\ Op[1] \in {"seed", "set_seed_policy", "unseed", "unblock_rid"} =>
             /\ \A r \in (DOMAIN st.seeding \cup DOMAIN st'.seeding) \ {Op[2]} :
                    r \in Both(st.seeding, st'.seeding) /\ st'.seeding[r] = st.seeding[r]
             \* the reported "updated" flag is about what a reader can see
             /\ Ret = ((Op[2] \in DOMAIN st.seeding) # (Op[2] \in DOMAIN st'.seeding)
                       \/ (Op[2] \in Both(st.seeding, st'.seeding) /\ SeedView(st.seeding[Op[2]]) # SeedView(st'.seeding[Op[2]])))]_vars
FollowingReflectsLastWrite ==
    [][/\ Op[1] = "follow" => st'.following[Op[2]] = <<Op[3], "allow">>
       /\ Op[1] = "set_follow_policy" => Op[2] \in DOMAIN st'.following /\ st'.following[Op[2]][2] = Op[3]
       /\ Op[1] = "unfollow" => Op[2] \notin DOMAIN st'.following
       /\ Op[1] = "unblock_nid" => (Op[2] \in DOMAIN st'.following => st'.following[Op[2]][2] = "allow")
       /\ Op[1] \in {"follow", "set_follow_policy", "unfollow", "unblock_nid"} =>
             /\ \A n \in (DOMAIN st.following \cup DOMAIN st'.following) \ {Op[2]} :
                    n \in Both(st.following, st'.following) /\ st'.following[n] = st.following[n]
             /\ Ret = (st'.following # st.following)]_vars
\* a stored announcement is replaced only by a strictly newer one of the same kind
AnnouncementReplacedByNewer ==
    [][\A k \in Both(st.ann, st'.ann) :
          (st'.ann[k].val # st.ann[k].val \/ st'.ann[k].ts # st.ann[k].ts) =>
              /\ st'.ann[k].ts > st.ann[k].ts
              /\ Op[1] = "announced" /\ <<Op[2], Op[3], Op[4]>> = k /\ Op[6] = st'.ann[k].ts /\ Op[5] = st'.ann[k].val]_vars
=============================================================================
