\* Deliberately wrong variant (the code as found): actions applied in place, so a multi-action
\* change whose later action is refused leaves its earlier actions behind. TLC must reject it
\* (TheoremsHold is violated): shows the C06 invariants are not vacuous.
CONSTANTS
  Atomic = FALSE
  SingleInPlace = FALSE
  DropDetached = TRUE
  Namespace = {1}
  M = 2
  MaxTs = 1
  Classes = {"ok", "rejectLater"}
  MaxBad = 2
  FullCauses = 1
  AllowDetached = FALSE
  Emit = FALSE
  EmitMod = 1
INIT InitGraphs
NEXT NextGraphs
INVARIANTS TheoremsHold
