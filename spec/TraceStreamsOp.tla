--------------------------- MODULE TraceStreamsOp ---------------------------
(***************************************************************************)
(* Strict conformance of the stream multiplexing model: executions of the  *)
(* bounded model's behaviours on the real `Wire` (engine c13_wire: control  *)
(* frames fed as bytes through handle_transport_event, fetch commands,      *)
(* worker results, connection loss and re-establishment) are validated      *)
(* against the ACTIONS of Streams.tla.  After every step the wire's stream  *)
(* bookkeeping (sequence number and registered stream ids, read through the *)
(* verif_streams hook), the control frames the wire wrote to the peer       *)
(* (decoded from the bytes it asked the reactor to send) and whether it     *)
(* panicked must equal the action's result.  The model is deterministic, so *)
(* every recorded step has exactly one successor.  Dev = the code as it is  *)
(* ("late-closes-new").  A rejection is DRIFT; the gate is TraceFetchSched. *)
(***************************************************************************)
EXTENDS Streams, Json, IOUtils, SequencesExt, TLC

Rec == ndJsonDeserialize(IOEnv.TRACE)

VARIABLE l
tvars == <<vars, l>>

Matches(o) ==
    /\ (o.panic # "") = crashed'
    /\ crashed' \/
       /\ IF connected'
          THEN /\ Len(o.streams) = 1
               /\ o.streams[1][3] = seq'
               /\ ToSet(o.streams[1][4]) = {<<s[1], s[2], "git">> : s \in open'}
          ELSE o.streams = <<>>
       /\ Len(o.sent_ctrl) = Len(sent')
       /\ \A i \in 1..Len(sent') : o.sent_ctrl[i] = <<sent'[i][1], sent'[i][2], sent'[i][3], "git">>

TInit == Init /\ l = 1

Reset ==
    /\ Rec[l].ev = "init"
    /\ connected' = FALSE /\ epoch' = 0 /\ open' = {} /\ seq' = 0 /\ tasks' = <<>> /\ sent' = <<>>
    /\ crashed' = FALSE /\ stolen' = FALSE /\ hist' = <<>>

SideOf(c) == IF c = "ours" THEN "us" ELSE "them"

Step ==
    /\ Rec[l].ev = "step"
    /\ LET o == Rec[l]
           op == o.src      \* the script's operation (`wdone g`); o.op is what it resolved to
           n == op[1]
       IN /\ CASE n = "connect" -> Connect
                [] n = "disconnect" -> Disconnect
                [] n = "fetch" -> OurOpen
                [] n = "ctrl" /\ op[3] = "open" -> RemoteOpen(<<SideOf(op[4]), op[5]>>)
                [] n = "ctrl" /\ op[3] = "close" -> RemoteClose(<<SideOf(op[4]), op[5]>>)
                [] n = "ctrl" /\ op[3] = "eof" -> RemoteEof(<<SideOf(op[4]), op[5]>>)
                [] n = "wdone" -> WorkerDone(op[2])
          /\ Matches(o)

TNext == l <= Len(Rec) /\ l' = l + 1 /\ (Reset \/ Step)

Accepted ==
    IF TLCGet("stats").diameter - 1 = Len(Rec)
    THEN PrintT("TRACE-ACCEPTED")
    ELSE PrintT("TRACE-REJECTED at=" \o ToString(TLCGet("stats").diameter))
=============================================================================
