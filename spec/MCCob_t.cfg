\* C05 thorough: root + 4 changes, timestamps in 1..2, at most one guest-authored change.
CONSTANTS
  Atomic = TRUE
  SingleInPlace = FALSE
  DropDetached = TRUE
  Namespace = {1}
  M = 4
  MaxTs = 2
  Classes = {"ok", "guest"}
  MaxBad = 1
  FullCauses = 1
  AllowDetached = FALSE
  Emit = TRUE
  EmitMod = 8
INIT InitGraphs
NEXT NextGraphs
INVARIANTS TheoremsHold TheoremsHoldAllClosures EmitInv
