CONSTANTS
  Node = {0, 1, 2}
  Local = 0
  FetcherOriginal = FALSE
  AnnouncerOriginal = FALSE
  AnCfgDomain <- AnCfgs
  Mode = "announcer"
  MaxR = 2
  MaxExtra = 0
  MaxReady = 0
  MaxResults = 0
  DegenerateRanges = TRUE
  EmitCases = TRUE
INIT Init
NEXT Next
VIEW View
INVARIANTS AnSuccessIffTarget AnNewSound AnNeverLocal AnNoNodesSound EmitInv
