CONSTANTS
  N = 4
  Delegate = {1, 2, 3, 4}
  PairCounting = FALSE
INIT Init
NEXT Next
INVARIANTS AlgSound HeadIsSupportedTip NoSupportNoHead DivergenceIsError EmitInv
