CONSTANTS
  Family = "lists"
  MaxDelegates = 255
  CurrentVersion = 1
  MaxEdits = 1
  EditDids = {1, 255, 256, 301}
  EditThresholds = {0, 1, 254, 255, 256}
  Payloads = {"project"}
  ListIds = {1, 2, 3, 4, 5, 6, 7, 8, 9, 10, 11, 12, 13, 14}
  ListThresholds = {0, 1, 2, 253, 254, 255, 256, 300}
  JsonDocs <- MCJsonDocs
INIT Init
NEXT Next
INVARIANTS AcceptedIsValid FoldIsDedupThenLimit AcceptIffRules RefusedJson RoundTrip RidIsInitialDoc FuncAgrees EmitInv
