------------------------------ MODULE MCWireMsg ------------------------------
(* Bounded instances of WireMsg.tla.                                                           *)
(*  part "size": the message assembly machine over the protocol limits (which are CONSTANTS:    *)
(*               props/C15.py writes the cfg with the values the code reports);                 *)
(*  part "enc":  the candidate encodings and the field-by-field decoder.                        *)
(* Boundary messages / all candidates are emitted as CASEs for the harness (c15_messages).      *)
EXTENDS WireMsg, Json

\* ---- part "size" (the part-B variables idle)
SizeInit == AInit /\ enc = <<>> /\ pos = 0 /\ res = "-"
\* (named wrappers so that TLC reports coverage per action)
SPushInventory == PushInventory /\ UNCHANGED bvars
SPushRef       == PushRef /\ UNCHANGED bvars
SPushAddress   == (\E a \in AddrChoices : PushAddress(a[1], a[2])) /\ UNCHANGED bvars
SSetScalar     == /\ \/ \E n \in AliasChoices : SetAlias(n)
                     \/ \E n \in AgentChoices : SetAgent(n)
                     \/ \E n \in FilterSizes : SetFilter(n)
                     \/ \E n \in ZeroChoices(msg.type) : SetZeroes(n)
                  /\ UNCHANGED bvars
SizeNext == SPushInventory \/ SPushRef \/ SPushAddress \/ SSetScalar
\* a one-state instance for the constant-level facts about the limits
FactsInit == SizeInit /\ msg.type = "info"

Kinds(m) == {m.addrs[i] : i \in DOMAIN m.addrs}
Count(m, a) == Cardinality({i \in DOMAIN m.addrs : m.addrs[i] = a})
Edge(n, lim) == n \in {0, 1, lim - 1, lim}
Boundary(m) ==
    CASE m.type = "inventory" -> Edge(m.inv, InventoryLimit)
      [] m.type = "refs"      -> Edge(m.refs, RefRemoteLimit)
      [] m.type = "node"      -> /\ Edge(Len(m.addrs), AddressLimit)
                                 /\ Cardinality(Kinds(m)) <= 2
                                 /\ Cardinality(Kinds(m)) = 2 => \E a \in Kinds(m) : Count(m, a) = 1
      [] OTHER -> TRUE
EmitSize == Boundary(msg) =>
    PrintT(<<"CASE", ToJson([part |-> "size", msg |-> msg, size |-> Size(msg)])>>)

\* ---- part "enc" (the part-A variable idles)
EncInit == BInit /\ msg = Blank("pong")
EReadField   == ReadField /\ UNCHANGED avars
ERejectField == RejectField /\ UNCHANGED avars
EHitEnd      == HitEnd /\ UNCHANGED avars
EFinish      == Finish /\ UNCHANGED avars
EncNext == EReadField \/ ERejectField \/ EHitEnd \/ EFinish
EmitEnc == (res = "reading" /\ pos = 1) =>
    PrintT(<<"CASE", ToJson([part |-> "enc", type |-> enc.type, fields |-> Layout(enc.type), v |-> enc.v,
                             cut |-> enc.cut, trailing |-> enc.trailing,
                             strict |-> Decode(enc), framed |-> FramedDecode(enc),
                             reencodes |-> ReEncodes(enc), agentabsent |-> AgentAbsentOnly(enc)])>>)
=============================================================================
