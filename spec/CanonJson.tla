------------------------------ MODULE CanonJson ------------------------------
(***************************************************************************)
(* Canonical JSON as produced by radicle::canonical::formatter::           *)
(* CanonicalFormatter (used by cob::store::encoding::encode, Doc::encode   *)
(* and everything that is hashed or signed as JSON).                       *)
(*                                                                         *)
(* Three descriptions of the same thing, tied together by invariants:      *)
(*                                                                         *)
(*  1. The formatter as a state machine (variables todo/stack/out/err):    *)
(*     serde_json walks a value and calls the Formatter methods; each      *)
(*     method is one named action here.  While an object is being written  *)
(*     nothing reaches the real writer: key and value bytes are diverted   *)
(*     into the top entry of `object_stack` (CanonicalFormatter::writer),  *)
(*     `end_object_value` inserts the pair into a BTreeMap keyed by the    *)
(*     *serialised* key, `end_object` pops the entry and writes the map in *)
(*     key order into whatever is then the current writer.                 *)
(*                                                                         *)
(*  2. Canon(v): the encoding as a recursive definition over the value     *)
(*     (the oracle the conformance harness compares real bytes with).      *)
(*                                                                         *)
(*  3. The statement of property C18 as predicates on the emitted bytes,   *)
(*     using an independent strict JSON decoder written below (Decode):    *)
(*     the bytes decode (no whitespace production exists in the grammar),  *)
(*     denote the NFC-normalised value, have their object keys in byte     *)
(*     order, contain no raw control character, floats are rejected, and   *)
(*     decoding + encoding again is the identity on the bytes.             *)
(*                                                                         *)
(* Representation.  A JSON value is a pair <<kind, payload>>:              *)
(*   <<"null",0>>  <<"bool",b>>  <<"num",text>>  <<"str",chars>>           *)
(*   <<"arr",<<v1,..>>>>  <<"obj",<< <<key1,v1>>, .. >>>>                  *)
(* chars/keys are sequences of Unicode code points, `text` is the decimal  *)
(* text of the number as ASCII codes (64-bit bounds do not fit TLC's       *)
(* integers), object members are in *insertion order* (serde_json is built *)
(* with preserve_order in this workspace) and have pairwise distinct raw   *)
(* keys.  Bytes are integers 0..255.                                       *)
(*                                                                         *)
(* Which "byte order"?  The BTreeMap is keyed by the key *as emitted*:     *)
(* opening quote, NFC-normalised UTF-8 with JSON escapes, closing quote.   *)
(* That is the order modelled (KeyToken).  It differs from the order of    *)
(* the raw key bytes exactly when an escaped character (emitted as         *)
(* backslash, 0x5C) or a character below the closing quote (0x22: space,   *)
(* `!`) decides the comparison; RawOrderAgrees records when that happens.  *)
(* Two raw keys that normalise to the same key collide in the map; the one *)
(* serialised last wins.                                                   *)
(*                                                                         *)
(* NFC is modelled on the alphabet of the bounded instances: the only      *)
(* composing pair is (e, U+0301) |-> U+00E9; all other characters used are *)
(* starters that neither compose nor reorder.                              *)
(***************************************************************************)
EXTENDS Integers, Sequences, FiniteSets, SequencesExt, TLC

CONSTANTS Values,   \* set of JSON values of the bounded instance
          Variant   \* "spec"; or a deliberately wrong formatter: "NoSort", "NoNfc", "FloatsPass"

-----------------------------------------------------------------------------
\* Values

Null    == <<"null", 0>>
Bool(b) == <<"bool", b>>
Num(t)  == <<"num", t>>
Str(s)  == <<"str", s>>
Arr(a)  == <<"arr", a>>
Obj(m)  == <<"obj", m>>
Kind(x) == x[1]
Pay(x)  == x[2]

-----------------------------------------------------------------------------
\* Bytes

MinOf(S) == CHOOSE x \in S : \A y \in S : x <= y

\* Lexicographic order on byte strings (Ord for Vec<u8>): a proper prefix is smaller.
BytesLess(a, b) ==
    LET n == IF Len(a) < Len(b) THEN Len(a) ELSE Len(b)
        D == {i \in 1..n : a[i] # b[i]}
    IN IF D = {} THEN Len(a) < Len(b) ELSE a[MinOf(D)] < b[MinOf(D)]

RECURSIVE Concat(_)
Concat(ss) == IF ss = <<>> THEN <<>> ELSE Head(ss) \o Concat(Tail(ss))

RECURSIVE Join(_, _)
Join(ss, sep) == IF ss = <<>> THEN <<>>
                 ELSE IF Len(ss) = 1 THEN ss[1]
                 ELSE ss[1] \o <<sep>> \o Join(Tail(ss), sep)

QUOTE == 34   BSLASH == 92   COMMA == 44   COLON == 58
LBRACE == 123 RBRACE == 125  LBRACK == 91  RBRACK == 93
LitNull == <<110, 117, 108, 108>>
LitTrue == <<116, 114, 117, 101>>
LitFalse == <<102, 97, 108, 115, 101>>

\* UTF-8 of a code point of the basic multilingual plane.
Utf8(c) == IF c < 128 THEN <<c>>
           ELSE IF c < 2048 THEN <<192 + (c \div 64), 128 + (c % 64)>>
           ELSE <<224 + (c \div 4096), 128 + ((c \div 64) % 64), 128 + (c % 64)>>
Utf8Seq(s) == Concat([i \in DOMAIN s |-> Utf8(s[i])])

\* JSON string escapes (RFC 8259 section 7, serde_json's CharEscape): quote, backslash, the five
\* short forms, \u00xx in lower-case hex for the other characters below U+0020.  U+007F is not
\* escaped.
NeedsEscape(c) == c < 32 \/ c = QUOTE \/ c = BSLASH
HexLower(d) == IF d < 10 THEN 48 + d ELSE 87 + d
Escape(c) == CASE c = QUOTE  -> <<BSLASH, QUOTE>>
               [] c = BSLASH -> <<BSLASH, BSLASH>>
               [] c = 8      -> <<BSLASH, 98>>
               [] c = 9      -> <<BSLASH, 116>>
               [] c = 10     -> <<BSLASH, 110>>
               [] c = 12     -> <<BSLASH, 102>>
               [] c = 13     -> <<BSLASH, 114>>
               [] OTHER      -> <<BSLASH, 117, 48, 48, HexLower(c \div 16), HexLower(c % 16)>>

\* Unicode NFC on the model's alphabet.
RECURSIVE NFC(_)
NFC(s) == IF s = <<>> THEN <<>>
          ELSE IF Len(s) >= 2 /\ s[1] = 101 /\ s[2] = 769 THEN <<233>> \o NFC(SubSeq(s, 3, Len(s)))
          ELSE <<s[1]>> \o NFC(Tail(s))
IsNFC(s) == \A i \in 1..(Len(s) - 1) : ~(s[i] = 101 /\ s[i + 1] = 769)

-----------------------------------------------------------------------------
\* Numbers.  serde_json keeps a number as u64, i64 or f64; text that is not an integer in
\* [-2^63, 2^64-1] becomes an f64, and f64 is what the formatter refuses.

FloatSyntax(t) == \E i \in DOMAIN t : t[i] \in {46, 69, 101}      \* . E e
Negative(t) == t # <<>> /\ t[1] = 45
Magnitude(t) == IF Negative(t) THEN Tail(t) ELSE t
\* a <= b for decimal digit strings without leading zeros
DecLeq(a, b) == Len(a) < Len(b) \/ (Len(a) = Len(b) /\ ~BytesLess(b, a))
Digits(ds) == [i \in DOMAIN ds |-> 48 + ds[i]]
I64MinMagnitude == Digits(<<9,2,2,3,3,7,2,0,3,6,8,5,4,7,7,5,8,0,8>>)
U64Max == Digits(<<1,8,4,4,6,7,4,4,0,7,3,7,0,9,5,5,1,6,1,5>>)
IsInteger(t) == /\ ~FloatSyntax(t)
                /\ IF Negative(t) THEN DecLeq(Magnitude(t), I64MinMagnitude) ELSE DecLeq(t, U64Max)

RECURSIVE HasFloat(_)
HasFloat(x) == CASE Kind(x) = "num" -> ~IsInteger(Pay(x))
                 [] Kind(x) = "arr" -> \E i \in DOMAIN Pay(x) : HasFloat(Pay(x)[i])
                 [] Kind(x) = "obj" -> \E i \in DOMAIN Pay(x) : HasFloat(Pay(x)[i][2])
                 [] OTHER -> FALSE

-----------------------------------------------------------------------------
\* 2. The encoding as a recursive definition

Reject == <<-1>>        \* "encoding fails" (never a prefix of real output: bytes are >= 0)

\* A string as emitted: quote, NFC + UTF-8 with escapes, quote.  (Normalising the whole string or
\* each run between two escaped characters is the same thing: escaped characters are starters.)
RECURSIVE EscapeAll(_)
EscapeAll(s) == IF s = <<>> THEN <<>>
                ELSE (IF NeedsEscape(s[1]) THEN Escape(s[1]) ELSE Utf8(s[1])) \o EscapeAll(Tail(s))
StrToken(s) == <<QUOTE>> \o EscapeAll(NFC(s)) \o <<QUOTE>>
KeyToken(k) == StrToken(k)

\* Members that survive in the BTreeMap: for every emitted key the last member carrying it.
Survivors(m) == {i \in DOMAIN m : \A j \in DOMAIN m : j > i => KeyToken(m[j][1]) # KeyToken(m[i][1])}
\* ... in the order they are written.
MemberOrder(m) == SetToSortSeq(Survivors(m), LAMBDA i, j : BytesLess(KeyToken(m[i][1]), KeyToken(m[j][1])))

RECURSIVE Enc(_)
Enc(x) ==
    CASE Kind(x) = "null" -> LitNull
      [] Kind(x) = "bool" -> IF Pay(x) THEN LitTrue ELSE LitFalse
      [] Kind(x) = "num"  -> Pay(x)
      [] Kind(x) = "str"  -> StrToken(Pay(x))
      [] Kind(x) = "arr"  -> <<LBRACK>> \o Join([i \in DOMAIN Pay(x) |-> Enc(Pay(x)[i])], COMMA) \o <<RBRACK>>
      [] Kind(x) = "obj"  ->
            LET m == Pay(x)
                ord == MemberOrder(m)
            IN <<LBRACE>>
               \o Join([n \in DOMAIN ord |-> KeyToken(m[ord[n]][1]) \o <<COLON>> \o Enc(m[ord[n]][2])], COMMA)
               \o <<RBRACE>>

Canon(x) == IF HasFloat(x) THEN Reject ELSE Enc(x)

\* The value the canonical bytes denote: strings normalised, members merged and ordered.
RECURSIVE Norm(_)
Norm(x) ==
    CASE Kind(x) = "str" -> Str(NFC(Pay(x)))
      [] Kind(x) = "arr" -> Arr([i \in DOMAIN Pay(x) |-> Norm(Pay(x)[i])])
      [] Kind(x) = "obj" -> LET m == Pay(x)
                                ord == MemberOrder(m)
                            IN Obj([n \in DOMAIN ord |-> <<NFC(m[ord[n]][1]), Norm(m[ord[n]][2])>>])
      [] OTHER -> x

\* Would ordering the members by the raw UTF-8 bytes of their normalised keys (no quotes, no
\* escapes) give the same sequence?  Informational (see header).
RECURSIVE RawOrderAgrees(_)
RawOrderAgrees(x) ==
    CASE Kind(x) = "arr" -> \A i \in DOMAIN Pay(x) : RawOrderAgrees(Pay(x)[i])
      [] Kind(x) = "obj" ->
            LET m == Pay(x)
                ord == MemberOrder(m)
            IN /\ \A n \in 1..(Len(ord) - 1) :
                      BytesLess(Utf8Seq(NFC(m[ord[n]][1])), Utf8Seq(NFC(m[ord[n + 1]][1])))
               /\ \A i \in DOMAIN m : RawOrderAgrees(m[i][2])
      [] OTHER -> TRUE

-----------------------------------------------------------------------------
\* 3. A strict JSON decoder over bytes (RFC 8259 without the `ws` production)

Fail == <<FALSE, Null, 0>>          \* <<ok, value, index after the value>>

HexVal(c) == IF c \in 48..57 THEN c - 48
             ELSE IF c \in 97..102 THEN c - 87
             ELSE IF c \in 65..70 THEN c - 55 ELSE -1
SimpleEscape == (34 :> 34) @@ (92 :> 92) @@ (47 :> 47) @@ (98 :> 8) @@ (102 :> 12)
                @@ (110 :> 10) @@ (114 :> 13) @@ (116 :> 9)
Cont(b, i) == i <= Len(b) /\ b[i] \in 128..191

\* i is the index after the opening quote; acc the code points decoded so far.
RECURSIVE PStr(_, _, _)
PStr(b, i, acc) ==
    IF i > Len(b) THEN Fail
    ELSE LET c == b[i] IN
         IF c = QUOTE THEN <<TRUE, Str(acc), i + 1>>
         ELSE IF c < 32 THEN Fail                             \* raw control character
         ELSE IF c = BSLASH THEN
              IF i + 1 > Len(b) THEN Fail
              ELSE LET e == b[i + 1] IN
                   IF e = 117 THEN
                        IF i + 5 > Len(b) \/ \E j \in 2..5 : HexVal(b[i + j]) < 0 THEN Fail
                        ELSE PStr(b, i + 6, Append(acc, HexVal(b[i + 2]) * 4096 + HexVal(b[i + 3]) * 256
                                                        + HexVal(b[i + 4]) * 16 + HexVal(b[i + 5])))
                   ELSE IF e \in DOMAIN SimpleEscape THEN PStr(b, i + 2, Append(acc, SimpleEscape[e]))
                   ELSE Fail
         ELSE IF c < 128 THEN PStr(b, i + 1, Append(acc, c))
         ELSE IF c \in 194..223 /\ Cont(b, i + 1)
              THEN PStr(b, i + 2, Append(acc, (c - 192) * 64 + (b[i + 1] - 128)))
         ELSE IF c \in 224..239 /\ Cont(b, i + 1) /\ Cont(b, i + 2)
              THEN PStr(b, i + 3, Append(acc, (c - 224) * 4096 + (b[i + 1] - 128) * 64 + (b[i + 2] - 128)))
         ELSE Fail

NumChars == (48..57) \cup {43, 45, 46, 69, 101}
RECURSIVE NumEnd(_, _)
NumEnd(b, i) == IF i <= Len(b) /\ b[i] \in NumChars THEN NumEnd(b, i + 1) ELSE i
IsIntText(t) == LET mag == Magnitude(t) IN
                /\ mag # <<>>
                /\ \A i \in DOMAIN mag : mag[i] \in 48..57
                /\ (Len(mag) > 1 => mag[1] # 48)
PNum(b, i) == LET j == NumEnd(b, i)
                  t == SubSeq(b, i, j - 1)
              IN IF IsIntText(t) \/ (FloatSyntax(t) /\ t[1] \in (48..57) \cup {45}) THEN <<TRUE, Num(t), j>>
                 ELSE Fail

IsLit(b, i, lit) == i + Len(lit) - 1 <= Len(b) /\ SubSeq(b, i, i + Len(lit) - 1) = lit

RECURSIVE PValue(_, _), PArr(_, _, _), PObj(_, _, _)
PValue(b, i) ==
    IF i > Len(b) THEN Fail
    ELSE LET c == b[i] IN
         IF c = 110 THEN (IF IsLit(b, i, LitNull) THEN <<TRUE, Null, i + 4>> ELSE Fail)
         ELSE IF c = 116 THEN (IF IsLit(b, i, LitTrue) THEN <<TRUE, Bool(TRUE), i + 4>> ELSE Fail)
         ELSE IF c = 102 THEN (IF IsLit(b, i, LitFalse) THEN <<TRUE, Bool(FALSE), i + 5>> ELSE Fail)
         ELSE IF c = QUOTE THEN PStr(b, i + 1, <<>>)
         ELSE IF c = LBRACK THEN
              (IF i + 1 <= Len(b) /\ b[i + 1] = RBRACK THEN <<TRUE, Arr(<<>>), i + 2>> ELSE PArr(b, i + 1, <<>>))
         ELSE IF c = LBRACE THEN
              (IF i + 1 <= Len(b) /\ b[i + 1] = RBRACE THEN <<TRUE, Obj(<<>>), i + 2>> ELSE PObj(b, i + 1, <<>>))
         ELSE IF c \in (48..57) \cup {45} THEN PNum(b, i)
         ELSE Fail
\* i: start of the next element
PArr(b, i, acc) ==
    LET r == PValue(b, i) IN
    IF ~r[1] THEN Fail
    ELSE LET j == r[3] IN
         IF j > Len(b) THEN Fail
         ELSE IF b[j] = COMMA THEN PArr(b, j + 1, Append(acc, r[2]))
         ELSE IF b[j] = RBRACK THEN <<TRUE, Arr(Append(acc, r[2])), j + 1>>
         ELSE Fail
\* i: the opening quote of the next member's key
PObj(b, i, acc) ==
    IF i > Len(b) \/ b[i] # QUOTE THEN Fail
    ELSE LET k == PStr(b, i + 1, <<>>) IN
         IF ~k[1] THEN Fail
         ELSE IF k[3] > Len(b) \/ b[k[3]] # COLON THEN Fail
         ELSE LET r == PValue(b, k[3] + 1) IN
              IF ~r[1] THEN Fail
              ELSE LET n == r[3]
                       m == Append(acc, <<Pay(k[2]), r[2]>>)
                   IN IF n > Len(b) THEN Fail
                      ELSE IF b[n] = COMMA THEN PObj(b, n + 1, m)
                      ELSE IF b[n] = RBRACE THEN <<TRUE, Obj(m), n + 1>>
                      ELSE Fail

Decodes(b) == LET r == PValue(b, 1) IN r[1] /\ r[3] = Len(b) + 1
Decoded(b) == PValue(b, 1)[2]

\* Statement predicates on a decoded value
RECURSIVE KeysInByteOrder(_), StringsNFC(_)
KeysInByteOrder(x) ==
    CASE Kind(x) = "arr" -> \A i \in DOMAIN Pay(x) : KeysInByteOrder(Pay(x)[i])
      [] Kind(x) = "obj" -> LET m == Pay(x) IN
                            /\ \A i \in 1..(Len(m) - 1) : BytesLess(KeyToken(m[i][1]), KeyToken(m[i + 1][1]))
                            /\ \A i \in DOMAIN m : KeysInByteOrder(m[i][2])
      [] OTHER -> TRUE
StringsNFC(x) ==
    CASE Kind(x) = "str" -> IsNFC(Pay(x))
      [] Kind(x) = "arr" -> \A i \in DOMAIN Pay(x) : StringsNFC(Pay(x)[i])
      [] Kind(x) = "obj" -> \A i \in DOMAIN Pay(x) : IsNFC(Pay(x)[i][1]) /\ StringsNFC(Pay(x)[i][2])
      [] OTHER -> TRUE

\* No whitespace byte outside string tokens: a lexical scan that only tracks "inside a string".
RECURSIVE WsOutside(_, _, _)
WsOutside(b, i, inStr) ==
    IF i > Len(b) THEN FALSE
    ELSE IF inStr THEN (IF b[i] = BSLASH THEN WsOutside(b, i + 2, TRUE)
                        ELSE WsOutside(b, i + 1, b[i] # QUOTE))
    ELSE IF b[i] \in {32, 9, 10, 13} THEN TRUE
    ELSE WsOutside(b, i + 1, b[i] = QUOTE)

-----------------------------------------------------------------------------
\* 1. The formatter as a state machine

VARIABLES v,      \* the value being serialised
          todo,   \* Formatter calls serde_json still has to make, as <<method, argument>>
          stack,  \* CanonicalFormatter::object_stack
          out,    \* bytes that reached the real writer
          err     \* serialisation failed
vars == <<v, todo, stack, out, err>>

E(name, arg) == <<name, arg>>

\* serde_json::ser::format_escaped_str_contents: runs between escaped characters are fragments
RECURSIVE FragEv(_, _)
FragEv(frag, rest) ==
    LET flush == IF frag = <<>> THEN <<>> ELSE <<E("write_string_fragment", frag)>> IN
    IF rest = <<>> THEN flush
    ELSE IF NeedsEscape(Head(rest)) THEN flush \o <<E("write_char_escape", Head(rest))>> \o FragEv(<<>>, Tail(rest))
    ELSE FragEv(Append(frag, Head(rest)), Tail(rest))
StrEv(s) == <<E("begin_string", 0)>> \o FragEv(<<>>, s) \o <<E("end_string", 0)>>

\* impl Serialize for serde_json::Value, driving a Serializer<W, F>
RECURSIVE Ev(_)
Ev(x) ==
    CASE Kind(x) = "null" -> <<E("write_null", 0)>>
      [] Kind(x) = "bool" -> <<E("write_bool", Pay(x))>>
      [] Kind(x) = "num"  -> IF IsInteger(Pay(x)) THEN <<E("write_int", Pay(x))>> ELSE <<E("write_f64", Pay(x))>>
      [] Kind(x) = "str"  -> StrEv(Pay(x))
      [] Kind(x) = "arr"  ->
            <<E("begin_array", 0)>>
            \o Concat([i \in DOMAIN Pay(x) |->
                         <<E("begin_array_value", i = 1)>> \o Ev(Pay(x)[i]) \o <<E("end_array_value", 0)>>])
            \o <<E("end_array", 0)>>
      [] Kind(x) = "obj"  ->
            <<E("begin_object", 0)>>
            \o Concat([i \in DOMAIN Pay(x) |->
                         <<E("begin_object_key", i = 1)>> \o StrEv(Pay(x)[i][1]) \o <<E("end_object_key", 0)>>
                         \o <<E("begin_object_value", 0)>> \o Ev(Pay(x)[i][2]) \o <<E("end_object_value", 0)>>])
            \o <<E("end_object", 0)>>

NewObject == [obj |-> <<>>, next_key |-> <<>>, next_value |-> <<>>, key_done |-> FALSE]

\* CanonicalFormatter::writer: where do bytes go right now?
Written(stk, o, bs) ==
    IF stk = <<>> THEN <<stk, o \o bs>>
    ELSE LET n == Len(stk) IN
         IF stk[n].key_done THEN <<[stk EXCEPT ![n].next_value = @ \o bs], o>>
         ELSE <<[stk EXCEPT ![n].next_key = @ \o bs], o>>

Init == /\ v \in Values
        /\ todo = Ev(v)
        /\ stack = <<>>
        /\ out = <<>>
        /\ err = FALSE

Call(name) == ~err /\ todo # <<>> /\ Head(todo)[1] = name
Arg == Head(todo)[2]
Consume == todo' = Tail(todo) /\ UNCHANGED <<v, err>>
Write(bs) == LET w == Written(stack, out, bs) IN stack' = w[1] /\ out' = w[2]

\* wrapper!(..): delegate to serde_json's CompactFormatter on the current writer
WriteNull  == Call("write_null") /\ Write(LitNull) /\ Consume
WriteBool  == Call("write_bool") /\ Write(IF Arg THEN LitTrue ELSE LitFalse) /\ Consume
WriteInt   == Call("write_int") /\ Write(Arg) /\ Consume       \* write_i64 / write_u64 (itoa)
\* write_f32 / write_f64: "floating point numbers are not allowed in canonical JSON"
WriteFloat == /\ Call("write_f64")
              /\ IF Variant = "FloatsPass" THEN Write(Arg) /\ Consume
                 ELSE err' = TRUE /\ todo' = <<>> /\ UNCHANGED <<v, stack, out>>
BeginString == Call("begin_string") /\ Write(<<QUOTE>>) /\ Consume
EndString   == Call("end_string") /\ Write(<<QUOTE>>) /\ Consume
\* fragment.nfc() written char by char
WriteStringFragment ==
    /\ Call("write_string_fragment")
    /\ Write(Utf8Seq(IF Variant = "NoNfc" THEN Arg ELSE NFC(Arg)))
    /\ Consume
WriteCharEscape == Call("write_char_escape") /\ Write(Escape(Arg)) /\ Consume
BeginArray      == Call("begin_array") /\ Write(<<LBRACK>>) /\ Consume
BeginArrayValue == Call("begin_array_value") /\ Write(IF Arg THEN <<>> ELSE <<COMMA>>) /\ Consume
EndArrayValue   == Call("end_array_value") /\ Write(<<>>) /\ Consume
EndArray        == Call("end_array") /\ Write(<<RBRACK>>) /\ Consume

\* `{` goes to the current writer, then a fresh entry is pushed
BeginObject ==
    /\ Call("begin_object")
    /\ LET w == Written(stack, out, <<LBRACE>>) IN stack' = Append(w[1], NewObject) /\ out' = w[2]
    /\ Consume
BeginObjectKey ==
    /\ Call("begin_object_key") /\ stack # <<>>
    /\ stack' = [stack EXCEPT ![Len(stack)].key_done = FALSE] /\ UNCHANGED out /\ Consume
EndObjectKey ==
    /\ Call("end_object_key") /\ stack # <<>>
    /\ stack' = [stack EXCEPT ![Len(stack)].key_done = TRUE] /\ UNCHANGED out /\ Consume
BeginObjectValue == Call("begin_object_value") /\ UNCHANGED <<stack, out>> /\ Consume
\* object.obj.insert(take(next_key), take(next_value)): a later equal key replaces the value
EndObjectValue ==
    /\ Call("end_object_value") /\ stack # <<>>
    /\ LET n == Len(stack)
           top == stack[n]
           others == SelectSeq(top.obj, LAMBDA p : p[1] # top.next_key)
       IN stack' = [stack EXCEPT ![n] = [top EXCEPT !.obj = Append(others, <<top.next_key, top.next_value>>),
                                                   !.next_key = <<>>, !.next_value = <<>>]]
    /\ UNCHANGED out /\ Consume
\* pop, then write the map in key order (BTreeMap iteration) into the writer that is current *now*
EndObject ==
    /\ Call("end_object") /\ stack # <<>>
    /\ LET n == Len(stack)
           top == stack[n]
           members == IF Variant = "NoSort" THEN top.obj
                      ELSE SortSeq(top.obj, LAMBDA p, q : BytesLess(p[1], q[1]))
           body == Join([i \in DOMAIN members |-> members[i][1] \o <<COLON>> \o members[i][2]], COMMA)
           w == Written(SubSeq(stack, 1, n - 1), out, body \o <<RBRACE>>)
       IN stack' = w[1] /\ out' = w[2]
    /\ Consume

Next == \/ WriteNull \/ WriteBool \/ WriteInt \/ WriteFloat
        \/ BeginString \/ EndString \/ WriteStringFragment \/ WriteCharEscape
        \/ BeginArray \/ BeginArrayValue \/ EndArrayValue \/ EndArray
        \/ BeginObject \/ BeginObjectKey \/ EndObjectKey \/ BeginObjectValue \/ EndObjectValue \/ EndObject

Spec == Init /\ [][Next]_vars

-----------------------------------------------------------------------------
\* Invariants

Done == todo = <<>>
Result == IF err THEN Reject ELSE out

\* the machine is well-formed: bytes only reach `out` directly when no object is open
StackDiscipline == Done /\ ~err => stack = <<>>

\* 1 = 2: the formatter computes Canon
AlgMatchesDefinition == Done => Result = Canon(v)

\* 3: property C18 on the bytes the formatter produced
FloatsRejected       == Done => (err <=> HasFloat(v))
OutputDecodes        == Done /\ ~err => Decodes(out)
OutputDenotesValue   == Done /\ ~err => Decoded(out) = Norm(v)
KeysSorted           == Done /\ ~err => KeysInByteOrder(Decoded(out))
Normalised           == Done /\ ~err => StringsNFC(Decoded(out))
ControlEscaped       == Done /\ ~err => \A i \in DOMAIN out : out[i] >= 32
NoWhitespace         == Done /\ ~err => ~WsOutside(out, 1, FALSE)
ReencodeIsIdentity   == Done /\ ~err => Canon(Decoded(out)) = out

\* the clauses above in one formula that decodes once (used for long recorded traces)
Statement ==
    Done /\ ~err =>
        LET r == PValue(out, 1) IN
        /\ r[1] /\ r[3] = Len(out) + 1
        /\ r[2] = Norm(v)
        /\ KeysInByteOrder(r[2])
        /\ StringsNFC(r[2])
        /\ \A i \in DOMAIN out : out[i] >= 32
        /\ ~WsOutside(out, 1, FALSE)
        /\ Canon(r[2]) = out
=============================================================================
