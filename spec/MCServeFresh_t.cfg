CONSTANTS
  Vis = {"public", "seed", "both"}
  MaxOps = 6
  Dev = {}
INIT Init
NEXT Next
INVARIANTS FreshIdentity ServedOnlyIfAllowed EmitInv
