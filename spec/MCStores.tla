----------------------------- MODULE MCStores -----------------------------
EXTENDS Stores, Json

\* Projection of the tables of store x that the harness reads back from the real database.
MapRows(f) == {<<k, f[k]>> : k \in DOMAIN f}
Dump(s, x) ==
    CASE x = "routing"   -> [nodes |-> s.nodes, rows |-> {<<k[1], k[2], s.routing[k]>> : k \in DOMAIN s.routing}]
      [] x = "sync"      -> [nodes |-> s.nodes, rows |-> {<<k[1], k[2], s.sync[k][1], s.sync[k][2]>> : k \in DOMAIN s.sync}]
      [] x = "refs"      -> [nodes |-> {}, rows |-> {<<k[1], k[2], k[3], s.refs[k][1], s.refs[k][2]>> : k \in DOMAIN s.refs}]
      [] x = "seeding"   -> [nodes |-> {}, rows |-> {<<r, SeedView(s.seeding[r])[1], s.seeding[r][2]>> : r \in DOMAIN s.seeding}]
      [] x = "following" -> [nodes |-> {}, rows |-> {<<n, s.following[n][1], s.following[n][2]>> : n \in DOMAIN s.following}]
      [] x = "gossip"    -> [nodes |-> {}, rows |-> {<<s.ann[k].id, k[1], k[2], k[3], s.ann[k].val, s.ann[k].ts, s.ann[k].relay>> : k \in DOMAIN s.ann}]

Depths(ro, sy, re, se, fo, go) ==
    [x \in {"routing", "sync", "refs", "seeding", "following", "gossip"} |->
        CASE x = "routing" -> ro [] x = "sync" -> sy [] x = "refs" -> re [] x = "seeding" -> se [] x = "following" -> fo [] x = "gossip" -> go]
DepthQ == Depths(5, 4, 3, 6, 5, 3)
DepthT == Depths(5, 5, 5, 8, 6, 4)
DepthDev == Depths(3, 3, 3, 3, 3, 3)

\* One case per distinct state that still has successors: how to get there, what the tables must
\* hold, and for every operation of the instance every outcome the model allows.
Edges == UNION {{[op |-> op, ret |-> o.ret, st |-> Dump(o.s, w)] : o \in Outcomes(st, op)} : op \in Ops(w)}
EmitInv == Len(hist) < MaxDepth[w] =>
              PrintT(<<"CASE", ToJson([w |-> w, hist |-> hist, st |-> Dump(st, w), succ |-> Edges])>>)
=============================================================================
