CONSTANTS
  Peer = {1, 2}
  Other = {3}
  Repo = {1, 2, 3}
  Stored = {1, 2}
  Seeded = {1, 2}
  InitPrivate = {2, 3}
  Allow <- MCAllow
  Delegates <- MCDelegates
  TS = {0, 5, 6, 4000}
  MaxTicks = 1
  MaxOps = 5
  Dev = {"replay-unstored"}
  Anns <- MCAnns
  InvOf <- MCInvOf
INIT Init
NEXT Next
VIEW view
INVARIANTS C11_Refs

