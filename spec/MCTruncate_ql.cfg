\* quick, lines: <= 3 items of <= 2 graphemes over {a, space, U+3000}
CONSTANTS
  KindIds = {1, 3, 6}
  MaxLen = 2
  MaxItems = 3
  MaxW = 3
  ND = 2
  Orig = FALSE
  GW <- MCGW
  GB <- MCGB
  GWs <- MCGWs
  Lines <- MCLines
  Widths <- MCWidths
  Delims <- MCDelims
SPECIFICATION Spec
INVARIANTS NoPanic WidthBound Shape StrSound IterBound FuncAgrees EmitInv
PROPERTIES Decreases Termination
