CONSTANTS
  Keys = {1, 2, 3}
  MergeFromAllRoots = FALSE
  Full = FALSE
  MaxOther = 3
  EmitMerges = FALSE
  CheckMerges = TRUE
INIT Init
NEXT Next
INVARIANTS MergeSound
