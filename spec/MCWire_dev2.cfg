CONSTANTS
  StreamSet = {}
  Mode = "quick"
  K = 131072
  Growth = 2
  MaxInbox = 2097152
  AllocDeclared = FALSE
  InnerEofIncomplete = TRUE
INIT MCInit
NEXT Next
INVARIANTS C14_Invalid
