CONSTANTS
  Local = "L"
  MaxOps = 3
  Variant = "code"
  Node <- MCNode
  Delegates <- MCDelegates
  NsStates <- MCNsStates
  IdStates <- MCIdStates
INIT Init
NEXT Next
INVARIANTS OnlyStrangersRemoved ProtectedUntouched WholeRepoOnlyWithoutSigrefs NoSigrefsRemovesRepo UnreadableIsError ErrorIsNoop ReportedIsRemoved UnsignedKept Idempotent EmitInv
