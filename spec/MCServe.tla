------------------------------ MODULE MCServe ------------------------------
(* Bounded instances of Serve.tla.                                                             *)
(*  static (Dynamic = FALSE): one request per behaviour, drawn from `Scenarios`:               *)
(*    kind "hdr"  - every header of a product of well- and ill-formed pieces x length classes,  *)
(*                  in a world where the named repositories are (a) both servable, (b) R2 is    *)
(*                  private;                                                                    *)
(*    kind "cell" - the honest header against every world class x requester (decision table).   *)
(*    One CASE line is printed per scenario (at the state where the header has arrived).        *)
(*  dynamic (Dynamic = TRUE): requests from all nodes interleaved with policy changes.          *)
EXTENDS Serve, Json

CONSTANT Scale     \* "q" | "t": size of the header product

VARIABLES kind,    \* scenario kind (static) or "dyn"
          first    \* the scenario's request
mcvars == <<kind, first>>

Pub(d)      == [present |-> TRUE, docok |-> TRUE, private |-> FALSE, allow |-> {}, delegates |-> d]
Priv(a, d)  == [present |-> TRUE, docok |-> TRUE, private |-> TRUE, allow |-> a, delegates |-> d]
Absent      == [present |-> FALSE, docok |-> FALSE, private |-> FALSE, allow |-> {}, delegates |-> {}]
\* the repository is there but its current identity document cannot be loaded
Unreadable(rs) == [rs EXCEPT !.docok = FALSE]

\* ---- header product -------------------------------------------------------------------------
CmdsQ == {<<"CMD", "SP">>, <<"CMDX", "SP">>, <<"CMD">>}
CmdsT == CmdsQ \cup {<<>>, <<"BAD8", "CMD", "SP">>, <<"SP", "CMD", "SP">>}
PathsQ == {<<"SL", "RAD", "R1">>, <<"SL", "R1">>, <<"RAD", "R1">>, <<"SL", "R2">>, <<"SL", "JUNK">>,
           <<"SL", "R1", "GIT">>, <<"SL", AltTok("R1")>>, <<"SL">>}
PathsT == PathsQ \cup {<<"R1">>, <<"SL", "RAD", "R2">>, <<>>, <<"SL", "RAD", "R1", "GIT">>, <<"SL", "SL", "R1">>,
                       <<"SL", "RAD", "RAD", "R1">>, <<"SL", "R1", "R2">>, <<"SL", "R1", "BAD8">>, <<"SL", "RAD">>,
                       <<"SL", "RAD", AltTok("R2")>>, <<"SL", "R1", "SP">>}
\* from the NUL that ends the path up to and including the NUL that ends the host parameter
HostsQ == {<<>>, <<"NUL">>, <<"NUL", "HOST", "NAME", "NUL">>, <<"NUL", "HOST", "NAME", "COLON", "PORT", "NUL">>,
           <<"NUL", "HOST", "NAME", "COLON", "BADPORT", "NUL">>, <<"NUL", "V2", "NUL">>}
HostsT == HostsQ \cup {<<"NUL", "HOST", "NAME", "COLON", "NUL">>, <<"NUL", "HOST", "NUL">>, <<"NUL", "NAME", "NUL">>,
                       <<"NUL", "HOST", "NAME", "COLON", "PORT", "PORT", "NUL">>, <<"NUL", "HOST", "RAD", "PORT", "NUL">>}
ExtrasQ == {<<>>, <<"NUL", "V2", "NUL">>, <<"NUL", "V1", "NUL">>, <<"V2", "NUL">>, <<"NUL", "KV", "NUL", "V2", "NUL">>}
ExtrasT == ExtrasQ \cup {<<"NUL", "V1", "NUL", "V2", "NUL">>, <<"NUL", "V2", "NAME", "NUL">>,
                         <<"NUL", "VER", "NUL", "V2", "NUL">>, <<"NUL", "NUL", "V2", "NUL">>, <<"NUL", "V2">>,
                         <<"NUL", "KEY", "NUL", "NUL", "V2", "NUL">>, <<"NUL", "V2", "NUL", "V1", "NUL">>}
Q == Scale = "q"
Bodies == {c \o p \o h \o e : c \in IF Q THEN CmdsQ ELSE CmdsT, p \in IF Q THEN PathsQ ELSE PathsT,
                              h \in IF Q THEN HostsQ ELSE HostsT, e \in IF Q THEN ExtrasQ ELSE ExtrasT}
Honest(r)   == <<"CMD", "SP", "SL", r, "NUL", "NUL", "V2", "NUL">>       \* what the real client sends
Standard(r) == <<"CMD", "SP", "SL", "RAD", r, "NUL", "HOST", "NAME", "NUL", "NUL", "V2", "NUL">>
FewBodies == {Honest("R1"), Standard("R2"), <<>>, <<"JUNK">>}
LensFull == {"exact", "upper", "plus", "long"}
Headers == {[len |-> l, body |-> b] : l \in LensFull, b \in Bodies}
           \cup {[len |-> l, body |-> b] : l \in LenClass \ LensFull, b \in FewBodies}

\* ---- worlds ---------------------------------------------------------------------------------
World(def, pol, rp) == [def |-> def, pol |-> pol, repo |-> rp]
WorldA == World("block", [r \in Rid |-> "allow"], [r \in Rid |-> Pub({"D"})])
WorldB == World("block", [r \in Rid |-> "allow"], [r \in Rid |-> IF r = "R2" THEN Priv({}, {"D"}) ELSE Pub({"D"})])
VisClasses == {Pub({"D"}), Priv({}, {"D"}), Priv({"A"}, {"D"}), Absent,
               Unreadable(Pub({"D"})), Unreadable(Priv({}, {"D"})), Unreadable(Priv({"A"}, {"D"}))}
\* R1 ranges over every class; R2 is either servable to everyone or blocked, so that a responder
\* that consulted the wrong repository's policy or document would be noticed.
CellWorlds == {World(def, [r \in Rid |-> IF r = "R1" THEN p1 ELSE p2],
                          [r \in Rid |-> IF r = "R1" THEN v1 ELSE Pub({"D"})]) :
                  def \in {"allow", "block"}, p1 \in Policy, v1 \in VisClasses, p2 \in {"allow", "block"}}

Scn(k, w, n, h) == [kind |-> k, w |-> w, n |-> n, h |-> h]
Scenarios == {Scn("hdr", WorldA, "O", h) : h \in Headers}
             \cup {Scn("hdr", WorldB, "O", h) : h \in {x \in Headers : x.len = "exact"}}
             \cup {Scn("cell", w, n, [len |-> "exact", body |-> Honest("R1")]) : w \in CellWorlds, n \in Node}

DynHeaders == {[len |-> "exact", body |-> Honest(r)] : r \in Rid} \cup {[len |-> "exact", body |-> <<"CMD", "SP", "SL", "JUNK">>]}
DynWorld == World("block", [r \in Rid |-> IF r = "R1" THEN "allow" ELSE "none"],
                           [r \in Rid |-> IF r = "R1" THEN Priv({"A"}, {"D"}) ELSE Pub({"D"})])

MCInit == /\ StreamInit
          /\ IF Dynamic
             THEN /\ default = DynWorld.def /\ policy = DynWorld.pol /\ repo = DynWorld.repo
                  /\ kind = "dyn" /\ first = [n |-> NoNode, h |-> NoHdr]
             ELSE \E s \in Scenarios :
                  /\ default = s.w.def /\ policy = s.w.pol /\ repo = s.w.repo
                  /\ kind = s.kind /\ first = [n |-> s.n, h |-> s.h]

\* Serve's actions, each with the bookkeeping variables unchanged (named so that TLC's coverage
\* report tells which of them fired).
OpenM         == /\ IF Dynamic THEN \E n \in Node, h \in DynHeaders : Open(n, h) ELSE Open(first.n, first.h)
                 /\ UNCHANGED mcvars
ReadHeaderM   == ReadHeader /\ UNCHANGED mcvars
CheckPolicyM  == CheckPolicy /\ UNCHANGED mcvars
LoadRepoM     == LoadRepo /\ UNCHANGED mcvars
LoadDocM      == LoadDoc /\ UNCHANGED mcvars
CheckVisibleM == CheckVisible /\ UNCHANGED mcvars
StartUploadM  == StartUpload /\ UNCHANGED mcvars
SendDataM     == SendData /\ UNCHANGED mcvars
FinishM       == Finish /\ UNCHANGED mcvars
CloseM        == Close /\ UNCHANGED mcvars
SetPolicyM    == /\ \E r \in Rid, p \in Policy : SetPolicy(r, p)
                 /\ UNCHANGED mcvars

SetDocM       == /\ \E r \in Rid, b \in BOOLEAN : SetDoc(r, b)
                 /\ UNCHANGED mcvars

MCNext == \/ OpenM \/ ReadHeaderM \/ CheckPolicyM \/ LoadRepoM \/ LoadDocM \/ CheckVisibleM \/ StartUploadM
          \/ SendDataM \/ FinishM \/ CloseM \/ SetPolicyM \/ SetDocM

ASSUME ParserCompleteA == ParserComplete

\* One line per scenario, printed when the header has arrived: what may be read from it and what
\* the responder may decide.
Emit ==
    (pc = "header" /\ ~Dynamic) =>
        LET outs == ReadOutcomes(hdr) IN
        PrintT(<<"CASE", ToJson([k |-> kind, n |-> remote, len |-> hdr.len, body |-> hdr.body,
                                 def |-> default,
                                 pol |-> [r \in Rid |-> policy[r]],
                                 present |-> [r \in Rid |-> repo[r].present],
                                 docok |-> [r \in Rid |-> repo[r].docok],
                                 private |-> [r \in Rid |-> repo[r].private],
                                 allow |-> [r \in Rid |-> repo[r].allow],
                                 outs |-> outs,
                                 dec |-> {Decision(default, policy, repo, remote, o) : o \in outs}])>>)
EmitInv == Emit
=============================================================================
