CONSTANTS
  NN = 2
  Root = 2
  NO = 3
  Keys = {1, 2}
  Signers = {1}
  MaxMuts = 1
  SignedMayHoldZero = FALSE
  Variant = "NoRootCheck"
INIT Init
NEXT Next
INVARIANTS AcceptedWellFormed
