\* drift (informational): the result is a truncation of the input, and the one the transcribed algorithm computes
CONSTANTS
  Orig = FALSE
  GW <- TGW
  GB <- TGB
  GWs <- TGWs
  Lines <- None
  Widths <- None
  Delims <- None
INIT TInit
NEXT TNext
INVARIANTS Shape FuncAgrees
POSTCONDITION Accepted
