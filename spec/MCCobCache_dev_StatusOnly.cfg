CONSTANTS
  MaxObjs = 2
  MaxOps = 3
  MaxSteps = 4
  NRepos = 2
  EmitEvery = 1
  Unscoped = {}
  JsonTree = FALSE
  StatusOnly = TRUE
  RemoveDrops = FALSE
INIT Init
NEXT Next
VIEW view
INVARIANTS QueriesAgree
