CONSTANTS
  MaxObjs = 2
  MaxOps = 3
  MaxSteps = 4
  JsonTree = FALSE
  StatusOnly = TRUE
  RemoveDrops = FALSE
INIT Init
NEXT Next
VIEW view
INVARIANTS QueriesAgree
