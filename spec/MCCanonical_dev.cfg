CONSTANTS
  N = 4
  Delegate = {1, 2, 3, 4}
  PairCounting = TRUE
INIT Init
NEXT Next
INVARIANTS AlgSound
