\* strict (informational): every recorded clean is a step of Clean!Clean; all invariants
CONSTANTS
  Local = "L"
  MaxOps = 1000
  Variant = "code"
  Node <- TNode
  Delegates <- None
  NsStates <- None
  IdStates <- None
INIT TInit
NEXT TNextStrict
INVARIANTS OnlyStrangersRemoved ProtectedUntouched WholeRepoOnlyWithoutSigrefs NoSigrefsRemovesRepo UnreadableIsError ErrorIsNoop ReportedIsRemoved UnsignedKept Idempotent
POSTCONDITION Accepted
