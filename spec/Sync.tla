--------------------------------- MODULE Sync ---------------------------------
(***************************************************************************)
(* The two sans-IO state machines behind `rad sync`                        *)
(* (crates/radicle/src/node/sync.rs, sync/announce.rs, sync/fetch.rs):     *)
(*                                                                         *)
(*   Announcer -- waits for seeds to acknowledge an announcement;          *)
(*   Fetcher   -- hands out candidate seeds to connect to and fetch from.  *)
(*                                                                         *)
(* Each machine is one variable holding a record; every public method is   *)
(* a pure step function  <Method>F(state, args) -> [next, ret]  transcribed *)
(* from the code, wrapped by a named action.  The step functions are what  *)
(* the harness replays, call by call, against the real types.              *)
(*                                                                         *)
(* Property C25 is stated DECLARATIVELY over ghost fields that only record *)
(* what the environment did (`acked`: which non-local nodes acknowledged;  *)
(* `first`: the first result reported for each non-local node) and over    *)
(* the configuration handed to the constructor -- see AnTargetMet and      *)
(* FeTargetMet -- and checked as invariants against the return values of   *)
(* the transcribed methods (`last`).                                       *)
(*                                                                         *)
(* Reading of "target" (DESIGN.md section 5): the replica count to reach   *)
(* is the lower bound of a MustReach factor and the UPPER bound of a       *)
(* Range, after the constructor clamps it to the number of nodes that can  *)
(* still contribute; announcer: all preferred seeds AND the count;         *)
(* fetcher: all preferred seeds (if any) OR the count.                     *)
(***************************************************************************)
EXTENDS Integers, FiniteSets, Sequences, SequencesExt, TLC

CONSTANTS Node,             \* node ids (integers)
          Local,            \* the local node, a member of Node
          AnCfgDomain,      \* announcer configurations considered by AnNewSound
          AnnouncerOriginal,\* TRUE: `synced_with(local)` answers Continue without looking at the target
          FetcherOriginal   \* TRUE: the Fetcher before the fix (finding C25): counts every pushed
                            \* result, including the local node's and repeated ones

None == -1
Min2(a, b) == IF a < b THEN a ELSE b
Max2(a, b) == IF a > b THEN a ELSE b
Asc(S) == SetToSortSeq(S, LAMBDA a, b : a < b)

-----------------------------------------------------------------------------
\* sync.rs: ReplicationFactor

Must(n)      == [kind |-> "must", lo |-> n, hi |-> None]
RangeRF(l, u) == [kind |-> "range", lo |-> l, hi |-> u]
\* `ReplicationFactor::range`: degenerates to MustReach(lower) when lower >= upper
RFrange(l, u) == IF l >= u THEN Must(l) ELSE RangeRF(l, u)
\* `ReplicationFactor::min`
RFmin(rf, new) == IF rf.kind = "must" THEN Must(Min2(rf.lo, new)) ELSE RFrange(rf.lo, Min2(rf.hi, new))
\* the count that has to be reached before the machines report success
Bound(rf) == IF rf.hi = None THEN rf.lo ELSE rf.hi

-----------------------------------------------------------------------------
\* announce.rs: Announcer
\*
\* state: [st: "idle" | "active" | "done", cfg, pref, rf, synced: node -> "already" | "synced",
\*         toSync, acked (ghost)]

VARIABLE an

AnIdle == [st |-> "idle"]
AnRefused(cfg) == [st |-> "refused", cfg |-> cfg]
AnDone == [st |-> "done"]

AnCounts(a) == [preferred |-> Cardinality(DOMAIN a.synced \cap a.pref),
                synced    |-> Cardinality(DOMAIN a.synced)]

\* `is_target_reached`: "min" / "max" outcome or "no"
AnReached(a) ==
    LET c == AnCounts(a)
        reachedPref == a.pref = {} \/ c.preferred >= Cardinality(a.pref)
    IN IF a.rf.hi = None
       THEN (IF reachedPref /\ c.synced >= a.rf.lo THEN "min" ELSE "no")
       ELSE (IF reachedPref /\ c.synced >= a.rf.hi THEN "max" ELSE "no")

\* `progress`
AnProgress(a) ==
    LET c == AnCounts(a)
    IN <<c.preferred, c.synced, Max2(0, Cardinality(a.toSync) - c.synced)>>   \* preferred, synced, unsynced

\* `to_sync()`
AnToSync(a) == a.toSync \ {Local}

\* `Announcer::new(config)`; cfg = [pref, synced, unsynced, rf]
AnNewF(cfg) ==
    LET pref == cfg.pref \ {Local}
        syn  == cfg.synced \ {Local}
        uns  == cfg.unsynced \ {Local}
    IN IF syn = {} /\ uns = {} THEN [next |-> AnRefused(cfg), ret |-> [k |-> "NoSeeds"]]
       ELSE IF uns = {}
       THEN [next |-> AnRefused(cfg), ret |-> [k |-> "AlreadySynced", preferred |-> Cardinality(syn \cap pref),
                                        synced |-> Cardinality(syn)]]
       ELSE LET uns2 == uns \cup (pref \ syn)
                rf2  == RFmin(cfg.rf, Cardinality(uns2))
            IN IF rf2.lo = 0 /\ pref = {} THEN [next |-> AnRefused(cfg), ret |-> [k |-> "Target"]]
               ELSE LET a == [st |-> "active", cfg |-> cfg, pref |-> pref, rf |-> rf2,
                              synced |-> [n \in syn |-> "already"], toSync |-> uns2, acked |-> syn]
                    IN IF AnReached(a) # "no"
                       THEN [next |-> AnRefused(cfg), ret |-> [k |-> "AlreadySynced", preferred |-> AnCounts(a).preferred,
                                                        synced |-> AnCounts(a).synced]]
                       ELSE [next |-> a, ret |-> [k |-> "Ok", pref |-> pref, rf |-> rf2]]

AnAlready(a) == {n \in DOMAIN a.synced : a.synced[n] = "already"}
\* `finished`
AnFinished(a) ==
    IF AnReached(a) = "no" THEN [k |-> "continue", progress |-> AnProgress(a)]
    ELSE [k |-> "break", outcome |-> AnReached(a), preferred |-> AnCounts(a).preferred,
          synced |-> AnCounts(a).synced, nodes |-> DOMAIN a.synced, already |-> AnAlready(a)]

\* `synced_with(node, _)`
AnSyncedWithF(a, n) ==
    IF n = Local
    THEN [next |-> a, ret |-> IF AnnouncerOriginal THEN [k |-> "continue", progress |-> AnProgress(a)]
                              ELSE AnFinished(a)]
    ELSE LET a2 == [a EXCEPT !.toSync = @ \ {n},
                             !.synced = [x \in DOMAIN a.synced \cup {n} |-> IF x = n THEN "synced" ELSE a.synced[x]],
                             !.acked = @ \cup {n}]
         IN [next |-> a2, ret |-> AnFinished(a2)]

\* `timed_out()` (consumes the announcer)
AnTimedOutF(a) ==
    [next |-> AnDone,
     ret |-> IF AnReached(a) = "no"
             THEN [k |-> "TimedOut", nodes |-> DOMAIN a.synced, already |-> AnAlready(a), timed_out |-> a.toSync]
             ELSE [k |-> "Success", outcome |-> AnReached(a), preferred |-> AnCounts(a).preferred,
                   synced |-> AnCounts(a).synced, nodes |-> DOMAIN a.synced, already |-> AnAlready(a)]]

\* `can_continue()` (consumes the announcer when there is nothing left to wait for)
AnCanContinueF(a) ==
    IF a.toSync = {} THEN [next |-> AnDone, ret |-> [k |-> "NoNodes", nodes |-> DOMAIN a.synced, already |-> AnAlready(a)]]
    ELSE [next |-> a, ret |-> [k |-> "continue"]]

\* --- C25 for the announcer, declaratively, from the configuration and the acknowledgements only
AnPrefTarget(cfg) == cfg.pref \ {Local}
AnCanStillSync(cfg) == (cfg.unsynced \ {Local}) \cup (AnPrefTarget(cfg) \ (cfg.synced \ {Local}))
AnReplicaTarget(cfg) == Bound(RFmin(cfg.rf, Cardinality(AnCanStillSync(cfg))))
AnTargetMet(cfg, acked) ==
    /\ AnPrefTarget(cfg) \subseteq acked                      \* every preferred seed
    /\ Cardinality(acked) >= AnReplicaTarget(cfg)            \* and the replica count

-----------------------------------------------------------------------------
\* fetch.rs: Fetcher
\*
\* state: [st, cfg, seeds, rf, cands: Seq(node), ready: Seq(node), results: Seq(<<node, ok>>),
\*         first (ghost): node -> BOOLEAN]

VARIABLE fe

FeIdle == [st |-> "idle"]
FeRefused(cfg) == [st |-> "refused", cfg |-> cfg]
FeDone == [st |-> "done"]

FeHasResult(f, n) == \E i \in DOMAIN f.results : f.results[i][1] = n
\* `include_node`
FeInclude(f, n) == ~FeHasResult(f, n) /\ n # Local
\* `FetchResults::get`: the first entry of a node
FeFirstOk(f, n) == LET i == CHOOSE i \in DOMAIN f.results :
                               f.results[i][1] = n /\ \A j \in 1..(i-1) : f.results[j][1] # n
                   IN f.results[i][2]

FeCounts(f) ==
    LET okIdx == {i \in DOMAIN f.results : f.results[i][2]}
    IN [succeeded |-> Cardinality(okIdx),
        preferred |-> Cardinality({i \in okIdx : f.results[i][1] \in f.seeds}),
        failed    |-> Cardinality(DOMAIN f.results \ okIdx)]

\* candidate, succeeded, failed, preferred
FeProgress(f) == <<Len(f.cands), FeCounts(f).succeeded, FeCounts(f).failed, FeCounts(f).preferred>>

\* `is_target_reached`
FeReached(f) ==
    LET c == FeCounts(f) IN
    IF f.seeds # {} /\ c.preferred >= Cardinality(f.seeds) THEN "preferred"
    ELSE IF f.rf.hi = None THEN (IF c.succeeded >= f.rf.lo THEN "min" ELSE "no")
    ELSE (IF c.succeeded >= f.rf.hi THEN "max" ELSE "no")

\* `Fetcher::new(FetcherConfig::public(seeds, rf, local).with_candidates(extra))`
\* cfg = [seeds, rf, extra: Seq(node)]
FeNewF(cfg) ==
    LET cands == Asc(cfg.seeds \ {Local}) \o SelectSeq(cfg.extra, LAMBDA n : n # Local)
    IN IF cands = <<>> THEN [next |-> FeRefused(cfg), ret |-> [k |-> "NoCandidates"]]
       ELSE LET rf2 == RFmin(cfg.rf, Len(cands))
                seeds == cfg.seeds    \* N.b. the local node stays in the target if it was given as a seed
            IN IF rf2.lo = 0 /\ seeds = {} THEN [next |-> FeRefused(cfg), ret |-> [k |-> "Target"]]
               ELSE [next |-> [st |-> "active", cfg |-> cfg, seeds |-> seeds, rf |-> rf2, cands |-> cands,
                               ready |-> <<>>, results |-> <<>>, first |-> <<>>],
                     ret |-> [k |-> "Ok", seeds |-> seeds, rf |-> rf2]]

\* `next_node()`: pop candidates until one is neither local nor has a result
RECURSIVE FePop(_, _)
FePop(f, cands) ==
    IF cands = <<>> THEN [next |-> [f EXCEPT !.cands = <<>>], ret |-> None]
    ELSE IF FeInclude(f, Head(cands)) THEN [next |-> [f EXCEPT !.cands = Tail(cands)], ret |-> Head(cands)]
    ELSE FePop(f, Tail(cands))
FeNextNodeF(f) == FePop(f, f.cands)

\* `ready_to_fetch(node, addr)`
FeReadyF(f, n) == [next |-> [f EXCEPT !.ready = Append(@, n)], ret |-> None]

\* `next_fetch()`: pops ONE entry; it is dropped (and None returned) when it must not be handed out
FeNextFetchF(f) ==
    IF f.ready = <<>> THEN [next |-> f, ret |-> None]
    ELSE [next |-> [f EXCEPT !.ready = Tail(@)],
          ret |-> IF FeInclude(f, Head(f.ready)) THEN Head(f.ready) ELSE None]

\* recording a result: the fixed code ignores the local node and nodes that already have one
FeRecord(f, n, ok) ==
    LET counted == FetcherOriginal \/ FeInclude(f, n)
        f1 == IF counted THEN [f EXCEPT !.results = Append(@, <<n, ok>>)] ELSE f
    IN \* ghost: first result per non-local node, whatever the code does with it
       IF n # Local /\ n \notin DOMAIN f.first
       THEN [f1 EXCEPT !.first = [x \in DOMAIN f.first \cup {n} |-> IF x = n THEN ok ELSE f.first[x]]]
       ELSE f1

\* `fetch_failed(node, reason)`
FeFailedF(f, n) == [next |-> FeRecord(f, n, FALSE), ret |-> None]

\* `fetch_complete(node, result)`
FeCompleteF(f, n, ok) ==
    LET f2 == FeRecord(f, n, ok)
    IN [next |-> f2,
        ret |-> IF FeReached(f2) = "no" THEN [k |-> "continue", progress |-> FeProgress(f2)]
                ELSE [k |-> "break", outcome |-> FeReached(f2), progress |-> FeProgress(f2)]]

\* `finish()` (consumes the fetcher)
FeMissing(f) == {n \in f.seeds : ~FeHasResult(f, n) \/ ~FeFirstOk(f, n)}
FeFinishF(f) ==
    [next |-> FeDone,
     ret |-> IF FeReached(f) = "no"
             THEN [k |-> "TargetError", progress |-> FeProgress(f), missed |-> FeMissing(f),
                   required |-> Max2(0, f.rf.lo - FeCounts(f).succeeded)]
             ELSE [k |-> "TargetReached", outcome |-> FeReached(f), progress |-> FeProgress(f)]]

\* --- C25 for the fetcher, declaratively
FeSucceeded(first) == {n \in DOMAIN first : first[n]}
\* The preferred seeds are taken as configured. If the local node is among them (it is for private
\* repositories, where the allowed set contains it) this part of the target can never be met,
\* because the local node is never fetched from nor counted; the replica count then decides.
FePrefTarget(cfg) == cfg.seeds
FeCandidates(cfg) == Asc(cfg.seeds \ {Local}) \o SelectSeq(cfg.extra, LAMBDA n : n # Local)
FeReplicaTarget(cfg) == Bound(RFmin(cfg.rf, Len(FeCandidates(cfg))))
FeTargetMet(cfg, first) ==
    \/ FePrefTarget(cfg) # {} /\ FePrefTarget(cfg) \subseteq FeSucceeded(first)   \* every preferred seed
    \/ Cardinality(FeSucceeded(first)) >= FeReplicaTarget(cfg)                    \* or the replica count

-----------------------------------------------------------------------------
\* State machine. `last` = the call just made and what it returned.

VARIABLE last
vars == <<an, fe, last>>

Call(op, arg, ok, ret) == <<op, arg, ok, ret>>

AnnouncerNew(cfg) == /\ an.st = "idle" /\ last[1] = "init"
                     /\ an' = AnNewF(cfg).next /\ last' = Call("new", cfg, TRUE, AnNewF(cfg).ret)
                     /\ UNCHANGED fe
SyncedWith(n)  == /\ an.st = "active"
                  /\ an' = AnSyncedWithF(an, n).next /\ last' = Call("synced_with", n, TRUE, AnSyncedWithF(an, n).ret)
                  /\ UNCHANGED fe
TimedOut       == /\ an.st = "active"
                  /\ an' = AnTimedOutF(an).next /\ last' = Call("timed_out", None, TRUE, AnTimedOutF(an).ret)
                  /\ UNCHANGED fe
CanContinue    == /\ an.st = "active"
                  /\ an' = AnCanContinueF(an).next /\ last' = Call("can_continue", None, TRUE, AnCanContinueF(an).ret)
                  /\ UNCHANGED fe

FetcherNew(cfg) == /\ fe.st = "idle" /\ last[1] = "init"
                   /\ fe' = FeNewF(cfg).next /\ last' = Call("new", cfg, TRUE, FeNewF(cfg).ret)
                   /\ UNCHANGED an
NextNode       == /\ fe.st = "active"
                  /\ fe' = FeNextNodeF(fe).next /\ last' = Call("next_node", None, TRUE, FeNextNodeF(fe).ret)
                  /\ UNCHANGED an
ReadyToFetch(n) == /\ fe.st = "active"
                   /\ fe' = FeReadyF(fe, n).next /\ last' = Call("ready_to_fetch", n, TRUE, None)
                   /\ UNCHANGED an
NextFetch      == /\ fe.st = "active"
                  /\ fe' = FeNextFetchF(fe).next /\ last' = Call("next_fetch", None, TRUE, FeNextFetchF(fe).ret)
                  /\ UNCHANGED an
FetchFailed(n) == /\ fe.st = "active"
                  /\ fe' = FeFailedF(fe, n).next /\ last' = Call("fetch_failed", n, FALSE, None)
                  /\ UNCHANGED an
FetchComplete(n, ok) == /\ fe.st = "active"
                        /\ fe' = FeCompleteF(fe, n, ok).next
                        /\ last' = Call("fetch_complete", n, ok, FeCompleteF(fe, n, ok).ret)
                        /\ UNCHANGED an
Finish         == /\ fe.st = "active"
                  /\ fe' = FeFinishF(fe).next /\ last' = Call("finish", None, TRUE, FeFinishF(fe).ret)
                  /\ UNCHANGED an

-----------------------------------------------------------------------------
\* Invariants (C25).  The step functions are pure, so "whatever call comes next returns the right
\* thing" is a state predicate: each invariant quantifies over every call enabled in the state.

\* Announcer: success is reported exactly when the declarative target is met.
AnSuccessIffTarget ==
    an.st = "active" =>
      /\ \A n \in Node : LET r == AnSyncedWithF(an, n)
                         IN (r.ret.k = "break") <=> AnTargetMet(r.next.cfg, r.next.acked)
      /\ LET r == AnTimedOutF(an)
         IN /\ r.ret.k \in {"Success", "TimedOut"}
            /\ (r.ret.k = "Success") <=> AnTargetMet(an.cfg, an.acked)
\* a freshly constructed announcer has not yet met its target (one that would have is refused)
AnNewSound == last[1] = "init" => \A cfg \in AnCfgDomain : AnNewF(cfg).ret.k = "Ok" => ~AnTargetMet(cfg, AnNewF(cfg).next.acked)
\* the local node is never counted nor handed out; what is counted is exactly what acknowledged
AnNeverLocal ==
    an.st = "active" =>
      /\ Local \notin DOMAIN an.synced
      /\ Local \notin AnToSync(an)
      /\ DOMAIN an.synced = an.acked
      /\ AnCounts(an).synced = Cardinality(an.acked)
      /\ AnCounts(an).preferred = Cardinality(an.acked \cap AnPrefTarget(an.cfg))
\* NoNodes is only reported when nobody is left to wait for
AnNoNodesSound == an.st = "active" /\ AnCanContinueF(an).ret.k = "NoNodes" => AnToSync(an) = {}

\* Fetcher: success is reported exactly when the declarative target is met.
FeSuccessIffTarget ==
    fe.st = "active" =>
      /\ \A n \in Node, ok \in BOOLEAN :
            LET r == FeCompleteF(fe, n, ok)
            IN (r.ret.k = "break") <=> FeTargetMet(r.next.cfg, r.next.first)
      /\ (FeFinishF(fe).ret.k = "TargetReached") <=> FeTargetMet(fe.cfg, fe.first)
\* never hands out the local node or a node that already has a result
FeHandsOutSound ==
    fe.st = "active" =>
      \A r \in {FeNextNodeF(fe), FeNextFetchF(fe)} :
         r.ret # None => /\ r.ret # Local
                         /\ r.ret \notin DOMAIN fe.first
                         /\ ~FeHasResult(fe, r.ret)
\* the local node and repeated results are never counted
FeCountsSound ==
    fe.st = "active" =>
      /\ FeCounts(fe).succeeded = Cardinality(FeSucceeded(fe.first))
      /\ FeCounts(fe).failed = Cardinality(DOMAIN fe.first \ FeSucceeded(fe.first))
      /\ FeCounts(fe).preferred = Cardinality(FeSucceeded(fe.first) \cap FePrefTarget(fe.cfg))
      /\ \A i \in DOMAIN fe.results : fe.results[i][1] # Local
=============================================================================
