"""Generates the MCTracker_*.cfg files (kept in git; rerun after changing an instance): python3 gen_tracker_cfgs.py"""
import sys
base = dict(Actor="<- A4", Doc="= {1, 2}", Delegates="<- Dlg2", Threshold="<- Thr2", LabelSets="<- LS2", AssignSets="<- AS2",
    Titles="= {0, 1}", Bodies="= {0}", VerdictVals="= {0, 1}", SummaryVals="= {0}", Commit="<- C2", Anc="<- Anc2",
    Kinds="<- IssueKinds", FanKinds="<- IssueKinds", Creators="<- A4", MaxC="= 2", MaxE="= 1", MaxR="= 1", MaxRC="= 0", MaxV="= 0", MaxVC="= 0",
    Reactors="= {}", HeadInits="<- H0", Pushers="= {}", Variant='= "code"', Emit="= TRUE")
TAIL = """INIT Init
NEXT Next
VIEW View
INVARIANTS TypeOK IssueWF PatchWF C08_Merged EmitInv
PROPERTIES C07_Issue C07_Patch C07_PatchExtra C08_Step RejectedNoEffect Frame
"""
def w(name, tail=None, **over):
    d = dict(base); d.update(over)
    with open(f"MCTracker_{name}.cfg", "w") as f:
        f.write("CONSTANTS\n")
        for k, v in d.items():
            f.write(f"  {k} {v}\n")
        f.write(tail or TAIL)

def dev(name, check, **over):
    """deliberately wrong variant: TLC must report `check`"""
    kind = "INVARIANTS" if check.startswith("X08") else "PROPERTIES"
    w("dev_" + name, tail=f"INIT Init\nNEXT Next\nVIEW View\n{kind} {check}\n", Emit="= FALSE", **over)
full = dict(Titles="= {0, 1, 9}", Bodies="= {0, 1}", VerdictVals="= {0, 1, 2}", SummaryVals="= {0, 1}")
# quick
w("issue_q")
w("meta_q", Kinds="<- MetaKinds", FanKinds="<- MetaKinds", MaxR="= 2")
w("disc_q", Kinds="<- DiscKinds", FanKinds="<- DiscKinds", MaxR="= 2", MaxRC="= 1")
w("review_q", Kinds="<- ReviewKindsQ", FanKinds="<- ReviewKindsQ", MaxR="= 2", MaxV="= 1", MaxVC="= 1", Creators="= {2}")
w("merge_q", Doc="= {1, 2}", Delegates="<- Dlg3b", Threshold="<- Thr3b", Commit="<- C3", Anc="<- Anc3", Kinds="<- MergeKinds",
  FanKinds="<- MergeFan", MaxR="= 2", HeadInits="<- HMerge", Creators="= {4}")
# thorough
w("issue_t", MaxE="= 2", LabelSets="<- LS3", **full)
w("meta_t", Kinds="<- MetaKinds", FanKinds="<- MetaKinds", MaxR="= 2", MaxE="= 2", LabelSets="<- LS3", **full)
w("disc_t", Kinds="<- DiscKinds", FanKinds="<- DiscKinds", MaxR="= 2", MaxRC="= 2", **full)
w("review_t", Kinds="<- ReviewKinds", FanKinds="<- ReviewKinds", MaxR="= 2", MaxV="= 1", MaxVC="= 1", MaxE="= 1", Creators="= {2, 4}",
  Titles="= {0, 1, 9}", Bodies="= {0}", VerdictVals="= {0, 1, 2}", SummaryVals="= {0, 1}")
w("merge_t", Doc="= {1, 2, 3}", Delegates="<- Dlg3", Threshold="<- Thr3", Commit="<- C2", Anc="<- Anc2", Kinds="<- MergeKinds",
  FanKinds="<- MergeFan", MaxR="= 2", HeadInits="<- HMerge", Pushers="= {3}", Creators="= {4}", **full)

# deliberately wrong variants (sanity: the properties can fail)
META = dict(Kinds="<- MetaKinds", FanKinds="<- MetaKinds", MaxR="= 2")
MERGE = dict(Doc="= {1, 2}", Delegates="<- Dlg3b", Threshold="<- Thr3b", Commit="<- C3", Anc="<- Anc3", Kinds="<- MergeKinds",
             FanKinds="<- MergeFan", MaxR="= 2", HeadInits="<- HMerge", Creators="= {4}")
dev("ilabel", "C07_Issue", Variant='= "labelAnyone"')
dev("iredact", "C07_Issue", Variant='= "redactAnyone"')
dev("plabel", "C07_Patch", Variant='= "labelAnyone"', **META)
dev("passign", "C07_Patch", Variant='= "assignAnyone"', **META)
dev("mergeany", "C08_Step", Variant='= "mergeAnyone"', **MERGE)
dev("count", "C08_Step", Variant='= "countPerRevision"', **MERGE)
dev("thr", "C08_Step", Variant='= "thresholdMinusOne"', **MERGE)
dev("lifecycle", "C08_Step", Variant='= "lifecycleUnguarded"', **MERGE)
dev("mergedlive", "X08_MergedRevisionLive", **MERGE)
