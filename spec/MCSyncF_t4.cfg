CONSTANTS
  Node = {0, 1, 2, 3}
  Local = 0
  FetcherOriginal = FALSE
  AnnouncerOriginal = FALSE
  AnCfgDomain = {}
  Mode = "fetcher"
  MaxR = 3
  MaxExtra = 1
  MaxReady = 0
  MaxResults = 9
  DegenerateRanges = FALSE
  EmitCases = FALSE
INIT Init
NEXT Next
VIEW View
INVARIANTS FeSuccessIffTarget FeHandsOutSound FeCountsSound EmitInv
