\* gating invariants first, then the drift ones (Shape, FuncAgrees: stricter than C26, informational)
CONSTANTS
  Orig = FALSE
  GW <- TGW
  GB <- TGB
  GWs <- TGWs
  Lines <- None
  Widths <- None
  Delims <- None
INIT TInit
NEXT TNext
INVARIANTS NoPanic NoHang WidthBound Shape FuncAgrees
POSTCONDITION Accepted
