CONSTANTS
  Local = "L"
  MaxOps = 3
  Variant = "and"
  Node <- MCNode
  Delegates <- MCDelegates
  NsStates <- MCNsStates
INIT Init
NEXT Next
INVARIANTS OnlyStrangersRemoved
