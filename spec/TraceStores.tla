---------------------------- MODULE TraceStores ----------------------------
(* Validates call sequences recorded from the real stores (random, longer, over larger universes *)
(* than the bounded model: one record {w, op, ret, st} per call, `reset` records between runs)   *)
(* against Stores: every recorded call must be a step of the module - some outcome the method's  *)
(* operator allows must have the recorded return value and the recorded tables - and the action  *)
(* properties of C24 are checked on every such step.                                             *)
EXTENDS MCStores, IOUtils

Rec == ndJsonDeserialize(IOEnv.TRACE)

VARIABLE l
tvars == <<w, st, hist, last, l>>

Seen(r) == [nodes |-> ToSet(r.st.nodes), rows |-> ToSet(r.st.rows)]

TInit == l = 1 /\ w = "routing" /\ st = Empty /\ hist = <<>> /\ last = [op |-> <<"init">>, ret |-> 0]
TNext == /\ l <= Len(Rec)
         /\ l' = l + 1
         /\ hist' = <<>>
         /\ LET r == Rec[l] IN
            IF r.op[1] = "reset"
            THEN w' = r.w /\ st' = Empty /\ last' = [op |-> <<"reset">>, ret |-> 0]
            ELSE /\ w' = w /\ r.w = w
                 /\ r.problems = <<>>                      \* the store's read methods agreed with each other
                 /\ \E o \in Outcomes(st, r.op) :
                        /\ ToJson(o.ret) = ToJson(r.ret)
                        /\ Dump(o.s, w) = Seen(r)
                        /\ st' = o.s
                        /\ last' = [op |-> r.op, ret |-> o.ret]
TSpec == TInit /\ [][TNext]_tvars

Accepted ==
    IF TLCGet("stats").diameter - 1 = Len(Rec)
    THEN PrintT("TRACE-ACCEPTED")
    ELSE PrintT("TRACE-REJECTED at=" \o ToString(TLCGet("stats").diameter))
=============================================================================
