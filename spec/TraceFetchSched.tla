--------------------------- MODULE TraceFetchSched ---------------------------
(***************************************************************************)
(* Observer for executions recorded from the real `Service` (fetch         *)
(* scheduling).  The harness plays the worker pool: each `Io::Fetch` the    *)
(* service emits is a task with a ghost id; "done" steps complete a task    *)
(* (forwarded to Service::fetched under the rule of Wire::worker_result).   *)
(* From the recorded observations (emitted fetches, the service's fetch     *)
(* table, per-session fetching sets and queue lengths) this module rebuilds *)
(* the ghost state of FetchSched.tla -- which tasks are live, which task    *)
(* each table entry stands for -- and evaluates C16's clauses at every      *)
(* step:                                                                    *)
(*   C16_OneLive      a fetch of r is started only when no live fetch of r  *)
(*   C16_Attribution  a result is applied only to the table entry of its    *)
(*                    own task                                              *)
(*   C16_Capacity     per-session fetching set <= fetch_concurrency, queue  *)
(*                    <= MAX_FETCH_QUEUE_SIZE                               *)
(*   C16_Panic        no step panics                                        *)
(***************************************************************************)
EXTENDS Integers, Sequences, FiniteSets, TLC, Json, IOUtils, SequencesExt, FiniteSetsExt

Rec == ndJsonDeserialize(IOEnv.TRACE)

VARIABLES l, tasks, live, cur, table, capacity, queuemax, stolen, nviol
vars == <<l, tasks, live, cur, table, capacity, queuemax, stolen, nviol>>
\* stolen : gid -> "same-peer" | "other-peer": live tasks whose table entry was consumed by another task's late result
\* tasks : gid -> [repo, peer];  live : set of gids;  cur : repo -> gid of the task the table entry
\* for that repo stands for (absent when there is no entry);  table : set of <<repo, from>>

Get(f, k, d) == IF k \in DOMAIN f THEN f[k] ELSE d

\* fold the fetches emitted by a step, in order, over (tasks, live, cur), collecting violations
RECURSIVE Emit(_, _, _, _, _, _)
Emit(fs, t, lv, cu, vs, stl) ==
    IF fs = <<>> THEN [tasks |-> t, live |-> lv, cur |-> cu, viol |-> vs]
    ELSE LET f == Head(fs)
             g == f[1]
             r == f[2]
             p == f[3]
             clash == {h \in lv : t[h].repo = r}
             v == IF clash = {} THEN {}
                  ELSE {[c |-> "C16_OneLive", gid |-> g, other |-> CHOOSE h \in clash : TRUE,
                         why |-> IF \E h \in clash : h \in DOMAIN stl
                                 THEN "victim-of-late-result/" \o stl[CHOOSE h \in clash : h \in DOMAIN stl]
                                 ELSE IF \E h \in clash : t[h].peer = p THEN "same-peer" ELSE "other-peer"]}
         IN Emit(Tail(fs), (g :> [repo |-> r, peer |-> p]) @@ t, lv \cup {g}, (r :> g) @@ cu, vs \cup v, stl)

Init == l = 1 /\ tasks = <<>> /\ live = {} /\ cur = <<>> /\ table = {} /\ capacity = 1 /\ queuemax = 128 /\ stolen = <<>> /\ nviol = 0

Reset ==
    /\ Rec[l].ev = "init"
    /\ tasks' = <<>> /\ live' = {} /\ cur' = <<>> /\ table' = {} /\ stolen' = <<>>
    /\ capacity' = Rec[l].capacity /\ queuemax' = Rec[l].queuemax
    /\ UNCHANGED nviol

Step ==
    /\ Rec[l].ev = "step"
    /\ LET o == Rec[l]
           name == o.op[1]
           newTable == {<<x[1], x[2]>> : x \in ToSet(o.table)}
           \* tasks that stop being live before anything new is started in this step
           \* (a peer disconnects by an explicit step, or because the node dropped it in this step:
           \* `disc` lists the peers whose disconnection the step caused)
           gone == (IF name = "disconnect" THEN {g \in live : tasks[g].peer = o.op[2]}
                    ELSE IF name = "done" /\ o.op[2] \in DOMAIN tasks THEN {o.op[2]}
                    ELSE {})
                   \cup {g \in live : tasks[g].peer \in ToSet(o.disc)}
           \* was the result of a "done" step applied to the table entry of its repository?
           g == IF name = "done" THEN o.op[2] ELSE 0
           known == g \in DOMAIN tasks
           r == IF known THEN tasks[g].repo ELSE 0
           hadEntry == known /\ \E e \in table : e[1] = r
           reEmitted == known /\ \E f \in ToSet(o.fetches) : f[2] = r
           appliedNow == /\ name = "done" /\ known /\ o.info.forwarded /\ hadEntry
                         /\ ((~\E e \in newTable : e[1] = r) \/ reEmitted)
           h == IF known THEN Get(cur, r, 0) ELSE 0
           attrViol == IF appliedNow /\ h # g
                       THEN {[c |-> "C16_Attribution", gid |-> g, other |-> h,
                              why |-> IF h \in DOMAIN tasks /\ tasks[h].peer = tasks[g].peer THEN "same-peer" ELSE "other-peer"]}
                       ELSE {}
           \* the entry's own task completing, or its peer disconnecting, clears `cur`
           cur1 == [x \in {y \in DOMAIN cur : \E e \in newTable : e[1] = y} |-> cur[x]]
           stolen1 == IF attrViol # {} /\ h # 0
                      THEN (h :> (IF tasks[h].peer = tasks[g].peer THEN "same-peer" ELSE "other-peer")) @@ stolen
                      ELSE stolen
           E == Emit(o.fetches, tasks, live \ gone, cur1, {}, stolen1)
           capViol == {[c |-> "C16_Capacity", gid |-> s[1], other |-> Len(s[3]),
                        why |-> IF Len(s[3]) > capacity THEN "fetching-set" ELSE "queue"] :
                          s \in {x \in ToSet(o.sess) : Len(x[3]) > capacity \/ x[4] > queuemax}}
           panicViol == IF o.panic # "" THEN {[c |-> "C16_Panic", gid |-> g, other |-> 0, why |-> name \o ": " \o o.panic]} ELSE {}
           V == attrViol \cup E.viol \cup capViol \cup panicViol
       IN /\ (V # {} => PrintT(<<"CASE", ToJson([at |-> l, op |-> o.op, viol |-> V])>>))
          /\ nviol' = nviol + Cardinality(V)
          /\ tasks' = E.tasks
          /\ live' = E.live
          /\ cur' = E.cur
          /\ table' = newTable
          /\ stolen' = stolen1
    /\ UNCHANGED <<capacity, queuemax>>

Next == l <= Len(Rec) /\ l' = l + 1 /\ (Reset \/ Step)

Accepted ==
    IF TLCGet("stats").diameter - 1 = Len(Rec)
    THEN PrintT("TRACE-ACCEPTED")
    ELSE PrintT("TRACE-REJECTED at=" \o ToString(TLCGet("stats").diameter))
=============================================================================
