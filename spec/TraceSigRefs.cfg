CONSTANTS
  NN = 10
  Root = 6
  NO = 6
  Keys = {1, 2}
  Signers = {1}
  MaxMuts = 3
  SignedMayHoldZero = TRUE
  Variant = "spec"
INIT TInit
NEXT TNext
INVARIANTS StateWellFormed AnswerMatches RoundTrip AcceptedIsSigned BindsExactly HonestAccepted AcceptedWellFormed 
POSTCONDITION Accepted_
