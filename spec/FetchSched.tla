----------------------------- MODULE FetchSched -----------------------------
(***************************************************************************)
(* Fetch scheduling of radicle-node: the `Service` half (service.rs:        *)
(* _fetch / try_fetch / queue_fetch / fetched / dequeue_fetches /           *)
(* disconnected, session.rs: fetching set, queue, capacity) composed with   *)
(* the worker pool and the gate of `Wire::worker_result` (wire/protocol.rs).*)
(*                                                                         *)
(* The worker pool is the source of concurrency: a fetch task started by   *)
(* `Io::Fetch` completes at an arbitrary later time (TaskDone), possibly    *)
(* after its peer disconnected and reconnected.  Tasks carry a ghost id     *)
(* (the code has none: results are matched by repository and peer id).      *)
(*                                                                         *)
(* Actions = the service's entry points:                                    *)
(*   Attempt(p) / Connect(p) / Disconnect(p) / Retry(p)                       *)
(*                                Service::attempted / connected /            *)
(*                                disconnected / maintain_persistent          *)
(*   FetchCmd(r, p), AnnFetch     Command::Fetch / inventory announcement     *)
(*   TaskDone(g)                  worker result -> Wire gate -> fetched()    *)
(*   Idle                         wake(): dequeue_fetches                    *)
(* dequeue_fetches visits the sessions in a shuffled order: the model       *)
(* chooses the order nondeterministically.                                  *)
(*                                                                         *)
(* Deviation (known finding, CONSTANT Dev):                                  *)
(*   "late-same-peer"  a late result of an abandoned fetch from peer p is   *)
(*                     taken for the result of a NEW fetch of the same      *)
(*                     repository from the same (reconnected) peer p.        *)
(*   "late-any-peer"   (original code, fixed) ... from any peer.             *)
(***************************************************************************)
EXTENDS Integers, FiniteSets, Sequences, TLC

CONSTANTS Peer, Repo,
          Persistent,    \* peers we dial ourselves and keep a session for while disconnected
          Capacity,      \* limits.fetch_concurrency
          QueueMax,      \* MAX_FETCH_QUEUE_SIZE
          MaxTasks,      \* bound: number of Io::Fetch emitted
          MaxOps,        \* bound: behaviour length
          Dev

VARIABLES
    st,         \* [Peer -> session state]: "none" (no session), "initial", "attempted",
                \* "connected", "disconnected" (session::State)
    sfetch,     \* [Peer -> SUBSET Repo]   per-session fetching set
    queue,      \* [Peer -> Seq(Repo)]     per-session fetch queue
    fetching,   \* [Repo -> 0 | [from, gid]]  Service::fetching (gid is ghost)
    tasks,      \* [1..n -> [repo, peer, st]]  st \in {"running","done"}
    live,       \* ghost: tasks the service started and that were neither completed nor abandoned
    applied,    \* ghost: last step applied result of task g to the entry of task h: <<g, h>> or <<>>
    hist

vars == <<st, sfetch, queue, fetching, tasks, live, applied, hist>>
view == <<st, sfetch, queue, fetching, tasks, live, applied>>

conn == {p \in Peer : st[p] = "connected"}      \* connected sessions
sessions == {p \in Peer : st[p] # "none"}       \* peers that have a session at all

NoFetch == [from |-> 0, gid |-> 0]

Init ==
    \* initialize() dials the configured (persistent) peers
    /\ st = [p \in Peer |-> IF p \in Persistent THEN "initial" ELSE "none"]
    /\ sfetch = [p \in Peer |-> {}] /\ queue = [p \in Peer |-> <<>>]
    /\ fetching = [r \in Repo |-> NoFetch] /\ tasks = <<>> /\ live = {} /\ applied = <<>> /\ hist = <<>>

\* MaxOps = 0: behaviours are not bounded and no history is kept (used for the liveness instance)
Log(op) == IF MaxOps = 0 THEN UNCHANGED hist ELSE Len(hist) < MaxOps /\ hist' = Append(hist, op)

\* ---- the service's internal steps, as functions on a state record --------------------------
\* s = [sfetch, queue, fetching, tasks, live]

InSeq(x, q) == \E i \in 1..Len(q) : q[i] = x

\* queue_fetch: bounded; a queued fetch is a duplicate only if neither carries a result channel
\* (QueuedFetch's PartialEq), i.e. only announcement-triggered fetches are de-duplicated.
\* Queue elements: [repo, ch] with ch = "has a result channel" (Command::Fetch).
QueueFetch(s, r, p, ch) ==
    IF Len(s.queue[p]) >= QueueMax \/ (~ch /\ InSeq([repo |-> r, ch |-> FALSE], s.queue[p])) THEN s
    ELSE [s EXCEPT !.queue[p] = Append(@, [repo |-> r, ch |-> ch])]

\* _fetch(r, p): try_fetch, else queue.  c = connected peers, ss = peers with a session.
\* Order of the checks as in try_fetch: session exists; repository already being fetched
\* (redundant / queue -- also on a session that is not connected); session connected; capacity.
Fetch(s, c, ss, r, p, ch) ==
    IF p \notin ss THEN s                                       \* SessionNotConnected (no session)
    ELSE IF s.fetching[r] # NoFetch THEN                        \* AlreadyFetching
        IF s.fetching[r].from = p THEN s                        \* redundant: same peer, same refs
        ELSE QueueFetch(s, r, p, ch)
    ELSE IF p \notin c THEN s                                   \* SessionNotConnected
    ELSE IF Cardinality(s.sfetch[p]) >= Capacity THEN QueueFetch(s, r, p, ch)
    ELSE LET g == Len(s.tasks) + 1 IN
         [s EXCEPT !.fetching[r] = [from |-> p, gid |-> g],
                   !.sfetch[p] = @ \cup {r},
                   !.tasks = Append(@, [repo |-> r, peer |-> p, st |-> "running"]),
                   !.live = @ \cup {g}]

\* dequeue_fetches: once per session, in the given order
RECURSIVE Dequeue(_, _, _, _)
Dequeue(s, c, ss, order) ==
    IF order = <<>> THEN s
    ELSE LET p == Head(order) IN
         IF p \notin c \/ Cardinality(s.sfetch[p]) >= Capacity \/ s.queue[p] = <<>>
         THEN Dequeue(s, c, ss, Tail(order))
         ELSE LET q == Head(s.queue[p])
                  s1 == [s EXCEPT !.queue[p] = Tail(@)]
              IN Dequeue(Fetch(s1, c, ss, q.repo, p, q.ch), c, ss, Tail(order))

Perms(S) == {q \in [1..Cardinality(S) -> S] : \A i, j \in 1..Cardinality(S) : i # j => q[i] # q[j]}

St == [sfetch |-> sfetch, queue |-> queue, fetching |-> fetching, tasks |-> tasks, live |-> live]
Set(s) == /\ sfetch' = s.sfetch /\ queue' = s.queue /\ fetching' = s.fetching
          /\ tasks' = s.tasks /\ live' = s.live

-----------------------------------------------------------------------------
\* Service::attempted: our dial reached the peer
Attempt(p) ==
    /\ st[p] = "initial"
    /\ st' = [st EXCEPT ![p] = "attempted"]
    /\ applied' = <<>>
    /\ Log(<<"attempted", p>>)
    /\ UNCHANGED <<sfetch, queue, fetching, tasks, live>>

\* Service::connected: an inbound connection (no session, or any existing session), or our own
\* dial completing.  to_connected() starts a fresh Connected state (empty fetching set); the
\* session's queue survives.
Connect(p) ==
    /\ st[p] # "connected"
    /\ st' = [st EXCEPT ![p] = "connected"]
    /\ sfetch' = [sfetch EXCEPT ![p] = {}]
    /\ applied' = <<>>
    /\ Log(<<"connect", p>>)
    /\ UNCHANGED <<queue, fetching, tasks, live>>

\* disconnected(): fetching.retain(from # p); a persistent peer's session is kept in the
\* Disconnected state (with its queue), any other session is dropped; the worker's tasks for p
\* are not cancelled by the service; then dequeue_fetches.
Disconnect(p) ==
    /\ st[p] = "connected"
    /\ st' = [st EXCEPT ![p] = IF p \in Persistent THEN "disconnected" ELSE "none"]
    /\ applied' = <<>>
    /\ \E order \in Perms(conn \ {p}) :
         LET s0 == [St EXCEPT !.fetching = [r \in Repo |-> IF @[r].from = p THEN NoFetch ELSE @[r]],
                              !.sfetch[p] = {},
                              !.queue[p] = IF p \in Persistent THEN @ ELSE <<>>,
                              !.live = {g \in @ : tasks[g].peer # p}]
         IN Set(Dequeue(s0, conn \ {p}, {q \in Peer : st'[q] # "none"}, order))
    /\ Log(<<"disconnect", p>>)

\* disconnected() for a link that is not the session's link (the losing connection of a conflict is
\* torn down): ignored by the service -- in particular its fetches stay
StaleDisconnect(p) ==
    /\ st[p] # "none"
    /\ applied' = <<>>
    /\ Log(<<"stale_disconnect", p>>)
    /\ UNCHANGED <<st, sfetch, queue, fetching, tasks, live>>

\* maintain_persistent: time to dial a disconnected persistent peer again
Retry(p) ==
    /\ st[p] = "disconnected"
    /\ st' = [st EXCEPT ![p] = "initial"]
    /\ applied' = <<>>
    /\ Log(<<"wake", 70000>>)
    /\ UNCHANGED <<sfetch, queue, fetching, tasks, live>>

\* Command::Fetch (carries a result channel)
FetchCmd(r, p) ==
    /\ Len(tasks) < MaxTasks
    /\ Set(Fetch(St, conn, sessions, r, p, TRUE))
    /\ applied' = <<>>
    /\ Log(<<"fetch", r, p>>)
    /\ UNCHANGED st

\* a fetch triggered by an inventory announcement of connected peer p listing a seeded repository
\* we do not have (no result channel)
AnnFetch(r, p) ==
    /\ Len(tasks) < MaxTasks
    /\ p \in conn
    /\ Set(Fetch(St, conn, sessions, r, p, FALSE))
    /\ applied' = <<>>
    /\ Log(<<"annfetch", r, p>>)
    /\ UNCHANGED st

\* A worker finishes task g.  Wire::worker_result forwards the result to the service only if a
\* peer with that node id is connected; Service::fetched then matches it by repository (and, since
\* the fix, by peer).
TaskDone(g) ==
    /\ g \in DOMAIN tasks /\ tasks[g].st = "running"
    /\ LET r == tasks[g].repo
           p == tasks[g].peer
           t1 == [tasks EXCEPT ![g].st = "done"]
           forwarded == p \in conn
           entry == fetching[r]
           matches == /\ entry # NoFetch
                      /\ \/ entry.gid = g
                         \/ "late-any-peer" \in Dev
                         \/ "late-same-peer" \in Dev /\ entry.from = p
       IN
       IF forwarded /\ matches
       THEN /\ applied' = <<g, entry.gid>>
            /\ \E order \in Perms(conn) :
                 LET s0 == [St EXCEPT !.tasks = t1,
                                      !.fetching[r] = NoFetch,
                                      !.sfetch[p] = @ \ {r},
                                      !.live = @ \ {g}]
                 IN Set(Dequeue(s0, conn, sessions, order))
       ELSE /\ applied' = <<>>
            /\ tasks' = t1
            /\ live' = live \ {g}
            /\ UNCHANGED <<sfetch, queue, fetching>>
    /\ Log(<<"done", g>>)
    /\ UNCHANGED st

Idle ==
    /\ \E order \in Perms(conn) : Set(Dequeue(St, conn, sessions, order))
    /\ applied' = <<>>
    /\ Log(<<"idle">>)
    /\ UNCHANGED st

Next ==
    \/ \E p \in Peer : Attempt(p) \/ Connect(p) \/ Disconnect(p) \/ StaleDisconnect(p) \/ Retry(p)
    \/ \E r \in Repo, p \in Peer : FetchCmd(r, p) \/ AnnFetch(r, p)
    \/ \E g \in DOMAIN tasks : TaskDone(g)
    \/ Idle

Spec == Init /\ [][Next]_vars

\* Liveness (beyond the listed properties): the worker pool eventually finishes every task and the
\* node keeps waking up; the environment (connections, commands) is not assumed fair.
Fairness == /\ \A g \in 1..(MaxTasks + QueueMax * Cardinality(Peer)) : WF_vars(TaskDone(g))
            /\ WF_vars(Idle)
LiveSpec == Spec /\ Fairness

\* No starvation: while its session stays connected, a fetch waiting in the session's queue is
\* eventually taken out of the queue (started or found redundant).
QueueDrains == \A p \in Peer : (Len(queue[p]) > 0 /\ st[p] = "connected") ~> (Len(queue[p]) = 0 \/ st[p] # "connected")
\* Every fetch the service started is eventually completed or abandoned.
TasksComplete == \A g \in 1..(MaxTasks + QueueMax * Cardinality(Peer)) : (g \in live) ~> (g \notin live)

-----------------------------------------------------------------------------
\* C16
\* At most one live fetch per repository.
C16_OneLive == \A r \in Repo : Cardinality({g \in live : tasks[g].repo = r}) <= 1
\* The service's table agrees with the live tasks: an entry's task is live, and vice versa.
C16_TableIsLive == \A r \in Repo : fetching[r] # NoFetch => fetching[r].gid \in live
\* Per-session concurrency limit and queue capacity.
C16_Capacity == \A p \in Peer : Cardinality(sfetch[p]) <= Capacity /\ Len(queue[p]) <= QueueMax
\* Session bookkeeping is consistent with the table (this is what the debug assertions in
\* try_fetch and Session::fetching demand).
C16_SessionConsistent ==
    /\ \A p \in Peer : \A r \in sfetch[p] : fetching[r] # NoFetch /\ fetching[r].from = p
    /\ \A r \in Repo : fetching[r] # NoFetch => r \in sfetch[fetching[r].from] /\ fetching[r].from \in conn
\* A result is applied only to the fetch it belongs to.
C16_Attribution == applied # <<>> => applied[1] = applied[2]
=============================================================================
