----------------------------- MODULE FetchSched -----------------------------
(***************************************************************************)
(* Fetch scheduling of radicle-node: the `Service` half (service.rs:        *)
(* _fetch / try_fetch / queue_fetch / fetched / dequeue_fetches /           *)
(* disconnected, session.rs: fetching set, queue, capacity) composed with   *)
(* the worker pool and the gate of `Wire::worker_result` (wire/protocol.rs).*)
(*                                                                         *)
(* The worker pool is the source of concurrency: a fetch task started by   *)
(* `Io::Fetch` completes at an arbitrary later time (TaskDone), possibly    *)
(* after its peer disconnected and reconnected.  Tasks carry a ghost id     *)
(* (the code has none: results are matched by repository and peer id).      *)
(*                                                                         *)
(* Connections have a direction (Link): "out" if we dialled, "in" if the    *)
(* peer did.  The wire reports a disconnection with the link of the         *)
(* connection that went away, and the service ignores it unless it equals   *)
(* the link RECORDED in the session (`session.link != link`), because the   *)
(* losing connection of a conflict is torn down too.  `wire` is what really *)
(* exists, `link` what the session recorded, `dial` whether a dial of ours  *)
(* is under way.                                                            *)
(*                                                                         *)
(* Actions = the service's entry points:                                    *)
(*   Attempt(p)                   Service::attempted (our dial reached p)     *)
(*   Connect(p, d)                Service::connected, d \in {"in", "out"}     *)
(*   Disconnect(p)                the connection is lost:                     *)
(*                                Service::disconnected(p, wire[p])            *)
(*   StaleDisconnect(p)           Service::disconnected(p, the other link)     *)
(*   DialFail(p)                  our dial failed:                            *)
(*                                Service::disconnected(p, "out")              *)
(*   FetchCmd(r, p), AnnFetch     Command::Fetch / inventory announcement     *)
(*   TaskDone(g)                  worker result -> Wire gate -> fetched()    *)
(*   Wake                         wake(): the idle task (dequeue_fetches), every *)
(*                                second time the sync task                   *)
(*                                (fetch_missing_repositories: every seeded   *)
(*                                repository we do not have is fetched from   *)
(*                                every connected seed the routing table      *)
(*                                knows), then maintain_persistent             *)
(* dequeue_fetches visits the sessions in a shuffled order: the model       *)
(* chooses the order nondeterministically.                                  *)
(*                                                                         *)
(* Deviation (known finding, CONSTANT Dev):                                  *)
(*   "late-same-peer"  a late result of an abandoned fetch from peer p is   *)
(*                     taken for the result of a NEW fetch of the same      *)
(*                     repository from the same (reconnected) peer p.        *)
(*   "late-any-peer"   (original code, fixed) ... from any peer.             *)
(*   "late-forwarded"  (original code, fixed) Wire::worker_result forwards   *)
(*                     the result of a task of an earlier connection to the  *)
(*                     service; together with "late-same-peer" (the service  *)
(*                     matches results by repository and peer only, still    *)
(*                     so) this was the finding C16 late-same-peer.           *)
(*   "stale-link"      (original code, fixed) an OUTBOUND connection that   *)
(*                     completes for an existing session leaves the          *)
(*                     session's recorded link as it was.  After "dialled,   *)
(*                     lost, peer came back inbound, lost, re-dialled" the   *)
(*                     session records "in" for an outbound connection:      *)
(*                     its loss is ignored, the session stays connected      *)
(*                     and its fetches stay in the table for ever.           *)
(***************************************************************************)
EXTENDS Integers, FiniteSets, Sequences, TLC

CONSTANTS Peer, Repo,
          Persistent,    \* peers we dial ourselves and keep a session for while disconnected
          Capacity,      \* limits.fetch_concurrency
          QueueMax,      \* MAX_FETCH_QUEUE_SIZE
          MaxTasks,      \* bound: number of Io::Fetch emitted
          MaxOps,        \* bound: behaviour length
          RetryExact,    \* BOOLEAN: every wake-up re-dials every disconnected persistent peer (true while
                         \* sessions have made few attempts: the back-off 2^attempts s stays below the wake-up
                         \* interval); FALSE: a wake-up re-dials any subset of them (timer-dependent)
          SyncTask,      \* BOOLEAN: model the sync task (off in the liveness instance: it creates
                         \* fetches without bound)
          Dev

VARIABLES
    st,         \* [Peer -> session state]: "none" (no session), "initial", "attempted",
                \* "connected", "disconnected" (session::State)
    sfetch,     \* [Peer -> SUBSET Repo]   per-session fetching set
    queue,      \* [Peer -> Seq(Repo)]     per-session fetch queue
    fetching,   \* [Repo -> 0 | [from, gid]]  Service::fetching (gid is ghost)
    tasks,      \* [1..n -> [repo, peer, st, stale]]  st \in {"running","done"}; stale: the connection
                \* the task was started on is gone
    live,       \* ghost: tasks the service started and that were neither completed nor abandoned
    applied,    \* ghost: last step applied result of task g to the entry of task h: <<g, h>> or <<>>
    link,       \* [Peer -> "none" | "in" | "out"]  the link recorded in the session
    wire,       \* [Peer -> "none" | "in" | "out"]  the connection that exists (the wire's view)
    dial,       \* [Peer -> BOOLEAN]  a dial of ours is under way (Io::Connect, not yet resolved)
    routing,    \* SUBSET (Repo \X Peer): the routing table (who seeds what), as far as we learnt it
    syncIn,     \* wake-ups until the sync task runs again (SYNC_INTERVAL = 2 * IDLE_INTERVAL)
    hist

vars == <<st, sfetch, queue, fetching, tasks, live, applied, link, wire, dial, routing, syncIn, hist>>
view == <<st, sfetch, queue, fetching, tasks, live, applied, link, wire, dial, routing, syncIn>>

conn == {p \in Peer : st[p] = "connected"}      \* connected sessions
sessions == {p \in Peer : st[p] # "none"}       \* peers that have a session at all

NoFetch == [from |-> 0, gid |-> 0]

Init ==
    \* initialize() dials the configured (persistent) peers
    /\ st = [p \in Peer |-> IF p \in Persistent THEN "initial" ELSE "none"]
    /\ sfetch = [p \in Peer |-> {}] /\ queue = [p \in Peer |-> <<>>]
    /\ fetching = [r \in Repo |-> NoFetch] /\ tasks = <<>> /\ live = {} /\ applied = <<>> /\ hist = <<>>
    /\ routing = {} /\ syncIn = 0
    /\ link = [p \in Peer |-> IF p \in Persistent THEN "out" ELSE "none"]
    /\ wire = [p \in Peer |-> "none"]
    /\ dial = [p \in Peer |-> p \in Persistent]

\* MaxOps = 0: behaviours are not bounded and no history is kept (used for the liveness instance)
Log(op) == IF MaxOps = 0 THEN UNCHANGED hist ELSE Len(hist) < MaxOps /\ hist' = Append(hist, op)

\* ---- the service's internal steps, as functions on a state record --------------------------
\* s = [sfetch, queue, fetching, tasks, live]

InSeq(x, q) == \E i \in 1..Len(q) : q[i] = x

\* queue_fetch: bounded; a queued fetch is a duplicate only if neither carries a result channel
\* (QueuedFetch's PartialEq), i.e. only announcement-triggered fetches are de-duplicated.
\* Queue elements: [repo, ch] with ch = "has a result channel" (Command::Fetch).
QueueFetch(s, r, p, ch) ==
    IF Len(s.queue[p]) >= QueueMax \/ (~ch /\ InSeq([repo |-> r, ch |-> FALSE], s.queue[p])) THEN s
    ELSE [s EXCEPT !.queue[p] = Append(@, [repo |-> r, ch |-> ch])]

\* _fetch(r, p): try_fetch, else queue.  c = connected peers, ss = peers with a session.
\* Order of the checks as in try_fetch: session exists; repository already being fetched
\* (redundant / queue -- also on a session that is not connected); session connected; capacity.
Fetch(s, c, ss, r, p, ch) ==
    IF p \notin ss THEN s                                       \* SessionNotConnected (no session)
    ELSE IF s.fetching[r] # NoFetch THEN                        \* AlreadyFetching
        IF s.fetching[r].from = p THEN s                        \* redundant: same peer, same refs
        ELSE QueueFetch(s, r, p, ch)
    ELSE IF p \notin c THEN s                                   \* SessionNotConnected
    ELSE IF Cardinality(s.sfetch[p]) >= Capacity THEN QueueFetch(s, r, p, ch)
    ELSE LET g == Len(s.tasks) + 1 IN
         [s EXCEPT !.fetching[r] = [from |-> p, gid |-> g],
                   !.sfetch[p] = @ \cup {r},
                   !.tasks = Append(@, [repo |-> r, peer |-> p, st |-> "running", stale |-> FALSE]),
                   !.live = @ \cup {g}]

\* dequeue_fetches: once per session, in the given order
RECURSIVE Dequeue(_, _, _, _)
Dequeue(s, c, ss, order) ==
    IF order = <<>> THEN s
    ELSE LET p == Head(order) IN
         IF p \notin c \/ Cardinality(s.sfetch[p]) >= Capacity \/ s.queue[p] = <<>>
         THEN Dequeue(s, c, ss, Tail(order))
         ELSE LET q == Head(s.queue[p])
                  s1 == [s EXCEPT !.queue[p] = Tail(@)]
              IN Dequeue(Fetch(s1, c, ss, q.repo, p, q.ch), c, ss, Tail(order))

Perms(S) == {q \in [1..Cardinality(S) -> S] : \A i, j \in 1..Cardinality(S) : i # j => q[i] # q[j]}

St == [sfetch |-> sfetch, queue |-> queue, fetching |-> fetching, tasks |-> tasks, live |-> live]
Set(s) == /\ sfetch' = s.sfetch /\ queue' = s.queue /\ fetching' = s.fetching
          /\ tasks' = s.tasks /\ live' = s.live

\* the routing table matters to the sync task only
Learn(r, p) == IF SyncTask THEN routing \cup {<<r, p>>} ELSE routing

-----------------------------------------------------------------------------
\* Service::attempted: our dial reached the peer
Attempt(p) ==
    /\ st[p] = "initial" /\ dial[p]
    /\ st' = [st EXCEPT ![p] = "attempted"]
    /\ applied' = <<>>
    /\ Log(<<"attempted", p>>)
    /\ UNCHANGED <<sfetch, queue, fetching, tasks, live, link, wire, dial, routing, syncIn>>

\* Service::connected.  d = "out": our own dial completes (a session exists, Initial or Attempted);
\* d = "in": the peer connected to us (no session, or any existing session -- also one that is
\* waiting to be re-dialled, or one that is still in the Connected state).  to_connected() starts a fresh Connected state (empty fetching set);
\* the session's queue survives.  The inbound branch records the link; the outbound branch relies
\* on the session having been created by our dial -- which is not true for a session that was taken
\* over by an inbound connection in between (deviation "stale-link").
Connect(p, d) ==
    /\ wire[p] = "none"
    /\ d = "out" => (dial[p] /\ st[p] \in {"initial", "attempted"})
    /\ st' = [st EXCEPT ![p] = "connected"]
    /\ sfetch' = [sfetch EXCEPT ![p] = {}]
    /\ wire' = [wire EXCEPT ![p] = d]
    /\ link' = [link EXCEPT ![p] = IF d = "out" /\ "stale-link" \in Dev THEN @ ELSE d]
    /\ dial' = [dial EXCEPT ![p] = IF d = "out" THEN FALSE ELSE @]
    /\ applied' = <<>>
    /\ Log(<<"connect", p, d>>)
    /\ UNCHANGED <<queue, fetching, tasks, live, routing, syncIn>>

\* Service::disconnected(p, l).  Ignored without a session, or when l is not the session's recorded
\* link.  Otherwise (whatever the session's state): fetching.retain(from # p); a persistent peer's
\* session is kept in the Disconnected state (with its queue), any other session is dropped; the
\* worker's tasks for p are not cancelled by the service; then dequeue_fetches.
SvcDisconnected(p, l) ==
    IF st[p] = "none" \/ link[p] # l
    THEN UNCHANGED <<st, sfetch, queue, fetching, tasks, live, link>>
    ELSE /\ st' = [st EXCEPT ![p] = IF p \in Persistent THEN "disconnected" ELSE "none"]
         /\ link' = [link EXCEPT ![p] = IF p \in Persistent THEN @ ELSE "none"]
         /\ \E order \in Perms(conn \ {p}) :
              LET s0 == [St EXCEPT !.fetching = [r \in Repo |-> IF @[r].from = p THEN NoFetch ELSE @[r]],
                                   !.sfetch[p] = {},
                                   !.queue[p] = IF p \in Persistent THEN @ ELSE <<>>,
                                   !.live = {g \in @ : tasks[g].peer # p}]
              IN Set(Dequeue(s0, conn \ {p}, {q \in Peer : st'[q] # "none"}, order))

\* the connection is lost: the wire reports it with its link; the tasks started on it now belong to
\* an earlier connection
Stale(ts, p) == [g \in DOMAIN ts |-> IF ts[g].peer = p THEN [ts[g] EXCEPT !.stale = TRUE] ELSE ts[g]]
Disconnect(p) ==
    /\ wire[p] # "none"
    /\ wire' = [wire EXCEPT ![p] = "none"]
    /\ IF st[p] = "none" \/ link[p] # wire[p]
       THEN /\ tasks' = Stale(tasks, p)
            /\ UNCHANGED <<st, sfetch, queue, fetching, live, link>>
       ELSE /\ st' = [st EXCEPT ![p] = IF p \in Persistent THEN "disconnected" ELSE "none"]
            /\ link' = [link EXCEPT ![p] = IF p \in Persistent THEN @ ELSE "none"]
            /\ \E order \in Perms(conn \ {p}) :
                 LET s0 == [St EXCEPT !.fetching = [r \in Repo |-> IF @[r].from = p THEN NoFetch ELSE @[r]],
                                      !.sfetch[p] = {},
                                      !.queue[p] = IF p \in Persistent THEN @ ELSE <<>>,
                                      !.tasks = Stale(@, p),
                                      !.live = {g \in @ : tasks[g].peer # p}]
                 IN Set(Dequeue(s0, conn \ {p}, {q \in Peer : st'[q] # "none"}, order))
    /\ applied' = <<>>
    /\ Log(<<"disconnect", p>>)
    /\ UNCHANGED <<dial, routing, syncIn>>

\* the losing connection of a conflict is torn down: a disconnection with the link that is NOT the
\* live connection's
StaleDisconnect(p) ==
    /\ wire[p] # "none"
    /\ SvcDisconnected(p, IF wire[p] = "in" THEN "out" ELSE "in")
    /\ applied' = <<>>
    /\ Log(<<"stale_disconnect", p>>)
    /\ UNCHANGED <<wire, dial, routing, syncIn>>

\* our dial fails (also: while the peer is connected inbound)
DialFail(p) ==
    /\ dial[p]
    /\ dial' = [dial EXCEPT ![p] = FALSE]
    /\ SvcDisconnected(p, "out")
    /\ applied' = <<>>
    /\ Log(<<"dialfail", p>>)
    /\ UNCHANGED <<wire, routing, syncIn>>

\* Command::Fetch (carries a result channel)
FetchCmd(r, p) ==
    /\ Len(tasks) < MaxTasks
    /\ Set(Fetch(St, conn, sessions, r, p, TRUE))
    /\ applied' = <<>>
    /\ Log(<<"fetch", r, p>>)
    /\ UNCHANGED <<st, link, wire, dial, routing, syncIn>>

\* an inventory announcement of connected peer p listing (only) the seeded repository r, which we do
\* not have: the routing table is synchronised with the announced inventory -- p seeds r and
\* nothing else -- and, IF that changed anything, r is fetched from p (no result channel).  An entry
\* that is already there counts as changed when the announcement's timestamp is newer than the
\* entry's (which a successful fetch stamps with the local clock): the model leaves that open.
AnnFetch(r, p) ==
    /\ Len(tasks) < MaxTasks
    /\ p \in conn /\ wire[p] # "none"
    /\ LET changed == <<r, p>> \notin routing \/ \E x \in routing : x[2] = p /\ x[1] # r IN
       \E trigger \in (IF changed THEN {TRUE} ELSE BOOLEAN) :
           IF trigger THEN Set(Fetch(St, conn, sessions, r, p, FALSE))
           ELSE UNCHANGED <<sfetch, queue, fetching, tasks, live>>
    /\ routing' = IF SyncTask THEN {x \in routing : x[2] # p} \cup {<<r, p>>} ELSE routing
    /\ applied' = <<>>
    /\ Log(<<"annfetch", r, p>>)
    /\ UNCHANGED <<st, link, wire, dial, syncIn>>

\* A worker finishes task g.  Wire::worker_result forwards the result to the service only if a
\* peer with that node id is connected; Service::fetched then matches it by repository (and, since
\* the fix, by peer).  A successful result also records the peer as a seed of the repository
\* (seed_discovered).  The repository is still "missing" afterwards as far as the sync task is
\* concerned (worst case: the storage does not have it -- as with the mock storage of the harness).
TaskDone(g, ok) ==
    /\ g \in DOMAIN tasks /\ tasks[g].st = "running"
    /\ LET r == tasks[g].repo
           p == tasks[g].peer
           t1 == [tasks EXCEPT ![g].st = "done"]
           \* Wire::worker_result: a peer with that node id is connected, and (since the fix) it is the
           \* connection the task was started on
           forwarded == wire[p] # "none" /\ (~tasks[g].stale \/ "late-forwarded" \in Dev)
           entry == fetching[r]
           matches == /\ entry # NoFetch
                      /\ \/ entry.gid = g
                         \/ "late-any-peer" \in Dev
                         \/ "late-same-peer" \in Dev /\ entry.from = p
       IN
       IF forwarded /\ matches
       THEN /\ applied' = <<g, entry.gid>>
            /\ routing' = IF ok THEN Learn(r, p) ELSE routing
            /\ \E order \in Perms(conn) :
                 LET s0 == [St EXCEPT !.tasks = t1,
                                      !.fetching[r] = NoFetch,
                                      !.sfetch[p] = @ \ {r},
                                      !.live = @ \ {g}]
                 IN Set(Dequeue(s0, conn, sessions, order))
       ELSE /\ applied' = <<>>
            /\ tasks' = t1
            /\ live' = live \ {g}
            /\ UNCHANGED <<sfetch, queue, fetching, routing>>
    /\ Log(<<"done", g, IF ok THEN "ok" ELSE "err">>)
    /\ UNCHANGED <<st, link, wire, dial, syncIn>>

\* fetch_missing_repositories: for every seeded repository (all of Repo) that is not in storage,
\* fetch(r, p) for every connected seed p of r -- repositories in policy order, seeds in a shuffled
\* order; the model takes any order that keeps a repository's seeds together.
SyncPairs(c) == {x \in routing : x[2] \in c}
GroupedPerms(M) == {q \in Perms(M) : \A i, j, k \in 1..Cardinality(M) :
                       (i < j /\ j < k /\ q[i][1] = q[k][1]) => q[j][1] = q[i][1]}
RECURSIVE FetchAll(_, _, _, _)
FetchAll(s, c, ss, ord) ==
    IF ord = <<>> THEN s
    ELSE FetchAll(Fetch(s, c, ss, Head(ord)[1], Head(ord)[2], FALSE), c, ss, Tail(ord))

\* wake() every IDLE_INTERVAL: the idle task runs dequeue_fetches; the sync task (every second
\* wake-up, the first included) runs fetch_missing_repositories; then maintain_persistent dials
\* every disconnected persistent peer again (its session goes back to Initial)
Wake ==
    /\ \E order \in Perms(conn) :
         LET s1 == Dequeue(St, conn, sessions, order) IN
         IF SyncTask /\ syncIn = 0
         THEN \E ord \in GroupedPerms(SyncPairs(conn)) : Set(FetchAll(s1, conn, sessions, ord))
         ELSE Set(s1)
    /\ syncIn' = IF SyncTask THEN 1 - syncIn ELSE syncIn
    /\ LET D == {p \in Peer : st[p] = "disconnected"} IN
       \E R \in (IF RetryExact THEN {D} ELSE SUBSET D) :
           /\ st' = [p \in Peer |-> IF p \in R THEN "initial" ELSE st[p]]
           /\ dial' = [p \in Peer |-> dial[p] \/ p \in R]                  \* reconnect(): Io::Connect
           \* ... and the session records that its connection will be an outbound one (as found: it
           \* kept the link of the inbound connection that had taken the session over, and the failure
           \* of the dial was then ignored: the session stayed Initial for ever)
           /\ link' = [p \in Peer |-> IF p \in R /\ "stale-link" \notin Dev THEN "out" ELSE link[p]]
    /\ applied' = <<>>
    /\ Log(<<"idle">>)
    /\ UNCHANGED <<wire, routing>>

Done == \E g \in DOMAIN tasks, ok \in BOOLEAN : TaskDone(g, ok)

Next ==
    \/ \E p \in Peer : Attempt(p) \/ Disconnect(p) \/ StaleDisconnect(p) \/ DialFail(p)
    \/ \E p \in Peer, d \in {"in", "out"} : Connect(p, d)
    \/ \E r \in Repo, p \in Peer : FetchCmd(r, p) \/ AnnFetch(r, p)
    \/ Done
    \/ Wake

Spec == Init /\ [][Next]_vars

\* Liveness (beyond the listed properties): the worker pool eventually finishes every task and the
\* node keeps waking up; the environment (connections, commands) is not assumed fair.
Fairness == /\ \A g \in 1..(MaxTasks + QueueMax * Cardinality(Peer)) : WF_vars(\E ok \in BOOLEAN : TaskDone(g, ok))
            /\ WF_vars(Wake)
LiveSpec == Spec /\ Fairness

\* No starvation: while its session stays connected, a fetch waiting in the session's queue is
\* eventually taken out of the queue (started or found redundant).
QueueDrains == \A p \in Peer : (Len(queue[p]) > 0 /\ st[p] = "connected") ~> (Len(queue[p]) = 0 \/ st[p] # "connected")
\* A persistent peer without a connection is eventually dialled again (or connects to us) -- what the
\* deviation "stale-link" breaks: the session stays "connected", so the peer is never dialled again.
PersistentRedialled == \A p \in Persistent : (wire[p] = "none") ~> (dial[p] \/ wire[p] # "none")
\* Every fetch the service started is eventually completed or abandoned.
TasksComplete == \A g \in 1..(MaxTasks + QueueMax * Cardinality(Peer)) : (g \in live) ~> (g \notin live)

-----------------------------------------------------------------------------
\* C16
\* At most one live fetch per repository.
C16_OneLive == \A r \in Repo : Cardinality({g \in live : tasks[g].repo = r}) <= 1
\* The service's table agrees with the live tasks: an entry's task is live, and vice versa.
C16_TableIsLive == \A r \in Repo : fetching[r] # NoFetch => fetching[r].gid \in live
\* Per-session concurrency limit and queue capacity.
C16_Capacity == \A p \in Peer : Cardinality(sfetch[p]) <= Capacity /\ Len(queue[p]) <= QueueMax
\* Session bookkeeping is consistent with the table (this is what the debug assertions in
\* try_fetch and Session::fetching demand).
C16_SessionConsistent ==
    /\ \A p \in Peer : \A r \in sfetch[p] : fetching[r] # NoFetch /\ fetching[r].from = p
    /\ \A r \in Repo : fetching[r] # NoFetch => r \in sfetch[fetching[r].from] /\ fetching[r].from \in conn
\* Beyond C16 (the session life cycle): the service believes a peer connected exactly when a
\* connection exists, and the session records that connection's link -- otherwise the loss of the
\* connection is ignored and its fetches stay in the table for ever.
SessionHasConnection == \A p \in Peer : (st[p] = "connected") <=> (wire[p] # "none")
LinkRecorded == \A p \in Peer : wire[p] # "none" => link[p] = wire[p]
\* A result is applied only to the fetch it belongs to.
C16_Attribution == applied # <<>> => applied[1] = applied[2]
=============================================================================
