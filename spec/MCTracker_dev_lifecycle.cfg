CONSTANTS
  Actor <- A4
  Doc = {1, 2}
  Delegates <- Dlg3b
  Threshold <- Thr3b
  LabelSets <- LS2
  AssignSets <- AS2
  Titles = {0, 1}
  Bodies = {0}
  VerdictVals = {0, 1}
  SummaryVals = {0}
  Commit <- C3
  Anc <- Anc3
  Kinds <- MergeKinds
  FanKinds <- MergeFan
  Creators = {4}
  MaxC = 2
  MaxE = 1
  MaxR = 2
  MaxRC = 0
  MaxV = 0
  MaxVC = 0
  Reactors = {}
  HeadInits <- HMerge
  Pushers = {}
  Variant = "lifecycleUnguarded"
  Emit = FALSE
INIT Init
NEXT Next
VIEW View
PROPERTIES C08_Step
