---------------------------- MODULE TraceGossipOp ----------------------------
(***************************************************************************)
(* Strict conformance of the design model: executions of the bounded       *)
(* model's behaviours on the real `Service` are validated against the      *)
(* ACTIONS of Gossip.tla (not only against the property clauses, which is  *)
(* what TraceGossip.tla does).  Each recorded step must be a step of the   *)
(* corresponding Gossip action with the recorded arguments, and what the   *)
(* node was observed to do must be what the action does:                   *)
(*   - the announcements written to peers (inventory / refs / foreign node *)
(*     announcements) equal the action's `out'`;                            *)
(*   - the peers the node asks to disconnect equal `disc'`;                 *)
(*   - the gossip table (key -> timestamp) equals `store'`, the address    *)
(*     book equals `known'`, the routing table equals `routing'`.           *)
(* Where the model is nondeterministic (whether processing an accepted     *)
(* announcement decides to relay it) TLC picks the branch that explains    *)
(* the observations -- possibly only later, at the gossip tick.            *)
(* A rejection is DRIFT between the model and the code, reported in the    *)
(* evidence; the gate of the checks is TraceGossip.tla.                     *)
(***************************************************************************)
EXTENDS Gossip, Json, IOUtils, SequencesExt

Rec == ndJsonDeserialize(IOEnv.TRACE)

\* the world of the bounded model's scripts (props/gossip_common.py MODEL_REPOS, MCGossip.tla)
TAllow == (1 :> {}) @@ (2 :> {1}) @@ (3 :> {})
TDelegates == (1 :> {0}) @@ (2 :> {0}) @@ (3 :> {3})
TInvOf(a) == IF a.ts = 5000 THEN {1} ELSE {1, 3}

VARIABLES l,      \* next record
          ann     \* aid -> definition, from the `def` records
tvars == <<vars, l, ann>>

Zero == -1000000000          \* the log's encoding of timestamp 0
TsOf(t) == IF t = Zero THEN 0 ELSE t

IdentOf(a) == [node |-> ann[a].node, kind |-> ann[a].kind, repo |-> ann[a].repo, ts |-> TsOf(ann[a].ts)]

\* what the step was observed to write: own node announcements are outside the model
ObservedOut(o) == {<<s[1], IdentOf(s[2])>> : s \in {x \in ToSet(o.sends) : ~(ann[x[2]].node = Self /\ ann[x[2]].kind = "node")}}
ModelOut == {<<s.to, s.ann>> : s \in out'}

ObservedStore(o) == {<<ann[a].node, ann[a].kind, ann[a].repo, TsOf(ann[a].ts)>> : a \in ToSet(o.table)}
ModelStore == {<<k[1], k[2], k[3], store'[k].ts>> : k \in DOMAIN store'}

Matches(o) ==
    /\ ObservedOut(o) = ModelOut
    /\ {d \in ToSet(o.disc) : d # -1} = disc'
    /\ ObservedStore(o) = ModelStore
    /\ ToSet(o.known) = known'
    /\ {<<x[1], x[2]>> : x \in ToSet(o.routing)} = routing'

AnnOf(op) == [node |-> op[3], kind |-> op[4], repo |-> op[5], ts |-> TsOf(op[6]), sig |-> op[7]]

TInit == Init /\ l = 1 /\ ann = <<>>

\* a new run: back to the initial state
Reset ==
    /\ Rec[l].ev = "init"
    /\ clock' = 0 /\ known' = {} /\ store' = (<<Self, "inv", 0>> :> [ts |-> 2, relay |-> "dont"])
    /\ relayedBy' = <<>> /\ conn' = {} /\ sub' = [p \in Peer |-> {}]
    /\ private' = [r \in Repo |-> r \in InitPrivate] /\ ownTs' = 2
    /\ ownInv' = [ts |-> 2, repos |-> {r \in Stored \cap Seeded : r \notin InitPrivate}]
    /\ restarts' = 0 /\ routing' = {<<r, Self>> : r \in {x \in Stored \cap Seeded : x \notin InitPrivate}}
    /\ out' = {} /\ disc' = {} /\ delivered' = {} /\ hist' = <<>>
    /\ ann' = <<>>

Def ==
    /\ Rec[l].ev = "def"
    /\ ann' = (Rec[l].aid :> [node |-> Rec[l].node, kind |-> Rec[l].kind, repo |-> Rec[l].repo, ts |-> Rec[l].ts]) @@ ann
    /\ UNCHANGED vars

Step ==
    /\ Rec[l].ev = "step"
    /\ UNCHANGED ann
    /\ LET o == Rec[l]
           op == o.op
           n == op[1]
       IN /\ CASE n = "init" -> UNCHANGED vars
                [] n = "connect" -> Connect(op[2])
                [] n = "disconnect" -> Disconnect(op[2])
                [] n = "ann" -> Receive(op[2], AnnOf(op))
                [] n = "sub" -> Subscribe(op[2], ToSet(op[3]), op[4])
                [] n = "tick" -> GossipTick
                [] n = "refs" -> AnnounceRefs(op[2])
                [] n = "vis" -> VisChange(op[2])
                [] n = "restart" -> Restart
          /\ (n # "init" => Matches(o))

TNext == l <= Len(Rec) /\ l' = l + 1 /\ (Reset \/ Def \/ Step)

Accepted ==
    IF TLCGet("stats").diameter - 1 = Len(Rec)
    THEN PrintT("TRACE-ACCEPTED")
    ELSE PrintT("TRACE-REJECTED at=" \o ToString(TLCGet("stats").diameter))
=============================================================================
