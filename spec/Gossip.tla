------------------------------- MODULE Gossip -------------------------------
(***************************************************************************)
(* Gossip half of radicle-node's `Service` (crates/radicle-node/src/       *)
(* service.rs, service/io.rs, service/gossip/store.rs).                    *)
(*                                                                         *)
(* One action per public entry point of the single-threaded service:       *)
(*   Connect / Disconnect          Service::connected / disconnected       *)
(*   Receive(p, a)                 received_message(Announcement)          *)
(*                                 = handle_announcement + relay decision   *)
(*   Subscribe(p, F, since)        received_message(Subscribe): replay      *)
(*   GossipTick                    tick + wake: relay_announcements         *)
(*   AnnounceRefs(r)               Command::AnnounceRefs                    *)
(*   AnnounceInventory             periodic / commanded inventory announce  *)
(*   VisChange(r), Restart         identity change on disk; initialize()    *)
(*                                                                         *)
(* State = what those functions read and write: the clock, the address     *)
(* book (`known`), the gossip table keyed by (node, kind, repo) with its   *)
(* relay flag, `relayed_by`, sessions with their subscription filters,     *)
(* (a peer without a subscription = the empty filter), repository          *)
(* visibility, the node's own timestamp counter.  `out` is the             *)
(* set of announcements written to peers by the LAST step (the Outbox),    *)
(* `delivered` is a ghost recording who delivered what.                    *)
(*                                                                         *)
(* Time is in milliseconds relative to the node's start, as in the recorded *)
(* executions; H = MAX_TIME_DELTA = 1 h; a gossip tick advances 7 s.        *)
(*                                                                         *)
(* Deviations of the code from the intended design that are known findings *)
(* are explicit, switchable disjuncts (CONSTANT Dev):                      *)
(*   "stale-deliverer"  a peer delivering an announcement we already have  *)
(*                      is not recorded in relayed_by (FIXME in the code)  *)
(*   "replay-unstored"  stored refs announcements of repositories the node *)
(*                      does not have are replayed to any subscriber       *)
(***************************************************************************)
EXTENDS Integers, FiniteSets, Sequences, TLC

CONSTANTS Peer,        \* nodes that can connect to us
          Other,       \* nodes that only author announcements
          Repo,        \* repository ids
          Stored,      \* repositories in our storage (subset of Repo)
          Seeded,      \* repositories we seed
          InitPrivate, \* repositories private at start
          Allow,       \* [Repo -> SUBSET Node]  allow lists
          Delegates,   \* [Repo -> SUBSET Node]
          TS,          \* timestamps peers put on announcements
          MaxTicks,    \* bound on gossip ticks
          MaxOps,      \* bound on behaviour length
          InvOf(_),    \* the inventory an inventory announcement carries (a function of the announcement)
          Dev          \* enabled deviations

Self == 0
Node == Peer \cup Other
H == 3600000       \* MAX_TIME_DELTA (ms)
TickLen == 7000   \* a step of the clock that passes GOSSIP_INTERVAL (6 s)
Epoch == -1000000000  \* "since the beginning of time" in a subscription (times are relative to the node's start)
Kinds == {"node", "inv", "refs"}

VARIABLES clock, known, store, relayedBy, conn, sub, private, ownTs, ownInv, restarts,
          routing,    \* the routing table: set of <<repo, node>> ("node seeds repo"), cf. sync_routing
          out, disc, delivered, hist

vars == <<clock, known, store, relayedBy, conn, sub, private, ownTs, ownInv, restarts, routing, out, disc, delivered, hist>>
\* hist (the behaviour so far, as a harness script) is not part of the view
view == <<clock, known, store, relayedBy, conn, sub, private, ownTs, ownInv, restarts, routing, out, disc, delivered>>

Key(a) == <<a.node, a.kind, a.repo>>
Ident(a) == [node |-> a.node, kind |-> a.kind, repo |-> a.repo, ts |-> a.ts]

VisibleTo(r, q) == ~private[r] \/ q \in Allow[r] \/ q \in Delegates[r]
PublicInventory == {r \in Stored \cap Seeded : ~private[r]}

\* Announcements a peer may deliver
Anns == [node : Node, kind : {"node", "inv"}, repo : {0}, ts : TS, sig : BOOLEAN]
        \cup [node : Node, kind : {"refs"}, repo : Repo, ts : TS, sig : BOOLEAN]

HasKey(k) == k \in DOMAIN store
Entry(k) == store[k]

\* Peers an announcement stored under key k may be relayed to (Service::relay + Outbox::relay)
RelayTargets(k, a, rb) ==
    {q \in conn :
        /\ q \notin rb
        /\ q # a.node
        /\ (a.kind = "refs" =>
                /\ a.repo \in Stored /\ VisibleTo(a.repo, q)
                /\ a.repo \in sub[q])}

Sends(targets, a, path) == {[to |-> q, ann |-> Ident(a), path |-> path] : q \in targets}

NextTs == IF clock > ownTs THEN clock ELSE ownTs + 1

-----------------------------------------------------------------------------
Init ==
    /\ clock = 0
    /\ known = {}
    \* the node publishes its inventory right after initialize() (first wake-up)
    /\ store = (<<Self, "inv", 0>> :> [ts |-> 2, relay |-> "dont"])
    /\ relayedBy = <<>>
    /\ conn = {}
    /\ sub = [p \in Peer |-> {}]
    /\ private = [r \in Repo |-> r \in InitPrivate]
    /\ ownTs = 2
    /\ ownInv = [ts |-> 2, repos |-> {r \in Stored \cap Seeded : r \notin InitPrivate}]
    /\ restarts = 0
    /\ routing = {<<r, Self>> : r \in {x \in Stored \cap Seeded : x \notin InitPrivate}}
    /\ out = {} /\ disc = {} /\ delivered = {} /\ hist = <<>>

Log(op) == Len(hist) < MaxOps /\ hist' = Append(hist, op)

Connect(p) ==
    /\ p \notin conn
    /\ conn' = conn \cup {p}
    /\ sub' = [sub EXCEPT ![p] = {}]
    \* initial(): our node announcement, our cached inventory, our subscription
    /\ out' = {[to |-> p, ann |-> [node |-> Self, kind |-> "inv", repo |-> 0, ts |-> ownInv.ts], path |-> "own"]}
    /\ disc' = {}
    /\ Log(<<"connect", p>>)
    /\ UNCHANGED <<clock, known, store, relayedBy, private, ownTs, ownInv, restarts, routing, delivered>>

Disconnect(p) ==
    /\ p \in conn
    /\ conn' = conn \ {p}
    /\ sub' = [sub EXCEPT ![p] = {}]
    /\ out' = {} /\ disc' = {}
    /\ Log(<<"disconnect", p>>)
    /\ UNCHANGED <<clock, known, store, relayedBy, private, ownTs, ownInv, restarts, routing, delivered>>

\* handle_announcement: the outcome class of an incoming announcement
Outcome(p, a) ==
    IF ~a.sig THEN "misbehave"
    ELSE IF a.node = Self THEN "ignore"
    ELSE IF a.ts = 0 THEN "misbehave"
    ELSE IF a.ts > clock + H THEN "misbehave"
    ELSE IF a.kind \in {"inv", "refs"} /\ a.node \notin known THEN "ignore"
    ELSE IF HasKey(Key(a)) /\ Entry(Key(a)).ts >= a.ts THEN "stale"
    ELSE "store"

Receive(p, a) ==
    /\ p \in conn
    /\ LET k == Key(a)
           oc == Outcome(p, a)
           fresh == a.kind = "node" \/ clock - a.ts <= H
           rb == (IF k \in DOMAIN relayedBy THEN relayedBy[k] ELSE {}) \cup {p}
       IN
       \* only deliveries that pass the gates preceding storage are "delivered to us"
       /\ delivered' = IF oc \in {"stale", "store"} THEN delivered \cup {<<Ident(a), p>>} ELSE delivered
       /\ CASE oc = "misbehave" ->
                 /\ disc' = {p} /\ out' = {}
                 /\ UNCHANGED <<known, store, relayedBy, routing>>
            [] oc = "ignore" ->
                 /\ disc' = {} /\ out' = {}
                 /\ UNCHANGED <<known, store, relayedBy, routing>>
            [] oc = "stale" ->
                 /\ disc' = {} /\ out' = {}
                 /\ UNCHANGED <<known, store, routing>>
                 \* design: remember that p also has this announcement; code (deviation): doesn't
                 /\ IF "stale-deliverer" \in Dev \/ Entry(k).ts # a.ts
                    THEN UNCHANGED relayedBy
                    ELSE relayedBy' = (k :> rb) @@ relayedBy
            [] oc = "store" ->
                 /\ disc' = {}
                 /\ relayedBy' = (k :> rb) @@ relayedBy
                 /\ \/ \* the kind-specific processing decides to relay (now, or at the next tick)
                       /\ fresh
                       /\ a.kind = "refs" => a.repo \in Seeded
                       /\ IF a.kind = "inv"
                          THEN /\ store' = (k :> [ts |-> a.ts, relay |-> "relay"]) @@ store
                               /\ out' = {}
                          ELSE /\ store' = (k :> [ts |-> a.ts, relay |-> IF HasKey(k) THEN Entry(k).relay ELSE "dont"]) @@ store
                               /\ out' = Sends(RelayTargets(k, a, rb), a, "relay")
                    \/ \* ... or not (nothing new in routing table / address book, unseeded, too old)
                       /\ store' = (k :> [ts |-> a.ts, relay |-> IF HasKey(k) THEN Entry(k).relay ELSE "dont"]) @@ store
                       /\ out' = {}
                 /\ known' = IF a.kind = "node" THEN known \cup {a.node} ELSE known
                 \* sync_routing: an inventory replaces the announcer's entries; a (non-empty) refs
                 \* announcement adds one (seed_discovered)
                 /\ routing' = IF a.kind = "inv"
                                THEN {e \in routing : e[2] # a.node} \cup {<<r, a.node>> : r \in InvOf(a)}
                                ELSE IF a.kind = "refs" THEN routing \cup {<<a.repo, a.node>>}
                                ELSE routing
    /\ Log(<<"ann", p, a.node, a.kind, a.repo, a.ts, a.sig, IF a.kind = "inv" THEN InvOf(a) ELSE {1}>>)
    /\ UNCHANGED <<clock, conn, sub, private, ownTs, ownInv, restarts>>

\* Message::Subscribe: replay of stored announcements
Subscribe(p, F, since) ==
    /\ p \in conn
    /\ sub' = [sub EXCEPT ![p] = F]
    /\ LET replay == {k \in DOMAIN store :
                        /\ store[k].ts >= since
                        /\ k[1] # p
                        /\ (k[2] = "refs" => k[3] \in F)
                        /\ (k[2] = "refs" =>
                               IF k[3] \in Stored THEN VisibleTo(k[3], p)
                               ELSE "replay-unstored" \in Dev)}
       IN out' = {[to |-> p, ann |-> [node |-> k[1], kind |-> k[2], repo |-> k[3], ts |-> store[k].ts], path |-> "sub"] : k \in replay}
    /\ disc' = {}
    /\ Log(<<"sub", p, F, since>>)
    /\ UNCHANGED <<clock, known, store, relayedBy, conn, private, ownTs, ownInv, restarts, routing, delivered>>

\* tick + wake: relay stored inventories whose relay flag is set
GossipTick ==
    /\ clock < MaxTicks * TickLen
    /\ clock' = clock + TickLen
    /\ LET pending == {k \in DOMAIN store : store[k].relay = "relay" /\ k[1] # Self} IN
       /\ out' = UNION {Sends(RelayTargets(k, [node |-> k[1], kind |-> k[2], repo |-> k[3], ts |-> store[k].ts],
                                           IF k \in DOMAIN relayedBy THEN relayedBy[k] ELSE {}),
                              [node |-> k[1], kind |-> k[2], repo |-> k[3], ts |-> store[k].ts], "tick") : k \in pending}
       /\ store' = [k \in DOMAIN store |-> IF k \in pending THEN [store[k] EXCEPT !.relay = "relayed"] ELSE store[k]]
    /\ disc' = {}
    /\ Log(<<"tick", TickLen>>)
    /\ UNCHANGED <<known, relayedBy, conn, sub, private, ownTs, ownInv, restarts, routing, delivered>>

\* Command::AnnounceRefs for a repository we have
AnnounceRefs(r) ==
    /\ r \in Stored
    /\ LET ts == NextTs
           a == [node |-> Self, kind |-> "refs", repo |-> r, ts |-> ts]
           k == <<Self, "refs", r>> IN
       /\ ownTs' = ts
       /\ store' = (k :> [ts |-> ts, relay |-> IF HasKey(k) THEN Entry(k).relay ELSE "dont"]) @@ store
       /\ out' = {[to |-> q, ann |-> a, path |-> "own"] :
                     q \in {x \in conn : VisibleTo(r, x) /\ r \in sub[x]}}
    /\ disc' = {}
    /\ Log(<<"refs", r>>)
    /\ UNCHANGED <<clock, known, relayedBy, conn, sub, private, ownInv, restarts, routing, delivered>>

\* the repository's identity document changes on disk
VisChange(r) ==
    /\ r \in Stored
    /\ private' = [private EXCEPT ![r] = ~private[r]]
    /\ out' = {} /\ disc' = {}
    /\ Log(<<"vis", r, ~private[r], Allow[r]>>)
    /\ UNCHANGED <<clock, known, store, relayedBy, conn, sub, ownTs, ownInv, restarts, routing, delivered>>

\* Service::initialize run again: the inventory is recomputed from storage (public, seeded)
Restart ==
    /\ restarts < 1
    /\ restarts' = restarts + 1
    /\ LET ts == NextTs IN
       /\ ownTs' = ts
       /\ ownInv' = [ts |-> ts, repos |-> PublicInventory]
       /\ store' = (<<Self, "inv", 0>> :> [ts |-> ts, relay |-> "dont"]) @@ store
       /\ out' = {[to |-> q, ann |-> [node |-> Self, kind |-> "inv", repo |-> 0, ts |-> ts], path |-> "own"] : q \in conn}
    /\ disc' = {}
    \* our own routing entries: public ones (re)added, private ones removed
    /\ routing' = {e \in routing : e[2] # Self \/ ~private[e[1]]} \cup {<<r, Self>> : r \in PublicInventory}
    /\ Log(<<"restart">>)
    /\ UNCHANGED <<clock, known, relayedBy, conn, sub, private, delivered>>

Next ==
    \/ \E p \in Peer : Connect(p) \/ Disconnect(p)
    \/ \E p \in Peer, a \in Anns : Receive(p, a)
    \/ \E p \in Peer, F \in {{}, Repo}, since \in {Epoch} : Subscribe(p, F, since)
    \/ GossipTick
    \/ \E r \in Repo : AnnounceRefs(r) \/ VisChange(r)
    \/ Restart

Spec == Init /\ [][Next]_vars

-----------------------------------------------------------------------------
\* C10 ----------------------------------------------------------------------
\* Every stored foreign announcement was validly signed (only such are stored), is not from the
\* future, and its announcer is known when it is an inventory or refs announcement.
C10_StoreFresh ==
    \A k \in DOMAIN store : k[1] # Self =>
        /\ store[k].ts <= clock + H
        /\ store[k].ts # 0
        /\ (k[2] \in {"inv", "refs"} => k[1] \in known)

\* A relayed announcement is never sent to its announcer or to a peer that delivered it.
C10_NoEcho ==
    \A s \in out : s.ann.node # Self /\ s.path # "sub" =>
        /\ s.to # s.ann.node
        /\ <<s.ann, s.to>> \notin delivered

\* Replayed history is never sent to its author.
C10_NoEchoReplay == \A s \in out : s.path = "sub" => s.to # s.ann.node

\* Only stored (hence valid, fresh, newest) announcements are relayed.
C10_RelayStored ==
    \A s \in out : s.ann.node # Self =>
        LET k == <<s.ann.node, s.ann.kind, s.ann.repo>> IN k \in DOMAIN store /\ store[k].ts = s.ann.ts

\* The timestamp stored per key only increases (strictly newer replaces).
C10_Monotone ==
    [][\A k \in DOMAIN store : k \in DOMAIN store' /\ (store'[k].ts # store[k].ts => store'[k].ts > store[k].ts)]_vars

\* C11 ----------------------------------------------------------------------
C11_Refs == \A s \in out : s.ann.kind = "refs" /\ private[s.ann.repo] => VisibleTo(s.ann.repo, s.to)
C11_Inventory == \A r \in ownInv.repos : r \in Stored  \* (privacy is checked at creation: see Restart / Init)
C11_InventoryAtCreation == [][ownInv' # ownInv => \A r \in ownInv'.repos : ~private'[r]]_vars

\* Routing table (beyond the listed properties) -------------------------------------------------
\* Every foreign routing entry is backed by a stored announcement of that node: its latest
\* inventory lists the repository, or it announced refs for it.
RoutingJustified ==
    \A e \in routing : e[2] # Self =>
        \/ <<e[2], "inv", 0>> \in DOMAIN store
        \/ <<e[2], "refs", e[1]>> \in DOMAIN store
\* Routing entries only name nodes we know (the announcer gate).
RoutingKnownNodes == \A e \in routing : e[2] # Self => e[2] \in known
\* Our own entries are never private after (re)initialisation -- see Restart.
OwnRoutingPublicAtStart == [][restarts' # restarts => \A e \in routing' : e[2] = Self => ~private'[e[1]]]_vars

\* C29 ----------------------------------------------------------------------
C29_Increasing == [][ownTs' # ownTs => ownTs' > ownTs]_vars
C29_OwnStoredBelowCounter == \A k \in DOMAIN store : k[1] = Self => store[k].ts <= ownTs

=============================================================================
