----------------------------- MODULE TraceLimiter -----------------------------
(* Validates timelines recorded from the real RateLimiter (bursts, idle periods, backward clocks,  *)
(* several hosts, bypassed nodes, LAN addresses, capacities 0..4 and rates on a per-mille grid     *)
(* including non-dyadic ones such as 0.2, 0.333, 0.7).                                             *)
(*  - Statement level (always): the ghost `admitted` is fed with what the REAL limiter admitted;   *)
(*    WindowBound / AdmissionsMonotone of Limiter.tla are evaluated after every recorded call;     *)
(*    a bypassed node or non-routable host must have been admitted and must have left no bucket.  *)
(*  - Exact level (CheckExact = TRUE, for runs whose rates are multiples of 1/8 so that f64 and    *)
(*    milli-token arithmetic coincide): outcome and serialised bucket equal the model's.           *)
EXTENDS Limiter, Json, IOUtils

CONSTANT CheckExact

Rec == ndJsonDeserialize(IOEnv.TRACE)

VARIABLE l
tvars == <<buckets, admitted, clock, ncalls, l>>

ModelBucket(bs, h) == IF h \in DOMAIN bs THEN <<h, bs[h].cap, bs[h].rate, bs[h].tokens, bs[h].at>> ELSE <<>>

\* Runs recorded through the real `Service` (`tick` + `accepted`): ticks follow Tick (a backward
\* tick leaves the clock alone and must not panic), and every `limit` the service makes carries
\* exactly the service clock -- so it can never be the panicking kind.
Step(r) ==
    IF r.op = "reset"
    THEN buckets' = <<>> /\ admitted' = [h \in Hosts |-> <<>>] /\ clock' = 0
    ELSE IF r.op = "tick"
    THEN /\ clock' = Max2(clock, r.now)
         /\ "panic" \in DOMAIN r => ~r.panic
         /\ UNCHANGED <<buckets, admitted>>
    ELSE LET p == [cap |-> r.cap, rate |-> r.rate]
             m == LimitF(buckets, r.h, r.n, p, r.now)
         IN /\ r.ret \in {"admit", "limit", "panic"}
            \* never limited, and no trace: bypassed nodes, non-routable hosts
            /\ ~Counted(r.h, r.n) => r.ret = "admit"
            /\ r.h \in NonRoutable => r.bucket = <<>>
            /\ buckets' = m.next
            /\ admitted' = IF r.ret = "admit" /\ Counted(r.h, r.n)
                           THEN [admitted EXCEPT ![r.h] = Append(@, r.now)] ELSE admitted
            /\ UNCHANGED clock
            /\ "service" \in DOMAIN r => (r.now = clock /\ r.ret # "panic")
            /\ (CheckExact /\ r.exact) => /\ r.ret = m.ret
                                          /\ r.bucket = ModelBucket(m.next, r.h)

TInit == l = 1 /\ Init
TNext == /\ l <= Len(Rec)
         /\ Step(Rec[l])
         /\ l' = l + 1
         /\ UNCHANGED ncalls
TSpec == TInit /\ [][TNext]_tvars

Verdict ==
    IF TLCGet("stats").diameter - 1 = Len(Rec)
    THEN PrintT("TRACE-ACCEPTED")
    ELSE PrintT("TRACE-REJECTED at=" \o ToString(TLCGet("stats").diameter))
=============================================================================
