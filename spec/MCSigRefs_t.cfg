CONSTANTS
  NN = 4
  Root = 3
  NO = 3
  Keys = {1, 2}
  Signers = {1}
  MaxMuts = 1
  SignedMayHoldZero = TRUE
  Variant = "spec"
INIT Init
NEXT Next
INVARIANTS RoundTrip CanonInjective AcceptedIsSigned BindsExactly HonestAccepted AcceptedWellFormed EmitInv
