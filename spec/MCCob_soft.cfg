\* Identity objects: Identity::op ignores an `UnexpectedState` answer when the change has a
\* concurrent change in the graph ("soft" class) -- also when that concurrent change is pruned later
\* (forged signature). TLC must find the counterexample to C06_NoTrace: the result differs from
\* evaluating the history without the pruned change. Documents the open finding of C06.
CONSTANTS
  Atomic = TRUE
  SingleInPlace = FALSE
  DropDetached = TRUE
  Namespace = {1}
  M = 2
  MaxTs = 1
  Classes = {"ok", "soft", "badSig"}
  MaxBad = 2
  FullCauses = 1
  AllowDetached = FALSE
  Emit = FALSE
  EmitMod = 1
INIT InitGraphs
NEXT NextGraphs
INVARIANTS TheoremsHold
