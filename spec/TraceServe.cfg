CONSTANTS
  Rid = {"R1", "R2", "R3", "R4", "R5", "R6", "R7", "R8", "R9", "R10", "R11", "R12", "R13", "R14", "R15", "R16", "R17", "R18", "R19", "R20", "R21", "R22", "R23", "R24", "R25", "R26", "R27", "R28", "R29", "R30", "R31", "R32", "R33", "R34", "R35", "R36", "R37", "R38", "R39", "R40", "R41", "R42", "R43", "R44", "R45", "R46", "R47", "R48"}
  Node = {"D", "A", "O"}
  Variant = "design"
  MaxSent = 1
  Dynamic = TRUE
INIT TInit
NEXT TNext
INVARIANTS C12_ServeOnlyIfAllowed C12_RefusalBeforeData C12_ServedIsAuthorised ParserSound C13_NoCrash FetchAllowed RefusedLeavesNothing
POSTCONDITION Accepted
