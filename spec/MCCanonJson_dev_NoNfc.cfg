CONSTANTS
  Values <- DevValues
  Variant = "NoNfc"
  StrLen = 2
  CoreStrLen = 2
  FullKeyLen = 1
  TripleKeys = 3
  Deep = FALSE
INIT Init
NEXT Next
INVARIANTS KeysSorted Normalised FloatsRejected
