---------------------------- MODULE MCCanonical ----------------------------
EXTENDS Canonical, Json

\* One case per reachable state: the graph, the tips, and per threshold the head the statement
\* requires if a head is returned (0 = none may be returned), plus the outcomes the transcribed
\* algorithm can produce.
Emit ==
    PrintT(<<"CASE", ToJson([par |-> [c \in 1..N |-> parents[c]],
                             tips |-> [d \in 1..Cardinality(Delegate) |-> tips[d]],
                             exp  |-> [thr \in Thresholds |-> Expected(parents, tips, thr)],
                             alg  |-> [thr \in Thresholds |-> AlgOutcomes(parents, tips, thr)]])>>)
EmitInv == Emit
=============================================================================
