\* The step machine of cob::get, thorough: root + 3 changes, two namespaces.
CONSTANTS
  Atomic = TRUE
  SingleInPlace = FALSE
  DropDetached = TRUE
  Namespace = {1, 2}
  M = 3
  MaxTs = 2
  Classes = {"ok", "needs", "rejectLater"}
  MaxBad = 1
  FullCauses = 1
  AllowDetached = FALSE
  Emit = FALSE
  EmitMod = 1
INIT InitGet
NEXT NextGet
INVARIANTS LoadIsClosure C05_GetIsFunctionOfClosure WalkNoTrace
