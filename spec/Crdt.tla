--------------------------------- MODULE Crdt ---------------------------------
(***************************************************************************)
(* The state-based CRDTs of `radicle-crdt` (crates/radicle-crdt/src):       *)
(* bool, Max, Min, Option<T>, Redactable, GSet, GMap, LWWReg, LWWMap,       *)
(* LWWSet -- each as its carrier and its `Semilattice::merge` (Join),       *)
(* transcribed from the code.                                              *)
(*                                                                         *)
(* Part 1 (laws): a state is a type and three of its values; the           *)
(* invariants Associative, Commutative, Idempotent are property C22's      *)
(* first sentence, checked by TLC on every triple of the bounded carrier.  *)
(*                                                                         *)
(* Part 2 (last-writer-wins): one LWWMap / LWWSet replica receiving        *)
(* Insert / Remove operations in arbitrary order, with the set of          *)
(* operations received so far as ghost state.  The observer is stated      *)
(* DECLARATIVELY from that set (ObserveSpec): the value written with the   *)
(* greatest clock; at equal clocks an insertion wins over a removal and    *)
(* concurrent insertions are merged by the value's own join -- and         *)
(* compared with the transcribed structure (LwwObserver).  Since the       *)
(* ghost is a set, this also says the replica's content does not depend on *)
(* the order or multiplicity of delivery.                                  *)
(*                                                                         *)
(* Encodings: Max / Min values are naturals; Option<Max> is -1 (None) or   *)
(* a natural; Redactable is -1 (Redacted) or a natural (Present);          *)
(* maps are functions on the set of keys they contain; an LWW register is  *)
(* [c |-> clock, v |-> value].                                             *)
(***************************************************************************)
EXTENDS Integers, FiniteSets, Sequences, TLC

CONSTANTS Keys, MaxClock, MaxVal,
          Types,           \* the type names exercised by this instance
          RemoveWinsTies   \* TRUE: deliberately wrong variant (removal wins at equal clocks)

Clocks == 0..MaxClock
Vals == 0..MaxVal
NoneV == -1

Max2(a, b) == IF a > b THEN a ELSE b
Min2(a, b) == IF a < b THEN a ELSE b

-----------------------------------------------------------------------------
\* Carriers

PFun(D, R) == UNION {[S -> R] : S \in SUBSET D}     \* partial functions = maps
RegOver(V) == [c : Clocks, v : V]

Carrier(ty) ==
    CASE ty = "bool"       -> BOOLEAN
      [] ty = "max"        -> Vals
      [] ty = "min"        -> Vals
      [] ty = "optmax"     -> {NoneV} \cup Vals
      [] ty = "redactable" -> {NoneV} \cup Vals
      [] ty = "gset"       -> SUBSET Keys
      [] ty = "gmap"       -> PFun(Keys, Vals)                       \* GMap<K, Max<V>>
      [] ty = "lwwreg"     -> RegOver(Vals)                          \* LWWReg<Max<V>, C>
      [] ty = "lwwregopt"  -> RegOver({NoneV} \cup Vals)             \* LWWReg<Option<Max<V>>, C>
      [] ty = "lwwmap"     -> PFun(Keys, RegOver({NoneV} \cup Vals)) \* LWWMap<K, Max<V>, C>
      [] ty = "lwwset"     -> PFun(Keys, RegOver({NoneV, 0}))        \* LWWSet<K, C> = LWWMap<K, (), C>

-----------------------------------------------------------------------------
\* `Semilattice::merge`, transcribed

\* impl Semilattice for Option<T>: None is the bottom; Some(a), Some(b) merge inside. With None = -1
\* and T = Max this is again a maximum; with T = () (LWWSet) likewise.
JoinOpt(a, b) == IF a = NoneV THEN b ELSE IF b = NoneV THEN a ELSE Max2(a, b)
\* the wrong variant used by the sanity configuration: None (a removal) absorbs
JoinOptWrong(a, b) == IF a = NoneV \/ b = NoneV THEN NoneV ELSE Max2(a, b)

\* impl Semilattice for Redactable<T>: Redacted is the top; different Present values redact
JoinRedactable(a, b) == IF a = NoneV THEN NoneV ELSE IF b = NoneV THEN NoneV ELSE IF a = b THEN a ELSE NoneV

\* `LWWReg::set` (which `merge` calls with the other register's value and clock)
JoinReg(a, b, JoinV(_, _)) ==
    IF b.c = a.c THEN [c |-> a.c, v |-> JoinV(a.v, b.v)]
    ELSE IF b.c > a.c THEN b ELSE a

\* `GMap::merge`: insert every entry of the other map, merging values under the same key
JoinMap(a, b, JoinV(_, _)) ==
    [k \in DOMAIN a \cup DOMAIN b |->
        IF k \in DOMAIN a /\ k \in DOMAIN b THEN JoinV(a[k], b[k])
        ELSE IF k \in DOMAIN a THEN a[k] ELSE b[k]]

OptJ(a, b) == IF RemoveWinsTies THEN JoinOptWrong(a, b) ELSE JoinOpt(a, b)
RegOptJ(a, b) == JoinReg(a, b, OptJ)

Join(ty, a, b) ==
    CASE ty = "bool"       -> a \/ b
      [] ty = "max"        -> Max2(a, b)
      [] ty = "min"        -> Min2(a, b)
      [] ty = "optmax"     -> JoinOpt(a, b)
      [] ty = "redactable" -> JoinRedactable(a, b)
      [] ty = "gset"       -> a \cup b
      [] ty = "gmap"       -> JoinMap(a, b, Max2)
      [] ty = "lwwreg"     -> JoinReg(a, b, Max2)
      [] ty = "lwwregopt"  -> RegOptJ(a, b)
      [] ty = "lwwmap"     -> JoinMap(a, b, RegOptJ)
      [] ty = "lwwset"     -> JoinMap(a, b, RegOptJ)

-----------------------------------------------------------------------------
\* Part 1: the laws

\* A triple is picked in three steps (the type and a; then b; then c) so that the pairs (phase 2)
\* and the triples (phase 3) are both states; the laws are evaluated on the triples.
VARIABLES ty, a, b, c, phase
lawvars == <<ty, a, b, c, phase>>

LawInit == /\ ty \in Types
           /\ a \in Carrier(ty) /\ b = a /\ c = a /\ phase = 1
LawNext == \/ phase = 1 /\ b' \in Carrier(ty) /\ phase' = 2 /\ UNCHANGED <<ty, a, c>>
           \/ phase = 2 /\ c' \in Carrier(ty) /\ phase' = 3 /\ UNCHANGED <<ty, a, b>>

Associative == Join(ty, Join(ty, a, b), c) = Join(ty, a, Join(ty, b, c))
Commutative == Join(ty, a, b) = Join(ty, b, a)
Idempotent  == Join(ty, a, a) = a
Closed      == Join(ty, a, b) \in Carrier(ty)
\* a join is an upper bound of both arguments in the order it induces
UpperBound  == Join(ty, a, Join(ty, a, b)) = Join(ty, a, b)

-----------------------------------------------------------------------------
\* Part 2: last-writer-wins observers

\* operations: <<"ins", key, value, clock>> / <<"rem", key, NoneV, clock>>
OpUniverse == {<<"ins", k, v, cl>> : k \in Keys, v \in Vals, cl \in Clocks}
              \cup {<<"rem", k, NoneV, cl>> : k \in Keys, cl \in Clocks}

VARIABLES m,     \* the LWWMap replica (function key -> register over Option)
          ops    \* ghost: the set of operations delivered so far
lwwvars == <<m, ops>>

\* `LWWMap::insert` / `remove`: merge a one-entry map into the replica
Singleton(op) == [k \in {op[2]} |-> [c |-> op[4], v |-> op[3]]]
Apply(mm, op) == JoinMap(mm, Singleton(op), RegOptJ)

LwwInit == m = <<>> /\ ops = {}
Deliver(op) == /\ m' = Apply(m, op)
               /\ ops' = ops \cup {op}
LwwNext == \E op \in OpUniverse : Deliver(op)

\* `LWWMap::get` / `contains_key` on the structure
Get(mm, k) == IF k \in DOMAIN mm THEN mm[k].v ELSE NoneV

\* The statement: what an observer must see, from the delivered operations alone.
OpsOn(O, k) == {op \in O : op[2] = k}
TopClock(O, k) == CHOOSE cl \in Clocks : (\E op \in OpsOn(O, k) : op[4] = cl)
                                        /\ \A op \in OpsOn(O, k) : op[4] <= cl
ObserveSpec(O, k) ==
    IF OpsOn(O, k) = {} THEN NoneV
    ELSE LET top == {op \in OpsOn(O, k) : op[4] = TopClock(O, k)}
             ins == {op \in top : op[1] = "ins"}
         IN IF ins = {} THEN NoneV                                   \* only removals at the top clock
            ELSE CHOOSE v \in Vals : (\E op \in ins : op[3] = v)     \* an insertion wins; concurrent
                                     /\ \A op \in ins : op[3] <= v   \* insertions merge by Max

LwwObserver == \A k \in Keys : Get(m, k) = ObserveSpec(ops, k)
\* the clock kept for a key is the greatest clock delivered for it
LwwClock == \A k \in Keys : k \in DOMAIN m <=> OpsOn(ops, k) # {}
LwwClock2 == \A k \in DOMAIN m : m[k].c = TopClock(ops, k)
=============================================================================
