------------------------------ MODULE MCClean ------------------------------
(* Bounded instance of Clean.tla: the local peer L, two possible further delegates d1 d2, a     *)
(* followed peer f and another peer o; every non-empty delegate set over {L, d1, d2}; every     *)
(* combination of namespace states; identity document readable / missing / of an unsupported    *)
(* version; behaviours of up to MaxOps actions.                                                 *)
EXTENDS Clean, Json

MCNode == {"L", "d1", "d2", "f", "o"}
MCDelegates == (SUBSET {"L", "d1", "d2"}) \ {{}}
MCNsStates == [n \in MCNode |->
                 CASE n = "L" -> {"absent", "unsigned", "signed", "corrupt"}
                   [] n = "d1" -> {"absent", "unsigned", "signed", "signed2"}
                   [] n = "d2" -> {"absent", "unsigned", "signed"}
                   [] n = "f" -> {"absent", "signed"}
                   [] n = "o" -> {"absent", "unsigned", "signed", "signed2", "corrupt"}]

MCIdStates == {"ok", "missing", "unsupported"}

\* one case per maximal behaviour
Emit == PrintT(<<"CASE", ToJson([delegates |-> delegates, init |-> hist[1].pre, iddoc |-> hist[1].iddoc, steps |-> hist])>>)
EmitInv == (Len(hist) > 0 /\ (Len(hist) = MaxOps \/ ~exists)) => Emit
=============================================================================
