---------------------------- MODULE TraceSshAgent ----------------------------
(* Validates calls recorded from the real AgentClient (mock stream returning random and        *)
(* mutated replies, much more varied than the bounded family) against SshAgent.tla.  One record *)
(* per call: {op, resp, out, errk, val}; each record is turned into the terminal state of the   *)
(* call's state machine and the module's invariants are evaluated on it.                        *)
EXTENDS SshAgent, Json, IOUtils, SequencesExt

None == {}
AllOps == {"identities", "sign", "query", "other"}
Rec == ndJsonDeserialize(IOEnv.TRACE)

VARIABLE l
tvars == <<vars, l>>

TInit == /\ l = 1 /\ op = "other" /\ resp = <<>> /\ pc = "end" /\ pos = 0 /\ left = 0 /\ keys = <<>>
         /\ out = "ok" /\ val = <<>> /\ errk = "" /\ iters = 0
TNext == /\ l <= Len(Rec)
         /\ l' = l + 1
         /\ op' = Rec[l].op /\ resp' = Rec[l].resp
         /\ out' = Rec[l].out /\ val' = Rec[l].val /\ errk' = Rec[l].errk
         /\ pc' = "end" /\ pos' = 0 /\ left' = 0 /\ keys' = <<>> /\ iters' = 0

Accepted ==
    IF TLCGet("stats").diameter - 1 = Len(Rec)
    THEN PrintT("TRACE-ACCEPTED")
    ELSE PrintT("TRACE-REJECTED at=" \o ToString(TLCGet("stats").diameter))
=============================================================================
