CONSTANTS
  N = 3
  AcceptNoRoot = TRUE
  RefsAtUsesAdvertised = FALSE
  RefsAtIgnoresBlock = FALSE
  KeepStaleRad = FALSE
  SkipUnloaded = TRUE
  Family = {"focus"}
  Junks = {"none"}
  DelCount = {1, 2, 3}
  LocalChoices = {0, 1}
INIT MCInit
NEXT Next
INVARIANTS C01_Match
