CONSTANTS
  N = 1
  Delegate = {1}
  PairCounting = FALSE
INIT TInit
NEXT TNext
INVARIANTS AnswersAllowed
POSTCONDITION Accepted
