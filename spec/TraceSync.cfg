CONSTANTS
  Node = {0,1,2,3,4,5,6,7,8,9,10,11}
  Local = 0
  FetcherOriginal = FALSE
  AnnouncerOriginal = FALSE
  AnCfgDomain = {}
INIT TInit
NEXT TNext
INVARIANTS AnSuccessIffTarget AnNeverLocal AnNoNodesSound FeSuccessIffTarget FeHandsOutSound FeCountsSound
POSTCONDITION Accepted
