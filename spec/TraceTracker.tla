---------------------------- MODULE TraceTracker ----------------------------
(***************************************************************************)
(* Validation of steps recorded from the implementation against            *)
(* Tracker.tla.  Input: an ndjson file (IOEnv.TRACE) written by the        *)
(* harness (c07_authz / c08_merge):                                        *)
(*                                                                         *)
(*   {"ev":"cfg","cfg":{...}}          constants of the recorded world     *)
(*   {"ev":"reset","obj":..,"st":..,"heads":[..]}   a run starts from this *)
(*                                     object state and these branch heads *)
(*   {"ev":"op","op":[a,d,k,x,y,z],"res":0|1,"st":..}  the real code       *)
(*                                     evaluated this op: Err / Ok, and    *)
(*                                     the projection of the object after  *)
(*   {"ev":"push","a":..,"c":..}       a default branch moved              *)
(*                                                                         *)
(* The recorded runs come from two places: random multi-author histories   *)
(* stored as change commits and evaluated by the real `cob::get` (real     *)
(* traversal order, pruning of rejected changes), and the steps of the     *)
(* bounded replay whose outcome differed from the model's prediction.      *)
(*                                                                         *)
(* The trace specification *follows* the implementation: after every       *)
(* record its variables hold what the implementation reported.  Each step  *)
(* (pre-state, op, post-state) is judged twice:                            *)
(*   - by the statements of C07 / C08 (StmtIssue, StmtPatch, C08Step,      *)
(*     RejectedNoEffect), as TLC action properties: a violation rejects    *)
(*     the trace;                                                          *)
(*   - by the transcribed evaluation (IssueEval / PatchEval): a step the   *)
(*     model would have taken differently is counted as drift and printed, *)
(*     and rejects the trace only in the strict configuration.             *)
(***************************************************************************)
EXTENDS Tracker, Json, IOUtils, SequencesExt

Rec == ndJsonDeserialize(IOEnv.TRACE)
Cfg == Rec[1].cfg

\* constants of Tracker, read from the trace (see TraceTracker.cfg)
TActor      == 1..Cfg.actors
TDoc        == 1..Len(Cfg.delegates)
TDelegates  == [d \in TDoc |-> ToSet(Cfg.delegates[d])]
TThreshold  == [d \in TDoc |-> Cfg.threshold[d]]
TLabelSets  == [n \in 1..Len(Cfg.labelsets) |-> ToSet(Cfg.labelsets[n])]
TAssignSets == [n \in 1..Len(Cfg.assignsets) |-> ToSet(Cfg.assignsets[n])]
TCommit     == 1..Cfg.commits
TAnc        == [c \in TCommit |-> ToSet(Cfg.anc[c])]
TKinds      == {}

VARIABLES l,        \* position in the trace
          drift     \* number of steps the transcribed evaluation would have taken differently
tvars == <<issue, patch, heads, log, ghost, l, drift>>

-----------------------------------------------------------------------------
\* JSON projection -> model state

DecC(c)  == [a |-> c.a, live |-> c.live, edits |-> c.edits, re |-> c.re, rx |-> ToSet(c.rx)]
DecIssue(j) ==
    [author |-> j.author, title |-> j.title, state |-> j.state, labels |-> ToSet(j.labels),
     assignees |-> ToSet(j.assignees), comments |-> [n \in 1..Len(j.comments) |-> DecC(j.comments[n])]]
DecRev(r) == [a |-> r.a, live |-> r.live, edits |-> r.edits, rx |-> ToSet(r.rx)]
DecRC(c)  == [rev |-> c.rev, a |-> c.a, live |-> c.live, edits |-> c.edits, re |-> c.re, rx |-> ToSet(c.rx)]
DecVC(c)  == [review |-> c.review, a |-> c.a, live |-> c.live, edits |-> c.edits, re |-> c.re,
              rx |-> ToSet(c.rx), res |-> c.res]
DecPatch(j) ==
    [author |-> j.author, title |-> j.title,
     state |-> [k |-> j.state.k, set |-> ToSet(j.state.set)],
     labels |-> ToSet(j.labels), assignees |-> ToSet(j.assignees), merges |-> ToSet(j.merges),
     revs |-> [n \in 1..Len(j.revs) |-> DecRev(j.revs[n])],
     rcomments |-> [n \in 1..Len(j.rcomments) |-> DecRC(j.rcomments[n])],
     reviews |-> [n \in 1..Len(j.reviews) |-> j.reviews[n]],
     vcomments |-> [n \in 1..Len(j.vcomments) |-> DecVC(j.vcomments[n])]]
DecOp(o) == Op(o[1], o[2], o[3], o[4], o[5], o[6])
Extra(j) == "extra" \in DOMAIN j

-----------------------------------------------------------------------------
TInit == /\ l = 1 /\ drift = 0
         /\ issue = NoIssue /\ patch = NoPatch
         /\ heads = [a \in TActor |-> 0]
         /\ log = <<>> /\ ghost = NoGhost

Reset(r) ==
    /\ issue' = IF r.obj = "issue" THEN DecIssue(r.st) ELSE NoIssue
    /\ patch' = IF r.obj = "patch" THEN DecPatch(r.st) ELSE NoPatch
    /\ heads' = [a \in TActor |-> r.heads[a]]
    /\ log' = <<>> /\ ghost' = NoGhost
    /\ UNCHANGED drift

\* The implementation evaluated r.op and reports r.res / r.st.  The variables follow it; whether
\* the transcribed evaluation agrees decides `drift`.
Step(r) ==
    LET op == DecOp(r.op)
        isI == r.obj = "issue"
        post == IF isI THEN DecIssue(r.st) ELSE DecPatch(r.st)
        out == IF isI THEN IssueEval(issue, op) ELSE PatchEval(patch, op, heads)
        agrees == out.st = post /\ ((out.res = "rejected") = (r.res = 0)) /\ ~Extra(r.st)
    IN
    /\ issue' = IF isI THEN post ELSE issue
    /\ patch' = IF isI THEN patch ELSE post
    /\ log' = Append(log, [op |-> op, res |-> IF r.res = 0 THEN "rejected" ELSE "applied"])
    /\ ghost' = ghost
    /\ UNCHANGED heads
    /\ drift' = IF agrees THEN drift
                ELSE IF PrintT(<<"DRIFT", l, r.op, "model", out.res, "real", r.res>>) THEN drift + 1
                ELSE drift + 1

PushEv(r) ==
    /\ heads' = [heads EXCEPT ![r.a] = r.c]
    /\ log' = Append(log, [op |-> Op(r.a, 0, "push", r.c, 0, 0), res |-> "applied"])
    /\ UNCHANGED <<issue, patch, ghost, drift>>

TNext ==
    /\ l <= Len(Rec)
    /\ l' = l + 1
    /\ LET r == Rec[l] IN
       CASE r.ev = "reset" -> Reset(r)
         [] r.ev = "op"    -> Step(r)
         [] r.ev = "push"  -> PushEv(r)
         [] OTHER          -> UNCHANGED <<issue, patch, heads, log, ghost, drift>>

TSpec == TInit /\ [][TNext]_tvars

\* strict configuration: the implementation must follow the transcribed evaluation exactly
NoDrift == drift = 0

\* A panic of the evaluation code recorded by the harness
NoPanic == l > 1 /\ l <= Len(Rec) + 1 => Rec[l - 1].ev # "panic"

Accepted ==
    IF TLCGet("stats").diameter - 1 = Len(Rec)
    THEN PrintT("TRACE-ACCEPTED")
    ELSE PrintT("TRACE-REJECTED at=" \o ToString(TLCGet("stats").diameter))
=============================================================================
