CONSTANTS
  Repos = {1,2}
  Nodes = {1,2}
  TS = {0,1,2}
  Which = {"routing","sync","refs","seeding","following","gossip"}
  MaxDepth <- DepthQ
  Variant = "fixed"
INIT Init
NEXT Next
VIEW View
INVARIANTS ForeignKeys RowidsUnique EmitInv
PROPERTIES RoutingTimeMonotone PruneKeepsLocal SyncMovesForward RefsMoveForward SeedingReflectsLastWrite FollowingReflectsLastWrite AnnouncementReplacedByNewer
