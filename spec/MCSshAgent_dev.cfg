\* sanity: the parsing as it was before the repairs must be rejected by TLC
CONSTANTS
  MaxEntries = 1
  BlobClasses = {1}
  PrefixStep = 1
  Orig = TRUE
  Ops = {"identities", "sign"}
  Replies <- MCReplies
  WellFormed <- MCWellFormed
INIT Init
NEXT Next
INVARIANTS NoPanic
