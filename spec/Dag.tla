--------------------------------- MODULE Dag ---------------------------------
(***************************************************************************)
(* Dependency graph of `radicle-dag` (crates/radicle-dag/src/lib.rs), the   *)
(* structure under every collaborative object's change history.            *)
(*                                                                         *)
(* State: a set of node keys and a set of dependency edges <<from, to>>     *)
(* ("from depends on to", `Dag::dependency(from, to)`), kept acyclic.       *)
(* Actions are the public mutators: AddNode, AddDependency, Remove,         *)
(* Prune, Merge.  Their effect is given DECLARATIVELY (set algebra on the   *)
(* graph); that is what property C23 states.                                *)
(*                                                                         *)
(* Next to each declarative definition stands the code TRANSCRIBED onto    *)
(* the concrete representation the crate uses (per node the two adjacency  *)
(* sets `dependencies` / `dependents`, plus the incrementally maintained   *)
(* `tips` and `roots` sets): Visit (the DFS behind `sorted_by`, `fold`),   *)
(* VisitBy (`prune_by`), AlgFold, AlgPrune, AlgRemove, AlgMerge.            *)
(* TLC checks, in every reachable graph and for every argument of the      *)
(* bounded instance, that the transcribed algorithm produces what the      *)
(* declarative statement allows (invariants SortedSound ... MergeSound).    *)
(* The conformance harness then compares the real `Dag` with both.         *)
(***************************************************************************)
EXTENDS Integers, FiniteSets, Sequences, SequencesExt, TLC

CONSTANTS Keys,               \* node keys (integers; BTree order = integer order)
          MergeFromAllRoots   \* TRUE: `merge` starts from every root of `other` (fixed code)
                              \* FALSE: from its first root only (original code; finding C23)

VARIABLES nodes,   \* SUBSET Keys
          deps     \* SUBSET (nodes \X nodes): <<a, b>> = a depends on b
vars == <<nodes, deps>>

-----------------------------------------------------------------------------
\* Graph vocabulary (declarative)

DependentsOf(D, k)   == {e[1] : e \in {x \in D : x[2] = k}}
DependenciesOf(D, k) == {e[2] : e \in {x \in D : x[1] = k}}

\* Least set containing S and closed under "dependent of".
RECURSIVE DownClosure(_, _)
DownClosure(D, S) ==
    LET T == S \cup UNION {DependentsOf(D, k) : k \in S}
    IN IF T = S THEN S ELSE DownClosure(D, T)
RECURSIVE UpClosure(_, _)
UpClosure(D, S) ==
    LET T == S \cup UNION {DependenciesOf(D, k) : k \in S}
    IN IF T = S THEN S ELSE UpClosure(D, T)

DescOrSelf(D, k)  == DownClosure(D, {k})            \* k and its transitive dependents
StrictDesc(D, k)  == DescOrSelf(D, k) \ {k}
StrictAnc(D, k)   == UpClosure(D, {k}) \ {k}
Acyclic(N, D)     == \A k \in N : k \notin DownClosure(D, DependentsOf(D, k))

TipsOf(N, D)  == {k \in N : DependentsOf(D, k) = {}}     \* nobody depends on them
RootsOf(N, D) == {k \in N : DependenciesOf(D, k) = {}}   \* depend on nobody
RestrictTo(D, N) == {e \in D : e[1] \in N /\ e[2] \in N}

IsPerm(seq, S) == /\ Len(seq) = Cardinality(S)
                  /\ {seq[i] : i \in DOMAIN seq} = S
Pos(seq, x) == CHOOSE i \in DOMAIN seq : seq[i] = x
\* every member of the sequence comes after all of its dependencies that are also members
RespectsDeps(seq, D) ==
    \A i, j \in DOMAIN seq : <<seq[i], seq[j]>> \in D => j < i

-----------------------------------------------------------------------------
\* C23, the statement.
\*
\* Topological order: every node exactly once, after all of its dependencies.
IsTopo(seq, N, D) == IsPerm(seq, N) /\ RespectsDeps(seq, D)

\* Folding / pruning from `roots` with the callback answering Break exactly on `stop`:
\* what is reachable, minus the strict dependents of every reachable stop node, is visited
\* (the stop nodes themselves are visited: the callback has to be asked), in an order that
\* respects dependencies.
Reach(D, roots, N) == DownClosure(D, roots \cap N)
Stopped(D, roots, stop, N) == stop \cap Reach(D, roots, N)
Visited(D, roots, stop, N) ==
    Reach(D, roots, N) \ UNION {StrictDesc(D, s) : s \in Stopped(D, roots, stop, N)}
FoldOk(log, N, D, roots, stop) ==
    /\ IsPerm(log, Visited(D, roots, stop, N))
    /\ RespectsDeps(log, D)
\* Pruning removes each (reached) stop node together with exactly its transitive dependents.
PrunedNodes(N, D, roots, stop) ==
    N \ UNION {DescOrSelf(D, s) : s \in Stopped(D, roots, stop, N)}
RemovedNodes(N, D, k) == IF k \in N THEN N \ DescOrSelf(D, k) ELSE N
\* Merge is the union of nodes and edges.

-----------------------------------------------------------------------------
\* Concrete representation used by the crate and the code transcribed onto it.

EmptyNode == [dependencies |-> {}, dependents |-> {}]
\* The representation of a well-formed graph.
Rep(N, D) == [graph |-> [k \in N |-> [dependencies |-> DependenciesOf(D, k),
                                      dependents   |-> DependentsOf(D, k)]],
              tips  |-> TipsOf(N, D),
              roots |-> RootsOf(N, D)]

Asc(S)  == SetToSortSeq(S, LAMBDA a, b : a < b)      \* BTreeSet iteration
Desc(S) == SetToSortSeq(S, LAMBDA a, b : a > b)      \* ... `.rev()`
\* orderings handed to sorted_by / prune_by are modelled by a rank (injective map Keys -> Nat)
ByRankAsc(S, rank)  == SetToSortSeq(S, LAMBDA a, b : rank[a] < rank[b])
ByRankDesc(S, rank) == SetToSortSeq(S, LAMBDA a, b : rank[a] > rank[b])

Drop(f, k) == [x \in DOMAIN f \ {k} |-> f[x]]
Put(f, k, v) == [x \in DOMAIN f \cup {k} |-> IF x = k THEN v ELSE f[x]]

\* `Dag::visit`: DFS over dependents (descending key order), nodes pushed to the FRONT after
\* their dependents. st = [visited, order].
RECURSIVE Visit(_, _, _), VisitSeq(_, _, _)
Visit(g, key, st) ==
    IF key \in st.visited THEN st
    ELSE LET st1 == [st EXCEPT !.visited = @ \cup {key}]
             st2 == IF key \in DOMAIN g THEN VisitSeq(g, Desc(g[key].dependents), st1) ELSE st1
         IN [st2 EXCEPT !.order = <<key>> \o @]
VisitSeq(g, seq, st) ==
    IF seq = <<>> THEN st ELSE VisitSeq(g, Tail(seq), Visit(g, Head(seq), st))

\* `Dag::visit_by`: same, dependents (those present in the graph) sorted by the caller's ordering
\* and walked in reverse.
RECURSIVE VisitBy(_, _, _, _), VisitBySeq(_, _, _, _)
VisitBy(g, rank, key, st) ==
    IF key \in st.visited THEN st
    ELSE LET st1 == [st EXCEPT !.visited = @ \cup {key}]
             st2 == IF key \in DOMAIN g
                    THEN VisitBySeq(g, rank, ByRankDesc(g[key].dependents \cap DOMAIN g, rank), st1)
                    ELSE st1
         IN [st2 EXCEPT !.order = <<key>> \o @]
VisitBySeq(g, rank, seq, st) ==
    IF seq = <<>> THEN st ELSE VisitBySeq(g, rank, Tail(seq), VisitBy(g, rank, Head(seq), st))

St0 == [visited |-> {}, order |-> <<>>]

\* `Dag::sorted_by(compare)`: all keys, sorted by the reversed comparison, visited in turn.
AlgSorted(r, rank) == VisitSeq(r.graph, ByRankDesc(DOMAIN r.graph, rank), St0).order

\* `descendants_of` / `ancestors_of` (BFS; only the resulting set matters to callers)
RECURSIVE AlgDown(_, _), AlgUp(_, _)
AlgDown(g, S) == LET T == S \cup UNION {g[k].dependents \cap DOMAIN g : k \in S \cap DOMAIN g}
                 IN IF T = S THEN S ELSE AlgDown(g, T)
AlgUp(g, S)   == LET T == S \cup UNION {g[k].dependencies \cap DOMAIN g : k \in S \cap DOMAIN g}
                 IN IF T = S THEN S ELSE AlgUp(g, T)
AlgDescendants(g, k) == AlgDown(g, g[k].dependents \cap DOMAIN g)
AlgAncestors(g, k)   == AlgUp(g, g[k].dependencies \cap DOMAIN g)
AlgSiblings(g, k) == (DOMAIN g \ (AlgAncestors(g, k) \cup AlgDescendants(g, k))) \ {k}

\* `Dag::fold(roots, …)`: roots (ascending slice) visited in reverse; then the list is walked,
\* skipping the descendants of every node on which the callback answered Break. Returns the
\* sequence of nodes handed to the callback.
RECURSIVE FoldLoop(_, _, _, _, _)
FoldLoop(g, order, stop, skip, log) ==
    IF order = <<>> THEN log
    ELSE LET n == Head(order) IN
         IF n \in skip \/ n \notin DOMAIN g THEN FoldLoop(g, Tail(order), stop, skip, log)
         ELSE IF n \in stop
              THEN FoldLoop(g, Tail(order), stop, skip \cup AlgDescendants(g, n), Append(log, n))
              ELSE FoldLoop(g, Tail(order), stop, skip, Append(log, n))
AlgFold(r, roots, stop) == FoldLoop(r.graph, VisitSeq(r.graph, Desc(roots), St0).order, stop, {}, <<>>)

\* `Dag::remove(key)`: unlink from dependencies (a dependency left without dependents becomes a
\* tip), then remove every dependent recursively.
RECURSIVE AlgRemove(_, _), RemoveDeps(_, _, _), RemoveSeq(_, _)
RemoveDeps(r, key, seq) ==
    IF seq = <<>> THEN r
    ELSE LET k == Head(seq) IN
         IF k \in DOMAIN r.graph
         THEN LET d == r.graph[k].dependents \ {key}
                  g2 == [r.graph EXCEPT ![k].dependents = d]
              IN RemoveDeps([r EXCEPT !.graph = g2,
                                      !.tips = IF d = {} THEN @ \cup {k} ELSE @], key, Tail(seq))
         ELSE RemoveDeps(r, key, Tail(seq))
RemoveSeq(r, seq) == IF seq = <<>> THEN r ELSE RemoveSeq(AlgRemove(r, Head(seq)), Tail(seq))
AlgRemove(r, key) ==
    IF key \notin DOMAIN r.graph THEN r
    ELSE LET node == r.graph[key]
             r1 == [graph |-> Drop(r.graph, key), tips |-> r.tips \ {key}, roots |-> r.roots \ {key}]
             r2 == RemoveDeps(r1, key, Asc(node.dependencies))
         IN RemoveSeq(r2, Asc(node.dependents))

\* `Dag::prune_by(roots, filter, ordering)`: order by VisitBy from the roots IN THE GIVEN ORDER;
\* then each node still in the graph is handed to the callback (with its current siblings) and
\* removed, with all its dependents, on Break. Returns [rep, log, sib].
RECURSIVE PruneLoop(_, _, _, _, _)
PruneLoop(r, order, stop, log, sib) ==
    IF order = <<>> THEN [rep |-> r, log |-> log, sib |-> sib]
    ELSE LET n == Head(order) IN
         IF n \notin DOMAIN r.graph THEN PruneLoop(r, Tail(order), stop, log, sib)
         ELSE PruneLoop(IF n \in stop THEN AlgRemove(r, n) ELSE r, Tail(order), stop,
                        Append(log, n), Append(sib, AlgSiblings(r.graph, n)))
AlgPrune(r, rootseq, stop, rank) ==
    PruneLoop(r, VisitBySeq(r.graph, rank, rootseq, St0).order, stop, <<>>, <<>>)

\* `Dag::node` / `Dag::dependency` on the representation
AlgNode(r, k) == [graph |-> Put(r.graph, k, EmptyNode), tips |-> r.tips \cup {k}, roots |-> r.roots \cup {k}]
AlgDependency(r, from, to) ==
    LET r1 == IF from \in DOMAIN r.graph
              THEN [r EXCEPT !.graph[from].dependencies = @ \cup {to}, !.roots = @ \ {from}] ELSE r
    IN IF to \in DOMAIN r1.graph
       THEN [r1 EXCEPT !.graph[to].dependents = @ \cup {from}, !.tips = @ \ {to}] ELSE r1
RECURSIVE DepsFrom(_, _, _), DepsTo(_, _, _)
DepsFrom(r, seq, to) == IF seq = <<>> THEN r ELSE DepsFrom(AlgDependency(r, Head(seq), to), Tail(seq), to)
DepsTo(r, from, seq) == IF seq = <<>> THEN r ELSE DepsTo(AlgDependency(r, from, Head(seq)), from, Tail(seq))

\* `Dag::merge(other)`: breadth-first over `other` along dependents, starting from its first root
\* (original code) or from all of its roots (fixed code).
RECURSIVE MergeLoop(_, _, _, _)
MergeLoop(self, other, queue, visited) ==
    IF queue = <<>> THEN self
    ELSE LET next == Head(queue) IN
         IF next \in visited THEN MergeLoop(self, other, Tail(queue), visited)
         ELSE IF next \notin DOMAIN other.graph
              THEN MergeLoop(self, other, Tail(queue), visited \cup {next})
              ELSE LET node == other.graph[next]
                       s1 == IF next \in DOMAIN self.graph THEN self ELSE AlgNode(self, next)
                       s2 == DepsFrom(s1, Asc(node.dependents), next)
                       s3 == DepsTo(s2, next, Asc(node.dependencies))
                   IN MergeLoop(s3, other, Tail(queue) \o Asc(node.dependents), visited \cup {next})
AlgMerge(self, other) ==
    LET rs == Asc(other.roots \cap DOMAIN other.graph) IN
    IF rs = <<>> THEN self
    ELSE MergeLoop(self, other, IF MergeFromAllRoots THEN rs ELSE <<rs[1]>>, {})

-----------------------------------------------------------------------------
\* State machine (declarative effects)

Init == nodes = {} /\ deps = {}

AddNode(k) == /\ k \in Keys \ nodes
              /\ nodes' = nodes \cup {k}
              /\ UNCHANGED deps

\* edges only between existing nodes; cycles are never created (the crate relies on its callers)
AddDependency(a, b) == /\ a \in nodes /\ b \in nodes /\ a # b      \* (idempotent, like the code)
                       /\ Acyclic(nodes, deps \cup {<<a, b>>})
                       /\ deps' = deps \cup {<<a, b>>}
                       /\ UNCHANGED nodes

RemoveNode(k) == /\ nodes' = RemovedNodes(nodes, deps, k)
             /\ deps' = RestrictTo(deps, nodes')

Prune(roots, stop) == /\ nodes' = PrunedNodes(nodes, deps, roots, stop)
                      /\ deps' = RestrictTo(deps, nodes')

Merge(N2, D2) == /\ nodes' = nodes \cup N2
                 /\ deps' = deps \cup D2

\* Growth only: every DAG over a subset of Keys is reachable by AddNode / AddDependency, and
\* Remove / Prune / Merge lead to graphs that are reachable anyway; their effects are checked
\* as invariants over all arguments in every state (below) instead of as transitions.
Next == \/ \E k \in Keys : AddNode(k)
        \/ \E a, b \in Keys : AddDependency(a, b)
Spec == Init /\ [][Next]_vars

TypeOk == nodes \subseteq Keys /\ deps \subseteq nodes \X nodes /\ Acyclic(nodes, deps)

=============================================================================
