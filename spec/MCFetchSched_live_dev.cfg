CONSTANTS
  Peer = {1, 2}
  Repo = {1, 2}
  Persistent = {2}
  Capacity = 1
  QueueMax = 1
  MaxTasks = 2
  MaxOps = 0
  RetryExact = TRUE
  SyncTask = FALSE
  Dev = {"late-same-peer", "stale-link"}
SPECIFICATION LiveSpec
VIEW view
PROPERTIES PersistentRedialled
