-------------------------------- MODULE MCCob --------------------------------
(***************************************************************************)
(* Bounded instances of Cob.tla.                                           *)
(*                                                                         *)
(* Two uses (selected by INIT/NEXT in the configuration):                  *)
(*  * InitGraphs / Stutter : one state per change graph of the bounded     *)
(*    space (all labelled DAGs on the root + M changes, every timestamp    *)
(*    and payload-class assignment): the theorems about View are checked   *)
(*    on each, and each is emitted as a case for the conformance replay.   *)
(*  * InitGet / Next : the step machine of `cob::get` on a replica whose   *)
(*    references move, over the same graphs (smaller bounds).              *)
(***************************************************************************)
EXTENDS Cob, Json

CONSTANTS M,         \* non-root changes 1..M
          MaxTs,     \* timestamps 1..MaxTs
          Classes,   \* payload classes used
          MaxBad,    \* at most this many changes of a class other than "ok"
          FullCauses, \* graphs with at most this many such changes range over every refused single
                     \* action (cause x author role); larger ones use one fixed cause per change id
          AllowDetached, \* TRUE: changes without any dependency (other than the root) are enumerated too
          Emit,      \* TRUE: print one CASE line per graph ...
          EmitMod    \* ... whose pseudo-hash is 0 modulo EmitMod (1: every graph)

NonRoot == 1..M
Change == 0..M

RECURSIVE ReachN(_, _, _)
ReachN(d, c, n) == IF n = 0 THEN {} ELSE LET s == d[c] \ {Root} IN s \cup UNION {ReachN(d, x, n - 1) : x \in s}

\* Dependency functions: every change has a parent (so everything descends from the root -- a
\* change commit is created on top of existing tips), no self loops, no cycles.  Redundant edges
\* (to the root as well as to a descendant of the root) are allowed: real commits can have them
\* and they matter, since the root's direct dependents are traversed in a different order.
DepFuns == {d \in [NonRoot -> SUBSET Change] :
              /\ \A c \in NonRoot : (AllowDetached \/ d[c] # {}) /\ c \notin d[c]
              /\ \A c \in NonRoot : c \notin ReachN(d, c, M)}

MkGraph(d, t, k, g) == [nodes |-> Change, deps |-> d, ts |-> t, cls |-> k, tgt |-> g]

\* `needs` targets: a concurrent change (an ancestor is either applied -- then the reply is plainly
\* valid -- or pruned together with the reply; a descendant can never have been applied), such that
\* the commits can be created at all: the reply names the id of its target, so dependencies and
\* reply edges together must be acyclic.
TgtOK(d, k, g) ==
    LET G  == MkGraph(d, [c \in NonRoot |-> 1], k, g)
        d2 == [c \in NonRoot |-> d[c] \cup (IF k[c] = "needs" THEN {g[c]} ELSE {})]
    IN /\ \A c \in NonRoot : IF k[c] = "needs" THEN g[c] \in Siblings(G, c) ELSE g[c] = Root
       /\ \A c \in NonRoot : c \notin ReachN(d2, c, M)

\* The enumeration is split in two so that TLC's workers share it: Init chooses the dependency
\* function (with placeholder timestamps/classes, pc = "pick"), Pick chooses the rest.
Quiescent ==
    /\ refs = [n \in Namespace |-> None]
    /\ stack = <<>> /\ seen = {} /\ edges = {}
    /\ graph = Restrict(store, {}) /\ queue = <<>> /\ obj = InitObj /\ result = NoView

InitGraphs ==
    /\ \E d \in DepFuns :
         store = MkGraph(d, [c \in NonRoot |-> 1], [c \in NonRoot |-> "ok"], [c \in NonRoot |-> Root])
    /\ pc = "pick"
    /\ Quiescent

\* The refused single action used for change c when the causes are not enumerated.
DefaultRF(c) == CASE c = 1 -> "rf.editMissing.d" [] c = 2 -> "rf.redactMissing.g" [] c = 3 -> "rf.badTitle.d"
                  [] c = 4 -> "rf.reactMissing.g" [] OTHER -> "rf.label.g"

TgtChoices(k) ==
    IF \A c \in NonRoot : k[c] # "needs" THEN {[c \in NonRoot |-> Root]} ELSE [NonRoot -> Change]

Pick ==
    /\ pc = "pick"
    /\ \E k \in [NonRoot -> Classes] :
         /\ Cardinality({c \in NonRoot : k[c] # "ok"}) <= MaxBad
         /\ (Cardinality({c \in NonRoot : k[c] # "ok"}) > FullCauses
               => \A c \in NonRoot : k[c] \in RFClasses => k[c] = DefaultRF(c))
         /\ \E g \in TgtChoices(k) :
              /\ \A c \in NonRoot : IF k[c] = "needs" THEN g[c] \notin {Root, c} ELSE g[c] = Root
              /\ TgtOK(store.deps, k, g)
              /\ \E t \in [NonRoot -> 1..MaxTs] : store' = MkGraph(store.deps, t, k, g)
    /\ pc' = "idle"
    /\ UNCHANGED <<refs, stack, seen, edges, graph, queue, obj, result>>

InitGet == InitGraphs

\* Graph enumeration only.
NextGraphs == Pick

\* Graph enumeration followed by the step machine.
NextGet == Pick \/ Next

\* ---------------------------------------------------------------------------
\* Invariants for the graph enumeration

TheoremsHold == pc = "idle" => TheoremsAt(store)
TheoremsHoldAllClosures == pc = "idle" => Theorems(store)

\* C05 on the function, over all pairs of reference target sets.
C05_Function == pc = "idle" => \A R1, R2 \in SUBSET store.nodes : C05_ClosureOnly(store, R1, R2)

\* Sanity (vacuity guards, checked by separate configurations that must FAIL):
\* some graph prunes something / has a tie broken by id / has concurrent changes.
NeverPrunes == pc = "idle" => Pruned(store) = {}

AsSeq(f) == [c \in NonRoot |-> f[c]]
SetSeq(S) == SortById(S)

CaseOf(G) ==
    LET e == Eval(G)
        v == ViewOf(e)
    IN [m     |-> M,
        deps  |-> [c \in NonRoot |-> SetSeq(G.deps[c])],
        ts    |-> AsSeq(G.ts),
        cls   |-> AsSeq(G.cls),
        tgt   |-> AsSeq(G.tgt),
        order |-> EvalOrder(G),
        applied |-> v.applied,
        log   |-> v.log,
        comments |-> v.comments,
        lww   |-> v.lww,
        labels |-> v.labels,
        hist  |-> SetSeq(v.hist),
        tips  |-> SetSeq(v.tips),
        rej   |-> SetSeq(e.rejected)]

\* A deterministic pseudo-hash of a graph, to emit a spread-out sample of a large enumeration.
RECURSIVE SumSet(_)
SumSet(S) == IF S = {} THEN 0 ELSE LET x == CHOOSE x \in S : TRUE IN x + SumSet(S \ {x})
RFSeq == <<"rf.redactMissing.d", "rf.redactMissing.g", "rf.editMissing.d", "rf.editMissing.g", "rf.reactMissing.d",
           "rf.reactMissing.g", "rf.replyMissing.d", "rf.replyMissing.g", "rf.badTitle.d", "rf.badTitle.g", "rf.label.g">>
ClsIdx(k) == CASE k = "ok" -> 0 [] k = "guest" -> 1 [] k = "needs" -> 2 [] k = "badSig" -> 3
               [] k = "label" -> 4 [] k = "rejectLater" -> 5 [] k = "soft" -> 6
               [] OTHER -> 7 + (CHOOSE i \in DOMAIN RFSeq : RFSeq[i] = k)
HashOf(G) == SumSet({(c * c + 1) * (7 * G.ts[c] + 13 * ClsIdx(G.cls[c]) + 31 * SumSet({d + 1 : d \in G.deps[c]}) + 3 * G.tgt[c])
                     : c \in NonRoot})

EmitInv == (Emit /\ pc = "idle" /\ HashOf(store) % EmitMod = 0) => PrintT(<<"CASE", ToJson(CaseOf(store))>>)
=============================================================================
