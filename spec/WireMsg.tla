------------------------------- MODULE WireMsg -------------------------------
(***************************************************************************)
(* The gossip messages of the node's wire protocol: their binary layout,   *)
(* their size at the protocol limits, and which byte strings the decoder   *)
(* accepts.                                                                *)
(*   crates/radicle-node/src/wire.rs            (Encode/Decode primitives) *)
(*   crates/radicle-node/src/wire/message.rs    (Message, Address, ...)    *)
(*   crates/radicle-node/src/service/message.rs (limits, NodeAnnouncement, *)
(*                                               Announcement::verify)     *)
(*                                                                         *)
(* Part A -- size algebra.  A message is assembled the way the node does   *)
(* it: vectors grow one element at a time through BoundedVec::push, whose  *)
(* guard is the protocol limit (INVENTORY_LIMIT, REF_REMOTE_LIMIT,         *)
(* ADDRESS_LIMIT); strings are bounded by their own constructors (alias    *)
(* <= 32, user agent <= 64, host name <= 255 because of the one-byte       *)
(* length prefix); ping/pong padding by MAX_PING_ZEROES / MAX_PONG_ZEROES. *)
(* `Size` is the encoded length as a function of those lengths.  Property  *)
(* (C15, first sentence): every message that can be assembled fits the     *)
(* 64 KiB frame payload, Size(m) <= SizeMax.  The limits are CONSTANTS so  *)
(* that the check can be run with the values the code actually has.        *)
(*                                                                         *)
(* Part B -- accepted encodings.  A candidate encoding of a message is its *)
(* field sequence (Layout) with one VARIANT chosen per field, possibly cut *)
(* short after a field, possibly followed by trailing bytes.  The variant  *)
(* table (Outcome) says what the decoder does with each variant; Decode is *)
(* the sequential decoder (first offending field decides).  Property (C15, *)
(* second sentence): an accepted candidate is the canonical encoding of    *)
(* the message it decodes to -- re-encoding yields the same bytes -- with  *)
(* the single exception of a node announcement whose optional trailing     *)
(* user agent is absent.  Two behaviours of the code as found are kept as  *)
(* switchable deviations so that TLC shows they violate the property:      *)
(*   AcceptNonZeroPadding  ping/pong padding bytes are not checked         *)
(*   AcceptPartialAgent    a user agent cut short is read as "absent"      *)
(***************************************************************************)
EXTENDS Integers, Sequences, FiniteSets, TLC

CONSTANTS
    InventoryLimit, RefRemoteLimit, AddressLimit,   \* vector limits
    AliasMax, AgentMax, HostMax,                    \* string limits (bytes)
    MaxPingZeroes, MaxPongZeroes,                   \* padding limits
    FilterSizes,                                    \* allowed bloom filter sizes (bytes)
    SizeMax,                                        \* wire::Size::MAX = 65535
    MaxAddrKinds,                                   \* exploration bound: distinct address choices per message
    AcceptNonZeroPadding, AcceptPartialAgent        \* deviations (code as found)

-----------------------------------------------------------------------------
\* Layout primitives (bytes)

U8 == 1  U16 == 2  U64 == 8
PubKey == 32  Sig == 64
Oid == U16 + 20             \* object ids are length-prefixed ("to support future SHA-2 ids")
Str(n) == U8 + n            \* strings: one length byte
Vec(k, elem) == U16 + k * elem
RefsAt == PubKey + Oid
\* An address: type byte, host, port.
AddrSize(kind, host) == U8 + (CASE kind = "ipv4" -> 4 [] kind = "ipv6" -> 16
                                [] kind = "dns" -> Str(host) [] kind = "onion" -> 35) + U16
AddrKinds == {"ipv4", "ipv6", "dns", "onion"}

\* A message under assembly. Every record has every field; `type` says which ones matter.
\*   addrs: sequence of <<kind, host-name length>>
Blank(t) == [type |-> t, alias |-> 1, agent |-> 3, addrs |-> <<>>, inv |-> 0, refs |-> 0,
             filter |-> 1024, zeroes |-> 0]

RECURSIVE SumAddrs(_)
SumAddrs(as) == IF as = <<>> THEN 0 ELSE AddrSize(Head(as)[1], Head(as)[2]) + SumAddrs(Tail(as))

Body(m) ==
    CASE m.type = "node"      -> U8 + U64 + U64 + Str(m.alias) + (U16 + SumAddrs(m.addrs)) + U64 + Str(m.agent)
      [] m.type = "inventory" -> Vec(m.inv, Oid) + U64
      [] m.type = "refs"      -> Oid + Vec(m.refs, RefsAt) + U64
      [] m.type = "subscribe" -> (U16 + m.filter) + U64 + U64
      [] m.type = "info"      -> U16 + Oid + Oid
      [] m.type = "ping"      -> U16 + (U16 + m.zeroes)
      [] m.type = "pong"      -> U16 + m.zeroes
IsAnnouncement(m) == m.type \in {"node", "inventory", "refs"}
\* type id, then (announcements) announcer and signature, then the body
Size(m) == U16 + (IF IsAnnouncement(m) THEN PubKey + Sig ELSE 0) + Body(m)

Types == {"node", "inventory", "refs", "subscribe", "info", "ping", "pong"}

-----------------------------------------------------------------------------
\* Part A as a state machine: assembling a message

VARIABLE msg
avars == <<msg>>

AInit == msg \in {Blank(t) : t \in Types}

\* Addresses explored: the cheapest and the dearest of each kind (host names of 1 and HostMax bytes).
AddrChoices == {<<"ipv4", 0>>, <<"ipv6", 0>>, <<"dns", 1>>, <<"dns", HostMax>>, <<"onion", 0>>}
AddrRank(a) == CASE a = <<"ipv4", 0>> -> 1 [] a = <<"ipv6", 0>> -> 2 [] a = <<"dns", 1>> -> 3
                 [] a = <<"onion", 0>> -> 4 [] OTHER -> 5

\* BoundedVec::push: refuses beyond the limit.
PushInventory == msg.type = "inventory" /\ msg.inv < InventoryLimit /\ msg' = [msg EXCEPT !.inv = @ + 1]
PushRef       == msg.type = "refs" /\ msg.refs < RefRemoteLimit /\ msg' = [msg EXCEPT !.refs = @ + 1]
\* The order of addresses does not influence the size: they are added in a fixed order of kinds
\* so that permutations are not explored.
PushAddress(kind, host) ==
    /\ msg.type = "node" /\ Len(msg.addrs) < AddressLimit
    /\ \A i \in DOMAIN msg.addrs : AddrRank(msg.addrs[i]) <= AddrRank(<<kind, host>>)
    /\ Cardinality({msg.addrs[i] : i \in DOMAIN msg.addrs} \cup {<<kind, host>>}) <= MaxAddrKinds
    /\ msg' = [msg EXCEPT !.addrs = Append(@, <<kind, host>>)]
SetAlias(n)  == msg.type = "node" /\ n \in 1..AliasMax /\ msg.alias = 1 /\ n # 1 /\ msg' = [msg EXCEPT !.alias = n]
SetAgent(n)  == msg.type = "node" /\ n \in 3..AgentMax /\ msg.agent = 3 /\ n # 3 /\ msg' = [msg EXCEPT !.agent = n]
SetFilter(n) == msg.type = "subscribe" /\ n \in FilterSizes /\ msg.filter = 1024 /\ n # 1024 /\ msg' = [msg EXCEPT !.filter = n]
SetZeroes(n) == /\ msg.type \in {"ping", "pong"} /\ msg.zeroes = 0 /\ n # 0
                /\ n \in 0..(IF msg.type = "ping" THEN MaxPingZeroes ELSE MaxPongZeroes)
                /\ msg' = [msg EXCEPT !.zeroes = n]

\* boundary values explored for the scalar lengths
AliasChoices == {AliasMax}
AgentChoices == {9, AgentMax}          \* 9 = "/radicle/", the default
ZeroChoices(t) == LET mx == IF t = "ping" THEN MaxPingZeroes ELSE MaxPongZeroes IN {1, mx - 1, mx}

ANext == \/ PushInventory \/ PushRef
         \/ \E a \in AddrChoices : PushAddress(a[1], a[2])
         \/ \E n \in AliasChoices : SetAlias(n)
         \/ \E n \in AgentChoices : SetAgent(n)
         \/ \E n \in FilterSizes : SetFilter(n)
         \/ \E n \in ZeroChoices(msg.type) : SetZeroes(n)

ASpec == AInit /\ [][ANext]_avars

\* C15, first sentence.
SizeOK == Size(msg) <= SizeMax

\* Size is monotone in every length, so the same statement in closed form: the dearest message of
\* every type (all vectors at their limit with the dearest elements, strings and padding at their
\* maximum) fits. Evaluated in the initial states already, which gives an immediate answer when a
\* limit is raised beyond what can be explored.
Worst(t) == [Blank(t) EXCEPT !.alias = AliasMax, !.agent = AgentMax,
                             !.addrs = [i \in 1..AddressLimit |-> <<"dns", HostMax>>],
                             !.inv = InventoryLimit, !.refs = RefRemoteLimit,
                             !.filter = CHOOSE n \in FilterSizes : \A k \in FilterSizes : k <= n,
                             !.zeroes = IF t = "ping" THEN MaxPingZeroes ELSE MaxPongZeroes]
WorstCaseFits == \A t \in Types : Size(Worst(t)) <= SizeMax

\* The limits are as large as the frame allows (design facts worth knowing when a limit is touched).
InventoryLimitIsMaximal == Size([Blank("inventory") EXCEPT !.inv = InventoryLimit + 1]) > SizeMax
PingLimitIsExact == Size([Blank("ping") EXCEPT !.zeroes = MaxPingZeroes]) = SizeMax
PongLimitIsExact == Size([Blank("pong") EXCEPT !.zeroes = MaxPongZeroes]) = SizeMax

-----------------------------------------------------------------------------
\* Part B: candidate encodings and the decoder

Layout(t) ==
    CASE t = "node"      -> <<"type", "node", "sig", "version", "features", "timestamp", "alias", "addresses", "nonce", "agent">>
      [] t = "inventory" -> <<"type", "node", "sig", "inventory", "timestamp">>
      [] t = "refs"      -> <<"type", "node", "sig", "rid", "refs", "timestamp">>
      [] t = "subscribe" -> <<"type", "filter", "since", "until">>
      [] t = "info"      -> <<"type", "infotype", "rid", "oid">>
      [] t = "ping"      -> <<"type", "ponglen", "zeroes">>
      [] t = "pong"      -> <<"type", "zeroes">>

TimeVariants == {"ok", "zero", "max", "over"}
Variants(f) ==
    CASE f = "type"      -> {"ok", "unknown"}
      [] f = "node"      -> {"ok", "zero"}
      [] f = "sig"       -> {"ok"}
      [] f = "version"   -> {"ok", "max"}
      [] f = "features"  -> {"ok", "allbits"}
      [] f \in {"timestamp", "since", "until"} -> TimeVariants
      [] f = "alias"     -> {"ok", "max", "empty", "toolong", "control", "nonutf8"}
      [] f = "addresses" -> {"ok", "empty", "limit", "over", "dup", "dnsempty", "unknowntype", "dnsnonutf8", "onionbad"}
      [] f = "nonce"     -> {"ok", "max"}
      [] f = "agent"     -> {"ok", "explicitdefault", "max", "absent", "partial", "invalid", "toolong", "nonutf8"}
      [] f = "inventory" -> {"ok", "empty", "limit", "over", "dup", "badoidlen"}
      [] f \in {"rid", "oid"} -> {"ok", "badoidlen"}
      [] f = "refs"      -> {"ok", "empty", "limit", "over", "dup", "badoidlen"}
      [] f = "filter"    -> {"ok", "medium", "large", "zero", "odd", "between", "huge"}
      [] f = "infotype"  -> {"ok", "unknown"}
      [] f = "ponglen"   -> {"ok", "max"}
      [] f = "zeroes"    -> {"ok", "empty", "nonzero"}

\* What the decoder does with a field variant: "ok" (accepted) or the error it raises.
Outcome(f, v) ==
    CASE v = "ok" -> "ok"
      [] f = "type" /\ v = "unknown" -> "UnknownMessageType"
      [] f = "infotype" /\ v = "unknown" -> "UnknownInfoType"
      [] v = "over" /\ f \in {"timestamp", "since", "until"} -> "InvalidTimestamp"
      [] f = "alias" /\ v \in {"empty", "toolong", "control"} -> "InvalidAlias"
      [] v = "nonutf8" \/ v = "dnsnonutf8" -> "FromUtf8"
      [] v = "over" /\ f \in {"addresses", "inventory", "refs"} -> "InvalidSize"
      [] v = "badoidlen" -> "InvalidSize"
      [] v = "unknowntype" -> "UnknownAddressType"
      [] v = "onionbad" -> "InvalidOnionAddr"
      [] f = "agent" /\ v \in {"invalid", "toolong"} -> "InvalidUserAgent"
      [] f = "agent" /\ v = "partial" -> IF AcceptPartialAgent THEN "ok" ELSE "Eof"
      [] f = "filter" /\ v \in {"zero", "odd", "between", "huge"} -> "InvalidFilterSize"
      [] f = "zeroes" /\ v = "nonzero" -> IF AcceptNonZeroPadding THEN "ok" ELSE "InvalidData"
      [] OTHER -> "ok"      \* boundary values that are perfectly good: zero/max/limit/dup/empty/...

\* Does re-encoding the decoded value give back the bytes of this field variant?
Canonical(f, v) == ~(f = "agent" /\ v \in {"absent", "partial"}) /\ ~(f = "zeroes" /\ v = "nonzero")

\* A candidate: variant per field; cut = number of leading fields present (Len = all);
\* trailing = bytes after the last field.
IsCandidate(e) ==
    /\ e.type \in Types
    /\ DOMAIN e.v = 1..Len(Layout(e.type))
    /\ \A i \in DOMAIN e.v : e.v[i] \in Variants(Layout(e.type)[i])
    /\ e.cut \in 0..Len(Layout(e.type))
    /\ e.trailing \in BOOLEAN
    \* the user agent is the last field: "absent" is what a cut before it looks like
    /\ \A i \in DOMAIN e.v : e.v[i] \in {"absent", "partial"} => ~e.trailing
    /\ e.cut < Len(Layout(e.type)) => (~e.trailing /\ \A i \in (e.cut + 1)..Len(Layout(e.type)) : e.v[i] = "ok")
    /\ ~(e.type = "node" /\ e.cut = Len(Layout("node")) - 1)   \* = agent absent, listed as a variant

\* The sequential decoder (wire::deserialize::<Message>): the first offending field decides; a
\* missing field is an end-of-file; left-over bytes are "unexpected".
RECURSIVE DecodeFrom(_, _)
DecodeFrom(e, i) ==
    IF i > Len(Layout(e.type)) THEN (IF e.trailing THEN "UnexpectedBytes" ELSE "ok")
    ELSE IF i > e.cut THEN "Eof"
    ELSE LET o == Outcome(Layout(e.type)[i], e.v[i]) IN
         IF o = "ok" THEN DecodeFrom(e, i + 1) ELSE o
Decode(e) == DecodeFrom(e, 1)

\* The same candidate as the payload of a gossip frame (Frame::decode): extension bytes after the
\* message are allowed and dropped; a message cut short is invalid data (see Wire.tla).
FramedDecode(e) == LET o == Decode(e) IN
                   CASE o = "UnexpectedBytes" -> "ok" [] o = "Eof" -> "InvalidData" [] OTHER -> o

\* Declarative: what "accepted" means, and the canonical encoding.
Complete(e)  == e.cut = Len(Layout(e.type))
Accepted(e)  == /\ Complete(e) /\ ~e.trailing
                /\ \A i \in DOMAIN e.v : Outcome(Layout(e.type)[i], e.v[i]) = "ok"
ReEncodes(e) == \A i \in DOMAIN e.v : Canonical(Layout(e.type)[i], e.v[i])
AgentAbsentOnly(e) == /\ e.type = "node"
                      /\ \A i \in DOMAIN e.v : ~Canonical(Layout(e.type)[i], e.v[i]) => e.v[i] = "absent"

VARIABLES enc, pos, res
bvars == <<enc, pos, res>>

\* Candidates with at most two fields off the canonical variant (pairs show that the first
\* offending field decides), or cut short, or with trailing bytes.
Deviations(e) == Cardinality({i \in DOMAIN e.v : e.v[i] # "ok"}) + (IF e.trailing THEN 1 ELSE 0)
                 + (IF Complete(e) THEN 0 ELSE 1)

AllOk(t) == [i \in 1..Len(Layout(t)) |-> "ok"]
Fields(t) == 1..Len(Layout(t))
VariantsAt(t, i) == Variants(Layout(t)[i])
CutCandidates(t) == {[type |-> t, v |-> AllOk(t), cut |-> c, trailing |-> FALSE] : c \in 0..Len(Layout(t))}
SingleCandidates(t) ==
    UNION {{[type |-> t, v |-> [AllOk(t) EXCEPT ![i] = a], cut |-> Len(Layout(t)), trailing |-> tr] :
                a \in VariantsAt(t, i), tr \in BOOLEAN} : i \in Fields(t)}
PairCandidates(t) ==
    UNION {UNION {{[type |-> t, v |-> [AllOk(t) EXCEPT ![i] = a, ![j] = b], cut |-> Len(Layout(t)), trailing |-> FALSE] :
                a \in VariantsAt(t, i), b \in VariantsAt(t, j)} : j \in {k \in Fields(t) : k > i}} : i \in Fields(t)}
\* (an operator with a parameter: TLC evaluates it only where it is used, not at start-up)
CandidatesOf(T) == UNION {CutCandidates(t) \cup SingleCandidates(t) \cup PairCandidates(t) : t \in T}

BInit == /\ enc \in {e \in CandidatesOf(Types) : IsCandidate(e) /\ Deviations(e) <= 2}
         /\ pos = 1 /\ res = "reading"

\* Decoder steps: one field at a time.
ReadField == /\ res = "reading" /\ pos <= Len(Layout(enc.type)) /\ pos <= enc.cut
             /\ Outcome(Layout(enc.type)[pos], enc.v[pos]) = "ok"
             /\ pos' = pos + 1 /\ UNCHANGED <<enc, res>>
RejectField == /\ res = "reading" /\ pos <= Len(Layout(enc.type)) /\ pos <= enc.cut
               /\ Outcome(Layout(enc.type)[pos], enc.v[pos]) # "ok"
               /\ res' = Outcome(Layout(enc.type)[pos], enc.v[pos]) /\ UNCHANGED <<enc, pos>>
HitEnd == /\ res = "reading" /\ pos <= Len(Layout(enc.type)) /\ pos > enc.cut
          /\ res' = "Eof" /\ UNCHANGED <<enc, pos>>
Finish == /\ res = "reading" /\ pos > Len(Layout(enc.type))
          /\ res' = (IF enc.trailing THEN "UnexpectedBytes" ELSE "ok") /\ UNCHANGED <<enc, pos>>
BNext == ReadField \/ RejectField \/ HitEnd \/ Finish
BSpec == BInit /\ [][BNext]_bvars

\* The stepwise decoder computes Decode, and accepts exactly the Accepted candidates.
DecoderAgrees == res # "reading" => (res = Decode(enc) /\ (res = "ok") = Accepted(enc))
\* C15, second sentence.
UniqueEncoding == (res = "ok") => (ReEncodes(enc) \/ AgentAbsentOnly(enc))
=============================================================================
