CONSTANTS
  Family = "lists"
  MaxDelegates = 255
  CurrentVersion = 1
  MaxEdits = 1
  EditDids = {1, 255, 256, 301}
  EditThresholds = {0, 1, 254, 255, 256}
  Payloads = {"project"}
  JsonDocs <- MCJsonDocs
INIT Init
NEXT Next
INVARIANTS AcceptedIsValid FoldIsDedupThenLimit AcceptIffRules RefusedJson RoundTrip RidIsInitialDoc FuncAgrees EmitInv
