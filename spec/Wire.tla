-------------------------------- MODULE Wire --------------------------------
(***************************************************************************)
(* The framing layer of the node's wire protocol, as seen by the reader    *)
(* side of one peer connection                                             *)
(*   crates/radicle-node/src/wire/frame.rs    (Frame, StreamId, Control)   *)
(*   crates/radicle-node/src/wire/varint.rs   (VarInt, payload::decode)    *)
(*   crates/radicle-node/src/deserializer.rs  (Deserializer)               *)
(*   crates/radicle-node/src/wire/protocol.rs (SessionEvent::Data loop)    *)
(*                                                                         *)
(* A remote peer produces a byte stream.  The stream modelled here is the  *)
(* concatenation of the encodings of a sequence of frame DESCRIPTORS; a    *)
(* descriptor fixes everything the decoder's control flow depends on:      *)
(*                                                                         *)
(*    ver      "ok" | "bad"            the 4 byte magic 'r' 'a' 'd' 1      *)
(*    sidW     1|2|4|8                 width of the stream-id varint       *)
(*    kind     control|gossip|git|unknown   bits 1..2 of the stream id     *)
(*    cmd      open|close|eof|bad      control command byte                *)
(*    csidW    1|2|4|8                 width of the control frame's varint *)
(*    lenW     1|2|4|8                 width of the payload length varint  *)
(*    declared                         value of the payload length varint  *)
(*    avail    <= declared             payload bytes that really follow    *)
(*    inner    valid|overlong|truncated|invalid                            *)
(*                                     gossip only: what Message::decode   *)
(*                                     makes of the `declared` payload     *)
(*                                     bytes (overlong = a message         *)
(*                                     followed by extension bytes, which  *)
(*                                     the protocol allows and drops;      *)
(*                                     truncated = the message needs more  *)
(*                                     bytes than the payload holds)       *)
(*                                                                         *)
(* Bytes are abstract: byte number p of the stream is tagged with the      *)
(* frame it belongs to and its offset in that frame (ByteTag).  The        *)
(* decoder state is the real one: the unparsed buffer is the interval      *)
(* (consumed, fed] of the stream (Buf gives it as a sequence of tags).     *)
(* Only the LAST frame of a stream may be short (avail < declared): that   *)
(* is the frame which never completes, e.g. 13 bytes announcing 2^62-1.    *)
(*                                                                         *)
(* The network delivers the stream in arbitrary chunks: Input(n) for every *)
(* n, so TLC explores every split of every stream.  After each chunk the   *)
(* node runs `loop { inbox.deserialize_next() }` until it yields None or   *)
(* an error (error => the peer is disconnected): pc = "decode".            *)
(*                                                                         *)
(* Two descriptions are given and compared by TLC:                         *)
(*   Decode      the decoder transcribed read by read (operational);       *)
(*   Expected    what property C14 demands (declarative): the frames that  *)
(*               are wholly inside the received prefix, in order, and an   *)
(*               error as soon as -- and only if -- a malformed frame is   *)
(*               detectable; independent of how the prefix was chunked.    *)
(*                                                                         *)
(* The two behaviours of the code as found (before the fix: commits) are   *)
(* kept as switchable deviations so that TLC shows they violate C14:       *)
(*   AllocDeclared       payload::decode does `vec![0; declared]`          *)
(*   InnerEofIncomplete  an EOF inside the payload's message is reported   *)
(*                       as "need more data"                               *)
(***************************************************************************)
EXTENDS Integers, Sequences, FiniteSets, TLC

CONSTANTS
    StreamSet,          \* set of streams (sequences of frame descriptors) to explore
    K,                  \* the "small constant" of C14, bytes (allocations of Message::decode etc.)
    Growth,             \* slack factor for amortised Vec growth (allocator policy, not peer controlled)
    MaxInbox,           \* Deserializer bound B (MAX_INBOX_SIZE = 2 MiB in the node)
    AllocDeclared,      \* deviation: allocate the declared length before reading
    InnerEofIncomplete  \* deviation: EOF inside a complete payload => Incomplete

VARIABLES
    stream,     \* the frame descriptors the peer is sending (fixed per behaviour)
    fed,        \* bytes delivered so far = ghost `received`
    consumed,   \* bytes drained from the inbox so far; inbox = (consumed, fed]
    out,        \* frame indices returned by deserialize_next so far
    status,     \* "open" | "error" (decode error: disconnect) | "overflow" (inbox full: disconnect)
    pc,         \* "idle" (waiting for bytes) | "decode" (inside the deserialize loop)
    peakAlloc,  \* ghost: largest allocation made by a single deserialize_next so far
    lastErr     \* ghost: error kind of the failed decode ("" if none)
vars == <<stream, fed, consumed, out, status, pc, peakAlloc, lastErr>>

Min(a, b) == IF a < b THEN a ELSE b
Max(a, b) == IF a > b THEN a ELSE b

-----------------------------------------------------------------------------
\* Frame layout

Widths == {1, 2, 4, 8}
\* Largest value a varint of width w carries. 2^62-1 does not fit TLC's integers: every value
\* >= 2^31-1 is represented by Huge and concretised by the harness (2^31 .. 2^62-1).
Huge == 2147483647
MaxOfWidth(w) == CASE w = 1 -> 63 [] w = 2 -> 16383 [] w = 4 -> 1073741823 [] w = 8 -> Huge

HasPayload(f) == f.kind \in {"gossip", "git", "unknown"}
\* (a frame of unknown kind is given a payload-shaped tail so that the bytes after the error exist)

BodyLen(f) == IF f.kind = "control" THEN 1 + f.csidW ELSE f.lenW + f.avail
Size(f)    == 4 + f.sidW + BodyLen(f)

IsFrame(f) ==
    /\ f.ver \in {"ok", "bad"}
    /\ f.sidW \in Widths
    /\ f.kind \in {"control", "gossip", "git", "unknown"}
    /\ IF f.kind = "control"
       THEN f.cmd \in {"open", "close", "eof", "bad"} /\ f.csidW \in Widths
       ELSE /\ f.lenW \in Widths
            /\ f.declared \in 0..MaxOfWidth(f.lenW)
            /\ f.avail \in 0..f.declared
            /\ f.kind = "gossip" => f.inner \in {"valid", "overlong", "truncated", "invalid"}

Complete(f) == f.kind = "control" \/ f.avail = f.declared

\* Only the last frame may be short.
WellFormed(s) == /\ \A i \in DOMAIN s : IsFrame(s[i])
                 /\ \A i \in DOMAIN s : i < Len(s) => Complete(s[i])

RECURSIVE EndOf(_, _)
EndOf(s, i) == IF i = 0 THEN 0 ELSE EndOf(s, i - 1) + Size(s[i])
StartOf(s, i) == EndOf(s, i - 1)
Total(s) == EndOf(s, Len(s))

\* The frame to which byte number p (1-based) belongs, and the tag of that byte.
FrameOfByte(s, p) == CHOOSE i \in DOMAIN s : StartOf(s, i) < p /\ p <= EndOf(s, i)
ByteTag(s, p) == LET i == FrameOfByte(s, p) IN <<i, p - StartOf(s, i)>>
\* The unparsed buffer as a sequence of tagged bytes.
Buf == [k \in 1..(fed - consumed) |-> ByteTag(stream, consumed + k)]

-----------------------------------------------------------------------------
\* The decoder, transcribed.  `lo`, `hi`: the buffer is bytes lo+1..hi of the stream. A read of n
\* bytes at cursor c succeeds iff c + n <= have (io::Cursor / read_exact); otherwise the decoder
\* returns UnexpectedEof, which Deserializer::deserialize_next turns into Ok(None).

Incomplete(a) == [res |-> "incomplete", frame |-> 0, used |-> 0, alloc |-> a, err |-> ""]
Failure(e, a) == [res |-> "error", frame |-> 0, used |-> 0, alloc |-> a, err |-> e]
Decoded(i, n, a) == [res |-> "frame", frame |-> i, used |-> n, alloc |-> a, err |-> ""]

Decode(s, lo, hi) ==
    LET have == hi - lo IN
    IF have = 0 THEN Incomplete(0)                                   \* Version: read_exact(4)
    ELSE
    LET i  == FrameOfByte(s, lo + 1)
        f  == s[i]
        c1 == 4                    \* cursor after the version
        c2 == c1 + f.sidW          \* cursor after the stream id
    IN
    IF have < c1 THEN Incomplete(0)
    ELSE IF f.ver = "bad" THEN Failure("InvalidProtocolVersion", 0)
    ELSE IF have < c1 + 1 THEN Incomplete(0)                         \* VarInt: read_u8 (tag byte)
    ELSE IF have < c2 THEN Incomplete(0)                             \* VarInt: read_exact(rest)
    ELSE IF f.kind = "unknown" THEN Failure("InvalidStreamKind", 0)
    ELSE IF f.kind = "control" THEN
        IF have < c2 + 1 THEN Incomplete(0)                          \* command byte
        ELSE IF f.cmd = "bad" THEN Failure("InvalidControlMessage", 0)
        ELSE IF have < c2 + 2 THEN Incomplete(0)                     \* StreamId: tag byte
        ELSE IF have < c2 + 1 + f.csidW THEN Incomplete(0)           \* StreamId: rest
        ELSE Decoded(i, c2 + 1 + f.csidW, 0)
    ELSE \* gossip | git: varint::payload::decode
        IF have < c2 + 1 THEN Incomplete(0)                          \* length: tag byte
        ELSE IF have < c2 + f.lenW THEN Incomplete(0)                \* length: rest
        ELSE
        LET c3    == c2 + f.lenW
            rest  == have - c3                                       \* bytes behind the length
            alloc == IF AllocDeclared THEN f.declared                \* vec![0; declared]
                     ELSE Min(f.declared, rest)                      \* take(declared).read_to_end
        IN
        IF rest < f.declared THEN Incomplete(alloc)                  \* payload not all here
        ELSE IF f.kind = "git" THEN Decoded(i, c3 + f.declared, alloc)
        ELSE \* gossip: Message::decode on a cursor over exactly the payload
            CASE f.inner \in {"valid", "overlong"} -> Decoded(i, c3 + f.declared, alloc)
              [] f.inner = "invalid"   -> Failure("InvalidMessage", alloc)
              [] f.inner = "truncated" -> IF InnerEofIncomplete
                                          THEN Incomplete(alloc)     \* the code as found
                                          ELSE Failure("TruncatedMessage", alloc)

-----------------------------------------------------------------------------
\* State machine

InitWith(S) ==
    /\ stream \in S
    /\ fed = 0 /\ consumed = 0 /\ out = <<>>
    /\ status = "open" /\ pc = "idle" /\ peakAlloc = 0 /\ lastErr = ""
Init == InitWith(StreamSet)

\* The transport hands the next n bytes to `inbox.input` (1 <= n <= bytes not yet delivered: see
\* Next). A chunk that does not fit the bounded inbox is refused as a whole and the peer is
\* disconnected.
Input(n) ==
    /\ pc = "idle" /\ status = "open"
    /\ IF (fed - consumed) + n > MaxInbox
       THEN /\ status' = "overflow"
            /\ UNCHANGED <<stream, fed, consumed, out, pc, peakAlloc, lastErr>>
       ELSE /\ fed' = fed + n
            /\ pc' = "decode"
            /\ UNCHANGED <<stream, consumed, out, status, peakAlloc, lastErr>>

Result == Decode(stream, consumed, fed)

\* deserialize_next returned Ok(Some(frame)): the frame's bytes are drained, the loop continues.
DeserializeFrame ==
    /\ pc = "decode"
    /\ LET r == Result IN
       /\ r.res = "frame"
       /\ out' = Append(out, r.frame)
       /\ consumed' = consumed + r.used
       /\ peakAlloc' = Max(peakAlloc, r.alloc)
    /\ UNCHANGED <<stream, fed, status, pc, lastErr>>

\* deserialize_next returned Ok(None): wait for more bytes. Nothing is drained.
DeserializeIncomplete ==
    /\ pc = "decode"
    /\ LET r == Result IN
       /\ r.res = "incomplete"
       /\ peakAlloc' = Max(peakAlloc, r.alloc)
    /\ pc' = "idle"
    /\ UNCHANGED <<stream, fed, consumed, out, status, lastErr>>

\* deserialize_next returned Err(e): the session is closed (DisconnectReason::Misbehavior).
DeserializeError ==
    /\ pc = "decode"
    /\ LET r == Result IN
       /\ r.res = "error"
       /\ lastErr' = r.err
       /\ peakAlloc' = Max(peakAlloc, r.alloc)
    /\ status' = "error" /\ pc' = "idle"
    /\ UNCHANGED <<stream, fed, consumed, out>>

\* The network may cut the stream anywhere: every chunk size is possible.
InputAny == \E n \in 1..(Total(stream) - fed) : Input(n)

Next == InputAny \/ DeserializeFrame \/ DeserializeIncomplete \/ DeserializeError

Spec == Init /\ [][Next]_vars

-----------------------------------------------------------------------------
\* What C14 demands (declarative)

\* A frame that cannot be decoded, and the number of its bytes after which that is certain.
HeaderBad(f) == f.ver = "bad" \/ f.kind = "unknown" \/ (f.kind = "control" /\ f.cmd = "bad")
InnerBad(f)  == f.kind = "gossip" /\ f.inner \in {"invalid", "truncated"}
Bad(f)  == HeaderBad(f) \/ (Complete(f) /\ InnerBad(f))
Good(f) == ~HeaderBad(f) /\ ~InnerBad(f)
DetectLen(f) == CASE f.ver = "bad"      -> 4
                  [] f.kind = "unknown" -> 4 + f.sidW
                  [] f.kind = "control" -> 4 + f.sidW + 1
                  [] OTHER              -> Size(f)      \* needs the whole payload

FirstBad(s) == IF \E i \in DOMAIN s : Bad(s[i])
               THEN CHOOSE i \in DOMAIN s : Bad(s[i]) /\ \A j \in 1..(i-1) : ~Bad(s[j])
               ELSE Len(s) + 1
DetectAt(s) == LET b == FirstBad(s) IN
               IF b > Len(s) THEN Total(s) + 1 ELSE StartOf(s, b) + DetectLen(s[b])

\* The observable state once p bytes have been received and the decode loop has run.
ExpectedCount(s, p) ==
    Cardinality({i \in 1..(FirstBad(s) - 1) : Complete(s[i]) /\ EndOf(s, i) <= p})
ExpectedStatus(s, p) == IF p >= DetectAt(s) THEN "error" ELSE "open"
ExpectedUnparsed(s, p) == p - EndOf(s, ExpectedCount(s, p))

TypeOK ==
    /\ WellFormed(stream)
    /\ fed \in 0..Total(stream) /\ consumed \in 0..fed
    /\ status \in {"open", "error", "overflow"} /\ pc \in {"idle", "decode"}

\* The inbox always starts at a frame boundary (drain(..pos) takes exactly one frame).
BufAligned == \E i \in 0..Len(stream) : consumed = EndOf(stream, i)

\* C14, memory: no single decode step allocates more than a constant plus (a small multiple of)
\* what was received, whatever lengths the bytes declare.
C14_Mem == peakAlloc <= K + Growth * fed

\* C14, chunking: whenever the node is waiting for bytes, what it has output and whether it has
\* disconnected are functions of the received prefix only -- not of the chunk boundaries.
C14_Chunking ==
    (pc = "idle" /\ status # "overflow") =>
        /\ out = [i \in 1..ExpectedCount(stream, fed) |-> i]
        /\ status = ExpectedStatus(stream, fed)
        /\ status = "open" => fed - consumed = ExpectedUnparsed(stream, fed)

\* C14, invalid is not incomplete: a frame all of whose bytes have arrived (and whose predecessors
\* were fine) has either been delivered or has caused an error; it is never left waiting for data.
C14_Invalid ==
    (pc = "idle" /\ status = "open") =>
        \A i \in DOMAIN stream :
            (Complete(stream[i]) /\ EndOf(stream, i) <= fed /\ \A j \in 1..(i-1) : Good(stream[j]))
                => i \in {out[k] : k \in DOMAIN out}

\* Frames come out in order, without loss or duplication, and only good ones.
OutputsInOrder == /\ \A k \in DOMAIN out : out[k] = k
                  /\ \A k \in DOMAIN out : Good(stream[k]) /\ Complete(stream[k])

\* An error is never raised on a stream of good frames, whatever the chunking.
NoSpuriousError == status = "error" => FirstBad(stream) <= Len(stream)
=============================================================================
