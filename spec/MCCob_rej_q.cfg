\* C06 quick: every change graph on the root + 3 changes, timestamps 1..2, at most two changes
\* that are not plainly valid (reply to a concurrent comment, forged signature, refused action,
\* multi-action change with a later action refused).
CONSTANTS
  Atomic = TRUE
  DropDetached = TRUE
  Namespace = {1}
  M = 3
  MaxTs = 2
  Classes = {"ok", "needs", "badSig", "rejectFirst", "rejectLater"}
  MaxBad = 2
  AllowDetached = FALSE
  Emit = TRUE
  EmitMod = 1
INIT InitGraphs
NEXT NextGraphs
INVARIANTS TheoremsHold EmitInv
