\* C06 quick: every change graph on the root + 3 changes, timestamps 1..2, at most two changes
\* that are not plainly valid (reply to a concurrent comment, forged signature, refused action,
\* multi-action change with a later action refused).
CONSTANTS
  Atomic = TRUE
  SingleInPlace = FALSE
  DropDetached = TRUE
  Namespace = {1}
  M = 3
  MaxTs = 2
  Classes = {"ok", "label", "needs", "badSig", "rf.redactMissing.d", "rf.redactMissing.g", "rf.editMissing.d", "rf.editMissing.g", "rf.reactMissing.d", "rf.reactMissing.g", "rf.replyMissing.d", "rf.replyMissing.g", "rf.badTitle.d", "rf.badTitle.g", "rf.label.g", "rejectLater"}
  MaxBad = 2
  FullCauses = 1
  AllowDetached = FALSE
  Emit = TRUE
  EmitMod = 1
INIT InitGraphs
NEXT NextGraphs
INVARIANTS TheoremsHold EmitInv
