CONSTANTS
  Key = {"a", "b", "c", "d", "s"}
  NoKey = "-"
  DocDels <- MCDocDels2
  Authors = {"a", "b", "s"}
  NewDocs = {2, 3, 4}
  InPlace = FALSE
  MaxOps = 4
  MaxActs = 1
  MaxForks = 1
  EmitEvery = 100
INIT Init
NEXT Next
VIEW view
INVARIANTS TypeOK ActiveIsChildOfCurrent AcceptedChain CurrentAccepted HeadsBacked VerdictsValid EmitInv
PROPERTIES C04_Majority C04_Strangers C04_AcceptedStable RejectedLeavesNoTrace
