CONSTANTS
  Atomic = TRUE
  SingleInPlace = FALSE
  DropDetached = TRUE
  Namespace = {1}
INIT TInit
NEXT TNext
INVARIANTS AnswerAllowed SameClosureSameView CleanedHistorySameView
POSTCONDITION Accepted
