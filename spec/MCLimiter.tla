------------------------------ MODULE MCLimiter ------------------------------
(* Bounded instances of Limiter.tla.                                                            *)
(*  Mode "direct":  arbitrary (also backward) clock values passed straight to `limit`; the ghost *)
(*                  admission history is part of the state; WindowBound etc. are checked.        *)
(*  Mode "service": clock driven through Tick (backward ticks ignored) + Accepted.               *)
(*  Mode "emit":    the state graph of the buckets alone (ghost and counters hidden by VIEW);    *)
(*                  one CASE per distinct state: the shortest call sequence reaching it, the      *)
(*                  buckets, and every outgoing `limit` call with its outcome and the buckets     *)
(*                  after it -- every transition, for replay against the real RateLimiter.        *)
EXTENDS Limiter, Json, SequencesExt

CONSTANTS Mode, ParamSeq

VARIABLE hist
mcvars == <<buckets, admitted, clock, ncalls, hist>>
ViewEmit == buckets
ViewFull == <<buckets, admitted, clock, ncalls>>

P(c, r) == [cap |-> c, rate |-> r]
ParamsQuick    == <<P(2, 500), P(1, 2500), P(3, 250)>>
ParamsThorough == <<P(2, 500), P(1, 1000), P(3, 250), P(1, 2500), P(2, 125), P(0, 1000), P(2, 0)>>
ParamsEmitT    == <<P(2, 500), P(1, 2500), P(3, 125), P(0, 1000)>>

MCParams == {ParamSeq[i] : i \in DOMAIN ParamSeq}
PIdx(p) == CHOOSE i \in DOMAIN ParamSeq : ParamSeq[i] = p

MCInit == Init /\ hist = <<>>

Asc(S) == SetToSortSeq(S, LAMBDA a, b : a < b)
Proj(bs) == [i \in 1..Cardinality(DOMAIN bs) |->
               LET h == Asc(DOMAIN bs)[i] IN <<h, bs[h].cap, bs[h].rate, bs[h].tokens, bs[h].at>>]

CallRec(h, n, p, now, bs) == <<h, n, PIdx(p), now, LimitF(bs, h, n, p, now).ret>>

MCNext ==
    IF Mode = "service"
    THEN \/ \E now \in Times : Tick(now) /\ hist' = Append(hist, <<"tick", now>>)
         \/ \E h \in Hosts, n \in Nids, p \in MCParams :
               Accepted(h, n, p) /\ hist' = Append(hist, CallRec(h, n, p, clock, buckets))
    ELSE \E h \in Hosts, n \in Nids, p \in MCParams, now \in Times :
               Limit(h, n, p, now) /\ hist' = Append(hist, CallRec(h, n, p, now, buckets))

\* service mode: the limiter's refill times never lie ahead of the service clock, so no call panics
AtLeClock == Mode = "service" => \A x \in DOMAIN buckets : buckets[x].at <= clock
ServiceOk == Mode = "service" => ServiceNeverPanics

\* outgoing calls worth replaying: the parameters only matter when the bucket does not exist yet
OutParams(h) == IF h \in DOMAIN buckets THEN {ParamSeq[1]} ELSE MCParams
Outs == {LET r == LimitF(buckets, h, n, p, now) IN <<h, n, PIdx(p), now, r.ret, Proj(r.next)>> :
            h \in Hosts, n \in Nids, p \in UNION {OutParams(x) : x \in Hosts}, now \in Times}
Emit == Mode = "emit" =>
        PrintT(<<"CASE", ToJson([params |-> [i \in DOMAIN ParamSeq |-> <<ParamSeq[i].cap, ParamSeq[i].rate>>],
                                 nonroutable |-> Asc(NonRoutable), bypass |-> Asc(Bypass),
                                 path |-> hist, proj |-> Proj(buckets), outs |-> SetToSeq(Outs)])>>)
EmitInv == Emit
=============================================================================
