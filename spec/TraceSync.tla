------------------------------ MODULE TraceSync ------------------------------
(* Validates call sequences recorded from the real Announcer / Fetcher (random configurations   *)
(* with more nodes than the bounded model, random calls including the local node, unknown nodes  *)
(* and repeated results) against Sync.tla: every recorded call is the corresponding step         *)
(* function; what it returned and the observable state afterwards must agree with the model on    *)
(* everything property C25 talks about (kind of answer, counters, nodes handed out / counted),    *)
(* and the module's invariants are evaluated in every state of every recorded run.               *)
EXTENDS Sync, Json, IOUtils

Rec == ndJsonDeserialize(IOEnv.TRACE)

VARIABLE l
tvars == <<an, fe, last, l>>

Set(s) == {s[i] : i \in DOMAIN s}
RFofCtor(c) == IF c[1] = "must" THEN Must(c[2]) ELSE RFrange(c[2], c[3])
AnCfgOf(a) == [pref |-> Set(a.pref), synced |-> Set(a.synced), unsynced |-> Set(a.unsynced),
               rf |-> RFofCtor(a.ctor), ctor |-> a.ctor]
FeCfgOf(a) == [seeds |-> Set(a.seeds), rf |-> RFofCtor(a.ctor), ctor |-> a.ctor, extra |-> a.extra]

\* agreement of a model return value `m` with a recorded one `r` on the gating fields
AnRetOk(op, m, r) ==
    /\ m.k = r.k
    /\ m.k = "AlreadySynced" => m.preferred = r.preferred /\ m.synced = r.synced
    /\ (op = "synced_with" /\ m.k = "continue") => m.progress[1] = r.progress[1] /\ m.progress[2] = r.progress[2]
    /\ m.k \in {"break", "Success"} => m.preferred = r.preferred /\ m.synced = r.synced /\ m.nodes = Set(r.nodes)
    /\ m.k = "TimedOut" => m.nodes = Set(r.nodes) /\ m.timed_out = Set(r.timed_out)
    /\ m.k = "NoNodes" => m.nodes = Set(r.nodes)
AnProjOk(a, p) ==
    IF a.st = "active"
    THEN /\ AnToSync(a) = Set(p[1])
         /\ AnProgress(a)[1] = p[2][1] /\ AnProgress(a)[2] = p[2][2]
    ELSE p = <<>>
FeCountsOk(mp, rp) == mp[2] = rp[2] /\ mp[3] = rp[3] /\ mp[4] = rp[4]   \* succeeded, failed, preferred
FeRetOk(op, m, r) ==
    CASE op \in {"next_node", "next_fetch"} -> m = r
      [] op \in {"ready_to_fetch", "fetch_failed"} -> TRUE
      [] op = "new" -> m.k = r.k
      [] OTHER -> m.k = r.k /\ FeCountsOk(m.progress, r.progress)
FeProjOk(f, p) == IF f.st = "active" THEN FeCountsOk(FeProgress(f), p) ELSE p = <<>>

AnStep(r) ==
    LET x == CASE r.op = "new" -> AnNewF(AnCfgOf(r.arg))
               [] r.op = "synced_with" -> AnSyncedWithF(an, r.arg)
               [] r.op = "timed_out" -> AnTimedOutF(an)
               [] r.op = "can_continue" -> AnCanContinueF(an)
    IN /\ r.op # "new" => an.st = "active"
       /\ an' = x.next /\ fe' = FeIdle
       /\ AnRetOk(r.op, x.ret, r.ret)
       /\ AnProjOk(x.next, r.proj)
FeStep(r) ==
    LET x == CASE r.op = "new" -> FeNewF(FeCfgOf(r.arg))
               [] r.op = "next_node" -> FeNextNodeF(fe)
               [] r.op = "ready_to_fetch" -> FeReadyF(fe, r.arg)
               [] r.op = "next_fetch" -> FeNextFetchF(fe)
               [] r.op = "fetch_failed" -> FeFailedF(fe, r.arg)
               [] r.op = "fetch_complete" -> FeCompleteF(fe, r.arg, r.ok)
               [] r.op = "finish" -> FeFinishF(fe)
    IN /\ r.op # "new" => fe.st = "active"
       /\ fe' = x.next /\ an' = AnIdle
       /\ FeRetOk(r.op, x.ret, r.ret)
       /\ FeProjOk(x.next, r.proj)

TInit == l = 1 /\ an = AnIdle /\ fe = FeIdle /\ last = Call("init", None, TRUE, None)
TNext == /\ l <= Len(Rec)
         /\ IF Rec[l].m = "announcer" THEN AnStep(Rec[l]) ELSE FeStep(Rec[l])
         /\ last' = Call(Rec[l].op, None, TRUE, None)
         /\ l' = l + 1
TSpec == TInit /\ [][TNext]_tvars

Accepted ==
    IF TLCGet("stats").diameter - 1 = Len(Rec)
    THEN PrintT("TRACE-ACCEPTED")
    ELSE PrintT("TRACE-REJECTED at=" \o ToString(TLCGet("stats").diameter))
=============================================================================
