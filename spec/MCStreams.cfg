CONSTANTS
  MaxSeq = 3
  MaxOps = 6
  Dev = {}
INIT Init
NEXT Next
VIEW view
INVARIANTS NoCrash OurIdsAreOurs EmitInv
