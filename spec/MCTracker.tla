----------------------------- MODULE MCTracker -----------------------------
(***************************************************************************)
(* Bounded instances of Tracker.tla and the emitter that hands TLC's       *)
(* exploration to the conformance harness.                                 *)
(*                                                                         *)
(* Every distinct reachable state (fingerprint = View: the op log is       *)
(* hidden) is printed once as a CASE: the op log that first reached it,    *)
(* the state, and the *fan-out*: for every op of the instance's alphabet   *)
(* aimed at that state -- by every actor, referring to every document,     *)
(* at every existing target and at an unknown one -- the model's verdict   *)
(* (applied / ignored / rejected) and the change it makes.  The harness    *)
(* replays the log on the real Issue / Patch, compares the state, and      *)
(* then tries every op of the fan-out on a clone of the real object.       *)
(* All (state, op) pairs of the bounded model are thereby compared with    *)
(* the code, including the self-loops (rejected and ignored ops) that a    *)
(* plain enumeration of distinct states would never show.                  *)
(***************************************************************************)
EXTENDS Tracker, Json, SequencesExt

CONSTANTS FanKinds,      \* kinds included in the fan-out
          Emit           \* TRUE: print CASE lines

-----------------------------------------------------------------------------
\* Instances (referred to from the .cfg files)

A4 == 1..4
\* two documents: actor 1 is a delegate in both, 2 only in the first, 3 only in the second,
\* 4 never -- so "delegate" depends on the document the op refers to
Dlg2 == (1 :> {1, 2}) @@ (2 :> {1, 3})
Thr2 == (1 :> 1) @@ (2 :> 2)
\* three documents with the same three delegates and thresholds 1, 2, 3; actor 4 is a stranger
Dlg3 == (1 :> {1, 2, 3}) @@ (2 :> {1, 2, 3}) @@ (3 :> {1, 2, 3})
Thr3 == (1 :> 1) @@ (2 :> 2) @@ (3 :> 3)
\* two documents with the same three delegates, thresholds 1 and 2
Dlg3b == (1 :> {1, 2, 3}) @@ (2 :> {1, 2, 3})
Thr3b == (1 :> 1) @@ (2 :> 2)

LS2 == <<{}, {1}>>
LS3 == <<{}, {1}, {1, 2}>>
AS2 == <<{}, {2}>>
AS3 == <<{}, {2}, {2, 4}>>

\* commits: 1 <- 2 (2 is a child of 1), 3 unrelated to both
C3   == {1, 2, 3}
Anc3 == (1 :> {}) @@ (2 :> {1}) @@ (3 :> {})
C2   == {1, 2}
Anc2 == (1 :> {}) @@ (2 :> {1})

H0     == {[a \in A4 |-> 0]}
\* delegates 1, 2 at commit 2 (so commits 1 and 2 are on their branch), 3 at commit 1, 4 nowhere
HMerge == {(1 :> 2) @@ (2 :> 2) @@ (3 :> 1) @@ (4 :> 2)}
\* every assignment of heads for the three delegates (actor 4 has commit 2)
HAll   == {(1 :> h[1]) @@ (2 :> h[2]) @@ (3 :> h[3]) @@ (4 :> 2) : h \in [1..3 -> {0, 1, 2, 3}]}

IssueKinds  == {"i.create", "i.assign", "i.label", "i.edit", "i.lifecycle", "i.comment", "i.cedit",
                "i.credact", "i.creact"}
MetaKinds   == {"p.create", "p.edit", "p.label", "p.assign", "p.lifecycle", "p.revision",
                "p.revedit", "p.revredact", "p.revreact"}
DiscKinds   == {"p.create", "p.revision", "p.revredact", "p.rcomment", "p.rcedit", "p.rcredact",
                "p.rcreact"}
ReviewKinds == {"p.create", "p.revision", "p.revredact", "p.review", "p.vedit", "p.vredact",
                "p.vcomment", "p.vcedit", "p.vcredact", "p.vcreact", "p.vcresolve", "p.vcunresolve"}
ReviewKindsQ == {"p.create", "p.revision", "p.revredact", "p.review", "p.vedit", "p.vredact",
                 "p.vcomment", "p.vcedit", "p.vcredact"}
MergeKinds  == {"p.create", "p.revision", "p.revredact", "p.merge", "p.lifecycle", "push"}
MergeFan    == {"p.create", "p.revision", "p.revredact", "p.merge", "p.lifecycle"}

-----------------------------------------------------------------------------
\* Emitter

SeqKeys == {"comments", "revs", "rcomments", "reviews", "vcomments"}
\* what changed between two states of an object: new value per changed field; for the sequence
\* fields only the changed / appended elements as <<index, element>>
Delta(p, q) ==
    [k \in {k \in DOMAIN q : p[k] # q[k]} |->
        IF k \in SeqKeys
        THEN {<<n, q[k][n]>> : n \in {n \in DOMAIN q[k] : n > Len(p[k]) \/ p[k][n] # q[k][n]}}
        ELSE q[k]]

Enc(op) == <<op.a, op.d, op.k, op.x, op.y, op.z>>
ResCode(r) == CASE r = "applied" -> 1 [] r = "ignored" -> 2 [] r = "rejected" -> 0

CreateOps ==
         {Op(a, d, "i.create", x, y, 0) : a \in Actor, d \in Doc, x \in DOMAIN LabelSets,
                                          y \in DOMAIN AssignSets}
    \cup {Op(a, d, "p.create", x, 0, 0) : a \in Actor, d \in Doc, x \in DOMAIN LabelSets}

FanOf(ops, pre, Eval(_)) ==
    LET s == SetToSeq({o \in ops : o.k \in FanKinds}) IN
    [n \in 1..Len(s) |-> LET out == Eval(s[n]) IN <<Enc(s[n]), ResCode(out.res), Delta(pre, out.st)>>]

IEval(op) == IssueEval(issue, op)
PEval(op) == PatchEval(patch, op, heads)
CEval(op) == IF op.k = "i.create" THEN IssueCreateEval(op) ELSE PatchCreateEval(op)
CPre(op)  == IF op.k = "i.create" THEN NoIssue ELSE NoPatch

Fan == IF issue.author # 0 THEN FanOf(IssueOps(issue), issue, IEval)
       ELSE IF patch.author # 0 THEN FanOf(PatchOps(patch), patch, PEval)
       ELSE LET s == SetToSeq({o \in CreateOps : o.k \in FanKinds}) IN
            [n \in 1..Len(s) |-> LET out == CEval(s[n]) IN
                                 <<Enc(s[n]), ResCode(out.res), Delta(CPre(s[n]), out.st)>>]

EmitCase ==
    PrintT(<<"CASE", ToJson([obj   |-> IF issue.author # 0 THEN "issue"
                                       ELSE IF patch.author # 0 THEN "patch" ELSE "none",
                             log   |-> [n \in DOMAIN log |-> <<Enc(log[n].op), ResCode(log[n].res)>>],
                             st    |-> IF issue.author # 0 THEN issue ELSE patch,
                             heads |-> [a \in 1..Cardinality(Actor) |-> heads[a]],
                             fan   |-> ToJson(Fan)])>>)
EmitInv == Emit => EmitCase

\* the constants the harness needs to materialise the instance, printed once
ASSUME Emit => PrintT(<<"CASE", ToJson([cfg |-> [
            actors     |-> Cardinality(Actor),
            delegates  |-> [d \in 1..Cardinality(Doc) |-> Delegates[d]],
            threshold  |-> [d \in 1..Cardinality(Doc) |-> Threshold[d]],
            labelsets  |-> LabelSets,
            assignsets |-> AssignSets,
            commits    |-> Cardinality(Commit),
            anc        |-> [c \in 1..Cardinality(Commit) |-> Anc[c]]]])>>)
=============================================================================
