\* Deliberately wrong variant (the code as found): detached changes are left in the graph. TLC must
\* reject it: a forged detached change stays in the history and its dependents are evaluated.
CONSTANTS
  Atomic = TRUE
  SingleInPlace = FALSE
  DropDetached = FALSE
  Namespace = {1}
  M = 2
  MaxTs = 1
  Classes = {"ok", "badSig"}
  MaxBad = 1
  FullCauses = 1
  AllowDetached = TRUE
  Emit = FALSE
  EmitMod = 1
INIT InitGraphs
NEXT NextGraphs
INVARIANTS TheoremsHold
