CONSTANTS
  Atomic = TRUE
  SingleInPlace = FALSE
  DropDetached = TRUE
  Namespace = {1}
INIT TInit
NEXT TNext
INVARIANTS AnswerIsAlg
POSTCONDITION Accepted
