CONSTANTS
  Atomic = TRUE
  DropDetached = TRUE
  Namespace = {1}
INIT TInit
NEXT TNext
INVARIANTS AnswerIsAlg
POSTCONDITION Accepted
