CONSTANTS
  Atomic = TRUE
  Namespace = {1}
INIT TInit
NEXT TNext
INVARIANTS AnswerIsAlg
POSTCONDITION Accepted
