\* C06: change graphs that may contain detached changes (no dependency, not the root) and changes
\* built on them: they and their dependents must be dropped like any other invalid change.
CONSTANTS
  Atomic = TRUE
  SingleInPlace = FALSE
  DropDetached = TRUE
  Namespace = {1}
  M = 3
  MaxTs = 1
  Classes = {"ok", "badSig", "rejectLater"}
  MaxBad = 1
  FullCauses = 1
  AllowDetached = TRUE
  Emit = TRUE
  EmitMod = 1
INIT InitGraphs
NEXT NextGraphs
INVARIANTS TheoremsHold TheoremsHoldAllClosures EmitInv
