CONSTANTS
  Family = "fields"
  MaxDelegates = 255
  CurrentVersion = 1
  MaxEdits = 0
  EditDids = {}
  EditThresholds = {}
  Payloads = {"absent", "bad", "project", "custom", "nonnfc"}
  ListIds = {}
  ListThresholds = {}
  JsonDocs <- MCJsonDocs
INIT Init
NEXT Next
INVARIANTS AcceptedIsValid FoldIsDedupThenLimit AcceptIffRules RefusedJson RoundTrip RidIsInitialDoc FuncAgrees EmitInv
