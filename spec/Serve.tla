------------------------------- MODULE Serve -------------------------------
(***************************************************************************)
(* The fetch responder of a radicle node (radicle-node/src/worker.rs,      *)
(* worker/upload_pack.rs): what happens when a connected peer opens a git  *)
(* stream.                                                                 *)
(*                                                                         *)
(*   Open        wire: `Control::Open` -> Task{FetchRequest::Responder}    *)
(*   ReadHeader  pktline::git_request: 4 length bytes, body, parse         *)
(*   CheckPolicy \                                                         *)
(*   LoadRepo     > Worker::is_authorized, one action per statement        *)
(*   LoadDoc     /  (`repo.identity_doc()?`: the document may not load)     *)
(*   CheckVisible/                                                         *)
(*   StartUpload upload_pack::upload_pack: protocol-version gate, spawn    *)
(*   SendData    a chunk of `git upload-pack` output written to the stream *)
(*   Finish      child exits / peer sends EOF                              *)
(*   Refuse*     any error: the worker returns, wire sends `Close`         *)
(*                                                                         *)
(* The first part of the module (PktLine) specifies the request header:    *)
(* its grammar, the reader's treatment of the length field and the parser, *)
(* transcribed from `GitRequest::parse` over a token alphabet (a header    *)
(* body is a sequence of tokens, each standing for a fixed byte string; the*)
(* harness concatenates the real bytes).  The second part is the world the *)
(* decision depends on (seeding policies, repositories, identity           *)
(* documents), the third the responder state machine, the last the         *)
(* properties: C12 (serve only if seeded and visible; refuse before the    *)
(* first byte; serve the repository that was authorised) and the header    *)
(* part of C13 (every header has a specified outcome that is not a crash). *)
(***************************************************************************)
EXTENDS Integers, Sequences, FiniteSets, TLC

CONSTANTS Rid,       \* repository ids the model talks about (strings, also used as tokens)
          Node,      \* requesting nodes
          Variant,   \* "design" | deliberately wrong variants used for sanity runs (see below)
          MaxSent,   \* bound on the ghost byte counter
          Dynamic    \* TRUE: seeding policies change while requests are in flight

NoRid == "-"
NoNode == "-"

(***************************************************************************)
(*                              PktLine                                    *)
(***************************************************************************)
\* Token alphabet. Concrete bytes (harness `tok_bytes`):
\*   CMD  "git-upload-pack"     CMDX "git-receive-pack"   SP " "    SL "/"     RAD "rad:"
\*   r \in Rid: the canonical multibase form "z..." of that repository id
\*   AltTok(r): the same 20 bytes in another multibase ("f" ++ lower-case hex)
\*   GIT ".git"   JUNK "not-an-id!"   NUL "\0"   HOST "host="   NAME "seed.example"
\*   COLON ":"    PORT "8776"   BADPORT "99999"   V2 "version=2"   V1 "version=1"
\*   VER "version" (no value)   KV "agent=git/2"   KEY "side-band"   BAD8 0xFF (not UTF-8)
AltTok(r) == "ALT:" \o r
Token == {"CMD", "CMDX", "SP", "SL", "RAD", "GIT", "JUNK", "NUL", "HOST", "NAME", "COLON",
          "PORT", "BADPORT", "V2", "V1", "VER", "KV", "KEY", "BAD8"}
         \cup Rid \cup {AltTok(r) : r \in Rid}

\* How the four length bytes relate to what follows on the stream.
LenLt4 == {"lt4:0", "lt4:1", "lt4:2", "lt4:3"}      \* "0000" .. "0003": shorter than the length field itself
LenGt  == {"gt:1025", "gt:65535"}                   \* larger than the 1024-byte header buffer
LenClass == {"exact",     \* 4 lower-case hex digits = 4 + |body|, all bytes present
             "upper",     \* the same in upper-case hex
             "plus",      \* "+" and three hex digits (Rust's from_str_radix accepts a sign)
             "long",      \* as exact, followed by further bytes (they belong to the git stream)
             "short",     \* declares more bytes than the peer sends before EOF
             "eq4",       \* "0004": empty body
             "nonhex",    \* e.g. "zzzz"
             "nonutf8",   \* length bytes are not UTF-8
             "noprefix"}  \* fewer than four bytes, then EOF
            \cup LenLt4 \cup LenGt

Header == [len : LenClass, body : Seq(Token)]

\* Results of reading a header. One record shape for every result.
Res(ok, err, rid, host, port, nextra, v2) ==
    [ok |-> ok, err |-> err, rid |-> rid, host |-> host, port |-> port, nextra |-> nextra, v2 |-> v2]
ErrEof     == Res(FALSE, "eof", NoRid, FALSE, FALSE, 0, FALSE)      \* io::ErrorKind::UnexpectedEof
ErrInvalid == Res(FALSE, "invalid", NoRid, FALSE, FALSE, 0, FALSE)  \* io::ErrorKind::InvalidInput
Crash      == Res(FALSE, "panic", NoRid, FALSE, FALSE, 0, FALSE)    \* not an outcome of the design
Ok(rid, host, port, nextra, v2) == Res(TRUE, "", rid, host, port, nextra, v2)

\* -- sequence helpers -------------------------------------------------------
HasPrefix(s, p) == Len(s) >= Len(p) /\ SubSeq(s, 1, Len(p)) = p
Drop(s, n) == SubSeq(s, n + 1, Len(s))
\* index of the first element of s that is in set T, 0 if none
FirstIn(s, T) == IF \E i \in 1..Len(s) : s[i] \in T
                 THEN CHOOSE i \in 1..Len(s) : s[i] \in T /\ \A j \in 1..(i - 1) : s[j] \notin T
                 ELSE 0
\* str::split('\0')
RECURSIVE Split(_)
Split(s) == LET i == FirstIn(s, {"NUL"})
            IN IF i = 0 THEN <<s>> ELSE <<SubSeq(s, 1, i - 1)>> \o Split(Drop(s, i))
\* str::split_terminator('\0'): a trailing empty piece is not produced
SplitTerminator(s) == LET p == Split(s)
                      IN IF p[Len(p)] = <<>> THEN SubSeq(p, 1, Len(p) - 1) ELSE p
\* Iterator::skip_while(|p| p.is_empty())
RECURSIVE SkipEmpty(_)
SkipEmpty(ps) == IF ps # <<>> /\ Head(ps) = <<>> THEN SkipEmpty(Tail(ps)) ELSE ps

\* -- RepoId::from_str: optional "rad:", then any multibase encoding of 20 bytes
RidForms(r) == {<<r>>, <<"RAD", r>>, <<AltTok(r)>>, <<"RAD", AltTok(r)>>}
RidOfForm(f) == IF \E r \in Rid : f \in RidForms(r) THEN CHOOSE r \in Rid : f \in RidForms(r) ELSE NoRid

\* -- "host=" name [":" port]; tokens that contain a colon: COLON and RAD ("rad:")
HostRes(ok, host, port) == [ok |-> ok, host |-> host, port |-> port]
ParseHost(part) ==
    IF part = <<>> THEN HostRes(TRUE, FALSE, FALSE)
    ELSE IF ~HasPrefix(part, <<"HOST">>) THEN HostRes(FALSE, FALSE, FALSE)
    ELSE LET h == Drop(part, 1)
             i == FirstIn(h, {"COLON", "RAD"})
         IN IF i = 0 THEN HostRes(TRUE, TRUE, FALSE)
            ELSE IF Drop(h, i) = <<"PORT">> THEN HostRes(TRUE, TRUE, TRUE)   \* str::parse::<u16>
            ELSE HostRes(FALSE, FALSE, FALSE)

\* -- upload_pack(): the first extra parameter `version=<v>` decides; only "2" is served
IsVersionKV(part) == part # <<>> /\ part[1] \in {"V2", "V1"}
IsV2(extras) == LET i == IF \E k \in 1..Len(extras) : IsVersionKV(extras[k])
                         THEN CHOOSE k \in 1..Len(extras) :
                                  IsVersionKV(extras[k]) /\ \A j \in 1..(k - 1) : ~IsVersionKV(extras[j])
                         ELSE 0
                IN i # 0 /\ extras[i] = <<"V2">>

\* -- GitRequest::parse, statement by statement
ParseBody(b) ==
    IF \E i \in 1..Len(b) : b[i] = "BAD8" THEN ErrInvalid               \* str::from_utf8
    ELSE IF ~HasPrefix(b, <<"CMD", "SP">>) THEN ErrInvalid              \* strip_prefix("git-upload-pack ")
    ELSE LET parts == SplitTerminator(Drop(b, 2)) IN
         IF parts = <<>> THEN ErrInvalid                                \* parts.next()?
         ELSE LET path == parts[1] IN
              IF ~HasPrefix(path, <<"SL">>) THEN ErrInvalid             \* strip_prefix('/')
              ELSE LET rid == RidOfForm(Drop(path, 1)) IN
                   IF rid = NoRid THEN ErrInvalid                       \* .parse().ok()?
                   ELSE LET host == IF Len(parts) >= 2 THEN ParseHost(parts[2])
                                    ELSE HostRes(TRUE, FALSE, FALSE) IN
                        IF ~host.ok THEN ErrInvalid
                        ELSE LET ex == SkipEmpty(SubSeq(parts, 3, Len(parts)))
                             IN Ok(rid, host.host, host.port, Len(ex), IsV2(ex))

\* -- Reader::read_pktline + read_request_pktline: the set of permitted results for a header.
\* Variant "orig-nobounds" is the code as found (slicing `buf[4..length]` without a bounds
\* check panics the worker thread); the design returns InvalidInput.
ReadOutcomes(h) ==
    CASE h.len = "noprefix"            -> {ErrEof}
      [] h.len \in {"nonhex", "nonutf8"} -> {ErrInvalid}
      [] h.len \in LenLt4 \cup LenGt   -> IF Variant = "orig-nobounds" THEN {Crash} ELSE {ErrInvalid}
      [] h.len = "eq4"                 -> {ParseBody(<<>>)}
      [] h.len = "short"               -> {ErrEof}
      [] h.len = "plus"                -> {ErrInvalid, ParseBody(h.body)}   \* a sign is not a pkt-line; either is fine
      [] OTHER                         -> {ParseBody(h.body)}

\* -- the grammar, declaratively (gitprotocol-pack: git-proto-request) -----------------------
\* A body *names* repository r if it is the upload-pack command, a space, "/" and one of the
\* textual forms of r, followed by NUL or by the end of the body.
Names(b, r) == \E f \in RidForms(r) :
                  LET p == <<"CMD", "SP", "SL">> \o f
                  IN HasPrefix(b, p) /\ (Len(b) = Len(p) \/ b[Len(p) + 1] = "NUL")
HostForms  == {<<>>, <<"HOST", "NAME", "NUL">>, <<"HOST", "NAME", "COLON", "PORT", "NUL">>}
ExtraForms == {<<>>, <<"NUL", "V2", "NUL">>, <<"NUL", "V1", "NUL">>, <<"NUL", "KV", "NUL", "V2", "NUL">>,
               <<"NUL", "V2", "NUL", "KV", "NUL">>, <<"NUL", "KEY", "NUL">>}
Grammar(r) == {<<"CMD", "SP", "SL">> \o f \o <<"NUL">> \o h \o e :
                  f \in {<<r>>, <<"RAD", r>>}, h \in HostForms, e \in ExtraForms}

(***************************************************************************)
(*                               World                                     *)
(***************************************************************************)
Policy == {"allow", "block", "none"}           \* row in the policy store for a repository, or no row
RepoState == [present : BOOLEAN,               \* the repository exists in storage
              docok   : BOOLEAN,               \* its identity document loads (`repo.identity_doc()` is Ok);
                                               \* FALSE: refs/rad/id is dangling, or points at a revision whose
                                               \* document is corrupt or of an unsupported version. private/allow/
                                               \* delegates then describe the last readable revision.
              private : BOOLEAN,               \* identity document visibility
              allow   : SUBSET Node,           \* allow list of a private repository
              delegates : SUBSET Node]

VARIABLES default,    \* configured default seeding policy: "allow" | "block"
          policy,     \* [Rid -> Policy]
          repo        \* [Rid -> RepoState]
world == <<default, policy, repo>>

Effective(def, pol, r) == IF pol[r] = "none" THEN def ELSE pol[r]   \* policy::Config::seed_policy
Seeded(def, pol, r)    == Effective(def, pol, r) = "allow"
VisibleTo(rp, r, n)    == ~rp[r].private \/ n \in rp[r].allow \/ n \in rp[r].delegates   \* Doc::is_visible_to
\* C12's condition
\* (a repository whose document cannot be read cannot be shown to be visible to anyone)
MayServe(def, pol, rp, r, n) == Seeded(def, pol, r) /\ rp[r].present /\ rp[r].docok /\ VisibleTo(rp, r, n)

\* The responder's decision as a function (used by trace validation, and shown below to be what
\* the state machine computes when the world does not change during the request).
Decision(def, pol, rp, n, res) ==
    IF ~res.ok THEN "refused:header"
    ELSE IF ~Seeded(def, pol, res.rid) THEN "refused:policy"
    ELSE IF ~rp[res.rid].present THEN "refused:storage"
    ELSE IF ~rp[res.rid].docok THEN "refused:identity"
    ELSE IF ~VisibleTo(rp, res.rid, n) THEN "refused:visibility"
    ELSE IF ~res.v2 THEN "refused:protocol"
    ELSE "served"

(***************************************************************************)
(*                         Responder state machine                         *)
(***************************************************************************)
VARIABLES pc,        \* "idle" | "header" | "parsed" | "policy-ok" | "repo-ok" | "doc-ok" | "authorized" | "serving" | "closed"
          remote,    \* requesting node of the open stream
          hdr,       \* header the peer sends on it
          req,       \* result of reading the header
          authRid,   \* repository `is_authorized` returned Ok for
          servedRid, \* repository whose git directory upload-pack runs in
          sent,      \* ghost: bytes of repository data written to the stream
          outcome,   \* "-" | "served" | "refused:<why>" | "crash"
          snap       \* ghost: world as read by the authorisation steps [seeded, present, docok, visible]
stream == <<pc, remote, hdr, req, authRid, servedRid, sent, outcome, snap>>
vars == <<world, stream>>

NoHdr == [len |-> "eq4", body |-> <<>>]
NoSnap == [seeded |-> FALSE, present |-> FALSE, docok |-> FALSE, visible |-> FALSE]

StreamInit == /\ pc = "idle" /\ remote = NoNode /\ hdr = NoHdr /\ req = ErrInvalid
              /\ authRid = NoRid /\ servedRid = NoRid /\ sent = 0 /\ outcome = "-" /\ snap = NoSnap

\* The environment: the operator (or the service, on `rad seed` / `rad unseed` / `rad block`)
\* rewrites a policy row at any time.
SetPolicy(r, p) == /\ Dynamic
                   /\ policy[r] # p
                   /\ policy' = [policy EXCEPT ![r] = p]
                   /\ UNCHANGED <<default, repo, stream>>

\* The environment: the repository's identity head moves (a fetch, `rad id`, disk trouble) to a
\* revision whose document this node cannot read, or back to one it can.
SetDoc(r, b) == /\ Dynamic
                /\ repo[r].present /\ repo[r].docok # b
                /\ repo' = [repo EXCEPT ![r].docok = b]
                /\ UNCHANGED <<default, policy, stream>>

Open(n, h) == /\ pc = "idle"
              /\ pc' = "header" /\ remote' = n /\ hdr' = h
              /\ UNCHANGED <<world, req, authRid, servedRid, sent, outcome, snap>>

Refuse(why) == /\ pc' = "closed" /\ outcome' = why

ReadHeader == /\ pc = "header"
              /\ \E res \in ReadOutcomes(hdr) :
                    /\ req' = res
                    /\ IF res.ok THEN pc' = "parsed" /\ outcome' = outcome
                       ELSE IF res.err = "panic" THEN Refuse("crash")
                       ELSE Refuse("refused:header")
              /\ UNCHANGED <<world, remote, hdr, authRid, servedRid, sent, snap>>

\* is_authorized, line 1-3: `if policy.is_block() { return Err(Unauthorized) }`
CheckPolicy == /\ pc = "parsed"
               /\ LET s == Seeded(default, policy, req.rid) IN
                  /\ snap' = [snap EXCEPT !.seeded = s]
                  /\ IF s THEN pc' = "policy-ok" /\ outcome' = outcome ELSE Refuse("refused:policy")
               /\ UNCHANGED <<world, remote, hdr, req, authRid, servedRid, sent>>

\* `self.storage.repository(rid)?; repo.identity_doc()?`
LoadRepo == /\ pc = "policy-ok"
            /\ LET p == repo[req.rid].present IN
               /\ snap' = [snap EXCEPT !.present = p]
               /\ IF p THEN pc' = "repo-ok" /\ outcome' = outcome ELSE Refuse("refused:storage")
            /\ UNCHANGED <<world, remote, hdr, req, authRid, servedRid, sent>>

\* `if !doc.is_visible_to(&remote.into()) { Err(Unauthorized) } else { Ok(()) }`
\* `let doc = repo.identity_doc()?;` -- the error is propagated: refusal. Variant "fail-open-doc"
\* is a responder that treats a document it cannot load as "nothing to check".
LoadDoc == /\ pc = "repo-ok"
           /\ LET d == repo[req.rid].docok IN
              /\ snap' = [snap EXCEPT !.docok = d]
              /\ IF d \/ Variant = "fail-open-doc" THEN pc' = "doc-ok" /\ outcome' = outcome
                 ELSE Refuse("refused:identity")
           /\ UNCHANGED <<world, remote, hdr, req, authRid, servedRid, sent>>

CheckVisible == /\ pc = "doc-ok"
                /\ LET v == IF Variant = "skip-visibility" \/ (Variant = "fail-open-doc" /\ ~repo[req.rid].docok)
                            THEN TRUE ELSE VisibleTo(repo, req.rid, remote) IN
                   /\ snap' = [snap EXCEPT !.visible = VisibleTo(repo, req.rid, remote)]
                   /\ IF v THEN pc' = "authorized" /\ authRid' = req.rid /\ outcome' = outcome
                      ELSE Refuse("refused:visibility") /\ authRid' = authRid
                /\ UNCHANGED <<world, remote, hdr, req, servedRid, sent>>

\* upload_pack(): `if protocol_version != 2 { return Err(InvalidData) }`, then
\* `paths::repository(storage, &header.repo)` is the child's working directory.
StartUpload == /\ pc = "authorized"
               /\ IF req.v2 THEN /\ pc' = "serving" /\ outcome' = outcome
                                 /\ servedRid' = IF Variant = "serve-other" /\ \E o \in Rid : o # req.rid
                                                 THEN CHOOSE o \in Rid : o # req.rid ELSE req.rid
                  ELSE Refuse("refused:protocol") /\ servedRid' = servedRid
               /\ UNCHANGED <<world, remote, hdr, req, authRid, sent, snap>>

\* Variant "early-data": something (a banner, an advertisement) is written before the decision.
SendData == /\ \/ pc = "serving"
               \/ Variant = "early-data" /\ pc \in {"parsed", "policy-ok", "repo-ok", "doc-ok"}
            /\ sent < MaxSent
            /\ sent' = sent + 1
            /\ UNCHANGED <<world, pc, remote, hdr, req, authRid, servedRid, outcome, snap>>

Finish == /\ pc = "serving"
          /\ pc' = "closed" /\ outcome' = "served"
          /\ UNCHANGED <<world, remote, hdr, req, authRid, servedRid, sent, snap>>

\* wire: `Control::Close`, the stream id can be reused
Close == /\ pc = "closed"
         /\ Dynamic
         /\ pc' = "idle" /\ remote' = NoNode /\ hdr' = NoHdr /\ req' = ErrInvalid
         /\ authRid' = NoRid /\ servedRid' = NoRid /\ sent' = 0 /\ outcome' = "-" /\ snap' = NoSnap
         /\ UNCHANGED world

Step == ReadHeader \/ CheckPolicy \/ LoadRepo \/ LoadDoc \/ CheckVisible \/ StartUpload \/ SendData \/ Finish \/ Close

(***************************************************************************)
(*                              Properties                                 *)
(***************************************************************************)
Decided == pc \in {"serving", "closed"}
Serving == pc = "serving" \/ outcome = "served"

\* C12 (1): data of a repository flows only if, when the responder looked, the repository was
\* seeded, present, its identity document readable, and visible to the requester.
C12_ServeOnlyIfAllowed ==
    (Serving \/ sent > 0) => snap.seeded /\ snap.present /\ snap.docok /\ snap.visible
\* ... and, when nothing changes underneath the request, "when the responder looked" is "now".
C12_ServeOnlyIfAllowedNow ==
    (~Dynamic /\ (Serving \/ sent > 0)) => servedRid # NoRid /\ MayServe(default, policy, repo, servedRid, remote)
\* C12 (2): a refusal precedes the first byte of repository data.
C12_RefusalBeforeData ==
    /\ (sent > 0 => pc \in {"serving", "closed"} /\ authRid # NoRid)
    /\ (outcome \notin {"-", "served"} => sent = 0)
\* C12 (3): the repository that is served is the one that was authorised, which is the one the
\* header names.
C12_ServedIsAuthorised ==
    servedRid # NoRid => /\ servedRid = authRid
                         /\ req.ok /\ req.rid = authRid
                         /\ Names(hdr.body, servedRid)
\* The parser accepts a header only if it names the repository it returns; everything generated
\* by the grammar is accepted.
ParserSound == (pc # "idle" /\ pc # "header" /\ req.ok) => Names(hdr.body, req.rid)
ParserComplete == \A r \in Rid : \A b \in Grammar(r) : ParseBody(b).ok /\ ParseBody(b).rid = r
\* C13 (header part): every header has an outcome, and it is never a crash.
C13_NoCrash == outcome # "crash" /\ (pc = "header" => ReadOutcomes(hdr) # {} /\ Crash \notin ReadOutcomes(hdr))
\* The state machine computes `Decision` (static world).
MachineIsDecision ==
    (~Dynamic /\ pc = "closed" /\ outcome # "crash") => outcome = Decision(default, policy, repo, remote, req)
MachineIsDecisionServing ==
    (~Dynamic /\ pc = "serving") => Decision(default, policy, repo, remote, req) = "served"

TypeOK == /\ pc \in {"idle", "header", "parsed", "policy-ok", "repo-ok", "doc-ok", "authorized", "serving", "closed"}
          /\ sent \in 0..MaxSent
          /\ default \in {"allow", "block"}
          /\ policy \in [Rid -> Policy]
=============================================================================
