---------------------------- MODULE SessionLinks ----------------------------
(***************************************************************************)
(* Unbounded complement to FetchSched.tla for the session life cycle: for  *)
(* ANY set of peers and any interleaving of connections of either          *)
(* direction, connection losses, disconnections reported for the other     *)
(* link, dial failures, dial progress and wake-ups, the service believes a *)
(* peer connected exactly when a connection to it exists, and the session  *)
(* records that connection's direction -- so that the loss of a connection *)
(* is never ignored as "stale" (the defects repaired in fe79ac4 and        *)
(* e692c22).  The abstraction keeps the four variables of FetchSched.tla   *)
(* that the life cycle depends on; fetches do not influence them.  Proved  *)
(* with TLAPS.                                                             *)
(***************************************************************************)
EXTENDS TLAPS

CONSTANTS Peer, Persistent
ASSUME PersistentPeers == Persistent \subseteq Peer

VARIABLES st,    \* session state: "none" | "initial" | "attempted" | "connected" | "disconnected"
          link,  \* the link recorded in the session: "none" | "in" | "out"
          wire,  \* the connection that exists: "none" | "in" | "out"
          dial   \* a dial of ours is under way
vars == <<st, link, wire, dial>>

States == {"none", "initial", "attempted", "connected", "disconnected"}
Links == {"none", "in", "out"}

TypeOK == /\ st \in [Peer -> States] /\ link \in [Peer -> Links]
          /\ wire \in [Peer -> Links] /\ dial \in [Peer -> BOOLEAN]

Init == /\ st = [p \in Peer |-> IF p \in Persistent THEN "initial" ELSE "none"]
        /\ link = [p \in Peer |-> IF p \in Persistent THEN "out" ELSE "none"]
        /\ wire = [p \in Peer |-> "none"]
        /\ dial = [p \in Peer |-> p \in Persistent]

Attempt(p) == /\ st[p] = "initial" /\ dial[p]
              /\ st' = [st EXCEPT ![p] = "attempted"]
              /\ UNCHANGED <<link, wire, dial>>

Connect(p, d) == /\ wire[p] = "none"
                 /\ d = "out" => (dial[p] /\ st[p] \in {"initial", "attempted"})
                 /\ st' = [st EXCEPT ![p] = "connected"]
                 /\ wire' = [wire EXCEPT ![p] = d]
                 /\ link' = [link EXCEPT ![p] = d]
                 /\ dial' = [dial EXCEPT ![p] = IF d = "out" THEN FALSE ELSE @]

\* Service::disconnected(p, l)
SvcDisconnected(p, l) ==
    IF st[p] = "none" \/ link[p] # l
    THEN UNCHANGED <<st, link>>
    ELSE /\ st' = [st EXCEPT ![p] = IF p \in Persistent THEN "disconnected" ELSE "none"]
         /\ link' = [link EXCEPT ![p] = IF p \in Persistent THEN @ ELSE "none"]

Disconnect(p) == /\ wire[p] # "none"
                 /\ wire' = [wire EXCEPT ![p] = "none"]
                 /\ SvcDisconnected(p, wire[p])
                 /\ UNCHANGED dial

StaleDisconnect(p) == /\ wire[p] # "none"
                      /\ SvcDisconnected(p, IF wire[p] = "in" THEN "out" ELSE "in")
                      /\ UNCHANGED <<wire, dial>>

DialFail(p) == /\ dial[p]
               /\ dial' = [dial EXCEPT ![p] = FALSE]
               /\ SvcDisconnected(p, "out")
               /\ UNCHANGED wire

\* wake(): maintain_persistent re-dials any subset of the disconnected sessions
Wake == \E R \in SUBSET {p \in Peer : st[p] = "disconnected"} :
           /\ st' = [p \in Peer |-> IF p \in R THEN "initial" ELSE st[p]]
           /\ dial' = [p \in Peer |-> dial[p] \/ p \in R]
           /\ link' = [p \in Peer |-> IF p \in R THEN "out" ELSE link[p]]
           /\ UNCHANGED wire

Next == \/ \E p \in Peer : Attempt(p) \/ Disconnect(p) \/ StaleDisconnect(p) \/ DialFail(p)
        \/ \E p \in Peer, d \in {"in", "out"} : Connect(p, d)
        \/ Wake
Spec == Init /\ [][Next]_vars

SessionHasConnection == \A p \in Peer : (st[p] = "connected") <=> (wire[p] # "none")
LinkRecorded == \A p \in Peer : wire[p] # "none" => link[p] = wire[p]
\* no dial of ours is under way while our own connection exists
NoDialWhileOut == \A p \in Peer : dial[p] => wire[p] # "out"

Inv == TypeOK /\ SessionHasConnection /\ LinkRecorded /\ NoDialWhileOut

THEOREM Safety == Spec => []Inv
<1>1. Init => Inv
  BY DEF Init, Inv, TypeOK, SessionHasConnection, LinkRecorded, NoDialWhileOut, States, Links
<1>2. Inv /\ [Next]_vars => Inv'
  <2> SUFFICES ASSUME Inv, [Next]_vars PROVE Inv'
    OBVIOUS
  <2> USE DEF Inv, TypeOK, SessionHasConnection, LinkRecorded, NoDialWhileOut, States, Links
  <2>1. ASSUME NEW p \in Peer, Attempt(p) PROVE Inv'
    BY <2>1 DEF Attempt
  <2>2. ASSUME NEW p \in Peer, Disconnect(p) PROVE Inv'
    BY <2>2 DEF Disconnect, SvcDisconnected
  <2>3. ASSUME NEW p \in Peer, StaleDisconnect(p) PROVE Inv'
    BY <2>3 DEF StaleDisconnect, SvcDisconnected
  <2>4. ASSUME NEW p \in Peer, DialFail(p) PROVE Inv'
    BY <2>4 DEF DialFail, SvcDisconnected
  <2>5. ASSUME NEW p \in Peer, NEW d \in {"in", "out"}, Connect(p, d) PROVE Inv'
    BY <2>5 DEF Connect
  <2>6. CASE Wake
    BY <2>6 DEF Wake
  <2>7. CASE UNCHANGED vars
    BY <2>7 DEF vars
  <2>8. QED
    BY <2>1, <2>2, <2>3, <2>4, <2>5, <2>6, <2>7 DEF Next
<1>3. QED
  BY <1>1, <1>2, PTL DEF Spec
=============================================================================
