\* C06 thorough (2): root + 4 changes, timestamps 1..2, at most one change that is not plainly
\* valid; every 16th graph (by pseudo-hash) is emitted for the replay.
CONSTANTS
  Atomic = TRUE
  SingleInPlace = FALSE
  DropDetached = TRUE
  Namespace = {1}
  M = 4
  MaxTs = 2
  Classes = {"ok", "needs", "badSig", "rf.redactMissing.d", "rf.redactMissing.g", "rf.editMissing.d", "rf.editMissing.g", "rf.reactMissing.d", "rf.reactMissing.g", "rf.replyMissing.d", "rf.replyMissing.g", "rf.badTitle.d", "rf.badTitle.g", "rf.label.g", "rejectLater"}
  MaxBad = 1
  FullCauses = 0
  AllowDetached = FALSE
  Emit = TRUE
  EmitMod = 16
INIT InitGraphs
NEXT NextGraphs
INVARIANTS TheoremsHold EmitInv
