CONSTANTS
  StreamSet = {}
  K = 131072
  Growth = 2
  MaxInbox = 2097152
  AllocDeclared = FALSE
  InnerEofIncomplete = FALSE
INIT TInit
NEXT TNext
INVARIANTS TypeOK BufAligned C14_Mem C14_Chunking C14_Invalid OutputsInOrder NoSpuriousError
POSTCONDITION Accepted
