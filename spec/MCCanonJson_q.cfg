CONSTANTS
  Values <- MCValues
  Variant = "spec"
  StrLen = 2
  CoreStrLen = 4
  FullKeyLen = 1
  TripleKeys = 10
  Deep = FALSE
INIT Init
NEXT Next
INVARIANTS StackDiscipline AlgMatchesDefinition FloatsRejected OutputDecodes OutputDenotesValue KeysSorted Normalised ControlEscaped NoWhitespace ReencodeIsIdentity EmitInv
