CONSTANTS
  Peer = {1, 2}
  Repo = {1, 2}
  Persistent = {2}
  Capacity = 1
  QueueMax = 2
  MaxTasks = 3
  MaxOps = 9
  RetryExact = TRUE
  SyncTask = TRUE
  Dev = {"late-same-peer", "late-forwarded"}
INIT Init
NEXT Next
VIEW view
INVARIANTS C16_Attribution
