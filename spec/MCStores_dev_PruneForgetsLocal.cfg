CONSTANTS
  Repos = {1,2}
  Nodes = {1,2}
  TS = {0,1,2}
  Which = {"routing"}
  MaxDepth <- DepthDev
  Variant = "PruneForgetsLocal"
INIT Init
NEXT Next
VIEW View
INVARIANTS ForeignKeys RowidsUnique 
PROPERTIES PruneKeepsLocal
