CONSTANTS
  N = 3
  AcceptNoRoot = TRUE
  RefsAtUsesAdvertised = FALSE
  RefsAtIgnoresBlock = FALSE
  KeepStaleRad = FALSE
  SkipUnloaded = FALSE
  Family = {"delegates", "blockdel"}
  Junks = {"none", "extra"}
  DelCount = {1, 2, 3}
  LocalChoices = {0, 1}
INIT MCInit
NEXT Next
INVARIANTS TypeOK InitIsLegal C01_Match C01_Untouched BlockedUntouched OutOfScopeUntouched NoRewindAny C02_Gate C02_FewImpliesFailure C02_FewOfferedImpliesFailure C02_FailedUnchanged ErrorBeforeApplyUnchanged EmitInv
PROPERTIES C02_NoRewind