------------------------------ MODULE StreamIds ------------------------------
(***************************************************************************)
(* Unbounded complement to Streams.tla for the part of C13 that concerns   *)
(* stream identifiers: whatever control frames a peer sends, in whatever   *)
(* order with our own fetches, worker results, disconnections and          *)
(* reconnections, `Streams::open` never finds the id of our next stream    *)
(* taken (which is a panic in the code).  The abstraction keeps only what  *)
(* that depends on: the registered ids and our sequence number.  Stream    *)
(* numbers are arbitrary naturals, there is no bound on the number of      *)
(* streams, frames or connections.  Proved with TLAPS.                     *)
(*                                                                         *)
(* The invariant is exactly the repair of 317766d: the peer can only       *)
(* register ids of its own side.  With RemoteOpenAny (the code as found)   *)
(* the proof obligation of RemoteOpen fails -- and TLC finds the crash in  *)
(* MCStreams_dev.cfg.                                                      *)
(***************************************************************************)
EXTENDS Naturals, TLAPS

Side == {"us", "them"}

VARIABLES open,     \* registered stream ids: a set of <<side, n>>
          seq,      \* number of streams we opened on this connection
          crashed
vars == <<open, seq, crashed>>

TypeOK == /\ open \subseteq (Side \X Nat)
          /\ seq \in Nat
          /\ crashed \in BOOLEAN

Init == open = {} /\ seq = 0 /\ crashed = FALSE

\* Io::Fetch -> Streams::open: the next id of our side
OurOpen == /\ ~crashed
           /\ seq' = seq + 1
           /\ IF <<"us", seq + 1>> \in open
              THEN crashed' = TRUE /\ UNCHANGED open
              ELSE open' = open \cup {<<"us", seq + 1>>} /\ UNCHANGED crashed

\* Control::Open from the peer: ids of our side are refused
RemoteOpen(s) == /\ ~crashed
                 /\ open' = IF s \in open \/ s[1] = "us" THEN open ELSE open \cup {s}
                 /\ UNCHANGED <<seq, crashed>>

\* Control::Close from the peer, a worker result, an early close: any id may go
Close(s) == ~crashed /\ open' = open \ {s} /\ UNCHANGED <<seq, crashed>>

\* connection lost and re-established: fresh bookkeeping
Reconnect == ~crashed /\ open' = {} /\ seq' = 0 /\ UNCHANGED crashed

Next == OurOpen \/ Reconnect \/ \E s \in Side \X Nat : RemoteOpen(s) \/ Close(s)
Spec == Init /\ [][Next]_vars

\* our ids are only ever registered by us, in order
OurIdsAreOurs == \A s \in open : s[1] = "us" => s[2] <= seq
Inv == TypeOK /\ OurIdsAreOurs /\ ~crashed

THEOREM NoCrash == Spec => []Inv
<1>1. Init => Inv
  BY DEF Init, Inv, TypeOK, OurIdsAreOurs
<1>2. Inv /\ [Next]_vars => Inv'
  <2> SUFFICES ASSUME Inv, [Next]_vars PROVE Inv'
    OBVIOUS
  <2>1. CASE OurOpen
    <3>1. <<"us", seq + 1>> \notin open
      BY <2>1 DEF Inv, TypeOK, OurIdsAreOurs
    <3>2. QED
      BY <2>1, <3>1 DEF Inv, TypeOK, OurIdsAreOurs, OurOpen, Side
  <2>2. CASE Reconnect
    BY <2>2 DEF Inv, TypeOK, OurIdsAreOurs, Reconnect
  <2>3. ASSUME NEW s \in Side \X Nat, RemoteOpen(s) PROVE Inv'
    BY <2>3 DEF Inv, TypeOK, OurIdsAreOurs, RemoteOpen, Side
  <2>4. ASSUME NEW s \in Side \X Nat, Close(s) PROVE Inv'
    BY <2>4 DEF Inv, TypeOK, OurIdsAreOurs, Close
  <2>5. CASE UNCHANGED vars
    BY <2>5 DEF Inv, TypeOK, OurIdsAreOurs, vars
  <2>6. QED
    BY <2>1, <2>2, <2>3, <2>4, <2>5 DEF Next
<1>3. QED
  BY <1>1, <1>2, PTL DEF Spec
=============================================================================
