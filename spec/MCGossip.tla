------------------------------ MODULE MCGossip ------------------------------
EXTENDS Gossip, Json

\* A small but representative set of deliverable announcements: a stranger node 3 announcing
\* itself, its inventory (two versions) and refs for a private repository we have (2) and one we
\* do not have (3); plus the three "bad" classes.
MCAnns ==
    {[node |-> 3, kind |-> "node", repo |-> 0, ts |-> 5000, sig |-> TRUE]}
    \cup {[node |-> 3, kind |-> "inv", repo |-> 0, ts |-> t, sig |-> TRUE] : t \in {5000, 6000}}
    \cup {[node |-> 3, kind |-> "refs", repo |-> r, ts |-> t, sig |-> TRUE] : r \in {2, 3}, t \in {5000, 6000}}
    \cup {[node |-> 3, kind |-> "inv", repo |-> 0, ts |-> 6000, sig |-> FALSE],
          [node |-> 3, kind |-> "node", repo |-> 0, ts |-> 4000000, sig |-> TRUE],
          [node |-> 3, kind |-> "inv", repo |-> 0, ts |-> 0, sig |-> TRUE],
          [node |-> 3, kind |-> "inv", repo |-> 0, ts |-> -4000000, sig |-> TRUE]}

\* inventory content of node 3's announcements: the two versions differ
MCInvOf(a) == IF a.ts = 5000 THEN {1} ELSE {1, 3}

MCAllow == (1 :> {}) @@ (2 :> {1}) @@ (3 :> {})
MCDelegates == (1 :> {0}) @@ (2 :> {0}) @@ (3 :> {3})

\* one behaviour (as a harness script) per reachable state
\* (states whose last step neither wrote nor disconnected anything are reached again as prefixes
\* of longer behaviours, so only "interesting" or maximal ones are printed)
EmitInv == (out # {} \/ disc # {} \/ Len(hist) = MaxOps) => PrintT(<<"CASE", ToJson([ops |-> hist])>>)
=============================================================================
