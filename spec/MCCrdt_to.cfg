CONSTANTS
  Mode = "ops"
  Keys = {1, 2}
  MaxClock = 2
  MaxVal = 1
  Types = {"lwwmap"}
  RemoveWinsTies = FALSE
  MaxOps = 5
INIT MCInit
NEXT MCNext
VIEW View
INVARIANTS Lww EmitInv
