CONSTANTS
  Rid = {"R1", "R2"}
  Node = {"D", "A", "O"}
  Variant = "design"
  MaxSent = 2
  Dynamic = FALSE
  Scale = "t"
INIT MCInit
NEXT MCNext
INVARIANTS TypeOK C12_ServeOnlyIfAllowed C12_ServeOnlyIfAllowedNow C12_RefusalBeforeData C12_ServedIsAuthorised ParserSound C13_NoCrash MachineIsDecision MachineIsDecisionServing EmitInv
