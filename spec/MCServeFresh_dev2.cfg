CONSTANTS
  Vis = {"public", "seed", "both"}
  MaxOps = 4
  Dev = {"fail-open"}
INIT Init
NEXT Next
INVARIANTS ServedOnlyIfAllowed
