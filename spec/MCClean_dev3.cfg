CONSTANTS
  Local = "L"
  MaxOps = 3
  Variant = "emptyset"
  Node <- MCNode
  Delegates <- MCDelegates
  NsStates <- MCNsStates
  IdStates <- MCIdStates
INIT Init
NEXT Next
INVARIANTS ProtectedUntouched
