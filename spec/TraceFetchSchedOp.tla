-------------------------- MODULE TraceFetchSchedOp --------------------------
(***************************************************************************)
(* Strict conformance of the fetch-scheduling design model: executions of  *)
(* the bounded model's behaviours on the real `Service` (engine            *)
(* c16_fetchsched) are validated against the ACTIONS of FetchSched.tla.    *)
(* Each recorded step must be a step of the corresponding action with the  *)
(* recorded arguments, and the service's observable state after it -- the  *)
(* fetch table (repository -> peer), every session's state, recorded link, *)
(* fetching set and queue length, the connections and dials that exist,    *)
(* and the fetches emitted by the step, in order -- must equal the         *)
(* action's result.  The only nondeterminism is the order in     *)
(* which dequeue_fetches visits the sessions (an RNG shuffle in the code); *)
(* TLC picks the order that explains the observation.  A rejection is      *)
(* DRIFT (reported in the evidence); the gate is TraceFetchSched.tla.       *)
(***************************************************************************)
EXTENDS FetchSched, Json, IOUtils, SequencesExt

Rec == ndJsonDeserialize(IOEnv.TRACE)

\* the instance the log was recorded on: all runs of one log share the fetch capacity and the set of
\* persistent peers (the driver groups the runs accordingly); the cfg substitutes these for the constants
TCapacity == Rec[1].capacity
TPersistent == ToSet(Rec[1].persistent)

VARIABLE l
tvars == <<vars, l>>

SessOf(o, p) == IF \E x \in ToSet(o.sess) : x[1] = p THEN CHOOSE x \in ToSet(o.sess) : x[1] = p ELSE <<>>

Matches(o) ==
    /\ {<<x[1], x[2]>> : x \in ToSet(o.table)} = {<<r, fetching'[r].from>> : r \in {y \in Repo : fetching'[y] # NoFetch}}
    /\ \A p \in Peer :
         LET x == SessOf(o, p) IN
         IF x = <<>> THEN st'[p] = "none"
         ELSE /\ st'[p] = x[5]
              /\ ToSet(x[3]) = sfetch'[p]
              /\ x[4] = Len(queue'[p])
              /\ x[6] = link'[p]                   \* the link the session recorded
    \* the connections that exist and the dials under way, as the harness (the wire) knows them
    /\ {<<x[1], x[2]>> : x \in ToSet(o.wire)} = {<<p, wire'[p]>> : p \in {q \in Peer : wire'[q] # "none"}}
    /\ ToSet(o.dial) = {p \in Peer : dial'[p]}
    \* the fetches the step emitted, in order, are the tasks the action created
    /\ Len(tasks') = Len(tasks) + Len(o.fetches)
    /\ \A i \in 1..Len(o.fetches) :
         /\ o.fetches[i][1] = Len(tasks) + i
         /\ tasks'[Len(tasks) + i].repo = o.fetches[i][2]
         /\ tasks'[Len(tasks) + i].peer = o.fetches[i][3]

TInit == Init /\ l = 1

Reset ==
    /\ Rec[l].ev = "init"
    /\ st' = [p \in Peer |-> IF p \in Persistent THEN "initial" ELSE "none"]
    /\ sfetch' = [p \in Peer |-> {}] /\ queue' = [p \in Peer |-> <<>>]
    /\ fetching' = [r \in Repo |-> NoFetch] /\ tasks' = <<>> /\ live' = {} /\ applied' = <<>> /\ hist' = <<>>
    /\ routing' = {} /\ syncIn' = 0
    /\ ToSet(Rec[l].persistent) = Persistent /\ Rec[l].capacity = Capacity     \* the log belongs to this instance
    /\ link' = [p \in Peer |-> IF p \in Persistent THEN "out" ELSE "none"]
    /\ wire' = [p \in Peer |-> "none"] /\ dial' = [p \in Peer |-> p \in Persistent]

\* Steps the harness did not pass on (a disconnection without a connection, an outbound connection without
\* a dial, ...) and inputs the service ignores leave everything as it is.
Noop == UNCHANGED vars

Step ==
    /\ Rec[l].ev = "step"
    /\ LET o == Rec[l]
           op == o.op
           n == op[1]
           skipped == "skipped" \in DOMAIN o.info
       IN /\ CASE skipped -> Noop
                [] n = "connect" -> Connect(op[2], o.info.dir)          \* the direction the harness established
                [] n = "dialfail" -> DialFail(op[2])
                [] n = "attempted" -> IF st[op[2]] = "initial" /\ dial[op[2]] THEN Attempt(op[2]) ELSE Noop
                [] n = "disconnect" -> Disconnect(op[2])
                [] n = "stale_disconnect" -> IF wire[op[2]] # "none" THEN StaleDisconnect(op[2]) ELSE Noop
                [] n = "fetch" -> FetchCmd(op[2], op[3])
                [] n = "annfetch" -> IF op[3] \in conn /\ wire[op[3]] # "none" THEN AnnFetch(op[2], op[3]) ELSE Noop
                [] n = "done" -> IF op[2] \in DOMAIN tasks /\ tasks[op[2]].st = "running"
                                 THEN TaskDone(op[2], op[3] = "ok")
                                 ELSE Noop                                  \* a task finishes once
                [] n = "idle" -> Wake
          /\ Matches(o)

TNext == l <= Len(Rec) /\ l' = l + 1 /\ (Reset \/ Step)

Accepted ==
    IF TLCGet("stats").diameter - 1 = Len(Rec)
    THEN PrintT("TRACE-ACCEPTED")
    ELSE PrintT("TRACE-REJECTED at=" \o ToString(TLCGet("stats").diameter))
=============================================================================
