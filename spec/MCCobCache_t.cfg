CONSTANTS
  MaxObjs = 2
  MaxOps = 4
  MaxSteps = 5
  JsonTree = FALSE
  StatusOnly = FALSE
  RemoveDrops = FALSE
INIT Init
NEXT Next
VIEW view
INVARIANTS QueriesAgree CacheCoherent EmitInv
