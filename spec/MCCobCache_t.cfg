CONSTANTS
  MaxObjs = 2
  MaxOps = 4
  MaxSteps = 5
  NRepos = 2
  EmitEvery = 40
  Unscoped = {}
  JsonTree = FALSE
  StatusOnly = FALSE
  RemoveDrops = FALSE
INIT Init
NEXT Next
VIEW view
INVARIANTS QueriesAgree CacheCoherent EmitInv
