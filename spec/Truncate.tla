------------------------------ MODULE Truncate ------------------------------
(***************************************************************************)
(* Terminal truncation (radicle-term: `impl Cell for str`, `Label`,        *)
(* `Line::truncate`).  Property C26: truncating any text or line to a      *)
(* width, with any delimiter, never panics, terminates, and produces       *)
(* output whose display width does not exceed the requested width.         *)
(*                                                                         *)
(* Text.  A string is a sequence of GRAPHEMES (extended grapheme clusters, *)
(* which is what the code iterates over).  A grapheme is an opaque value;  *)
(* the code only ever looks at three attributes of it, which are           *)
(* parameters of the model:                                                *)
(*     GW(g)   display width in columns (Cell::width of the cluster)       *)
(*     GB(g)   UTF-8 length of the cluster's FIRST scalar value (decides   *)
(*             whether byte offset `boundary + 1` is a char boundary)      *)
(*     GWs(g)  every scalar of the cluster is Unicode White_Space (what    *)
(*             `str::trim` removes)                                        *)
(* unicode-display-width 0.3 gives every cluster width 1 or 2; the model   *)
(* also admits width 0 (what a wcwidth-style function gives zero-width     *)
(* spaces and combining marks).                                            *)
(*                                                                         *)
(* A LINE is a sequence of items (labels), an item is a string.            *)
(*                                                                         *)
(* Two descriptions are given, as for every sequential function here:      *)
(*   AllowedStr / IsAllowedLine -- declarative: which results are          *)
(*        truncations at all (a prefix at a grapheme boundary, optionally  *)
(*        followed by the delimiter; the input itself when it fits; width  *)
(*        never above the requested width);                                *)
(*   StrTruncate / the Pop-TruncLast-Exit state machine -- `str::truncate` *)
(*        and the loop of `Line::truncate`, transcribed.                   *)
(* TLC checks the transcription against the declarative statement for      *)
(* every input of the bounded instance, checks that every loop iteration   *)
(* decreases a variant, and that every behaviour terminates.               *)
(*                                                                         *)
(* Orig = TRUE selects the whitespace branch of `str::truncate` as it was  *)
(* before the repair (`self[..boundary + 1]`): it slices one BYTE past the *)
(* boundary, which panics inside a multi-byte space, exceeds the width     *)
(* when the delimiter is empty, and then `Line::truncate` never ends.      *)
(***************************************************************************)
EXTENDS Integers, Sequences, FiniteSets, TLC

CONSTANTS GW(_), GB(_), GWs(_),   \* grapheme attributes, see above
          Lines,     \* set of input lines
          Widths,    \* set of requested widths
          Delims,    \* set of delimiters (strings)
          Orig       \* BOOLEAN, see above

-----------------------------------------------------------------------------
\* Strings and lines

RECURSIVE W(_)
W(s) == IF s = <<>> THEN 0 ELSE GW(Head(s)) + W(Tail(s))        \* Cell::width for str

RECURSIVE LineW(_)
LineW(l) == IF l = <<>> THEN 0 ELSE W(Head(l)) + LineW(Tail(l)) \* Line::width

Prefix(s, k) == SubSeq(s, 1, k)
Front(l) == SubSeq(l, 1, Len(l) - 1)
AllWs(s) == \A i \in DOMAIN s : GWs(s[i])                        \* s.trim().is_empty()

-----------------------------------------------------------------------------
\* Declarative statement

\* t is a truncation of s: a prefix at a grapheme boundary, optionally followed by the delimiter
IsTruncOf(t, s, d) == \E k \in 0..Len(s) : t = Prefix(s, k) \/ t = Prefix(s, k) \o d

\* results `str::truncate(s, w, d)` may return
AllowedStr(s, w, d) ==
    IF W(s) <= w THEN {s}
    ELSE {r \in {Prefix(s, k) : k \in 0..Len(s)} \cup {Prefix(s, k) \o d : k \in 0..Len(s)} : W(r) <= w}

\* r may be the result of truncating line l to width w: items are only dropped from the end, and
\* only the last remaining item may have been shortened.
IsAllowedLine(r, l, w, d) ==
    /\ LineW(r) <= w
    /\ IF LineW(l) <= w THEN r = l
       ELSE /\ Len(r) <= Len(l)
            /\ \A i \in 1..(Len(r) - 1) : r[i] = l[i]
            /\ Len(r) > 0 => IsTruncOf(r[Len(r)], l[Len(r)], d)

-----------------------------------------------------------------------------
\* `impl Cell for str { fn truncate }`, transcribed.  Result: [panic, out].

Ok(s)  == [panic |-> FALSE, out |-> s]
Panic  == [panic |-> TRUE,  out |-> <<>>]

\* the `for g in self.graphemes(true)` loop: index of the last grapheme kept
RECURSIVE Take(_, _, _, _, _)
Take(s, i, cols, width, d) ==
    IF i > Len(s) THEN i - 1
    ELSE IF cols + GW(s[i]) + d > width THEN i - 1               \* break
    ELSE Take(s, i + 1, cols + GW(s[i]), width, d)

\* "Don't add the delimiter if we just trimmed whitespace."
WsBranch(s, k, cols, width) ==
    IF Orig
    THEN \* self[..boundary + 1]: one byte more, whatever that byte is part of
         IF k = Len(s) THEN Panic                              \* slice end beyond the string
         ELSE IF GB(s[k + 1]) = 1 THEN Ok(Prefix(s, k + 1))
         ELSE Panic                                            \* not a char boundary
    ELSE \* repaired: keep the next (whitespace) grapheme in place of the delimiter if it fits
         IF k < Len(s) /\ cols + GW(s[k + 1]) <= width THEN Ok(Prefix(s, k + 1))
         ELSE Ok(Prefix(s, k))

StrTruncate(s, width, delim) ==
    IF ~(width < W(s)) THEN Ok(s)
    ELSE LET d == W(delim) IN
         IF width < d THEN Ok(<<>>)     \* "If we can't even fit the delimiter, just return an empty string."
         ELSE LET k    == Take(s, 1, 0, width, d)
                  cols == W(Prefix(s, k))
              IN IF AllWs(SubSeq(s, k + 1, Len(s)))
                 THEN WsBranch(s, k, cols, width)
                 ELSE Ok(Prefix(s, k) \o delim)

-----------------------------------------------------------------------------
\* `Line::truncate(&mut self, width, delim)` as a state machine:
\*     while self.width() > width {
\*         let total = self.width();
\*         if total - last.width() > width { self.items.pop(); }
\*         else if let Some(item) = self.items.last_mut() { *item = item.truncate(width - (total - item.width()), delim); }
\*     }

VARIABLES line,      \* the line being truncated (self.items)
          width, delim,
          pc,        \* "loop" | "done" | "panic"
          orig,      \* ghost: the input line
          iters      \* ghost: loop iterations so far
vars == <<line, width, delim, pc, orig, iters>>

Init == /\ line \in Lines /\ width \in Widths /\ delim \in Delims
        /\ pc = "loop" /\ orig = line /\ iters = 0

Looping == pc = "loop" /\ LineW(line) > width
Last == line[Len(line)]

Exit == /\ pc = "loop" /\ ~(LineW(line) > width)
        /\ pc' = "done"
        /\ UNCHANGED <<line, width, delim, orig, iters>>

Pop == /\ Looping /\ LineW(line) - W(Last) > width
       /\ line' = Front(line)
       /\ iters' = iters + 1
       /\ UNCHANGED <<width, delim, pc, orig>>

TruncLast ==
    /\ Looping /\ ~(LineW(line) - W(Last) > width)
    /\ LET r == StrTruncate(Last, width - (LineW(line) - W(Last)), delim) IN
         IF r.panic THEN pc' = "panic" /\ line' = line
         ELSE pc' = pc /\ line' = [line EXCEPT ![Len(line)] = r.out]
    /\ iters' = iters + 1
    /\ UNCHANGED <<width, delim, orig>>

Next == Exit \/ Pop \/ TruncLast
Spec == Init /\ [][Next]_vars /\ WF_vars(Next)

\* The same loop as a function (used to emit expected results and for trace validation); `fuel`
\* bounds the iterations so that the operator is total even when the loop is not.
RECURSIVE Loop(_, _, _, _)
Loop(l, w, d, fuel) ==
    IF ~(LineW(l) > w) THEN [res |-> "ok", out |-> l]
    ELSE IF fuel = 0 THEN [res |-> "hang", out |-> l]
    ELSE LET last == l[Len(l)] IN
         IF LineW(l) - W(last) > w THEN Loop(Front(l), w, d, fuel - 1)
         ELSE LET r == StrTruncate(last, w - (LineW(l) - W(last)), d) IN
              IF r.panic THEN [res |-> "panic", out |-> l]
              ELSE Loop([l EXCEPT ![Len(l)] = r.out], w, d, fuel - 1)
LineTruncate(l, w, d) == Loop(l, w, d, Len(l) + 1)

-----------------------------------------------------------------------------
\* Properties

\* C26 "never panics"
NoPanic == pc # "panic"
\* C26 "display width does not exceed the requested width"
WidthBound == pc = "done" => LineW(line) <= width
\* the result is a truncation of the input (stricter than C26: reported as drift by the harness)
Shape == pc = "done" => IsAllowedLine(line, orig, width, delim)
\* `str::truncate` on its own, for every item of the input at the requested width
StrSound == iters = 0 =>
    \A i \in DOMAIN line : LET r == StrTruncate(line[i], width, delim) IN
        ~r.panic /\ r.out \in AllowedStr(line[i], width, delim)
\* C26 "terminates": a variant that every iteration decreases ...
Variant(l) == LineW(l) + Len(l)
Decreases == [][(pc = "loop" /\ pc' = "loop" /\ iters' # iters) => Variant(line') < Variant(line)]_vars
\* ... hence at most one iteration per item ...
IterBound == iters <= Len(orig)
\* ... and, directly, every behaviour ends
Termination == <>(pc \in {"done", "panic"})
\* the function form agrees with the state machine
FuncAgrees == pc \in {"done", "panic"} =>
    LET f == LineTruncate(orig, width, delim) IN
        IF pc = "done" THEN f = [res |-> "ok", out |-> line] ELSE f.res = "panic"
=============================================================================
