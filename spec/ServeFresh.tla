----------------------------- MODULE ServeFresh -----------------------------
(***************************************************************************)
(* Freshness of the identity document a seed serves by (beyond the static  *)
(* decision of Serve.tla): radicle-node worker/fetch.rs `Handle::fetch`    *)
(* (after a successful fetch: `set_identity_head`, `set_head`) composed    *)
(* with `Worker::is_authorized` (worker.rs), which reads the document at   *)
(* the canonical refs/rad/id of the SEED's copy.                            *)
(*                                                                         *)
(* Three nodes: the owner (sole delegate) edits the repository's identity  *)
(* document -- its visibility -- and sometimes also commits to the default *)
(* branch; the seed pulls from the owner; a requester asks the seed for the *)
(* repository.  The seed decides by the document IT has stored.  C12 says   *)
(* repository data is served only to peers the repository's document        *)
(* allows: once the seed has pulled an update, "the repository's document"  *)
(* is the updated one, whether or not the pull also moved the default       *)
(* branch.                                                                  *)
(*                                                                         *)
(* The seed's own policy is part of the decision as well: a repository it   *)
(* has blocked explicitly is never served (the seed's default policy allows *)
(* everything here, as on a permissive seed).  The policy is looked up in a *)
(* database that another connection may hold locked for longer than the     *)
(* reader waits: the lookup then FAILS, and a failed lookup must refuse.    *)
(*                                                                         *)
(* Deviations: "id-with-head" (seeded change C12c): the canonical identity  *)
(* reference is only advanced by a pull that also moves the default branch; *)
(* "fail-open" (the code as found, fixed): a policy lookup that fails is    *)
(* taken for "no policy", i.e. the permissive default.                      *)
(***************************************************************************)
EXTENDS Integers, Sequences, FiniteSets, TLC

CONSTANTS Vis,      \* the visibilities the owner may set: "public", "seed" (private, only the seed
                    \* allowed), "both" (private, seed and requester allowed)
          MaxOps, Dev

VARIABLES odoc,     \* the owner's current visibility
          ohead,    \* the owner's default branch (a counter)
          sdoc,     \* the visibility in the document at the seed's canonical refs/rad/id
          shead,    \* the seed's default branch
          pulled,   \* ghost: the owner's visibility when the seed last pulled
          blocked,  \* the seed has blocked the repository explicitly
          last,     \* the last request's outcome: "none" | "served" | "refused"
          hist
vars == <<odoc, ohead, sdoc, shead, pulled, blocked, last, hist>>
view == <<odoc, ohead, sdoc, shead, pulled, blocked, last>>

Init == /\ odoc = "public" /\ ohead = 0 /\ sdoc = "public" /\ shead = 0 /\ pulled = "public"
        /\ blocked = FALSE /\ last = "none" /\ hist = <<>>
Log(op) == Len(hist) < MaxOps /\ hist' = Append(hist, op)

\* the requester is neither a delegate nor the seed
Visible(v) == v \in {"public", "both"}

\* the owner publishes a new identity revision
Edit(v) == /\ v \in Vis /\ v # odoc
           /\ odoc' = v /\ last' = "none"
           /\ Log(<<"edit", v>>)
           /\ UNCHANGED <<ohead, sdoc, shead, pulled, blocked>>

\* the owner commits to the default branch
Commit == /\ ohead < 2
          /\ ohead' = ohead + 1 /\ last' = "none"
          /\ Log(<<"commit">>)
          /\ UNCHANGED <<odoc, sdoc, shead, pulled, blocked>>

\* the seed pulls from the owner (it is always allowed to: it is on every allow list)
Pull == /\ shead' = ohead
        /\ pulled' = odoc
        /\ sdoc' = IF "id-with-head" \in Dev /\ shead = ohead THEN sdoc ELSE odoc
        /\ last' = "none"
        /\ Log(<<"pull">>)
        /\ UNCHANGED <<odoc, ohead, blocked>>

\* the seed blocks the repository (`rad block`): the repository stays in its storage
Block == /\ ~blocked
         /\ blocked' = TRUE /\ last' = "none"
         /\ Log(<<"block">>)
         /\ UNCHANGED <<odoc, ohead, sdoc, shead, pulled>>

\* the requester fetches from the seed: served iff the seed's policy and its stored document allow it.
\* locked: another connection holds the write lock of the policy database for longer than the reader
\* waits, so the policy lookup fails -- which must refuse
Request(locked) ==
    /\ LET policyAllows == IF locked THEN "fail-open" \in Dev ELSE ~blocked IN
       last' = IF policyAllows /\ Visible(sdoc) THEN "served" ELSE "refused"
    /\ Log(<<"request", IF locked THEN "locked" ELSE "free">>)
    /\ UNCHANGED <<odoc, ohead, sdoc, shead, pulled, blocked>>

Next == (\E v \in Vis : Edit(v)) \/ Commit \/ Pull \/ Block \/ (\E k \in BOOLEAN : Request(k))
Spec == Init /\ [][Next]_vars

\* the seed decides by the document it last pulled
FreshIdentity == sdoc = pulled
\* C12 for the requester: data is served only if the document the seed last pulled allows it
ServedOnlyIfAllowed == last = "served" => (Visible(pulled) /\ ~blocked)
=============================================================================
