CONSTANTS
  NN = 2
  Root = 2
  NO = 3
  Keys = {1, 2}
  Signers = {1}
  MaxMuts = 2
  SignedMayHoldZero = FALSE
  Variant = "VerifyBlob"
INIT Init
NEXT Next
INVARIANTS BindsExactly AcceptedIsSigned
