----------------------------- MODULE MCSigRefs -----------------------------
EXTENDS SigRefs, Json

\* One case per reachable state: what was signed, what is stored, and what the reader must answer.
L(x) == <<x.k, x.n, x.o, x.f>>
B(b) == [lines |-> [i \in DOMAIN b.lines |-> L(b.lines[i])], eol |-> b.eol]
M(r) == [n \in 1..NN |-> r[n]]
EmitInv ==
    PrintT(<<"CASE", ToJson([signer |-> signed.key, signed |-> M(signed.refs), muts |-> muts,
                             blob |-> B(blob),
                             sig |-> [key |-> sig.key, ok |-> sig.ok, msg |-> B(sig.msg)],
                             claimed |-> claimed,
                             res |-> Loaded.res, refs |-> M(Loaded.refs)])>>)
=============================================================================
