CONSTANTS
  Keys = {1, 2, 3, 4}
  MergeFromAllRoots = TRUE
  Full = FALSE
  MaxOther = 3
  EmitMerges = TRUE
  CheckMerges = TRUE
INIT Init
NEXT Next
INVARIANTS TypeOk SortedSound FoldSound PruneSound RemoveSound MergeSound FoldAllIsTopo EmitInv
