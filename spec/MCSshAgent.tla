---------------------------- MODULE MCSshAgent ----------------------------
(* Bounded instance of SshAgent.tla: the family of agent replies.                              *)
(* Base messages are well-formed identities answers with up to MaxEntries entries whose key    *)
(* blob is of one of the classes below, and sign responses; the family contains, for every     *)
(* base message, EVERY PREFIX of it (truncation at every byte offset, including the empty      *)
(* reply), and single-field distortions: the entry count (0, n-1, n+1, 255, 2^32-1), each       *)
(* declared string length (-1, +1, 2^32-1), the message type byte, trailing garbage, and        *)
(* signature lengths 0, 1, 3, 63, 64, 65, 128.                                                  *)
EXTENDS SshAgent, Json

CONSTANTS MaxEntries,   \* entries per base identities answer
          BlobClasses,  \* subset of 1..7
          PrefixStep    \* take every PrefixStep-th prefix (1 = all)

Rep(n, x) == [i \in 1..n |-> x]
Rsa == <<115, 115, 104, 45, 114, 115, 97>>                        \* "ssh-rsa"

\* key blob classes; k distinguishes keys
Blob(c, k) == CASE c = 1 -> KeyBlob(Rep(32, k))                    \* good
                [] c = 2 -> Str(Rsa) \o Str(Rep(32, k))            \* other algorithm
                [] c = 3 -> Str(Ed25519) \o Str(Rep(31, k))        \* key one byte short
                [] c = 4 -> Str(Ed25519) \o Str(Rep(33, k))        \* key one byte long
                [] c = 5 -> <<>>                                   \* empty blob
                [] c = 6 -> Str(Ed25519) \o U32(32) \o Rep(5, k)   \* inner string overruns the blob
                [] c = 7 -> Str(KeyBlob(Rep(32, k)))               \* wrapped once more (what PublicKey::write emits)
Comment(k) == IF k % 2 = 0 THEN <<>> ELSE <<99, 48 + k>>

RECURSIVE ClassSeqs(_)
ClassSeqs(n) == IF n = 0 THEN {<<>>} ELSE {Append(s, c) : s \in ClassSeqs(n - 1), c \in BlobClasses}
Bases == UNION {ClassSeqs(n) : n \in 0..MaxEntries}
Entries(cs) == [i \in DOMAIN cs |-> [blob |-> Blob(cs[i], i), comment |-> Comment(i)]]
MCWellFormed == {Entries(cs) : cs \in Bases}

\* an answer with distorted fields: declared count, and per entry the declared lengths
\* (d = <<entry index, which (1 blob / 2 comment), declared length>> or <<>>)
Decl(actual, i, which, d) == IF d # <<>> /\ d[1] = i /\ d[2] = which THEN d[3] ELSE actual
AnswerD(es, count, d) ==
    <<IDENTITIES_ANSWER>> \o U32(count)
        \o Concat([i \in DOMAIN es |-> U32(Decl(Len(es[i].blob), i, 1, d)) \o es[i].blob
                                        \o U32(Decl(Len(es[i].comment), i, 2, d)) \o es[i].comment])

FieldLen(es, i, w) == Len(IF w = 1 THEN es[i].blob ELSE es[i].comment)
DeclSet(len) == {len + 1, BIG} \cup (IF len > 0 THEN {len - 1} ELSE {})
Prefixes(b) == {SubSeq(b, 1, n) : n \in {m \in 0..Len(b) : m % PrefixStep = 0 \/ m = Len(b) \/ m < 12}}
Types == {0, 5, 6, 12, 13, 14, 28, 255}
Garbage == <<0, 0, 0>>

IdReplies ==
    UNION {LET es == Entries(cs) n == Len(cs) b == Answer(es) IN
             Prefixes(b)
             \cup {AnswerD(es, c, <<>>) : c \in ({0, n + 1, 255, BIG} \cup (IF n > 0 THEN {n - 1} ELSE {}))}
             \cup UNION {UNION {{AnswerD(es, n, <<i, w, dl>>) : dl \in DeclSet(FieldLen(es, i, w))}
                                  : w \in {1, 2}} : i \in 1..n}
             \cup {<<t>> \o Tail(b) : t \in Types}
             \cup {b \o Garbage}
           : cs \in Bases}

Sig(n) == Rep(n, 7)
\* sign response with distorted declared lengths: outer, type, signature
SignD(type, sig, dOuter, dType, dSig) ==
    <<SIGN_RESPONSE>> \o U32(4 + Len(type) + 4 + Len(sig) + dOuter)
        \o U32(Len(type) + dType) \o type \o U32(Len(sig) + dSig) \o sig
SignReplies ==
    Prefixes(SignResponse(Ed25519, Sig(64)))
    \cup {SignResponse(t, Sig(n)) : t \in {Ed25519, Rsa, <<>>}, n \in {0, 1, 3, 63, 64, 65, 128}}
    \cup {SignD(Ed25519, Sig(64), a, b, c) : a \in {-1, 0, 1, BIG}, b \in {-1, 0, 1, BIG}, c \in {-1, 0, 1, BIG}}
    \cup {<<t>> \o Tail(SignResponse(Ed25519, Sig(64))) : t \in Types}
    \cup {SignResponse(Ed25519, Sig(64)) \o Garbage, SignResponse(Ed25519, Sig(3)) \o Garbage}
QueryReplies == {<<t>> \o Str(x) : t \in {SUCCESS, FAILURE, 28}, x \in {<<>>, <<1, 2, 3>>}}
                \cup {<<SUCCESS, 0, 0, 0, 9, 1>>}

MCReplies == IdReplies \cup SignReplies \cup QueryReplies

\* one case per finished call
Emit == PrintT(<<"CASE", ToJson([op |-> op, resp |-> resp, out |-> out, errk |-> errk, val |-> val])>>)
EmitInv == pc = "end" => Emit
=============================================================================
