---------------------------- MODULE MCFetchSched ----------------------------
EXTENDS FetchSched, Json
EmitInv == (Len(hist) = MaxOps \/ applied # <<>> \/ \E p \in Peer : Len(queue[p]) > 0) =>
              PrintT(<<"CASE", ToJson([ops |-> hist])>>)
=============================================================================
