------------------------------ MODULE Identity ------------------------------
(***************************************************************************)
(* The identity collaborative object (radicle::cob::identity).             *)
(*                                                                         *)
(* A repository's identity is a collaborative object: a DAG of signed      *)
(* changes ("operations"), each a non-empty sequence of actions by one     *)
(* author.  `Identity` is the value obtained by evaluating that DAG in the *)
(* COB evaluation order (radicle_cob::ChangeGraph::evaluate): the root     *)
(* first, then every other change in a depth-first topological order; a    *)
(* change whose application fails is pruned from the graph together with   *)
(* all of its descendants, which are never applied.                        *)
(*                                                                         *)
(* This module is the state machine of that evaluation.  One step = one    *)
(* change taken up by the evaluator:                                       *)
(*    LinStep, ForkX, XStep, ForkY, YStep, Join  -- the change is applied  *)
(*                       (`Identity::op`), in the position of the history  *)
(*                       the step name says;                               *)
(*    Skip            -- the change descends from a pruned change and is   *)
(*                       dropped without being looked at.                  *)
(* Histories are linear chains with (nested-free) fork/join diamonds: a    *)
(* trunk, then two concurrent branches X and Y, of which X is evaluated    *)
(* completely before Y (that is what the depth-first order does), then     *)
(* optionally a change that merges the surviving tips, and so on.  While   *)
(* a branch is evaluated the changes of the other branch that are (still)  *)
(* in the graph are its "concurrent" changes -- `Identity::op` only needs  *)
(* to know whether there are any (`conc`).                                 *)
(*                                                                         *)
(* Facts about the evaluation order this module (and the harness that      *)
(* realises its histories as commits) relies on, all read off              *)
(* ChangeGraph::evaluate / Dag::prune_by and confirmed by the replay:      *)
(*  - the children of the root are visited in descending id order, the     *)
(*    dependents of any other change in ascending (timestamp, id) order;   *)
(*    a branch is evaluated completely before the next one starts;         *)
(*  - the "concurrent" changes of a change are all changes in the graph    *)
(*    that are neither its ancestors nor its descendants -- including      *)
(*    changes that are evaluated later and may then be pruned; changes     *)
(*    pruned earlier are gone;                                             *)
(*  - a change that merges the tips of both branches has no concurrent     *)
(*    changes, unless a branch has a pruned tail (see Join).               *)
(*                                                                         *)
(* The object state `st` = [current, revs, heads] mirrors the fields of    *)
(* `Identity`; `ApplyAction` transcribes `Identity::action` arm by arm,    *)
(* `Adopt` transcribes `Identity::adopt`, `EvalOp` is `Identity::op`.      *)
(*                                                                         *)
(* Whether a signature verifies is an input bit of the action (`sig`):     *)
(* TRUE = the signature is the author's signature over the blob of the     *)
(* document the action is about.  The set of keys that have a *valid*      *)
(* signature recorded in a revision is tracked by the ghost field `vs`     *)
(* so that property C04 can be stated without trusting `verdicts`.         *)
(*                                                                         *)
(* INTENDED SEMANTICS: an operation is applied atomically or not at all.   *)
(* The constant InPlace = TRUE switches to the behaviour of the code as    *)
(* it was before the fix recorded in props/C04.findings.json: actions      *)
(* mutate the object in place, `heads.insert` happens before the           *)
(* signature check, the verdict is overwritten before DuplicateVerdict is  *)
(* returned, and a failing action leaves the earlier actions of the same   *)
(* operation applied although the change is pruned.  TLC shows that        *)
(* C04_Majority fails under InPlace = TRUE (MCIdentity_dev.cfg).           *)
(***************************************************************************)
EXTENDS Integers, FiniteSets, Sequences, TLC

CONSTANTS
    Key,        \* all keys (delegates-to-be and strangers)
    NoKey,      \* a value not in Key
    DocDels,    \* sequence: DocDels[d] = delegate set of document d; distinct d = distinct blobs
    Authors,    \* keys that author operations in this instance (subset of Key)
    NewDocs,    \* documents that revisions may propose (subset of DOMAIN DocDels)
    InPlace,    \* FALSE: atomic operations (intended); TRUE: the original in-place mutation
    MaxOps,     \* bound on the number of changes in a history (excluding the root)
    MaxActs,    \* bound on the number of actions per operation
    MaxForks    \* bound on the number of fork/join diamonds

InitDoc == 1                \* document of the root revision
Root    == 0                \* id of the root revision (ids of other revisions = index of their change)
NoRev   == 99               \* an id that no revision has (action refers to something unknown)
NoParent == 98              \* `parent: None` in a revision action

VARIABLES
    st,         \* the Identity object: [current, revs, heads]
    nops,       \* number of changes evaluated so far (applied, rejected or skipped)
    phase,      \* "lin" | "x" | "y": where in the history shape the evaluator is
    dead,       \* the chain being extended contains a pruned change: successors are skipped
    chainTip,   \* index of the last change appended to the chain being extended
    aliveTip,   \* index of the last surviving change of that chain
    forkPt,     \* change at which the current diamond forked
    xTip,       \* surviving tip of branch X (forkPt when none survived)
    xAlive,     \* number of surviving changes of branch X
    yAlive,     \* number of surviving changes of branch Y
    forks,      \* number of diamonds opened so far
    log         \* history: one record per change in evaluation order (hidden by VIEW)

vars == <<st, nops, phase, dead, chainTip, aliveTip, forkPt, xTip, xAlive, yAlive, forks, log>>
\* The history is hidden from the fingerprint except for the code path each change took (kinds of
\* its actions and what happened to each): one witness history is kept per object state *and*
\* per combination of code paths that led to it.
Tag(e) == <<[i \in DOMAIN e.op.acts |-> e.op.acts[i].t], e.path>>
view == <<st, nops, phase, dead, chainTip, aliveTip, forkPt, xTip, xAlive, yAlive, forks,
          [i \in DOMAIN log |-> Tag(log[i])]>>

DocIds == DOMAIN DocDels
Majority(D) == (Cardinality(D) \div 2) + 1      \* Doc::majority

-----------------------------------------------------------------------------
\* Revisions

\* A redacted revision keeps its id but nothing else (`revisions[id] = None`).
Blank == [parent |-> NoRev, author |-> NoKey, doc |-> 0, state |-> "redacted",
          verdicts |-> <<>>, vs |-> {}, title |-> 0]

NewRev(parent, author, doc, state) ==
    [parent |-> parent, author |-> author, doc |-> doc, state |-> state,
     verdicts |-> (author :> "accept"),     \* Revision::new records the author's signature
     vs |-> {author},                       \* ... which was verified before
     title |-> 0]

Put(f, k, v) == [x \in DOMAIN f \cup {k} |-> IF x = k THEN v ELSE f[x]]

Accepts(r) == {k \in DOMAIN r.verdicts : r.verdicts[k] = "accept"}
Rejects(r) == {k \in DOMAIN r.verdicts : r.verdicts[k] = "reject"}

CurDoc(s)  == s.revs[s.current].doc
CurDels(s) == DocDels[CurDoc(s)]

InitState ==
    [current |-> Root,
     revs    |-> (Root :> [NewRev(NoRev, NoKey, InitDoc, "accepted") EXCEPT !.verdicts = <<>>, !.vs = {}]),
     heads   |-> [k \in DocDels[InitDoc] |-> Root]]      \* Identity::new: every delegate's head is the root

-----------------------------------------------------------------------------
\* Identity::adopt

Adopt(s, id) ==
    IF s.current = id THEN s
    ELSE LET votes == Cardinality({k \in DOMAIN s.heads : s.heads[k] = id}) IN
         IF votes >= Majority(CurDels(s))
         THEN [s EXCEPT !.current = id,
                        !.revs = [r \in DOMAIN s.revs |->
                                    IF r = id THEN [s.revs[r] EXCEPT !.state = "accepted"]
                                    ELSE IF s.revs[r].state = "active" THEN [s.revs[r] EXCEPT !.state = "stale"]
                                    ELSE s.revs[r]]]
         ELSE s

-----------------------------------------------------------------------------
\* Identity::action.  Result: [res, s, err]
\*   res = "ok"    the action was applied, s is the new state
\*         "skip"  the error is one `Identity::op` ignores (Redacted always, UnexpectedState when
\*                 there are concurrent changes); s is unchanged
\*         "fail"  the operation is refused; s is the state the *original* code leaves behind

Res(r, s, e) == [res |-> r, s |-> s, err |-> e]
Unexpected(s, conc) == Res(IF conc THEN "skip" ELSE "fail", s, "UnexpectedState")

\* An action: [t, rev, doc, sig].  rev = target revision (parent for "revision"); doc, sig only
\* meaningful for "revision" (doc, sig) and "accept" (sig).
DoAccept(s, a, k, conc) ==
    LET r == a.rev IN
    IF r \notin DOMAIN s.revs THEN Res("fail", s, "Missing")
    ELSE IF s.revs[r].state = "redacted" THEN Res("skip", s, "Redacted")
    ELSE IF s.revs[r].state # "active" THEN Unexpected(s, conc)
    ELSE LET s1  == [s EXCEPT !.heads = Put(@, k, r)]             \* original code: before the checks
             dup == k \in DOMAIN s.revs[r].verdicts
             s2  == [s1 EXCEPT !.revs[r].verdicts = Put(@, k, "accept"), !.revs[r].vs = @ \cup {k}]
         IN IF ~a.sig THEN Res("fail", s1, "InvalidSignature")
            ELSE IF dup THEN Res("fail", s2, "DuplicateVerdict")
            ELSE Res("ok", Adopt(s2, r), "")

DoReject(s, a, k, conc) ==
    LET r == a.rev IN
    IF r \notin DOMAIN s.revs THEN Res("fail", s, "Missing")
    ELSE IF s.revs[r].state = "redacted" THEN Res("skip", s, "Redacted")
    ELSE IF s.revs[r].state # "active" THEN Unexpected(s, conc)
    ELSE LET dup == k \in DOMAIN s.revs[r].verdicts
             s1  == [s EXCEPT !.revs[r].verdicts = Put(@, k, "reject"), !.revs[r].vs = @ \ {k}]
             D   == DocDels[s.revs[r].doc]      \* NB the code uses the delegates of the *proposed* document here
         IN IF dup THEN Res("fail", s1, "DuplicateVerdict")
            ELSE IF Cardinality(Rejects(s1.revs[r])) > Cardinality(D) - Majority(D)
                 THEN Res("ok", [s1 EXCEPT !.revs[r].state = "rejected"], "")
                 ELSE Res("ok", s1, "")

DoEdit(s, a, k, id, conc) ==
    LET r == a.rev IN
    IF r = s.current THEN Res("fail", s, "NotAuthorized")
    ELSE IF r \notin DOMAIN s.revs THEN Res("fail", s, "Missing")
    ELSE IF s.revs[r].state = "redacted" THEN Res("skip", s, "Redacted")
    ELSE IF s.revs[r].state # "active" THEN Unexpected(s, conc)
    ELSE IF s.revs[r].author # k THEN Res("fail", s, "NotAuthorized")
    ELSE Res("ok", [s EXCEPT !.revs[r].title = id], "")

DoRedact(s, a, k, conc) ==
    LET r == a.rev IN
    IF r = s.current THEN Unexpected(s, conc)
    ELSE IF r \notin DOMAIN s.revs THEN Res("fail", s, "Missing")
    ELSE IF s.revs[r].state = "redacted" THEN Res("ok", s, "")
    ELSE IF s.revs[r].state = "accepted" THEN Unexpected(s, conc)
    ELSE IF s.revs[r].author # k THEN Res("fail", s, "NotAuthorized")
    ELSE Res("ok", [s EXCEPT !.revs[r] = Blank], "")

DoRevision(s, a, k, id) ==
    LET p == a.rev IN
    IF p = NoParent THEN Res("fail", s, "MissingParent")
    ELSE IF p \notin DOMAIN s.revs THEN Res("fail", s, "Missing")
    ELSE IF s.revs[p].state = "redacted" THEN Res("skip", s, "Redacted")
    ELSE IF p = s.current /\ a.doc = s.revs[p].doc THEN Res("fail", s, "DocUnchanged")
    \* signature over the new blob, by a delegate of the *parent* document
    ELSE IF ~(k \in DocDels[s.revs[p].doc] /\ a.sig) THEN Res("fail", s, "InvalidSignature")
    ELSE LET state == IF p = s.current THEN "active" ELSE "stale"
             s1 == [s EXCEPT !.heads = Put(@, k, id),
                             !.revs = Put(@, id, NewRev(p, k, a.doc, state))]
         IN Res("ok", IF state = "active" THEN Adopt(s1, id) ELSE s1, "")

ApplyAction(s, a, k, id, conc) ==
    IF k \notin CurDels(s) THEN Unexpected(s, conc)      \* only delegates of the current document act
    ELSE CASE a.t = "accept"   -> DoAccept(s, a, k, conc)
           [] a.t = "reject"   -> DoReject(s, a, k, conc)
           [] a.t = "edit"     -> DoEdit(s, a, k, id, conc)
           [] a.t = "redact"   -> DoRedact(s, a, k, conc)
           [] a.t = "revision" -> DoRevision(s, a, k, id)

\* Identity::op: all actions or none.  Result [ok, s, err, path]; path = what happened to each action
\* ("ok", "skip:<error>", "fail:<error>") up to and including the one that failed.
RECURSIVE Fold(_, _, _, _, _, _, _)
Fold(s0, s, acts, k, id, conc, path) ==
    IF acts = <<>> THEN [ok |-> TRUE, s |-> s, err |-> "", path |-> path]
    ELSE LET r == ApplyAction(s, Head(acts), k, id, conc) IN
         IF r.res = "fail"
         THEN [ok |-> FALSE, s |-> IF InPlace THEN r.s ELSE s0, err |-> r.err,
               path |-> Append(path, "fail:" \o r.err)]
         ELSE Fold(s0, r.s, Tail(acts), k, id, conc,
                   Append(path, IF r.res = "ok" THEN "ok" ELSE "skip:" \o r.err))

EvalOp(s, op, id, conc) == Fold(s, s, op.acts, op.author, id, conc, <<>>)

-----------------------------------------------------------------------------
\* The operations the environment may submit in state s

Targets(s) == DOMAIN s.revs \cup {NoRev}

ActionsIn(s) ==
       {[t |-> "revision", rev |-> p, doc |-> d, sig |-> b] :
            p \in Targets(s) \cup {NoParent}, d \in NewDocs, b \in BOOLEAN}
  \cup {[t |-> "accept", rev |-> r, doc |-> 0, sig |-> b] : r \in Targets(s), b \in BOOLEAN}
  \cup {[t |-> x, rev |-> r, doc |-> 0, sig |-> TRUE] : x \in {"reject", "edit", "redact"}, r \in Targets(s)}

\* a change holds at most one identifier-producing action (Transaction::push enforces it; two would
\* share the change's id)
OneRevision(acts) == Cardinality({i \in DOMAIN acts : acts[i].t = "revision"}) <= 1

OpsIn(s) ==
    {[author |-> k, acts |-> as] :
        k \in Authors,
        as \in {x \in UNION {[1..n -> ActionsIn(s)] : n \in 1..MaxActs} : OneRevision(x)}}

-----------------------------------------------------------------------------
\* The evaluator

Init ==
    /\ st = InitState
    /\ nops = 0 /\ phase = "lin" /\ dead = FALSE
    /\ chainTip = Root /\ aliveTip = Root /\ forkPt = Root /\ xTip = Root
    /\ xAlive = 0 /\ yAlive = 0 /\ forks = 0
    /\ log = <<>>

Entry(op, step, par, out, err, path) ==
    [op |-> op, step |-> step, par |-> par, out |-> out, err |-> err, path |-> path]

\* record the evaluation result r of `op` as change number nops+1 with parents `par`
Eval(op, step, par, r) ==
    /\ st' = r.s
    /\ nops' = nops + 1
    /\ chainTip' = nops + 1
    /\ dead' = ~r.ok
    /\ log' = Append(log, Entry(op, step, par, IF r.ok THEN "applied" ELSE "rejected", r.err, r.path))

LinStep(op) ==
    /\ phase = "lin" /\ ~dead /\ nops < MaxOps
    /\ \E r \in {EvalOp(st, op, nops + 1, FALSE)} :
         /\ Eval(op, "lin", {chainTip}, r)
         /\ aliveTip' = IF r.ok THEN nops + 1 ELSE aliveTip
    /\ UNCHANGED <<phase, forkPt, xTip, xAlive, yAlive, forks>>

\* first change of branch X: the history forks at the current tip.  Branch Y is not empty
\* (ForkY must follow), hence X's changes are evaluated with concurrent changes present.
ForkX(op) ==
    /\ phase = "lin" /\ ~dead /\ forks < MaxForks /\ nops + 1 < MaxOps
    /\ \E r \in {EvalOp(st, op, nops + 1, TRUE)} :
         /\ Eval(op, "forkx", {chainTip}, r)
         /\ aliveTip' = IF r.ok THEN nops + 1 ELSE aliveTip
         /\ xAlive' = IF r.ok THEN 1 ELSE 0
    /\ phase' = "x" /\ forkPt' = chainTip /\ forks' = forks + 1 /\ yAlive' = 0
    /\ UNCHANGED xTip

XStep(op) ==
    /\ phase = "x" /\ ~dead /\ nops + 1 < MaxOps
    /\ \E r \in {EvalOp(st, op, nops + 1, TRUE)} :
         /\ Eval(op, "x", {chainTip}, r)
         /\ aliveTip' = IF r.ok THEN nops + 1 ELSE aliveTip
         /\ xAlive' = IF r.ok THEN xAlive + 1 ELSE xAlive
    /\ UNCHANGED <<phase, forkPt, xTip, yAlive, forks>>

\* first change of branch Y: concurrent changes = what survived of X
ForkY(op) ==
    /\ phase = "x" /\ nops < MaxOps
    /\ \E r \in {EvalOp(st, op, nops + 1, xAlive > 0)} :
         /\ Eval(op, "forky", {forkPt}, r)
         /\ aliveTip' = IF r.ok THEN nops + 1 ELSE forkPt
         /\ yAlive' = IF r.ok THEN 1 ELSE 0
    /\ phase' = "y" /\ xTip' = aliveTip
    /\ UNCHANGED <<forkPt, xAlive, forks>>

YStep(op) ==
    /\ phase = "y" /\ ~dead /\ nops < MaxOps
    /\ \E r \in {EvalOp(st, op, nops + 1, xAlive > 0)} :
         /\ Eval(op, "y", {chainTip}, r)
         /\ aliveTip' = IF r.ok THEN nops + 1 ELSE aliveTip
         /\ yAlive' = IF r.ok THEN yAlive + 1 ELSE yAlive
    /\ UNCHANGED <<phase, forkPt, xTip, xAlive, forks>>

\* a change that has the surviving tips of both branches as parents: no concurrent changes.
\* Only when the tip of Y survived: (1) a change on top of X alone would be evaluated *before* Y;
\* (2) a pruned tail of Y would not be an ancestor of the merging change, i.e. the merging change
\* would be concurrent with it, and `siblings_of` also counts changes that are evaluated later --
\* the tail would then be evaluated *with* concurrent changes, which is another history shape.
Join(op) ==
    /\ phase = "y" /\ ~dead /\ nops < MaxOps
    /\ \E r \in {EvalOp(st, op, nops + 1, FALSE)} :
         /\ Eval(op, "join", {aliveTip} \cup (IF xAlive > 0 THEN {xTip} ELSE {}), r)
         /\ aliveTip' = IF r.ok THEN nops + 1 ELSE aliveTip
    /\ phase' = "lin"
    /\ UNCHANGED <<forkPt, xTip, xAlive, yAlive, forks>>

\* a change whose parent was pruned is removed without being evaluated (its content is irrelevant;
\* one representative content is enough)
SkipOp == [author |-> CHOOSE k \in Authors : TRUE,
           acts |-> <<[t |-> "reject", rev |-> Root, doc |-> 0, sig |-> TRUE]>>]
Skip(op) ==
    /\ dead /\ nops < MaxOps /\ (phase = "x" => nops + 1 < MaxOps)
    /\ nops' = nops + 1 /\ chainTip' = nops + 1
    /\ log' = Append(log, Entry(op, "skip", {chainTip}, "skipped", "", <<>>))
    /\ UNCHANGED <<st, phase, dead, aliveTip, forkPt, xTip, xAlive, yAlive, forks>>

Next ==
    /\ nops < MaxOps
    /\ \/ Skip(SkipOp)
       \/ /\ (~dead \/ phase = "x")
          /\ \E op \in OpsIn(st) :
                LinStep(op) \/ ForkX(op) \/ XStep(op) \/ ForkY(op) \/ YStep(op) \/ Join(op)

Spec == Init /\ [][Next]_vars

\* a history is complete (can be presented to the real evaluator) unless branch Y is still owed
Complete == phase # "x"

-----------------------------------------------------------------------------
\* Properties

TypeOK ==
    /\ st.current \in DOMAIN st.revs
    /\ DOMAIN st.heads \subseteq Key
    /\ \A r \in DOMAIN st.revs : st.revs[r].state \in {"active", "accepted", "rejected", "stale", "redacted"}

\* the last evaluated change, if it was evaluated at all
LastEntry == log'[Len(log')]
Evaluated == nops' = nops + 1 /\ LastEntry.out # "skipped"

\* C04, first clause: the current revision only changes to a child of itself for which a strict
\* majority of the delegates of the replaced document have a valid signature recorded
MajorityStep ==
    st'.current # st.current =>
         /\ st'.revs[st'.current].parent = st.current
         /\ 2 * Cardinality(CurDels(st) \cap st'.revs[st'.current].vs) > Cardinality(CurDels(st))
C04_Majority == [][MajorityStep]_vars

\* C04, second clause: changes authored by a key that is not a delegate of the current document
\* (current at the time the change is evaluated) leave the identity as it was
StrangerStep == (Evaluated /\ LastEntry.op.author \notin CurDels(st)) => st' = st
C04_Strangers == [][StrangerStep]_vars

\* C04, third clause: a revision that has been accepted stays as it is -- it is not redacted,
\* not edited, keeps its document; and the current revision is replaced by a child only
AcceptedStableStep ==
    \A r \in DOMAIN st.revs : st.revs[r].state = "accepted" =>
          /\ r \in DOMAIN st'.revs
          /\ st'.revs[r].state = "accepted"
          /\ st'.revs[r].title = st.revs[r].title
          /\ st'.revs[r].doc = st.revs[r].doc
          /\ st'.revs[r].parent = st.revs[r].parent
C04_AcceptedStable == [][AcceptedStableStep]_vars

\* C06 for this object: a refused change leaves no trace
NoTraceStep == (Evaluated /\ LastEntry.out = "rejected") => st' = st
RejectedLeavesNoTrace == [][NoTraceStep]_vars

\* structural invariants of the object (they make the `assert_eq!(revision.parent, current)` in
\* `Identity::action` unreachable)
ActiveIsChildOfCurrent ==
    \A r \in DOMAIN st.revs : st.revs[r].state = "active" => st.revs[r].parent = st.current
AcceptedChain ==
    \A r \in DOMAIN st.revs : st.revs[r].state = "accepted" /\ r # Root =>
        st.revs[r].parent \in DOMAIN st.revs /\ st.revs[st.revs[r].parent].state = "accepted"
CurrentAccepted == st.revs[st.current].state = "accepted"
\* every vote counted by `adopt` is backed by a recorded valid signature
HeadsBacked ==
    \A k \in DOMAIN st.heads :
        LET r == st.heads[k] IN
        (r \in DOMAIN st.revs /\ st.revs[r].state = "active") => k \in st.revs[r].vs
\* recorded accept verdicts are exactly the valid signatures
VerdictsValid ==
    \A r \in DOMAIN st.revs : Accepts(st.revs[r]) = st.revs[r].vs
=============================================================================
