CONSTANTS
  Rid = {"R1", "R2"}
  Node = {"D", "A", "O"}
  Variant = "fail-open-doc"
  MaxSent = 2
  Dynamic = FALSE
  Scale = "q"
INIT MCInit
NEXT MCNext
INVARIANTS C12_ServeOnlyIfAllowed
