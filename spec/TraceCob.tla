------------------------------ MODULE TraceCob ------------------------------
(***************************************************************************)
(* Validates evaluations recorded from the real `cob::get` / `cob::list`   *)
(* (harness engines c05_cobstate / c06_cobreject, mode record) against      *)
(* Cob.tla.  One record per evaluation:                                    *)
(*   m, deps, ts, cls, tgt   the change graph in the model's conventions   *)
(*                           (changes relabelled by object-id rank);       *)
(*   gid                     records with the same gid use the same commits*)
(*   refs                    the changes the references pointed at;         *)
(*   view                    [log, comments, lww, labels, hist, tips]      *)
(*                           observed (log = the thread timeline);          *)
(*   clean (optional)        the view observed after pointing the           *)
(*                           references at the tips of `view.hist` (the     *)
(*                           history with the dropped changes removed).     *)
(* Random graphs larger than the bounded model's, partial closures.         *)
(***************************************************************************)
EXTENDS Cob, Json, IOUtils, SequencesExt

Rec == ndJsonDeserialize(IOEnv.TRACE)

VARIABLE l
tvars == <<vars, l>>

GraphOf(r) ==
    [nodes |-> 0..r.m,
     deps  |-> [c \in 1..r.m |-> ToSet(r.deps[c])],
     ts    |-> [c \in 1..r.m |-> r.ts[c]],
     cls   |-> [c \in 1..r.m |-> r.cls[c]],
     tgt   |-> [c \in 1..r.m |-> r.tgt[c]]]

RecView(v) == [log |-> v.log, comments |-> v.comments, lww |-> v.lww, labels |-> v.labels,
               hist |-> ToSet(v.hist), tips |-> ToSet(v.tips)]
LoadedOf(r) == Restrict(GraphOf(r), Closure(GraphOf(r), ToSet(r.refs)))

Empty == [nodes |-> {}, deps |-> <<>>, ts |-> <<>>, cls |-> <<>>, tgt |-> <<>>]

TInit ==
    /\ l = 1
    /\ store = Empty /\ refs = [n \in Namespace |-> None]
    /\ pc = "idle" /\ stack = <<>> /\ seen = {} /\ edges = {}
    /\ graph = Empty /\ queue = <<>> /\ obj = InitObj /\ result = NoView

\* One step per record: the replica holds the record's loaded change set and answers its view.
TNext ==
    /\ l <= Len(Rec)
    /\ l' = l + 1
    /\ store' = LoadedOf(Rec[l])
    /\ result' = RecView(Rec[l].view)
    /\ UNCHANGED <<refs, pc, stack, seen, edges, graph, queue, obj>>

TSpec == TInit /\ [][TNext]_tvars

Cur == Rec[l - 1]

\* Gating: the recorded view is one the properties allow ...
\* (when the root is not among the loaded changes there is no object: the engine logs lww = -2
\* for "not found" and -3 for the `MissingRoot` error, with an empty view)
NoObject(v) == v.lww \in {-2, -3} /\ v.hist = {} /\ v.log = <<>>
AnswerAllowed == l > 1 => IF Root \in store.nodes THEN Allowed(store, result) ELSE NoObject(result)

\* ... is the same as every earlier recorded view of the same commits with the same closure
\* (C05: other namespaces, other enumeration, `list` instead of `get`) ...
SameClosureSameView ==
    l > 1 => \A j \in 1..(l - 2) :
        (j >= l - 8 /\ Rec[j].gid = Cur.gid /\ LoadedOf(Rec[j]).nodes = store.nodes)
            => RecView(Rec[j].view) = result

\* ... and is identical to the view of the cleaned history (C06).
CleanedHistorySameView ==
    (l > 1 /\ "clean" \in DOMAIN Cur) => RecView(Cur.clean) = result

\* Informational (separate configuration): the implementation follows the transcribed algorithm.
AnswerIsAlg == l > 1 => IF Root \in store.nodes THEN result = Observable(View(store)) ELSE NoObject(result)

Accepted ==
    IF TLCGet("stats").diameter - 1 = Len(Rec)
    THEN PrintT("TRACE-ACCEPTED")
    ELSE PrintT("TRACE-REJECTED at=" \o ToString(TLCGet("stats").diameter))
=============================================================================
