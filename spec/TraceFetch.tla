----------------------------- MODULE TraceFetch -----------------------------
(* Validates runs recorded from the real radicle_fetch::clone / pull (seeded random scenarios   *)
(* outside the bounded families of MCFetch: more namespaces, arbitrary delegate sets, every     *)
(* namespace tampered with independently) against Fetch.tla.                                    *)
(*                                                                                              *)
(* One ndjson record per run: the scenario, and under `out` the result variant, the projected   *)
(* storage after the fetch and the ordered `Applied::updated` list. For each record TLC runs    *)
(* the actions of Fetch.tla from the recorded scenario (every invariant of the module is        *)
(* evaluated in every state on the way); when the model is done the recorded outcome must be    *)
(* the model's, otherwise there is no successor and the trace is rejected at that record.       *)
EXTENDS Fetch, Json, IOUtils, SequencesExt

Rec == ndJsonDeserialize(IOEnv.TRACE)

VARIABLE l      \* record being validated
tvars == <<vars, l>>

ScOf(r) == [mode |-> r.mode, delegates |-> ToSet(r.delegates), threshold |-> r.threshold,
            local |-> r.local, blocked |-> ToSet(r.blocked), followAll |-> r.followAll,
            followed |-> ToSet(r.followed), useRefsAt |-> r.useRefsAt, refsAt |-> ToSet(r.refsAt)]
SrvOf(r) == [ns \in NS |-> [sig |-> [ver |-> r.srv[ns].sig.ver, fl |-> r.srv[ns].sig.fl],
                            rid |-> r.srv[ns].rid, junk |-> r.srv[ns].junk]]
LocOfRec(r) == [ns \in NS |-> LocOf([ver |-> r.loc[ns].ver, fl |-> r.loc[ns].fl])]

SameRefs(a, b) == DOMAIN a = DOMAIN b /\ \A n \in DOMAIN a : a[n] = b[n]
SameEvent(e, f) == /\ e.k = f.k /\ e.ns = f.ns /\ e.name = f.name /\ e.to = f.to
                   /\ e.sig.ver = f.sig.ver /\ e.sig.fl = f.sig.fl
Matches(r) ==
    /\ result = r.out.result
    /\ \A ns \in NS : /\ loc[ns].sig.ver = r.out.loc[ns].sig.ver
                      /\ loc[ns].sig.fl = r.out.loc[ns].sig.fl
                      /\ SameRefs(loc[ns].refs, r.out.loc[ns].refs)
    /\ (result = "Success" =>
           /\ Len(events) = Len(r.out.events)
           /\ \A i \in 1..Len(events) : SameEvent(events[i], r.out.events[i]))

TInit == /\ l = 1
         /\ TLCSet(42, 0)
         /\ sc = ScOf(Rec[1]) /\ srv = SrvOf(Rec[1]) /\ loc0 = LocOfRec(Rec[1])
         /\ Start

Reload(r) ==
    /\ sc' = ScOf(r) /\ srv' = SrvOf(r) /\ loc0' = LocOfRec(r)
    /\ loc' = LocOfRec(r)
    /\ pc' = "canonical"
    /\ mem' = [ns \in NS |-> EmptyNs]
    /\ tips' = [ns \in NS |-> <<>>]
    /\ stSig' = [ns \in NS |-> NoSig]
    /\ fetched' = {}
    /\ signed' = [ns \in NS |-> NoSig]
    /\ vq' = <<>>
    /\ validDel' = {} /\ failedDel' = {} /\ okRemotes' = {}
    /\ queue' = <<>>
    /\ result' = "none" /\ err' = ""
    /\ events' = <<>>

TNext ==
    \/ /\ pc # "done" /\ l <= Len(Rec)
       /\ Next
       /\ UNCHANGED l
    \/ /\ pc = "done" /\ l <= Len(Rec)
       /\ Matches(Rec[l])
       /\ TLCSet(42, l)
       /\ l' = l + 1
       /\ IF l < Len(Rec) THEN Reload(Rec[l + 1]) ELSE UNCHANGED vars

TSpec == TInit /\ [][TNext]_tvars

\* the recorded scenarios are legal initial states of the module
RecordedScenarioLegal == (pc = "canonical" /\ l <= Len(Rec)) => ScenarioOK

Accepted ==
    IF TLCGet(42) = Len(Rec)
    THEN PrintT("TRACE-ACCEPTED")
    ELSE PrintT("TRACE-REJECTED at=" \o ToString(TLCGet(42) + 1))
=============================================================================
