------------------------------ MODULE TraceDag ------------------------------
(* Validates operation sequences recorded from the real `radicle_dag::Dag` (random graphs larger  *)
(* than the bounded model) against Dag.tla: every mutator call must be one of the module's        *)
(* actions and leave the real structure (nodes, both adjacency directions, tips, roots) equal to  *)
(* the model's state; every query result must satisfy the statement on the current state.         *)
EXTENDS Dag, Json, IOUtils

Rec == ndJsonDeserialize(IOEnv.TRACE)

VARIABLES l
tvars == <<nodes, deps, l>>

PairSet(s) == {<<s[i][1], s[i][2]>> : i \in DOMAIN s}
Set(s) == {s[i] : i \in DOMAIN s}

\* the projected real structure equals the (primed) model state
Matches(st, N, D) ==
    /\ Set(st.n) = N
    /\ PairSet(st.d) = D                    \* as recorded in `dependencies`
    /\ PairSet(st.r) = D                    \* as recorded in `dependents`
    /\ Set(st.tips) = TipsOf(N, D)
    /\ Set(st.roots) = RootsOf(N, D)
    /\ st.len = Cardinality(N)

Step(r) ==
    CASE r.op = "reset"  -> nodes' = {} /\ deps' = {}
      [] r.op = "node"   -> AddNode(r.k) /\ Matches(r.st, nodes', deps')
      [] r.op = "dep"    -> AddDependency(r.a, r.b) /\ Matches(r.st, nodes', deps')
      [] r.op = "remove" -> RemoveNode(r.k) /\ Matches(r.st, nodes', deps') /\ (r.ret <=> r.k \in nodes)
      [] r.op = "prune"  -> /\ Prune(Set(r.roots), Set(r.stop))
                            /\ Matches(r.st, nodes', deps')
                            /\ FoldOk(r.log, nodes, deps, Set(r.roots), Set(r.stop))
      [] r.op = "merge"  -> Merge(Set(r.n), PairSet(r.d)) /\ Matches(r.st, nodes', deps')
      [] r.op = "sorted" -> IsTopo(r.res, nodes, deps) /\ UNCHANGED <<nodes, deps>>
      [] r.op = "fold"   -> FoldOk(r.log, nodes, deps, Set(r.roots), Set(r.stop)) /\ UNCHANGED <<nodes, deps>>

TInit == l = 1 /\ nodes = {} /\ deps = {}
TNext == l <= Len(Rec) /\ Step(Rec[l]) /\ l' = l + 1
TSpec == TInit /\ [][TNext]_tvars

Accepted ==
    IF TLCGet("stats").diameter - 1 = Len(Rec)
    THEN PrintT("TRACE-ACCEPTED")
    ELSE PrintT("TRACE-REJECTED at=" \o ToString(TLCGet("stats").diameter))
=============================================================================
