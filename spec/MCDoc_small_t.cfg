CONSTANTS
  Family = "small"
  MaxDelegates = 3
  CurrentVersion = 1
  MaxEdits = 1
  EditDids = {1, 5}
  EditThresholds = {0, 1, 3, 4}
  Payloads = {"project"}
  ListIds = {}
  ListThresholds = {}
  JsonDocs <- MCJsonDocs
INIT Init
NEXT Next
INVARIANTS AcceptedIsValid FoldIsDedupThenLimit AcceptIffRules RefusedJson RoundTrip RidIsInitialDoc FuncAgrees 
