CONSTANTS
  Keys = {1, 2, 3, 4, 5}
  MergeFromAllRoots = TRUE
  Full = FALSE
  MaxOther = 2
  EmitMerges = FALSE
  CheckMerges = TRUE
INIT Init
NEXT Next
INVARIANTS TypeOk SortedSound FoldSound PruneSound RemoveSound MergeSound FoldAllIsTopo
