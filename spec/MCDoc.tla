------------------------------- MODULE MCDoc -------------------------------
(* Bounded instances of Doc.tla, selected by Family:                                             *)
(*  "small"  MaxDelegates scaled down to 3: EVERY delegate list of <= 5 entries over 4 DIDs       *)
(*           (duplicates included) x every threshold 0..6, one edit; design level only (the real  *)
(*           limit is 255) -- this is where the fold of Delegates::new meets its limit            *)
(*           exhaustively;                                                                        *)
(*  "fields" the real limit; a few short delegate lists x thresholds {absent, malformed, 0, 1, 2, *)
(*           3, 255, 256, 300} x versions {absent, malformed, 0, 1, 2} x payload classes x        *)
(*           visibility classes x unknown field;                                                  *)
(*  "lists"  the real limit; delegate lists at the limit (254, 255, 256, 300 distinct; 255 plus    *)
(*           duplicates; 300 copies of one DID; every DID twice ...) x thresholds around 1, n,    *)
(*           255, 256, one edit (delegate / rescind / threshold) at the limit.                    *)
EXTENDS Doc, Json

CONSTANTS Family, Payloads,
          ListIds, ListThresholds   \* "lists" family: which of the 14 long lists, which thresholds

Seq1(n) == [i \in 1..n |-> i]                       \* 1, 2, ..., n
Twice(n) == [i \in 1..(2 * n) |-> (i + 1) \div 2]   \* 1, 1, 2, 2, ..., n, n
Same(n, d) == [i \in 1..n |-> d]

RECURSIVE SeqsN(_, _)
SeqsN(S, n) == IF n = 0 THEN {<<>>} ELSE {Append(s, d) : s \in SeqsN(S, n - 1), d \in S}

J(ver, kind, dels, thr, payload, vis, unknown) ==
    [ver |-> ver, delsKind |-> kind, dels |-> dels, thr |-> thr, payload |-> payload, vis |-> vis, unknown |-> unknown]

Small == {J(Absent, "list", s, t, "project", "absent", FALSE) :
              s \in UNION {SeqsN(1..4, n) : n \in 0..5}, t \in 0..6}

ShortLists == {<<>>, <<1>>, <<1, 1>>, <<1, 2>>, <<2, 1, 2>>}
Fields == {J(v, "list", s, t, p, vis, u) :
               v \in {Absent, Malformed, 0, 1, 2}, s \in ShortLists, t \in {Absent, Malformed, 0, 1, 2, 3, 255, 256, 300},
               p \in Payloads, vis \in {"absent", "public", "private", "allow", "bad"}, u \in BOOLEAN}
          \cup {J(Absent, k, <<>>, 1, "project", "absent", FALSE) : k \in {"absent", "bad"}}

LongList(i) == CASE i = 1 -> Seq1(254) [] i = 2 -> Seq1(255) [] i = 3 -> Seq1(256) [] i = 4 -> Seq1(300)
                 [] i = 5 -> Seq1(255) \o <<1>> [] i = 6 -> Seq1(255) \o Seq1(255) [] i = 7 -> Seq1(255) \o <<256>>
                 [] i = 8 -> <<256>> \o Seq1(255) [] i = 9 -> Seq1(254) \o <<1, 255>> [] i = 10 -> Seq1(254) \o <<1, 255, 256>>
                 [] i = 11 -> Twice(255) [] i = 12 -> Twice(256) [] i = 13 -> Same(300, 7) [] i = 14 -> Same(300, 7) \o Seq1(255)
Lists == {J(Absent, "list", LongList(i), t, "project", "absent", FALSE) : i \in ListIds, t \in ListThresholds}

MCJsonDocs == CASE Family = "small" -> Small [] Family = "fields" -> Fields [] Family = "lists" -> Lists

\* deliberately wrong reading of the rules ("the list in the JSON has at most MaxDelegates entries"):
\* TLC must refute it (sanity config)
LimitOnRawLength == stage = "doc" => Len(json.dels) <= MaxDelegates

\* one case per verdict: the JSON document, the edits, and what is expected
Emit == PrintT(<<"CASE", ToJson([json |-> json, edits |-> edits, accepted |-> stage = "doc", errk |-> errk,
                                 doc |-> doc, rid |-> rid # NoRid])>>)
EmitInv == (stage \in {"doc", "rejected"} /\ (Len(edits) = MaxEdits \/ stage = "rejected" \/ rid # NoRid \/ MaxEdits = 0)) => Emit
=============================================================================
