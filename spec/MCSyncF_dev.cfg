CONSTANTS
  Node = {0, 1, 2}
  Local = 0
  FetcherOriginal = TRUE
  AnnouncerOriginal = FALSE
  AnCfgDomain = {}
  Mode = "fetcher"
  MaxR = 2
  MaxExtra = 1
  MaxReady = 1
  MaxResults = 3
  DegenerateRanges = FALSE
  EmitCases = FALSE
INIT Init
NEXT Next
VIEW View
INVARIANTS FeSuccessIffTarget FeCountsSound
