------------------------------ MODULE TraceDoc ------------------------------
(* Validates verdicts recorded from the real identity-document code (random JSON documents and   *)
(* up to three edits through Doc::with_edits, beyond the bounded families) against Doc.tla.      *)
(* One record per run: {json, edits, accepted, errk, doc}; the record is loaded as the final     *)
(* state of the life cycle and the module's invariants are evaluated on it: AcceptedIsValid is   *)
(* C19 on the real accessor values, FuncAgrees compares with what the transcribed rules give.    *)
EXTENDS Doc, Json, IOUtils, SequencesExt

None == {}
Rec == ndJsonDeserialize(IOEnv.TRACE)

VARIABLE l
tvars == <<vars, l>>

TInit == /\ l = 1 /\ stage = "json" /\ raw = NoRaw /\ doc = NoDoc /\ errk = "" /\ edits = <<>> /\ rid = NoRid
         /\ json = [ver |-> Absent, delsKind |-> "list", dels |-> <<>>, thr |-> 0, payload |-> "project", vis |-> "absent", unknown |-> FALSE]
TNext == /\ l <= Len(Rec)
         /\ l' = l + 1
         /\ json' = Rec[l].json /\ edits' = Rec[l].edits
         /\ stage' = IF Rec[l].accepted THEN "doc" ELSE "rejected"
         /\ errk' = Rec[l].errk /\ doc' = Rec[l].doc
         /\ raw' = NoRaw /\ rid' = NoRid

\* a panic inside the document code is recorded as errk = "panic"
NoPanic == errk # "panic"

Accepted ==
    IF TLCGet("stats").diameter - 1 = Len(Rec)
    THEN PrintT("TRACE-ACCEPTED")
    ELSE PrintT("TRACE-REJECTED at=" \o ToString(TLCGet("stats").diameter))
=============================================================================
