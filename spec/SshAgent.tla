------------------------------ MODULE SshAgent ------------------------------
(***************************************************************************)
(* SSH agent client (radicle-ssh `agent::client::AgentClient`, the SSH     *)
(* wire reader `encoding::Cursor`, and the key blob reader                 *)
(* `impl Encodable for PublicKey` of radicle-crypto).                      *)
(*                                                                         *)
(* Property C27 (first half): parsing ANY response from an agent --        *)
(* identity lists and signatures of any shape or length -- yields a value  *)
(* or an error and never panics.                                           *)
(*                                                                         *)
(* The agent is the adversary: a reply is an arbitrary byte string (the    *)
(* transport has already stripped the outer length prefix).  The module    *)
(* works on the real bytes: a reply is a sequence of numbers 0..255, the   *)
(* reader is `Cursor` transcribed with its exact bounds checks, and a case *)
(* emitted by TLC is fed to the real client verbatim through a mock        *)
(* `ClientStream`.                                                         *)
(*                                                                         *)
(* Each client call is a little state machine over (reply, position):      *)
(*   identities:  Start -> ReadCount -> ReadEntry* -> Finish               *)
(*   sign:        Start -> ReadSig                                         *)
(*   query:       Start          (query_extension)                         *)
(*   other:       Start          (add/remove/lock/unlock ...: the reply is *)
(*                                not looked at)                           *)
(* ending in out = "ok" (with a value), "err" (with the error class) or    *)
(* "panic".                                                                *)
(*                                                                         *)
(* Orig = TRUE selects the two places as they were before the repairs:     *)
(* `resp[0]` on an empty identities reply and `copy_from_slice` of a       *)
(* signature whose length is not 64.                                       *)
(*                                                                         *)
(* Numbers: a u32 whose first byte is non-zero is represented by BIG       *)
(* (2^24): every reply here is far shorter than that, so the bounds checks *)
(* and the entry loop behave exactly as for the real value, and TLC's      *)
(* 32-bit integers are not exceeded.                                       *)
(***************************************************************************)
EXTENDS Integers, Sequences, FiniteSets, TLC

CONSTANTS Replies,    \* set of replies (byte strings) the agent may send
          Ops,        \* calls made by the client: subset of {"identities", "sign", "query", "other"}
          WellFormed, \* set of well-formed identity lists: sequences of [blob |-> bytes, comment |-> bytes]
          Orig        \* BOOLEAN, see above

FAILURE == 5
SUCCESS == 6
IDENTITIES_ANSWER == 12
SIGN_RESPONSE == 14
Ed25519 == <<115, 115, 104, 45, 101, 100, 50, 53, 53, 49, 57>>       \* "ssh-ed25519"
BIG == 16777216

-----------------------------------------------------------------------------
\* SSH wire format: writer side (grammar of well-formed messages)

U32(n) == IF n >= BIG THEN <<255, 255, 255, 255>>
          ELSE <<0, (n \div 65536) % 256, (n \div 256) % 256, n % 256>>
Str(c) == U32(Len(c)) \o c                                   \* string: u32 length, then the bytes
RECURSIVE Concat(_)
Concat(ss) == IF ss = <<>> THEN <<>> ELSE Head(ss) \o Concat(Tail(ss))

\* a public key blob as it appears in an identities answer / as the inside of `PublicKey::write`
KeyBlob(key) == Str(Ed25519) \o Str(key)
\* SSH_AGENT_IDENTITIES_ANSWER: byte 12, u32 nkeys, (string key blob, string comment)*
Answer(entries) ==
    <<IDENTITIES_ANSWER>> \o U32(Len(entries))
        \o Concat([i \in DOMAIN entries |-> Str(entries[i].blob) \o Str(entries[i].comment)])
\* SSH_AGENT_SIGN_RESPONSE: byte 14, string( string type, string signature )
SignResponse(type, sig) == <<SIGN_RESPONSE>> \o Str(Str(type) \o Str(sig))

-----------------------------------------------------------------------------
\* `encoding::Cursor`, transcribed.  A cursor is a position `pos` in the byte string b, bounded
\* by `hi` (the end of the slice the cursor was created on); positions are 0-based offsets.

Fail == [ok |-> FALSE, val |-> 0, lo |-> 0, hi |-> 0, pos |-> 0]

\* read_u32: `if self.position + 4 <= self.s.len()`
ReadU32(b, pos, hi) ==
    IF pos + 4 <= hi
    THEN [ok |-> TRUE, lo |-> 0, hi |-> 0, pos |-> pos + 4,
          val |-> IF b[pos + 1] > 0 THEN BIG ELSE b[pos + 2] * 65536 + b[pos + 3] * 256 + b[pos + 4]]
    ELSE Fail

\* read_string: read_u32, then `if self.position + len <= self.s.len()`; the result is the slice [lo, hi)
ReadString(b, pos, hi) ==
    LET u == ReadU32(b, pos, hi) IN
    IF ~u.ok THEN Fail
    ELSE IF u.pos + u.val <= hi
         THEN [ok |-> TRUE, val |-> u.val, lo |-> u.pos, hi |-> u.pos + u.val, pos |-> u.pos + u.val]
         ELSE Fail

Slice(b, lo, hi) == SubSeq(b, lo + 1, hi)

\* `<PublicKey as Encodable>::read` on the key blob [lo, hi): string algorithm, string key; the key
\* must be 32 bytes (`PublicKey::try_from`). A blob that does not parse is skipped by the client.
ParseKey(b, lo, hi) ==
    LET alg == ReadString(b, lo, hi) IN
    IF ~alg.ok \/ Slice(b, alg.lo, alg.hi) # Ed25519 THEN [ok |-> FALSE, key |-> <<>>]
    ELSE LET k == ReadString(b, alg.pos, hi) IN
         IF ~k.ok \/ k.val # 32 THEN [ok |-> FALSE, key |-> <<>>]
         ELSE [ok |-> TRUE, key |-> Slice(b, k.lo, k.hi)]

-----------------------------------------------------------------------------
\* The client calls

VARIABLES op,      \* the call
          resp,    \* the agent's reply
          pc,      \* "start" | "count" | "entry" | "sig" | "end"
          pos,     \* cursor position in resp
          left,    \* identities: entries still to read (`for _ in 0..n`)
          keys,    \* identities: keys collected so far
          out,     \* "" | "ok" | "err" | "panic"
          val,     \* result value: keys (identities), signature bytes (sign), <<flag>> (query), <<>> (other)
          errk,    \* error class: "" | "encoding" | "failure" | "protocol"
          iters    \* ghost: entry-loop iterations
vars == <<op, resp, pc, pos, left, keys, out, val, errk, iters>>

L == Len(resp)

Init == /\ op \in Ops /\ resp \in Replies
        /\ pc = "start" /\ pos = 0 /\ left = 0 /\ keys = <<>>
        /\ out = "" /\ val = <<>> /\ errk = "" /\ iters = 0

End(o, v, e) == /\ pc' = "end" /\ out' = o /\ val' = v /\ errk' = e
                /\ UNCHANGED <<op, resp, pos, left, keys, iters>>

\* --- request_identities ---
\*   if resp[0] == IDENTITIES_ANSWER { n = r.read_u32()?; for _ in 0..n { key = r.read_string()?;
\*     _ = r.read_string()?; if let Ok(pk) = K::read(&mut key.reader(0)) { keys.push(pk) } } }  Ok(keys)
IdStart ==
    /\ pc = "start" /\ op = "identities"
    /\ IF L = 0 THEN (IF Orig THEN End("panic", <<>>, "") ELSE End("ok", <<>>, ""))
       ELSE IF resp[1] # IDENTITIES_ANSWER THEN End("ok", <<>>, "")      \* any other message: no keys
       ELSE /\ pc' = "count" /\ pos' = 1
            /\ UNCHANGED <<op, resp, left, keys, out, val, errk, iters>>

IdReadCount ==
    /\ pc = "count"
    /\ LET n == ReadU32(resp, pos, L) IN
       IF ~n.ok THEN End("err", <<>>, "encoding")
       ELSE /\ pc' = "entry" /\ pos' = n.pos /\ left' = n.val
            /\ UNCHANGED <<op, resp, keys, out, val, errk, iters>>

IdReadEntry ==
    /\ pc = "entry" /\ left > 0
    /\ LET blob == ReadString(resp, pos, L) IN
       IF ~blob.ok THEN End("err", <<>>, "encoding")
       ELSE LET comment == ReadString(resp, blob.pos, L) IN
            IF ~comment.ok THEN End("err", <<>>, "encoding")
            ELSE LET k == ParseKey(resp, blob.lo, blob.hi) IN
                 /\ keys' = IF k.ok THEN Append(keys, k.key) ELSE keys
                 /\ pos' = comment.pos /\ left' = left - 1 /\ iters' = iters + 1
                 /\ UNCHANGED <<op, resp, pc, out, val, errk>>

IdFinish == pc = "entry" /\ left = 0 /\ End("ok", keys, "")

\* --- sign ---
\*   if !resp.is_empty() && resp[0] == SIGN_RESPONSE { read_signature(&resp) }
\*   else if !resp.is_empty() && resp[0] == FAILURE { Err(AgentFailure) } else { Err(AgentProtocolError) }
SignStart ==
    /\ pc = "start" /\ op = "sign"
    /\ IF L > 0 /\ resp[1] = SIGN_RESPONSE
       THEN pc' = "sig" /\ pos' = 1 /\ UNCHANGED <<op, resp, left, keys, out, val, errk, iters>>
       ELSE IF L > 0 /\ resp[1] = FAILURE THEN End("err", <<>>, "failure")
       ELSE End("err", <<>>, "protocol")

\* read_signature: r = sig.reader(1); resp = r.read_string()?.reader(0); _t = resp.read_string()?;
\*                 sig = resp.read_string()?; out = [0; 64]; out.copy_from_slice(sig)
SignReadSig ==
    /\ pc = "sig"
    /\ LET outer == ReadString(resp, pos, L) IN
       IF ~outer.ok THEN End("err", <<>>, "encoding")
       ELSE LET t == ReadString(resp, outer.lo, outer.hi) IN
            IF ~t.ok THEN End("err", <<>>, "encoding")
            ELSE LET s == ReadString(resp, t.pos, outer.hi) IN
                 IF ~s.ok THEN End("err", <<>>, "encoding")
                 ELSE IF s.val # 64
                      THEN (IF Orig THEN End("panic", <<>>, "") ELSE End("err", <<>>, "protocol"))
                      ELSE End("ok", Slice(resp, s.lo, s.hi), "")

\* --- query_extension ---   r = resp.reader(1); ext.extend(r.read_string()?); Ok(!resp.is_empty() && resp[0] == SUCCESS)
QueryStart ==
    /\ pc = "start" /\ op = "query"
    /\ LET r == ReadString(resp, 1, L) IN
       IF ~r.ok THEN End("err", <<>>, "encoding")
       ELSE End("ok", <<L > 0 /\ resp[1] = SUCCESS>>, "")

\* --- add_identity, remove_identity, lock, ... ---   self.stream.request(&buf)?; Ok(())
OtherStart == pc = "start" /\ op = "other" /\ End("ok", <<>>, "")

Next == IdStart \/ IdReadCount \/ IdReadEntry \/ IdFinish \/ SignStart \/ SignReadSig \/ QueryStart \/ OtherStart
Spec == Init /\ [][Next]_vars /\ WF_vars(Next)

-----------------------------------------------------------------------------
\* The same calls as functions of (op, reply) -- used to validate recorded executions

Res(o, v, e) == [out |-> o, val |-> v, errk |-> e]

RECURSIVE EntryLoop(_, _, _, _)
EntryLoop(b, p, n, ks) ==
    IF n = 0 THEN Res("ok", ks, "")
    ELSE LET blob == ReadString(b, p, Len(b)) IN
         IF ~blob.ok THEN Res("err", <<>>, "encoding")
         ELSE LET comment == ReadString(b, blob.pos, Len(b)) IN
              IF ~comment.ok THEN Res("err", <<>>, "encoding")
              ELSE LET k == ParseKey(b, blob.lo, blob.hi) IN
                   EntryLoop(b, comment.pos, n - 1, IF k.ok THEN Append(ks, k.key) ELSE ks)

Call(o, b) ==
    CASE o = "identities" ->
           IF Len(b) = 0 THEN (IF Orig THEN Res("panic", <<>>, "") ELSE Res("ok", <<>>, ""))
           ELSE IF b[1] # IDENTITIES_ANSWER THEN Res("ok", <<>>, "")
           ELSE LET n == ReadU32(b, 1, Len(b)) IN
                IF ~n.ok THEN Res("err", <<>>, "encoding") ELSE EntryLoop(b, n.pos, n.val, <<>>)
      [] o = "sign" ->
           IF Len(b) > 0 /\ b[1] = SIGN_RESPONSE
           THEN LET outer == ReadString(b, 1, Len(b)) IN
                IF ~outer.ok THEN Res("err", <<>>, "encoding")
                ELSE LET t == ReadString(b, outer.lo, outer.hi) IN
                     IF ~t.ok THEN Res("err", <<>>, "encoding")
                     ELSE LET s == ReadString(b, t.pos, outer.hi) IN
                          IF ~s.ok THEN Res("err", <<>>, "encoding")
                          ELSE IF s.val # 64 THEN (IF Orig THEN Res("panic", <<>>, "") ELSE Res("err", <<>>, "protocol"))
                          ELSE Res("ok", Slice(b, s.lo, s.hi), "")
           ELSE IF Len(b) > 0 /\ b[1] = FAILURE THEN Res("err", <<>>, "failure")
           ELSE Res("err", <<>>, "protocol")
      [] o = "query" ->
           LET r == ReadString(b, 1, Len(b)) IN
           IF ~r.ok THEN Res("err", <<>>, "encoding") ELSE Res("ok", <<Len(b) > 0 /\ b[1] = SUCCESS>>, "")
      [] OTHER -> Res("ok", <<>>, "")

-----------------------------------------------------------------------------
\* Properties

\* C27: a value or an error, never a panic
NoPanic == out # "panic"
\* ... and the call returns
Termination == <>(pc = "end")
\* the cursor only moves forward and stays inside the reply as long as parsing goes on: this is
\* what makes every slice `&s[position..position + len]` of the real reader legal
CursorInBounds == pc \in {"entry", "sig"} => pos <= L
Forward == [][pos' >= pos]_vars
\* every iteration of the entry loop consumes at least the two length fields
IterBound == iters * 8 <= L
\* a returned signature has 64 bytes; returned keys have 32
Sizes == out = "ok" => /\ op = "sign" => Len(val) = 64
                       /\ op = "identities" => \A i \in DOMAIN val : Len(val[i]) = 32
\* replies that are not an identities answer / a sign response never produce keys / a signature
TypeChecked == out = "ok" =>
    /\ (op = "identities" /\ val # <<>>) => resp[1] = IDENTITIES_ANSWER
    /\ op = "sign" => resp[1] = SIGN_RESPONSE
\* well-formed answers are understood: exactly the ed25519 keys among the blobs, in order
GoodKey(blob) == Len(blob) = 51 /\ blob = KeyBlob(Slice(blob, 19, 51))
KeysOf(entries) == LET idx == {i \in DOMAIN entries : GoodKey(entries[i].blob)}
                       F[i \in 0..Len(entries)] ==
                           IF i = 0 THEN <<>>
                           ELSE IF i \in idx THEN Append(F[i - 1], Slice(entries[i].blob, 19, 51)) ELSE F[i - 1]
                   IN F[Len(entries)]
WellFormedUnderstood ==
    (pc = "end" /\ op = "identities") =>
        \A es \in WellFormed : resp = Answer(es) => out = "ok" /\ val = KeysOf(es)
\* the function form agrees with the state machine
FuncAgrees == pc = "end" => Res(out, val, errk) = Call(op, resp)
=============================================================================
