\* gating: exactly what property C26 states
CONSTANTS
  Orig = FALSE
  GW <- TGW
  GB <- TGB
  GWs <- TGWs
  Lines <- None
  Widths <- None
  Delims <- None
INIT TInit
NEXT TNext
INVARIANTS NoPanic NoHang WidthBound
POSTCONDITION Accepted
