------------------------------- MODULE MCWire -------------------------------
(* Bounded instances of Wire.tla: the frame classes and the streams built from them.          *)
(* Each initial state (= one stream) is emitted as a CASE for the conformance harness, which   *)
(* turns the descriptors into real bytes, feeds them to the real Deserializer<_, Frame> under   *)
(* all / many splits and compares with ExpectedCount / ExpectedStatus / ExpectedUnparsed.      *)
EXTENDS Wire, Json

\* Every descriptor carries every field, so that the emitted JSON is uniform.
Ctl(v, sw, cmd, cw) ==
    [ver |-> v, sidW |-> sw, kind |-> "control", cmd |-> cmd, csidW |-> cw,
     lenW |-> 1, declared |-> 0, avail |-> 0, inner |-> "-"]
Pay(v, sw, kind, lw, d, a, inner) ==
    [ver |-> v, sidW |-> sw, kind |-> kind, cmd |-> "-", csidW |-> 1,
     lenW |-> lw, declared |-> d, avail |-> a, inner |-> inner]

Cmds == {"open", "close", "eof", "bad"}

\* Payload classes <<declared, avail, inner>> for gossip frames ...
GossipComplete == {<<4, 4, "valid">>, <<6, 6, "valid">>, <<7, 7, "overlong">>,
                   <<2, 2, "invalid">>, <<5, 5, "invalid">>,
                   <<0, 0, "truncated">>, <<1, 1, "truncated">>, <<3, 3, "truncated">>,
                   <<5, 5, "truncated">>}
GossipCompleteSmall == {<<4, 4, "valid">>, <<7, 7, "overlong">>, <<2, 2, "invalid">>,
                        <<0, 0, "truncated">>, <<3, 3, "truncated">>}
\* ... and for git frames
GitComplete == {<<0, 0, "-">>, <<3, 3, "-">>}
\* Frames that never complete (last frame only): a short one and the huge declared lengths.
Short == {<<6, 2>>, <<200000, 3>>, <<1073741823, 0>>, <<Huge, 3>>, <<Huge, 0>>}

PayFrames(kind, SW, LW, classes) ==
    {Pay("ok", sw, kind, lw, c[1], c[2], c[3]) : sw \in SW, lw \in LW, c \in classes}
ShortFrames(kind, SW, LW) ==
    {Pay("ok", sw, kind, lw, c[1], c[2], IF kind = "gossip" THEN "valid" ELSE "-") :
        sw \in SW, lw \in {w \in LW : TRUE}, c \in Short}

Fits(f) == f.kind = "control" \/ f.declared <= MaxOfWidth(f.lenW)

\* All single-frame classes.
Full == {f \in
      {Ctl("ok", sw, cmd, cw) : sw \in Widths, cmd \in Cmds, cw \in Widths}
 \cup {Ctl("bad", 1, "open", 1), Pay("bad", 1, "gossip", 1, 4, 4, "valid")}
 \cup {Pay("ok", sw, "unknown", 1, 3, 3, "-") : sw \in Widths}
 \cup PayFrames("gossip", Widths, Widths, GossipComplete)
 \cup PayFrames("git", Widths, Widths, GitComplete)
 \cup ShortFrames("gossip", {1}, Widths) \cup ShortFrames("git", {1}, Widths)
 : Fits(f)}

\* A reduced set for pairs ...
Reduced == {f \in
      {Ctl("ok", 1, cmd, cw) : cmd \in Cmds, cw \in {1, 8}}
 \cup {Ctl("ok", 2, "open", 1), Ctl("bad", 1, "open", 1)}
 \cup {Pay("ok", 4, "unknown", 1, 3, 3, "-")}
 \cup PayFrames("gossip", {1}, {1, 4}, GossipCompleteSmall)
 \cup PayFrames("gossip", {2}, {2}, {<<6, 6, "valid">>, <<5, 5, "truncated">>})
 \cup PayFrames("git", {1, 8}, {1, 2}, {<<3, 3, "-">>}) \cup PayFrames("git", {1}, {1}, {<<0, 0, "-">>})
 \cup ShortFrames("gossip", {1}, {4, 8}) \cup ShortFrames("git", {1}, {8})
 : Fits(f)}

\* ... and a tiny one for triples.
Tiny == {Ctl("ok", 1, "open", 1), Ctl("ok", 2, "bad", 1), Ctl("ok", 1, "eof", 4),
         Pay("ok", 1, "gossip", 1, 4, 4, "valid"), Pay("ok", 1, "gossip", 2, 3, 3, "truncated"),
         Pay("ok", 1, "gossip", 1, 2, 2, "invalid"), Pay("ok", 2, "gossip", 1, 7, 7, "overlong"),
         Pay("ok", 1, "git", 1, 3, 3, "-"), Pay("ok", 1, "unknown", 1, 3, 3, "-"),
         Pay("ok", 1, "gossip", 8, Huge, 3, "valid"), Pay("ok", 1, "git", 4, 200000, 3, "-")}

\* ... a small one for the triples of the thorough instance ...
Small == {Ctl("ok", 1, "open", 1), Ctl("ok", 2, "bad", 1), Ctl("ok", 1, "eof", 4), Ctl("ok", 8, "close", 8),
          Ctl("bad", 1, "open", 1),
          Pay("ok", 1, "gossip", 1, 4, 4, "valid"), Pay("ok", 4, "gossip", 8, 6, 6, "valid"),
          Pay("ok", 1, "gossip", 2, 3, 3, "truncated"), Pay("ok", 1, "gossip", 1, 0, 0, "truncated"),
          Pay("ok", 1, "gossip", 1, 2, 2, "invalid"), Pay("ok", 2, "gossip", 1, 7, 7, "overlong"),
          Pay("ok", 1, "git", 1, 3, 3, "-"), Pay("ok", 2, "git", 4, 0, 0, "-"),
          Pay("ok", 1, "unknown", 1, 3, 3, "-"),
          Pay("ok", 1, "gossip", 8, Huge, 3, "valid"), Pay("ok", 1, "git", 4, 200000, 3, "-"),
          Pay("ok", 1, "git", 8, Huge, 0, "-"), Pay("ok", 1, "gossip", 4, 1073741823, 0, "valid")}

Mini == {Ctl("ok", 1, "open", 1), Pay("ok", 1, "gossip", 1, 4, 4, "valid"),
         Pay("ok", 1, "gossip", 2, 3, 3, "truncated"), Pay("ok", 1, "git", 1, 3, 3, "-"),
         Pay("ok", 1, "gossip", 8, Huge, 3, "valid")}

Singles(F) == {<<f>> : f \in F}
Pairs(F, G) == {<<f, g>> : f \in {x \in F : Complete(x)}, g \in G}
Triples(F) == {<<f, g, h>> : f \in {x \in F : Complete(x)}, g \in {x \in F : Complete(x)}, h \in F}

\* Which streams an instance explores. (The three families are separate disjuncts of the initial
\* predicate rather than one union: TLC's set union is quadratic on sets of this size.)
CONSTANT Mode    \* "quick" | "thorough" | "overflow"
SingleSet == IF Mode = "overflow" THEN {} ELSE Full
PairSet   == CASE Mode = "quick" -> Reduced [] OTHER -> Tiny   \* thorough: Full x Reduced and Reduced x Full
TripleSet == CASE Mode = "thorough" -> Small [] OTHER -> Mini

MCInit == \/ InitWith(Singles(SingleSet))
          \/ IF Mode = "thorough"
             THEN InitWith(Pairs(Full, Reduced)) \/ InitWith(Pairs(Reduced, Full))
             ELSE InitWith(Pairs(PairSet, PairSet))
          \/ InitWith(Triples(TripleSet))

ASSUME \A f \in Full \cup Reduced \cup Tiny \cup Small \cup Mini : IsFrame(f)

\* One case per stream (= per initial state).
Emit ==
    PrintT(<<"CASE", ToJson([frames |-> stream,
                             ends   |-> [i \in DOMAIN stream |-> EndOf(stream, i)],
                             total  |-> Total(stream),
                             fb     |-> FirstBad(stream),
                             detect |-> DetectAt(stream),
                             maxinbox |-> MaxInbox])>>)
EmitInv == (fed = 0 /\ pc = "idle" /\ status = "open") => Emit
=============================================================================
