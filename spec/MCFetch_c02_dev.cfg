CONSTANTS
  N = 3
  AcceptNoRoot = TRUE
  RefsAtUsesAdvertised = FALSE
  RefsAtIgnoresBlock = FALSE
  KeepStaleRad = FALSE
  SkipUnloaded = FALSE
  Family = {"delegates"}
  Junks = {"none", "extra"}
  DelCount = {2}
  LocalChoices = {0, 1}
INIT MCInit
NEXT Next
INVARIANTS AtomicOnError
