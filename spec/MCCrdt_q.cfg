CONSTANTS
  Mode = "laws"
  Keys = {1, 2}
  MaxClock = 1
  MaxVal = 1
  Types = {"bool", "max", "min", "optmax", "redactable", "gset", "gmap", "lwwreg", "lwwregopt", "lwwmap", "lwwset"}
  RemoveWinsTies = FALSE
  MaxOps = 0
INIT MCInit
NEXT MCNext
VIEW View
INVARIANTS LawAssociative LawCommutative LawIdempotent LawClosed EmitInv
