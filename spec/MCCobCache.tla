---------------------------- MODULE MCCobCache ----------------------------
(* Bounded instances of CobCache.tla.  One case per behaviour of maximal length: the steps and, *)
(* after every step, the answers every query must give.                                         *)
EXTENDS CobCache, Json

\* 1: print every behaviour of maximal length; k > 1: about one in k (the big instance: every state
\* is model-checked, a sample of the behaviours is offered for the replay)
CONSTANT EmitEvery

Emit == (steps = MaxSteps /\ (EmitEvery = 1 \/ TLCGet("distinct") % EmitEvery = 0))
            => PrintT(<<"CASE", ToJson([log |-> log])>>)
EmitInv == Emit
=============================================================================
