---------------------------- MODULE MCCobCache ----------------------------
(* Bounded instances of CobCache.tla.  One case per behaviour of maximal length: the steps and, *)
(* after every step, the answers every query must give.                                         *)
EXTENDS CobCache, Json

Emit == (steps = MaxSteps) => PrintT(<<"CASE", ToJson([log |-> log])>>)
EmitInv == Emit
=============================================================================
