\* The step machine of cob::get on a replica whose references move: root + 2 changes, two
\* namespaces, every reference assignment and enumeration order.
CONSTANTS
  Atomic = TRUE
  SingleInPlace = FALSE
  DropDetached = TRUE
  Namespace = {1, 2}
  M = 2
  MaxTs = 2
  Classes = {"ok", "badSig", "rejectLater"}
  MaxBad = 2
  FullCauses = 1
  AllowDetached = FALSE
  Emit = FALSE
  EmitMod = 1
INIT InitGet
NEXT NextGet
INVARIANTS LoadIsClosure C05_GetIsFunctionOfClosure WalkNoTrace
