CONSTANTS
  Keys = {0,1,2,3,4,5,6,7,8,9,10,11,12,13,14,15,16,17,18,19,20}
  MergeFromAllRoots = TRUE
INIT TInit
NEXT TNext
INVARIANTS TypeOk
POSTCONDITION Accepted
