\* thorough: base answers with <= 2 entries of 7 blob classes; every prefix
CONSTANTS
  MaxEntries = 2
  BlobClasses = {1, 2, 3, 4, 5, 6, 7}
  PrefixStep = 1
  Orig = FALSE
  Ops = {"identities", "sign", "query", "other"}
  Replies <- MCReplies
  WellFormed <- MCWellFormed
SPECIFICATION Spec
INVARIANTS NoPanic CursorInBounds IterBound Sizes TypeChecked WellFormedUnderstood FuncAgrees EmitInv
PROPERTIES Forward Termination
