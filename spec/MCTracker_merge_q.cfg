CONSTANTS
  Actor <- A4
  Doc = {1, 2}
  Delegates <- Dlg3b
  Threshold <- Thr3b
  LabelSets <- LS2
  AssignSets <- AS2
  Titles = {0, 1}
  Bodies = {0}
  VerdictVals = {0, 1}
  SummaryVals = {0}
  Commit <- C3
  Anc <- Anc3
  Kinds <- MergeKinds
  FanKinds <- MergeFan
  Creators = {4}
  MaxC = 2
  MaxE = 1
  MaxR = 2
  MaxRC = 0
  MaxV = 0
  MaxVC = 0
  Reactors = {}
  HeadInits <- HMerge
  Pushers = {}
  Variant = "code"
  Emit = TRUE
INIT Init
NEXT Next
VIEW View
INVARIANTS TypeOK IssueWF PatchWF C08_Merged EmitInv
PROPERTIES C07_Issue C07_Patch C07_PatchExtra C08_Step RejectedNoEffect Frame
