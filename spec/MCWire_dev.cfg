CONSTANTS
  StreamSet = {}
  Mode = "quick"
  K = 131072
  Growth = 2
  MaxInbox = 2097152
  AllocDeclared = TRUE
  InnerEofIncomplete = FALSE
INIT MCInit
NEXT Next
INVARIANTS C14_Mem
