CONSTANTS
  Keys = {0, 1, 2, 3, 4, 5}
  MaxClock = 9
  MaxVal = 9
  Types = {}
  RemoveWinsTies = FALSE
INIT TInit
NEXT TNext
POSTCONDITION Accepted
