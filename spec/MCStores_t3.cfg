CONSTANTS
  Repos = {1,2}
  Nodes = {1,2}
  TS = {0,1,2}
  Which = {"gossip"}
  MaxDepth <- DepthT
  Variant = "fixed"
INIT Init
NEXT Next
VIEW View
INVARIANTS ForeignKeys RowidsUnique EmitInv
PROPERTIES RoutingTimeMonotone PruneKeepsLocal SyncMovesForward RefsMoveForward SeedingReflectsLastWrite FollowingReflectsLastWrite AnnouncementReplacedByNewer
