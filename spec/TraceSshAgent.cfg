\* gating: NoPanic is what C27 states; then the drift invariants (exact outcome of the transcribed parser)
CONSTANTS
  Orig = FALSE
  Ops <- AllOps
  Replies <- None
  WellFormed <- None
INIT TInit
NEXT TNext
INVARIANTS NoPanic Sizes TypeChecked FuncAgrees
POSTCONDITION Accepted
