CONSTANTS
  Repos = {1}
  Nodes = {1}
  TS = {0, 1}
  Which = {}
  MaxDepth <- DepthQ
  Variant = "fixed"
INIT TInit
NEXT TNext
INVARIANTS ForeignKeys RowidsUnique
PROPERTIES RoutingTimeMonotone PruneKeepsLocal SyncMovesForward RefsMoveForward SeedingReflectsLastWrite FollowingReflectsLastWrite AnnouncementReplacedByNewer
POSTCONDITION Accepted
