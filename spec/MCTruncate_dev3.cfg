\* sanity: the whitespace branch as it was before the repair must be rejected by TLC
CONSTANTS
  KindIds = {1, 3}
  MaxLen = 3
  MaxItems = 2
  MaxW = 3
  ND = 2
  Orig = TRUE
  GW <- MCGW
  GB <- MCGB
  GWs <- MCGWs
  Lines <- MCLines
  Widths <- MCWidths
  Delims <- MCDelims
INIT Init
NEXT Next
INVARIANTS IterBound
