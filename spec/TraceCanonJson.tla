-------------------------- MODULE TraceCanonJson --------------------------
(* Validates encodings recorded from the real CanonicalFormatter (random values deeper, wider and  *)
(* longer than the bounded model enumerates; one record {v, out} per value, out = [-1] when the    *)
(* encoder refused) against CanonJson: the recorded bytes become the state variable `out` of a     *)
(* finished serialisation of `v`, so every invariant of the module - the byte-exact definition     *)
(* Canon and each clause of the statement - is evaluated on what the implementation produced.      *)
EXTENDS CanonJson, Json, IOUtils

Rec == ndJsonDeserialize(IOEnv.TRACE)

VARIABLE l
tvars == <<v, todo, stack, out, err, l>>

Load(r) == /\ v' = r.v
           /\ todo' = <<>>
           /\ stack' = <<>>
           /\ err' = (r.out = Reject)
           /\ out' = IF r.out = Reject THEN <<>> ELSE r.out

TInit == l = 1 /\ v = Null /\ todo = <<>> /\ stack = <<>> /\ out = LitNull /\ err = FALSE
TNext == l <= Len(Rec) /\ l' = l + 1 /\ Load(Rec[l])
TSpec == TInit /\ [][TNext]_tvars

\* used by `./check C18 --replay`: print the model's bytes for the recorded value
ShowCanon == l > 1 => PrintT(<<"CANON", ToJson(Canon(v))>>)

Accepted ==
    IF TLCGet("stats").diameter - 1 = Len(Rec)
    THEN PrintT("TRACE-ACCEPTED")
    ELSE PrintT("TRACE-REJECTED at=" \o ToString(TLCGet("stats").diameter))
=============================================================================
