CONSTANTS
  Peer = {1, 2}
  Repo = {1, 2}
  Persistent = {2}
  Capacity = 1
  QueueMax = 128
  MaxTasks = 100000
  MaxOps = 100000
  SyncTask = TRUE
  Dev = {"late-same-peer"}
INIT TInit
NEXT TNext
POSTCONDITION Accepted
