CONSTANTS
  Peer = {1, 2, 3}
  Repo = {1, 2, 3}
  Persistent <- TPersistent
  Capacity <- TCapacity
  QueueMax = 128
  MaxTasks = 100000
  MaxOps = 100000
  RetryExact = FALSE
  SyncTask = TRUE
  Dev = {"late-same-peer"}
INIT TInit
NEXT TNext
POSTCONDITION Accepted
