CONSTANTS
  Peer = {1, 2}
  Repo = {1, 2}
  Persistent = {2}
  Capacity = 1
  QueueMax = 2
  MaxTasks = 3
  MaxOps = 7
  RetryExact = TRUE
  SyncTask = TRUE
  Dev = {"late-same-peer"}
INIT Init
NEXT Next
VIEW view
INVARIANTS EmitInv C16_OneLive C16_TableIsLive C16_Capacity C16_SessionConsistent C16_Attribution SessionHasConnection LinkRecorded
