CONSTANTS
  Local = "L"
  MaxOps = 4
  Variant = "code"
  Node <- MCNode
  Delegates <- MCDelegates
  NsStates <- MCNsStates
INIT Init
NEXT Next
INVARIANTS OnlyStrangersRemoved ProtectedUntouched WholeRepoOnlyWithoutSigrefs NoSigrefsRemovesRepo ErrorIsNoop ReportedIsRemoved UnsignedKept Idempotent EmitInv
