CONSTANTS
  Hosts = {0, 1, 2, 3, 4}
  NonRoutable = {2, 4}
  Nids = {0, 1, 2}
  Bypass = {2}
  Params = {}
  Times = {}
  MaxCalls = 0
  RefillByMillis = FALSE
  CheckExact = TRUE
INIT TInit
NEXT TNext
INVARIANTS WindowBound AdmissionsMonotone
POSTCONDITION Verdict
