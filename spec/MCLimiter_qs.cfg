CONSTANTS
  Mode = "service"
  Hosts = {0, 2}
  NonRoutable = {2}
  Nids = {0, 1, 2}
  Bypass = {2}
  Params <- MCParams
  ParamSeq <- ParamsQuick
  Times = {0, 250, 1000, 1750, 2000, 4000, 9000}
  MaxCalls = 6
  RefillByMillis = FALSE
INIT MCInit
NEXT MCNext
VIEW ViewFull
INVARIANTS WindowBound AdmissionsMonotone NeverLimited TokensBounded AtLeClock ServiceOk
