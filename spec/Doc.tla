-------------------------------- MODULE Doc --------------------------------
(***************************************************************************)
(* Identity documents (radicle::identity::doc: `RawDoc`, `Doc`,            *)
(* `Delegates`, `Threshold`, `Version`; `Repository::init` in              *)
(* storage/git.rs for the repository id).                                  *)
(*                                                                         *)
(* Property C19: every identity document accepted from JSON or from git    *)
(* has between 1 and 255 distinct delegates, a threshold between 1 and the *)
(* number of delegates, and a supported version; encoding a valid document *)
(* and decoding it yields an equal document; a repository's id is the git  *)
(* blob hash of the canonical encoding of its initial document.            *)
(*                                                                         *)
(* Life cycle of a document, one action per step of the code:              *)
(*                                                                         *)
(*   JSON text --Deserialize--> RawDoc --Verify--> Doc --Edit--> RawDoc .. *)
(*                    |                    |         |                     *)
(*                 rejected             rejected     +--InitRepo--> rid    *)
(*                                                                         *)
(*   Deserialize  serde on `RawDoc`: required fields, field types, the     *)
(*                `Version` deserializer (0 and unknown versions are       *)
(*                refused here), defaults (version 1, visibility public);  *)
(*                unknown fields are ignored                               *)
(*   Verify       `RawDoc::verified`: `Delegates::new` (duplicates removed *)
(*                in a fold that also enforces the limit) and              *)
(*                `Threshold::new`                                         *)
(*   Edit         `Doc::edit` / `with_edits`: back to a RawDoc, one of     *)
(*                `delegate(did)`, `rescind(did)`, threshold := t, then    *)
(*                Verify again                                             *)
(*   InitRepo     `Repository::init`: rid := git blob hash of `encode`     *)
(*                                                                         *)
(* `Doc::from_blob`, `serde_json::from_slice::<Doc>` (try_from = RawDoc)   *)
(* and `RawDoc::from_json(..)?.verified()` are all Deserialize ; Verify.   *)
(*                                                                         *)
(* JSON-level values: numbers are naturals; Absent (-1) = the field is     *)
(* missing, Malformed (-2) = present with a JSON value the field's type    *)
(* does not accept (string for a number, negative, fraction, beyond u32    *)
(* ...).  Delegates are small integers standing for DIDs.                  *)
(***************************************************************************)
EXTENDS Integers, Sequences, FiniteSets, TLC

CONSTANTS MaxDelegates,     \* MAX_DELEGATES (255)
          CurrentVersion,   \* IDENTITY_VERSION (1)
          JsonDocs,         \* set of JSON documents to start from
          EditDids,         \* DIDs used by delegate() / rescind() edits
          EditThresholds,   \* thresholds used by edits
          MaxEdits          \* edits per behaviour

Absent == -1
Malformed == -2

-----------------------------------------------------------------------------
\* Sequences of DIDs

Range(s) == {s[i] : i \in DOMAIN s}
Distinct(s) == Cardinality(Range(s)) = Len(s)
\* duplicates removed, first occurrences kept in order
RECURSIVE DedupFrom(_, _, _, _)
DedupFrom(s, i, acc, seen) == IF i > Len(s) THEN acc
                              ELSE IF s[i] \in seen THEN DedupFrom(s, i + 1, acc, seen)
                              ELSE DedupFrom(s, i + 1, Append(acc, s[i]), seen \cup {s[i]})
Dedup(s) == DedupFrom(s, 1, <<>>, {})
Without(s, d) == LET F[i \in 0..Len(s)] == IF i = 0 THEN <<>> ELSE IF s[i] = d THEN F[i - 1] ELSE Append(F[i - 1], s[i])
                 IN F[Len(s)]

-----------------------------------------------------------------------------
\* Declarative statement (C19)

SupportedVersion(v) == v >= 1 /\ v <= CurrentVersion
Valid(d) == /\ Len(d.delegates) >= 1 /\ Len(d.delegates) <= MaxDelegates /\ Distinct(d.delegates)
            /\ d.threshold >= 1 /\ d.threshold <= Len(d.delegates)
            /\ SupportedVersion(d.version)

\* which RawDocs must be accepted, and as what
RulesOk(r) == LET ds == Dedup(r.delegates) IN
              /\ Len(ds) >= 1 /\ Len(ds) <= MaxDelegates
              /\ r.threshold >= 1 /\ r.threshold <= Len(ds)
DocOf(r) == [version |-> r.version, delegates |-> Dedup(r.delegates), threshold |-> r.threshold,
             payload |-> r.payload, vis |-> r.vis]

-----------------------------------------------------------------------------
\* The code, transcribed

\* serde: `#[derive(Deserialize)] struct RawDoc` + `impl Deserialize for Version`
JsonOk(j) == /\ j.ver # Malformed /\ (j.ver = Absent \/ SupportedVersion(j.ver))
             /\ j.delsKind = "list"                       \* present, an array of valid DID strings
             /\ j.thr >= 0                                \* present, a usize
             /\ j.payload \notin {"absent", "bad"}        \* present, an object
             /\ j.vis # "bad"
RawOf(j) == [version |-> IF j.ver = Absent THEN 1 ELSE j.ver,     \* #[serde(default = "missing_version")]
             delegates |-> j.dels, threshold |-> j.thr, payload |-> j.payload,
             vis |-> IF j.vis = "absent" THEN "public" ELSE j.vis]  \* #[serde(default)]

\* `Delegates::new`: try_fold; a DID not seen before is refused once 255 are held
\* (`seen` is the set of DIDs in `acc`: `dids.contains(&did)`)
RECURSIVE DelegatesFold(_, _, _, _)
DelegatesFold(s, i, acc, seen) ==
    IF i > Len(s) THEN [ok |-> TRUE, dids |-> acc]
    ELSE IF s[i] \in seen THEN DelegatesFold(s, i + 1, acc, seen)
    ELSE IF Len(acc) >= MaxDelegates THEN [ok |-> FALSE, dids |-> <<>>]   \* "number of delegates cannot exceed 255"
    ELSE DelegatesFold(s, i + 1, Append(acc, s[i]), seen \cup {s[i]})
DelegatesNew(s) == LET f == DelegatesFold(s, 1, <<>>, {}) IN
                   IF ~f.ok THEN [ok |-> FALSE, err |-> "delegates", dids |-> <<>>]
                   ELSE IF f.dids = <<>> THEN [ok |-> FALSE, err |-> "delegates", dids |-> <<>>]  \* "delegate list cannot be empty"
                   ELSE [ok |-> TRUE, err |-> "", dids |-> f.dids]

\* `Threshold::new(t, &delegates)`
ThresholdOk(t, n) == ~(t > MaxDelegates) /\ ~(t > n) /\ t # 0

\* canonical encoding (`Doc::encode`): version is omitted when <= 1, visibility when public
Canon(d) == [delegates |-> d.delegates, payload |-> d.payload, threshold |-> d.threshold,
             ver |-> IF d.version <= 1 THEN Absent ELSE d.version,
             vis |-> IF d.vis = "public" THEN "absent" ELSE d.vis]
\* the JSON document a canonical encoding is
JsonOfCanon(c) == [ver |-> c.ver, delsKind |-> "list", dels |-> c.delegates, thr |-> c.threshold,
                   payload |-> c.payload, vis |-> c.vis, unknown |-> FALSE]

NoDoc == [version |-> 0, delegates |-> <<>>, threshold |-> 0, payload |-> "", vis |-> ""]
NoRaw == NoDoc

VARIABLES json,     \* the JSON document the behaviour started from
          stage,    \* "json" | "raw" | "doc" | "rejected"
          raw,      \* current RawDoc
          doc,      \* current Doc
          errk,     \* why rejected: "" | "json" | "delegates" | "threshold"
          edits,    \* edits applied so far
          rid       \* <<>> or <<c>>: the repository id, once initialised, as the canonical encoding c it hashes
vars == <<json, stage, raw, doc, errk, edits, rid>>

NoRid == <<>>

Init == /\ json \in JsonDocs /\ stage = "json" /\ raw = NoRaw /\ doc = NoDoc /\ errk = "" /\ edits = <<>> /\ rid = NoRid

Deserialize ==
    /\ stage = "json"
    /\ IF JsonOk(json) THEN stage' = "raw" /\ raw' = RawOf(json) /\ errk' = ""
       ELSE stage' = "rejected" /\ raw' = raw /\ errk' = "json"
    /\ UNCHANGED <<json, doc, edits, rid>>

Verify ==
    /\ stage = "raw"
    /\ LET ds == DelegatesNew(raw.delegates) IN
       IF ~ds.ok THEN stage' = "rejected" /\ errk' = "delegates" /\ doc' = NoDoc
       ELSE IF ~ThresholdOk(raw.threshold, Len(ds.dids)) THEN stage' = "rejected" /\ errk' = "threshold" /\ doc' = NoDoc
       ELSE /\ stage' = "doc" /\ errk' = ""
            /\ doc' = [version |-> raw.version, delegates |-> ds.dids, threshold |-> raw.threshold,
                       payload |-> raw.payload, vis |-> raw.vis]
    /\ UNCHANGED <<json, raw, edits, rid>>

\* `Doc::edit()` then one mutation of the RawDoc
RawFromDoc == [version |-> doc.version, delegates |-> doc.delegates, threshold |-> doc.threshold,
               payload |-> doc.payload, vis |-> doc.vis]
EditOf(e) == CASE e.op = "delegate"  -> [RawFromDoc EXCEPT !.delegates = Append(doc.delegates, e.arg)]
               [] e.op = "rescind"   -> [RawFromDoc EXCEPT !.delegates = Without(doc.delegates, e.arg)]
               [] e.op = "threshold" -> [RawFromDoc EXCEPT !.threshold = e.arg]
Edit(e) ==
    /\ stage = "doc" /\ Len(edits) < MaxEdits
    /\ raw' = EditOf(e)
    /\ stage' = "raw" /\ edits' = Append(edits, e)
    /\ UNCHANGED <<json, doc, errk, rid>>

\* `Repository::init(&doc, ..)`: the id is the blob hash of the encoder output (identified with it here)
InitRepo ==
    /\ stage = "doc" /\ edits = <<>> /\ rid = NoRid
    /\ rid' = <<Canon(doc)>>
    /\ UNCHANGED <<json, stage, raw, doc, errk, edits>>

EditOps == [op : {"delegate", "rescind"}, arg : EditDids] \cup [op : {"threshold"}, arg : EditThresholds]
Next == Deserialize \/ Verify \/ InitRepo \/ \E e \in EditOps : Edit(e)
Spec == Init /\ [][Next]_vars

-----------------------------------------------------------------------------
\* The same life cycle as a function of (JSON document, edits) -- used to validate recorded executions

Verdict(ok, e, d) == [accepted |-> ok, errk |-> e, doc |-> d]
VerifyRaw(r) ==
    LET ds == DelegatesNew(r.delegates) IN
    IF ~ds.ok THEN Verdict(FALSE, "delegates", NoDoc)
    ELSE IF ~ThresholdOk(r.threshold, Len(ds.dids)) THEN Verdict(FALSE, "threshold", NoDoc)
    ELSE Verdict(TRUE, "", [version |-> r.version, delegates |-> ds.dids, threshold |-> r.threshold,
                            payload |-> r.payload, vis |-> r.vis])
EditRaw(d, e) == CASE e.op = "delegate"  -> [d EXCEPT !.delegates = Append(d.delegates, e.arg)]
                   [] e.op = "rescind"   -> [d EXCEPT !.delegates = Without(d.delegates, e.arg)]
                   [] e.op = "threshold" -> [d EXCEPT !.threshold = e.arg]
RECURSIVE RunEdits(_, _, _)
RunEdits(v, es, i) == IF i > Len(es) \/ ~v.accepted THEN v ELSE RunEdits(VerifyRaw(EditRaw(v.doc, es[i])), es, i + 1)
Run(j, es) == IF ~JsonOk(j) THEN Verdict(FALSE, "json", NoDoc) ELSE RunEdits(VerifyRaw(RawOf(j)), es, 1)

-----------------------------------------------------------------------------
\* Properties

\* C19: whatever is accepted is valid
AcceptedIsValid == stage = "doc" => Valid(doc)
\* the fold of `Delegates::new` is "remove duplicates, then check 1..255"
FoldIsDedupThenLimit ==
    stage = "raw" => LET f == DelegatesNew(raw.delegates) d == Dedup(raw.delegates) IN
                     /\ f.ok <=> (Len(d) >= 1 /\ Len(d) <= MaxDelegates)
                     /\ f.ok => f.dids = d
\* accepted exactly when the rules hold, and as the document the rules describe
JustVerified == stage \in {"doc", "rejected"} /\ errk # "json" /\ raw # NoRaw
AcceptIffRules == JustVerified => /\ (stage = "doc") <=> RulesOk(raw)
                                  /\ stage = "doc" => doc = DocOf(raw)
\* JSON that is refused by serde never becomes a document
RefusedJson == (stage # "json" /\ ~JsonOk(json)) => (stage = "rejected" /\ errk = "json")
\* C19: decode(encode(doc)) = doc
Decoded(c) == LET j == JsonOfCanon(c) r == RawOf(j) ds == DelegatesNew(r.delegates) IN
              IF JsonOk(j) /\ ds.ok /\ ThresholdOk(r.threshold, Len(ds.dids))
              THEN [version |-> r.version, delegates |-> ds.dids, threshold |-> r.threshold, payload |-> r.payload, vis |-> r.vis]
              ELSE NoDoc
RoundTrip == stage = "doc" => Decoded(Canon(doc)) = doc
\* C19: the repository id is (the hash of) the canonical encoding of the initial document, and
\* later edits do not change it
RidIsInitialDoc == rid # NoRid => rid = <<Canon(DocOf(RawOf(json)))>>
\* the function form agrees with the state machine
FuncAgrees == stage \in {"doc", "rejected"} => Verdict(stage = "doc", errk, doc) = Run(json, edits)
=============================================================================
