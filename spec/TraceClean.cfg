\* gating: the property invariants evaluated on the recorded executions
CONSTANTS
  Local = "L"
  MaxOps = 1000
  Variant = "code"
  Node <- TNode
  Delegates <- None
  NsStates <- None
  IdStates <- None
INIT TInit
NEXT TNext
INVARIANTS OnlyStrangersRemoved ProtectedUntouched WholeRepoOnlyWithoutSigrefs ErrorIsNoop
POSTCONDITION Accepted
