CONSTANTS
  Mode = "ops"
  Keys = {1}
  MaxClock = 1
  MaxVal = 1
  Types = {"lwwmap"}
  RemoveWinsTies = TRUE
  MaxOps = 3
INIT MCInit
NEXT MCNext
VIEW View
INVARIANTS Lww
