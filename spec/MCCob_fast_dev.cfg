\* Deliberately wrong variant: a change carrying exactly one action is applied in place (a "fast
\* path" in Issue::op). thread::edit pushes its timeline entry before it finds the target comment
\* missing, so a refused edit by a delegate leaves its id in the thread timeline. TLC must reject
\* it (C06_NoTrace / C06_NoEffect): shows that the refused-single-action classes are not vacuous.
CONSTANTS
  Atomic = TRUE
  SingleInPlace = TRUE
  DropDetached = TRUE
  Namespace = {1}
  M = 2
  MaxTs = 1
  Classes = {"ok", "rf.editMissing.d", "rf.editMissing.g", "rf.redactMissing.d"}
  MaxBad = 1
  FullCauses = 1
  AllowDetached = FALSE
  Emit = FALSE
  EmitMod = 1
INIT InitGraphs
NEXT NextGraphs
INVARIANTS TheoremsHold
