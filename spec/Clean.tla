------------------------------- MODULE Clean -------------------------------
(***************************************************************************)
(* Storage cleanup (radicle `Storage::clean` / `Repository::clean`,        *)
(* crates/radicle/src/storage/git.rs; used by `rad clean`).                *)
(*                                                                         *)
(* Property C28: cleaning a repository removes only namespaces of peers    *)
(* that are neither the local node nor a delegate, and removes the whole   *)
(* repository only when the local node has no signed refs in it.           *)
(*                                                                         *)
(* A stored repository is a set of NAMESPACES, one per peer               *)
(* (refs/namespaces/<peer>/...).  What cleanup looks at is, per peer:      *)
(*   "absent"    no reference under the namespace                          *)
(*   "unsigned"  references, but no rad/sigrefs branch -- such a namespace *)
(*               is not a "remote" (`remote_ids` enumerates sigrefs)       *)
(*   "signed"    references and a rad/sigrefs branch that verifies         *)
(*   "signed2"   as "signed", plus a further reference whose name ends in  *)
(*               /rad/sigrefs (a branch called rad/sigrefs): the glob that *)
(*               `remote_ids` enumerates matches both, so the peer is      *)
(*               yielded TWICE                                             *)
(*   "corrupt"   a rad/sigrefs branch that does not load / verify          *)
(* and the delegate set of the repository's identity document, read from   *)
(* the canonical refs/rad/id (which is not inside any namespace).  That    *)
(* read can FAIL: `iddoc` says whether the document at refs/rad/id loads   *)
(*   "ok"           it loads; its delegate set is `delegates`              *)
(*   "missing"      refs/rad/id points at a commit without a document      *)
(*   "unsupported"  the document there has an unsupported version          *)
(* When it does not load, `delegates` keeps the delegate set of the LAST   *)
(* READABLE document (a ghost: the code cannot see it): these are still    *)
(* the peers whose namespaces must not be lost, which is what the          *)
(* invariants quantify over.  Cleaning with an unreadable document must    *)
(* report the error and touch nothing.                                     *)
(*                                                                         *)
(* Actions: Clean (the call under test), Fetch (the environment puts a     *)
(* removed peer's namespace back, so that cleaning can be observed again   *)
(* on a repository that has already been cleaned) and BreakId (the         *)
(* environment re-points refs/rad/id at something that is not a readable   *)
(* identity document).                                                     *)
(*                                                                         *)
(* Variant = "and" models the skip condition with && instead of ||         *)
(* ("local or delegate" -> "local and delegate"), "loadfail" removes the   *)
(* repository when the local sigrefs fail to load instead of being absent, *)
(* "emptyset" carries on with an EMPTY delegate set when the identity      *)
(* document fails to load (log and continue instead of returning the       *)
(* error), "firstonly" protects a delegate only the first time           *)
(* `remote_ids` yields it: all four must be rejected by TLC (sanity        *)
(* configs).                                                               *)
(***************************************************************************)
EXTENDS Integers, Sequences, FiniteSets, TLC

CONSTANTS Node,        \* peers
          Local,       \* the local peer, \in Node
          Delegates,   \* set of possible delegate sets (each a non-empty subset of Node)
          NsStates,    \* [Node -> set of namespace states allowed initially]
          IdStates,    \* set of initial values of iddoc
          MaxOps,      \* behaviours have at most this many actions
          Variant      \* "code" | "and" | "loadfail" | "emptyset" | "firstonly"

VARIABLES exists,      \* the repository exists in storage
          ns,          \* [Node -> "absent" | "unsigned" | "signed" | "signed2" | "corrupt"]
          delegates,   \* delegate set of the last readable identity document (does not change here)
          iddoc,       \* does the document at refs/rad/id load: "ok" | "missing" | "unsupported"
          last,        \* ghost: the last action with its pre-state and result
          hist         \* ghost: actions so far with the state after each (for replay)
vars == <<exists, ns, delegates, iddoc, last, hist>>

HasSigrefs(s) == s \in {"signed", "signed2", "corrupt"}
Verifies(s) == s \in {"signed", "signed2"}
Remotes(f) == {n \in Node : HasSigrefs(f[n])}       \* `Repository::remote_ids`
AllAbsent == [n \in Node |-> "absent"]

Init == /\ exists = TRUE
        /\ ns \in {f \in [Node -> {"absent", "unsigned", "signed", "signed2", "corrupt"}] : \A n \in Node : f[n] \in NsStates[n]}
        /\ delegates \in Delegates
        /\ iddoc \in IdStates
        /\ last = [op |-> "init", pre |-> AllAbsent, res |-> "ok", ret |-> {}]
        /\ hist = <<>>

Record(op, arg, res, ret, e, f) ==
    hist' = Append(hist, [op |-> op, arg |-> arg, pre |-> ns, res |-> res, ret |-> ret, exists |-> e, ns |-> f,
                          iddoc |-> IF op = "breakid" THEN arg ELSE iddoc])

\* `Repository::clean(local)`: for every remote that is neither the local peer nor a delegate,
\* delete every reference under its namespace; return the remotes that were cleaned.
\* what the code takes for the delegate set: `self.delegates()?` -- only available when the document loads
SeenDelegates == IF iddoc = "ok" THEN delegates ELSE {}
Protected(n) == IF Variant = "and" THEN n = Local /\ n \in SeenDelegates
                ELSE n = Local \/ n \in SeenDelegates
Cleaned == {n \in Remotes(ns) : ~Protected(n)}
             \cup (IF Variant = "firstonly"
                   THEN {n \in Remotes(ns) : n # Local /\ n \in SeenDelegates /\ ns[n] = "signed2"}
                   ELSE {})

\* `Storage::clean(rid)`:
\*   has_sigrefs = SignedRefsAt::load(local, repo)?.is_some()      (a load error is returned)
\*   if has_sigrefs { repo.clean(local) } else { remotes = repo.remote_ids(); repo.remove(); Ok(remotes) }
\* and `repo.clean` starts with `let delegates = self.delegates()?` (an unreadable identity document is an
\* error, returned before anything is deleted); without sigrefs of ours the document is never read.
Clean ==
    /\ exists /\ Len(hist) < MaxOps
    /\ IF ns[Local] = "corrupt" /\ Variant # "loadfail"
       THEN \* the error is propagated, nothing is touched
            /\ UNCHANGED <<exists, ns>>
            /\ last' = [op |-> "clean", pre |-> ns, res |-> "err", ret |-> {}]
            /\ Record("clean", Local, "err", {}, exists, ns)
       ELSE IF Verifies(ns[Local]) /\ iddoc # "ok" /\ Variant # "emptyset"
       THEN \* the delegates cannot be determined: error, nothing is touched
            /\ UNCHANGED <<exists, ns>>
            /\ last' = [op |-> "clean", pre |-> ns, res |-> "err", ret |-> {}]
            /\ Record("clean", Local, "err", {}, exists, ns)
       ELSE IF Verifies(ns[Local])
       THEN /\ ns' = [n \in Node |-> IF n \in Cleaned THEN "absent" ELSE ns[n]]
            /\ UNCHANGED exists
            /\ last' = [op |-> "clean", pre |-> ns, res |-> "ok", ret |-> Cleaned]
            /\ Record("clean", Local, "ok", Cleaned, exists, ns')
       ELSE \* no signed refs of our own: nothing of ours can be lost, remove the repository
            /\ exists' = FALSE /\ ns' = AllAbsent
            /\ last' = [op |-> "clean", pre |-> ns, res |-> "ok", ret |-> Remotes(ns)]
            /\ Record("clean", Local, "ok", Remotes(ns), FALSE, AllAbsent)
    /\ UNCHANGED <<delegates, iddoc>>

\* the environment fetches a peer that the last cleanup removed
Fetch(n) ==
    /\ exists /\ Len(hist) < MaxOps
    /\ last.op = "clean" /\ n \in last.ret /\ ns[n] = "absent"
    /\ ns' = [ns EXCEPT ![n] = "signed"]
    /\ last' = [op |-> "fetch", pre |-> ns, res |-> "ok", ret |-> {}]
    /\ Record("fetch", n, "ok", {}, exists, ns')
    /\ UNCHANGED <<exists, delegates, iddoc>>

\* the environment re-points refs/rad/id at a commit that carries no readable identity document
\* (k = "missing": no document at all; "unsupported": a document of a version this client refuses)
BreakId(k) ==
    /\ exists /\ Len(hist) < MaxOps
    /\ last.op = "clean" /\ iddoc = "ok" /\ k \in {"missing", "unsupported"}
    /\ iddoc' = k
    /\ last' = [op |-> "breakid", pre |-> ns, res |-> "ok", ret |-> {}]
    /\ Record("breakid", k, "ok", {}, exists, ns)
    /\ UNCHANGED <<exists, ns, delegates>>

Next == Clean \/ (\E n \in Node : Fetch(n)) \/ (\E k \in {"missing", "unsupported"} : BreakId(k))
Spec == Init /\ [][Next]_vars

-----------------------------------------------------------------------------
\* Properties (on the state after a Clean; `last.pre` is the state before it)

AfterClean == last.op = "clean" /\ last.res = "ok"
Gone == {n \in Node : last.pre[n] # "absent" /\ (~exists \/ ns[n] = "absent")}

\* C28, first clause: as long as the repository is kept, only namespaces of peers that are
\* neither local nor delegates disappear
OnlyStrangersRemoved == (AfterClean /\ exists) => \A n \in Gone : n # Local /\ n \notin delegates
\* ... and the namespaces of the local peer and of delegates are exactly as before
ProtectedUntouched == (AfterClean /\ exists) => \A n \in Node : (n = Local \/ n \in delegates) => ns[n] = last.pre[n]
\* C28, second clause: the whole repository goes only when the local peer has no signed refs
WholeRepoOnlyWithoutSigrefs == (AfterClean /\ ~exists) => ~HasSigrefs(last.pre[Local])
\* (the converse, which the code also guarantees: without signed refs of ours the repository goes)
NoSigrefsRemovesRepo == (AfterClean /\ last.pre[Local] \in {"absent", "unsigned"}) => ~exists
\* an unreadable identity document makes cleanup fail (when it gets as far as reading it) ...
UnreadableIsError == (last.op = "clean" /\ iddoc # "ok" /\ HasSigrefs(last.pre[Local])) => last.res = "err"
\* ... and a failed cleanup changes nothing
ErrorIsNoop == (last.op = "clean" /\ last.res = "err") => (exists /\ ns = last.pre)
\* what is reported is what was removed (remotes, i.e. namespaces with sigrefs)
ReportedIsRemoved == AfterClean => last.ret = {n \in Gone : HasSigrefs(last.pre[n])}
\* namespaces without sigrefs are never touched while the repository is kept
UnsignedKept == (AfterClean /\ exists) => \A n \in Node : last.pre[n] = "unsigned" => ns[n] = "unsigned"
\* cleaning twice in a row: the second time nothing is removed
Idempotent == (AfterClean /\ Len(hist) >= 2 /\ hist[Len(hist) - 1].op = "clean" /\ hist[Len(hist) - 1].res = "ok"
               /\ hist[Len(hist) - 1].exists) => last.ret = {}
=============================================================================
