CONSTANTS
  Mode = "emit"
  Hosts = {0, 1, 2}
  NonRoutable = {2}
  Nids = {0, 1, 2}
  Bypass = {2}
  Params <- MCParams
  ParamSeq <- ParamsEmitT
  Times = {0, 500, 1000, 1250, 3000, 9000}
  MaxCalls = 99
  RefillByMillis = FALSE
INIT MCInit
NEXT MCNext
VIEW ViewEmit
INVARIANTS NeverLimited TokensBounded EmitInv
