---------------------------- MODULE TraceTruncate ----------------------------
(* Validates calls recorded from the real radicle-term truncation (random lines and strings    *)
(* over a large pool of real grapheme clusters, far outside the bounded instances) against     *)
(* Truncate.tla.  One record per call: {line, w, d, res, out}; every record is turned into the  *)
(* TERMINAL state of the Line::truncate state machine it claims to be (orig = the input, line   *)
(* = the returned line, pc = done / panic / hang) and the module's own invariants are           *)
(* evaluated on it.                                                                             *)
(* A grapheme in a trace is the number  id*1000 + width*100 + firstScalarBytes*10 + whitespace, *)
(* the attributes being measured by the harness with the implementation's own segmentation and  *)
(* width function.                                                                              *)
EXTENDS Truncate, Json, IOUtils, SequencesExt

TGW(g)  == (g \div 100) % 10
TGB(g)  == (g \div 10) % 10
TGWs(g) == g % 10 = 1
None == {}

Rec == ndJsonDeserialize(IOEnv.TRACE)

VARIABLE l
tvars == <<vars, l>>

TInit == /\ l = 1 /\ line = <<>> /\ orig = <<>> /\ width = 0 /\ delim = <<>>
         /\ pc = "done" /\ iters = 0
TNext == /\ l <= Len(Rec)
         /\ l' = l + 1
         /\ orig'  = Rec[l].line
         /\ width' = Rec[l].w
         /\ delim' = Rec[l].d
         /\ line'  = Rec[l].out
         /\ pc'    = IF Rec[l].res = "ok" THEN "done" ELSE Rec[l].res
         /\ iters' = 0
TSpec == TInit /\ [][TNext]_tvars

\* C26 "terminates" on a recorded call (NoPanic and WidthBound are the module's)
NoHang == pc # "hang"

Accepted ==
    IF TLCGet("stats").diameter - 1 = Len(Rec)
    THEN PrintT("TRACE-ACCEPTED")
    ELSE PrintT("TRACE-REJECTED at=" \o ToString(TLCGet("stats").diameter))
=============================================================================
