--------------------------- MODULE TraceSigRefs ---------------------------
(* Validates outcomes recorded from the real SignedRefs::load_at / Refs::from_canonical +       *)
(* SignedRefs::verified (random larger reference sets, 0..3 random mutations of blob, signature *)
(* and key; one record per object) against SigRefs: each record becomes one state of the module *)
(* (what was signed, what is stored), the recorded answer must be the one Load gives, and every *)
(* invariant of the module is evaluated on that state.                                          *)
EXTENDS SigRefs, Json, IOUtils

Rec == ndJsonDeserialize(IOEnv.TRACE)

VARIABLES l, rres, rrefs
tvars == <<signed, blob, sig, claimed, muts, l, rres, rrefs>>

ToLine(x) == [k |-> x[1], n |-> x[2], o |-> x[3], f |-> x[4]]
ToBlob(b) == [lines |-> [i \in DOMAIN b.lines |-> ToLine(b.lines[i])], eol |-> b.eol]
ToMap(a)  == [n \in Names |-> a[n]]

TInit == /\ l = 1 /\ rres = "ok" /\ rrefs = NoRefs
         /\ signed = [key |-> 1, refs |-> NoRefs] /\ blob = CanonBlob(NoRefs) /\ sig = Sig(1, CanonBlob(NoRefs))
         /\ claimed = 1 /\ muts = 0
TNext == /\ l <= Len(Rec)
         /\ l' = l + 1
         /\ LET r == Rec[l] IN
            /\ signed' = [key |-> r.signer, refs |-> ToMap(r.signed)]
            /\ blob' = ToBlob(r.blob)
            /\ sig' = [key |-> r.sig.key, msg |-> ToBlob(r.sig.msg), ok |-> r.sig.ok]
            /\ claimed' = r.claimed
            /\ muts' = IF blob' = CanonBlob(signed'.refs) /\ sig' = Sig(r.signer, blob') /\ r.claimed = r.signer THEN 0 ELSE 1
            /\ rres' = r.res
            /\ rrefs' = ToMap(r.refs)
TSpec == TInit /\ [][TNext]_tvars

\* the recorded answer: accepted or not, and which references (gating) ...
AnswerMatches == (rres = "ok") = Accepted /\ rrefs = Loaded.refs
\* ... and the same error class (informational, separate cfg)
ClassMatches == rres = Loaded.res
StateWellFormed == WellFormedBlob(blob) /\ WellFormedBlob(sig.msg)

Accepted_ ==
    IF TLCGet("stats").diameter - 1 = Len(Rec)
    THEN PrintT("TRACE-ACCEPTED")
    ELSE PrintT("TRACE-REJECTED at=" \o ToString(TLCGet("stats").diameter))
=============================================================================
