CONSTANTS
  Peer = {1, 2}
  Other = {3}
  Repo = {1, 2, 3}
  Stored = {1, 2}
  Seeded = {1, 2}
  InitPrivate = {2, 3}
  Allow <- TAllow
  Delegates <- TDelegates
  InvOf <- TInvOf
  TS = {0}
  MaxTicks = 1000
  MaxOps = 100000
  Dev = {"replay-unstored"}
INIT TInit
NEXT TNext
POSTCONDITION Accepted
