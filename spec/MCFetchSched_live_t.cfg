CONSTANTS
  Peer = {1, 2}
  Repo = {1, 2}
  Persistent = {2}
  Capacity = 1
  QueueMax = 2
  MaxTasks = 3
  MaxOps = 0
  RetryExact = TRUE
  SyncTask = FALSE
  Dev = {"late-same-peer"}
SPECIFICATION LiveSpec
VIEW view
INVARIANTS C16_OneLive C16_Capacity C16_Attribution
PROPERTIES QueueDrains TasksComplete PersistentRedialled
