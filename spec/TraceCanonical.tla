--------------------------- MODULE TraceCanonical ---------------------------
(* Validates answers recorded from the real `Canonical::quorum` (random graphs larger than the *)
(* bounded model) against the statement in Canonical.tla: one record per step.               *)
EXTENDS Canonical, Json, IOUtils, SequencesExt

Rec == ndJsonDeserialize(IOEnv.TRACE)

VARIABLES l, res
tvars == <<parents, tips, l, res>>

ParOf(r) == [c \in 1..Len(r.par) |-> ToSet(r.par[c])]

TInit == l = 1 /\ parents = <<>> /\ tips = <<>> /\ res = <<>>
TNext == /\ l <= Len(Rec)
         /\ l' = l + 1
         /\ parents' = ParOf(Rec[l])
         /\ tips' = Rec[l].tips
         /\ res' = Rec[l].res
TSpec == TInit /\ [][TNext]_tvars

\* Every recorded answer is permitted by the statement ...
AnswersAllowed == \A thr \in DOMAIN res : res[thr] \in Allowed(parents, tips, thr)
\* ... and (informational, checked by a separate config) is an outcome of the transcribed algorithm.
AnswersAreAlgOutcomes == \A thr \in DOMAIN res : res[thr] \in AlgOutcomes(parents, tips, thr)

Accepted ==
    IF TLCGet("stats").diameter - 1 = Len(Rec)
    THEN PrintT("TRACE-ACCEPTED")
    ELSE PrintT("TRACE-REJECTED at=" \o ToString(TLCGet("stats").diameter))
=============================================================================
