--------------------------------- MODULE Cob ---------------------------------
(***************************************************************************)
(* Collaborative objects (COBs): change graph, loading, evaluation order,  *)
(* evaluation with pruning of rejected changes.                            *)
(*                                                                         *)
(* Code described (radicle-cob, radicle-dag, radicle::cob):                *)
(*   object::Storage::objects      the tip references of an object, one    *)
(*                                 per namespace (storage/git/cob.rs)      *)
(*   ChangeGraph::load             walk back from the tips (change_graph)  *)
(*   ChangeGraph::evaluate         root first, then Dag::prune_by over the *)
(*                                 root's dependents with the              *)
(*                                 `chronological` tie-break               *)
(*   Dag::prune_by / visit_by / remove / siblings_of      (radicle-dag)    *)
(*   Issue::op / Patch::op / Identity::op   apply the actions of a change  *)
(*                                                                         *)
(* A change is a commit: it has dependencies (its parent changes), a       *)
(* committer timestamp, an author/signature and a payload (a non-empty     *)
(* list of actions).  Changes are content addressed, and the evaluation    *)
(* order breaks ties by object id; the model therefore *names* the non-root*)
(* changes 1..m in the order of their object ids.  Change 0 is the root    *)
(* change, whose id is the id of the object.                               *)
(*                                                                         *)
(* Two descriptions are given, and TLC checks that they agree:             *)
(*   - the function  View(G)  of a change set G: the transcribed           *)
(*     algorithm (EvalOrder = the depth-first traversal of `prune_by`,     *)
(*     Run = the pruning loop), together with the declarative statements   *)
(*     it has to satisfy (the theorems at the end of this module: C05 and  *)
(*     C06 among them);                                                    *)
(*   - a step machine (variables below) whose actions are the steps of     *)
(*     `cob::get` on a replica whose references move: listing the tip      *)
(*     references in some enumeration order, the loader's work-list loop,  *)
(*     the root initialisation, the evaluation loop.                       *)
(*                                                                         *)
(* The object itself is abstract but order sensitive, and exposes what the *)
(* real projection exposes: the list of applied operations (patch          *)
(* timeline), the thread timeline, the comments, and two last-writer       *)
(* fields (title, labels).  The conformance harness realises it with real  *)
(* issues and patches (harness/src/cobworld.rs).                           *)
(***************************************************************************)
EXTENDS Integers, FiniteSets, Sequences, TLC

CONSTANTS
    Atomic,     \* TRUE : a change is applied atomically -- a change one of whose actions is
                \*        refused leaves the object untouched (the intended behaviour, and the
                \*        behaviour of Issue::op / Patch::op after the fix);
                \* FALSE: the actions are applied in place, those preceding the refused one stay
                \*        (Issue::op / Patch::op / Identity::op as found).
    SingleInPlace,
                \* FALSE: every change is applied on a copy of the state (as the code does);
                \* TRUE : deviation -- a change carrying exactly one action is applied in place
                \*        (a "fast path"): whatever that action did before it was refused stays.
    DropDetached
                \* TRUE : changes that do not descend from the root (a change commit without parent
                \*        changes that is not the root, and everything built on one) are dropped
                \*        before evaluation (ChangeGraph::evaluate after the fix);
                \* FALSE: they are left in the graph: never visited, never verified, still part of
                \*        the returned history, and their dependents are evaluated (as found).

Root == 0
None == -1      \* "no reference"
\* "nothing evaluated (since the references last moved)"
NoView == [applied |-> <<>>, log |-> <<>>, comments |-> <<>>, lww |-> None, labels |-> None, hist |-> {}, tips |-> {}]
\* the answer when the root of the object is not among the loaded changes
MissingRootView == [applied |-> <<>>, log |-> <<>>, comments |-> <<>>, lww |-> -2, labels |-> -2, hist |-> {}, tips |-> {}]

-----------------------------------------------------------------------------
(* Change graphs.                                                           *)
(*   G.nodes  the changes present (Root among them);                        *)
(*   G.deps   [1..m -> SUBSET 0..m]  parent changes (`Entry::parents`);     *)
(*   G.ts     committer timestamps;                                         *)
(*   G.cls    payload class, see Apply;                                     *)
(*   G.tgt    for class "needs": the change whose comment is replied to.    *)
(* Sub-graphs share the functions and differ in `nodes`.                    *)

NonRootOf(G) == G.nodes \ {Root}
Restrict(G, S) == [G EXCEPT !.nodes = S]

Deps(G, c) == IF c = Root THEN {} ELSE G.deps[c] \cap G.nodes
Dependents(G, k) == {c \in NonRootOf(G) : k \in G.deps[c]}

RECURSIVE Anc(_, _)
Anc(G, c) == UNION {{d} \cup Anc(G, d) : d \in Deps(G, c)}          \* Dag::ancestors_of
RECURSIVE Desc(_, _)
Desc(G, c) == UNION {{d} \cup Desc(G, d) : d \in Dependents(G, c)}  \* Dag::descendants_of

\* Dag::siblings_of: neither ancestor nor descendant, nor the node itself.
Siblings(G, c) == G.nodes \ (Anc(G, c) \cup Desc(G, c) \cup {c})

Tips(G) == {c \in G.nodes : Dependents(G, c) = {}}                  \* Dag::tips

\* Dag::remove: the node and, recursively, everything that depends on it.
Remove(G, c) == Restrict(G, G.nodes \ ({c} \cup Desc(G, c)))

\* S is closed under dependencies / under dependents.
DownClosed(G, S) == \A c \in S : Deps(G, c) \subseteq S
UpClosed(G, S) == \A c \in S : Dependents(G, c) \subseteq S

\* ChangeGraph::load, declaratively: everything reachable from the tip references.
Closure(G, T) == T \cup UNION {Anc(G, c) : c \in T}

\* Dag::roots: changes without dependencies.  Every one of them other than the root of the
\* object is "detached": nothing connects it, or what is built on it, to the object.
DetachedRoots(G) == {c \in NonRootOf(G) : Deps(G, c) = {}}
UpClosure(G, S) == S \cup UNION {Desc(G, c) : c \in S}
Attached(G) == Restrict(G, G.nodes \ UpClosure(G, DetachedRoots(G)))

-----------------------------------------------------------------------------
(* Evaluation order: Dag::prune_by(children, .., chronological).            *)

\* ChangeGraph::chronological: by timestamp, then by object id.
Before(G, a, b) == G.ts[a] < G.ts[b] \/ (G.ts[a] = G.ts[b] /\ a < b)

RECURSIVE SortChrono(_, _)
SortChrono(G, S) ==
    IF S = {} THEN <<>>
    ELSE LET m == CHOOSE x \in S : \A y \in S \ {x} : Before(G, x, y)
         IN <<m>> \o SortChrono(G, S \ {m})

RECURSIVE SortById(_)
SortById(S) ==
    IF S = {} THEN <<>>
    ELSE LET m == CHOOSE x \in S : \A y \in S : x <= y
         IN <<m>> \o SortById(S \ {m})

Rev(s) == [i \in 1..Len(s) |-> s[Len(s) + 1 - i]]
Range(s) == {s[i] : i \in DOMAIN s}

(* Dag::visit_by: depth-first; the dependents of a node are sorted with     *)
(* `ordering` and visited in *reverse*, and a node is pushed to the *front* *)
(* of the result once its dependents are done: the result is a topological  *)
(* order in which, among the dependents of one node, the chronologically    *)
(* first comes first.  st = [visited, order].                               *)
RECURSIVE VisitBy(_, _, _), VisitAll(_, _, _)
VisitBy(G, k, st) ==
    IF k \in st.visited THEN st
    ELSE LET st1 == [st EXCEPT !.visited = @ \cup {k}]
             st2 == VisitAll(G, Rev(SortChrono(G, Dependents(G, k))), st1)
         IN [st2 EXCEPT !.order = <<k>> \o @]
VisitAll(G, ks, st) ==
    IF ks = <<>> THEN st ELSE VisitAll(G, Tail(ks), VisitBy(G, Head(ks), st))

(* ChangeGraph::evaluate passes `root.dependents` -- a BTreeSet, so in      *)
(* ascending id order, *not* sorted chronologically and not reversed -- as  *)
(* the roots of the traversal.  Consequence (faithfully transcribed): among *)
(* the direct dependents of the root the one with the greatest id comes     *)
(* first, whatever the timestamps.                                          *)
EvalOrder(G) ==
    VisitAll(G, SortById(Dependents(G, Root)), [visited |-> {}, order |-> <<>>]).order

-----------------------------------------------------------------------------
(* The abstract object and the application of one change.                   *)
(*                                                                          *)
(* The object exposes what the real projection of an issue / patch exposes: *)
(*   applied   every applied change, in order (Patch.timeline: one entry    *)
(*             per operation);                                              *)
(*   timeline  entries of the discussion thread (Thread::timeline): one per *)
(*             change that touched the thread;                              *)
(*   comments  the comments, in thread order;                               *)
(*   lww       the title (last writer);                                     *)
(*   labels    the label set (last writer).                                 *)
(*                                                                          *)
(* classes (what the harness writes for each is in cobworld.rs):            *)
(*   ok          delegate: comment + title edit                             *)
(*   guest       non-delegate: comment                                      *)
(*   label       delegate: sets the labels (no thread entry)                *)
(*   needs       reply to the comment of change tgt: valid if tgt's comment *)
(*               exists, refused otherwise (state dependent validity)       *)
(*   badSig      signature does not verify          -> refused before apply *)
(*   rf.<cause>.<d|g>  a single refused action, by a delegate (d) or a      *)
(*               non-delegate (g) author; the causes and where the real     *)
(*               code refuses them (Issue::authorization, then the action): *)
(*      redactMissing  redact a comment that does not exist                 *)
(*                     d: authorised as delegate, thread::redact refuses    *)
(*                     g: authorization itself fails on the missing comment *)
(*      editMissing    edit a comment that does not exist (non-empty body)  *)
(*                     d: authorised as delegate; thread::edit pushes the   *)
(*                        timeline entry FIRST and then refuses             *)
(*                     g: authorization fails on the missing comment        *)
(*      reactMissing   react to a comment that does not exist               *)
(*                     d, g: allowed for all, thread::react refuses         *)
(*      replyMissing   comment replying to a comment that does not exist    *)
(*                     d, g: allowed for all, thread::comment refuses       *)
(*      badTitle       title with a line break                              *)
(*                     d: authorised, the action refuses; g: not authorised *)
(*      label          labelling: g: not authorised (d: see class "label")  *)
(*   rejectLater several actions (comment, title, label, ...), a later one  *)
(*               refused after the earlier ones were applied                *)
(*   soft        (identity objects) an action answering `UnexpectedState`:  *)
(*               refused when the change has no concurrent change in the    *)
(*               graph, silently ignored -- the change stays, with a        *)
(*               timeline entry -- when it has (Identity::op)               *)

RFTable ==
    { [cls |-> "rf.redactMissing.d", cause |-> "redactMissing", role |-> "delegate"],
      [cls |-> "rf.redactMissing.g", cause |-> "redactMissing", role |-> "guest"],
      [cls |-> "rf.editMissing.d",   cause |-> "editMissing",   role |-> "delegate"],
      [cls |-> "rf.editMissing.g",   cause |-> "editMissing",   role |-> "guest"],
      [cls |-> "rf.reactMissing.d",  cause |-> "reactMissing",  role |-> "delegate"],
      [cls |-> "rf.reactMissing.g",  cause |-> "reactMissing",  role |-> "guest"],
      [cls |-> "rf.replyMissing.d",  cause |-> "replyMissing",  role |-> "delegate"],
      [cls |-> "rf.replyMissing.g",  cause |-> "replyMissing",  role |-> "guest"],
      [cls |-> "rf.badTitle.d",      cause |-> "badTitle",      role |-> "delegate"],
      [cls |-> "rf.badTitle.g",      cause |-> "badTitle",      role |-> "guest"],
      [cls |-> "rf.label.g",         cause |-> "label",         role |-> "guest"] }
RFClasses == {r.cls : r \in RFTable}
RFOf(cl) == CHOOSE r \in RFTable : r.cls = cl

InitObj == [applied |-> <<>>, timeline |-> <<>>, comments |-> <<>>, lww |-> Root, labels |-> Root]
Applied(obj) == Range(obj.applied)

\* Classes whose application adds an entry to the discussion thread.
ThreadClasses == {"ok", "guest", "needs", "soft"}

Apply(G, obj, c, sib) ==
    LET cl      == G.cls[c]
        comment == [obj EXCEPT !.applied = Append(@, c), !.timeline = Append(@, c), !.comments = Append(@, c)]
        full    == [comment EXCEPT !.lww = c]
        \* what the first actions of a rejectLater change do: comment, title, label
        partial == [full EXCEPT !.labels = c]
        \* what a refused single action has done to the state when it is refused (applied in place)
        residue == IF RFOf(cl).cause = "editMissing" /\ RFOf(cl).role = "delegate"
                   THEN [obj EXCEPT !.timeline = Append(@, c)] ELSE obj
        Ok(o)   == [ok |-> TRUE, obj |-> o]
        No(o)   == [ok |-> FALSE, obj |-> o]
    IN CASE cl = "ok"          -> Ok(full)
         [] cl = "guest"       -> Ok(comment)
         [] cl = "label"       -> Ok([obj EXCEPT !.applied = Append(@, c), !.labels = c])
         [] cl = "needs"       -> IF G.tgt[c] \in Range(obj.comments) THEN Ok(comment) ELSE No(obj)
         [] cl = "badSig"      -> No(obj)
         [] cl \in RFClasses   -> No(IF SingleInPlace THEN residue ELSE obj)
         [] cl = "rejectLater" -> No(IF Atomic THEN obj ELSE partial)
         [] cl = "soft"        -> IF sib = {} THEN No(obj) ELSE Ok(comment)

\* Classes refused in every state, and the changes that are invalid whatever the state.
AlwaysInvalid == {"badSig", "rejectLater"} \cup RFClasses
InvalidIn(G) == {c \in NonRootOf(G) : G.cls[c] \in AlwaysInvalid} \cup DetachedRoots(G)

(* The loop of Dag::prune_by: the order is computed once, up front; a node  *)
(* removed meanwhile is skipped; the siblings handed to `apply` are those   *)
(* of the *current* graph (changes pruned earlier are gone, changes that    *)
(* will be pruned later are still there); a refused change is removed with  *)
(* all its dependents.                                                      *)
RECURSIVE Run(_, _, _, _)
Run(G, q, obj, rej) ==
    IF q = <<>> THEN [graph |-> G, obj |-> obj, rejected |-> rej]
    ELSE LET c == Head(q) IN
         IF c \notin G.nodes THEN Run(G, Tail(q), obj, rej)
         ELSE LET r == Apply(G, obj, c, Siblings(G, c)) IN
              IF r.ok THEN Run(G, Tail(q), r.obj, rej)
              ELSE Run(Remove(G, c), Tail(q), r.obj, rej \cup {c})

\* The graph that is traversed: ChangeGraph::evaluate first drops what is detached (after the fix).
EvalGraph(G) == IF DropDetached THEN Attached(G) ELSE G

Eval(G) ==
    LET H == EvalGraph(G)
    IN Run(H, EvalOrder(H), InitObj, IF DropDetached THEN DetachedRoots(G) ELSE {})

\* What `cob::get` returns, projected: the object, the history and its tips.
ViewRec(o, g) == [applied |-> o.applied, log |-> o.timeline, comments |-> o.comments, lww |-> o.lww,
                  labels |-> o.labels, hist |-> g.nodes, tips |-> Tips(g)]
ViewOf(e) == ViewRec(e.obj, e.graph)
\* ... the part of it that an issue exposes (`applied` is the timeline of a patch)
Observable(v) == [log |-> v.log, comments |-> v.comments, lww |-> v.lww, labels |-> v.labels,
                  hist |-> v.hist, tips |-> v.tips]
View(G) == ViewOf(Eval(G))
Pruned(G) == G.nodes \ Eval(G).graph.nodes

-----------------------------------------------------------------------------
(* Step machine: one replica.  The store holds the changes of `store`       *)
(* (chosen in Init); references move (SetRef / DelRef: own updates, fetches *)
(* from peers, in any order); `cob::get` runs as a sequence of steps.       *)

CONSTANTS Namespace

VARIABLES
    store,    \* the change graph with every change the replica may ever hold
    refs,     \* [Namespace -> nodes \cup {None}]: refs/namespaces/<ns>/refs/cobs/<type>/<id>
    pc,       \* "idle" | "load" | "init" | "walk"
    stack,    \* loader work list (`child_ids`, a Vec used as a stack)
    seen,     \* loader: changes added to the graph
    edges,    \* loader: `edges_to_add`, pairs <<child, parent>>
    graph,    \* evaluator: the Dag (as a sub-graph of store)
    queue,    \* evaluator: rest of the order computed by prune_by
    obj,      \* evaluator: the object under construction
    result    \* view returned by the last completed get, NoView before / after a ref moved

vars == <<store, refs, pc, stack, seen, edges, graph, queue, obj, result>>

RefTargets == {refs[n] : n \in Namespace} \ {None}

\* All sequences listing the elements of S once (the order in which references are enumerated).
RECURSIVE Perms(_)
Perms(S) == IF S = {} THEN {<<>>} ELSE UNION {{<<x>> \o p : p \in Perms(S \ {x})} : x \in S}

IdleInit(G) ==
    /\ store = G
    /\ pc = "idle" /\ stack = <<>> /\ seen = {} /\ edges = {}
    /\ graph = Restrict(G, {}) /\ queue = <<>> /\ obj = InitObj /\ result = NoView

\* A namespace's reference is created or moved (to any change the replica holds: references are
\* not required to move forward).
SetRef(n, c) ==
    /\ pc = "idle" /\ c \in store.nodes /\ refs[n] # c
    /\ refs' = [refs EXCEPT ![n] = c]
    /\ result' = NoView
    /\ UNCHANGED <<store, pc, stack, seen, edges, graph, queue, obj>>

DelRef(n) ==
    /\ pc = "idle" /\ refs[n] # None
    /\ refs' = [refs EXCEPT ![n] = None]
    /\ result' = NoView
    /\ UNCHANGED <<store, pc, stack, seen, edges, graph, queue, obj>>

\* cob::get, step 1: `storage.objects(typename, oid)` -- the references in *some* order.
BeginGet ==
    /\ pc = "idle" /\ RefTargets # {}
    /\ \E order \in Perms({n \in Namespace : refs[n] # None}) :
           stack' = [i \in DOMAIN order |-> refs[order[i]]]
    /\ seen' = {} /\ edges' = {} /\ pc' = "load"
    /\ UNCHANGED <<store, refs, graph, queue, obj, result>>

\* ChangeGraph::load, one iteration of `while let Some(child_id) = child_ids.pop()`.
LoadPop ==
    /\ pc = "load" /\ stack # <<>>
    /\ LET c    == stack[Len(stack)]
           rest == SubSeq(stack, 1, Len(stack) - 1)
       IN IF c \in seen
          THEN /\ stack' = rest /\ UNCHANGED <<seen, edges>>
          ELSE /\ seen' = seen \cup {c}
               /\ edges' = edges \cup {<<c, p>> : p \in Deps(store, c)}
               /\ stack' = rest \o SortById(Deps(store, c))
    /\ UNCHANGED <<store, refs, pc, graph, queue, obj, result>>

\* ... the edges are added once every node is there.  An object whose root was not reached is not
\* evaluated (no object / `MissingRoot`).
LoadDone ==
    /\ pc = "load" /\ stack = <<>> /\ Root \in seen
    /\ graph' = Restrict(store, seen)
    /\ pc' = "init"
    /\ UNCHANGED <<store, refs, stack, seen, edges, queue, obj, result>>

LoadFail ==
    /\ pc = "load" /\ stack = <<>> /\ Root \notin seen
    /\ result' = MissingRootView
    /\ pc' = "idle"
    /\ UNCHANGED <<store, refs, stack, seen, edges, graph, queue, obj>>

\* ChangeGraph::evaluate: the root is evaluated separately, what is detached is dropped (after the
\* fix), then the order is computed.
InitRoot ==
    /\ pc = "init"
    /\ obj' = InitObj
    /\ graph' = EvalGraph(graph)
    /\ queue' = EvalOrder(EvalGraph(graph))
    /\ pc' = "walk"
    /\ UNCHANGED <<store, refs, stack, seen, edges, result>>

\* One iteration of the loop in prune_by.
Step ==
    /\ pc = "walk" /\ queue # <<>>
    /\ LET c == Head(queue) IN
       /\ queue' = Tail(queue)
       /\ IF c \notin graph.nodes THEN UNCHANGED <<graph, obj>>
          ELSE LET r == Apply(graph, obj, c, Siblings(graph, c)) IN
               /\ obj' = r.obj
               /\ graph' = IF r.ok THEN graph ELSE Remove(graph, c)
    /\ UNCHANGED <<store, refs, pc, stack, seen, edges, result>>

Finish ==
    /\ pc = "walk" /\ queue = <<>>
    /\ result' = ViewRec(obj, graph)
    /\ pc' = "idle"
    /\ UNCHANGED <<store, refs, stack, seen, edges, graph, queue, obj>>

Next ==
    \/ \E n \in Namespace : (\E c \in store.nodes : SetRef(n, c)) \/ DelRef(n)
    \/ BeginGet \/ LoadPop \/ LoadDone \/ LoadFail \/ InitRoot \/ Step \/ Finish

-----------------------------------------------------------------------------
(* Properties of the step machine.                                          *)

\* The loader finds exactly the reachable closure and its edges, whatever the enumeration order.
LoadIsClosure ==
    pc = "init" =>
        /\ seen = Closure(store, RefTargets)
        /\ edges = {<<c, p>> \in seen \X seen : p \in Deps(store, c)}

\* C05 for the steps of `get`: the view a replica computes is the function View of the closure
\* of its references -- independent of which namespaces hold them and of the enumeration order.
C05_GetIsFunctionOfClosure ==
    (pc = "idle" /\ result # NoView) =>
        LET S == Closure(store, RefTargets)
        IN result = IF Root \in S THEN View(Restrict(store, S)) ELSE MissingRootView

\* While evaluating: the object only ever contains effects of changes still in the graph.
WalkNoTrace ==
    (pc = "walk" /\ Atomic /\ ~SingleInPlace) =>
        /\ Applied(obj) \subseteq graph.nodes /\ Range(obj.timeline) \subseteq graph.nodes
        /\ Range(obj.comments) \subseteq graph.nodes
        /\ obj.lww \in graph.nodes /\ obj.labels \in graph.nodes

-----------------------------------------------------------------------------
(* Theorems about the function View, stated for one graph G (TLC evaluates  *)
(* them for every graph of the bounded instance and for every dependency-   *)
(* closed sub-graph, i.e. every state a replica can be in).                 *)

IsPermutationOf(s, S) == Range(s) = S /\ Len(s) = Cardinality(S)
Pos(s, x) == CHOOSE i \in DOMAIN s : s[i] = x
Filter(s, S) == SelectSeq(s, LAMBDA x : x \in S)

\* The evaluation order lists every non-root change once, after all its dependencies.
OrderIsLinearExtension(G) ==
    LET H == EvalGraph(G)
        o == EvalOrder(H)
    IN /\ IsPermutationOf(o, NonRootOf(H))
       /\ \A c \in NonRootOf(H) : \A d \in Deps(H, c) \ {Root} : d \in Range(o) /\ Pos(o, d) < Pos(o, c)

\* Removing any set of changes closed under dependents does not reorder the others.  (This is
\* what makes pruning sound: the order is computed before anything is pruned.)
OrderStableUnderRemoval(G) ==
    LET H == EvalGraph(G) IN
    \A S \in SUBSET NonRootOf(H) :
        UpClosed(H, S) => EvalOrder(Restrict(H, H.nodes \ S)) = Filter(EvalOrder(H), H.nodes \ S)

\* C06, first half: what is dropped is exactly the refused changes and their dependents, and a
\* change that is invalid in every state is always among them.  (e = Eval(G), passed in so that
\* TLC evaluates it once.)
C06_PrunedIsRejectedUpClosure(G, e) ==
    LET pruned == G.nodes \ e.graph.nodes IN
    /\ pruned = e.rejected \cup UNION {Desc(G, c) : c \in e.rejected}
    /\ InvalidIn(G) \subseteq pruned
    /\ DownClosed(G, e.graph.nodes)

\* C06, second half: the result is identical to evaluating the history from which the dropped
\* changes were removed: same object, same history, same tips.
C06_NoTrace(G, e) == ViewOf(e) = View(Restrict(G, e.graph.nodes))

\* ... and, more directly, nothing of a dropped change is visible in the object: it shows the
\* surviving changes (each once) in evaluation order -- in the list of applied operations, in
\* the thread timeline, in the comments -- and title and labels were written by surviving changes.
LastOf(G, seq, classes) ==
    LET idx == {i \in DOMAIN seq : G.cls[seq[i]] \in classes}
    IN IF idx = {} THEN Root ELSE seq[CHOOSE i \in idx : \A j \in idx : j <= i]

C06_NoEffect(G, e) ==
    LET v == ViewOf(e)
        thread == {c \in v.hist \ {Root} : G.cls[c] \in ThreadClasses}
    IN /\ IsPermutationOf(v.applied, v.hist \ {Root})
       /\ v.applied = Filter(EvalOrder(EvalGraph(G)), v.hist)
       /\ v.log = Filter(v.applied, thread)
       /\ v.comments = v.log
       /\ v.lww = LastOf(G, v.applied, {"ok"})
       /\ v.labels = LastOf(G, v.applied, {"label"})

\* C05 for the function: loading through any reference assignment with the same reachable
\* closure gives the same view.
C05_ClosureOnly(G, R1, R2) ==
    Closure(G, R1) = Closure(G, R2) => View(Restrict(G, Closure(G, R1))) = View(Restrict(G, Closure(G, R2)))

DownSets(G) == {S \in SUBSET G.nodes : Root \in S /\ DownClosed(G, S)}

(* The declarative statement of C05 + C06: the views that the properties *allow* for a change   *)
(* set G, whatever evaluation order an implementation chooses.  The history is the loaded set   *)
(* minus changes that are invalid in every state and their dependents (exactly that, when no    *)
(* change has a state-dependent validity); the object shows every surviving change once, in an  *)
(* order compatible with the dependencies, replies only after their target, the last writer is  *)
(* the last surviving writer.  The transcribed algorithm must stay within it (AlgWithinStatement)*)
(* and so must every answer recorded from the implementation (TraceCob.tla).                    *)
StateDependent == {"needs", "soft"}

Allowed(G, v) ==
    LET thread == {c \in v.hist \ {Root} : G.cls[c] \in ThreadClasses}
        labels == {c \in v.hist \ {Root} : G.cls[c] = "label"}
    IN
    /\ Root \in v.hist /\ v.hist \subseteq G.nodes /\ DownClosed(G, v.hist)
    /\ v.hist \cap InvalidIn(G) = {}
    /\ (\A c \in NonRootOf(G) : G.cls[c] \notin StateDependent)
          => v.hist = G.nodes \ UpClosure(G, InvalidIn(G))
    /\ v.tips = Tips(Restrict(G, v.hist))
    \* the thread shows exactly the surviving thread-touching changes, dependencies first ...
    /\ IsPermutationOf(v.log, thread)
    /\ v.comments = v.log
    /\ \A c \in thread :
          /\ \A d \in Anc(G, c) \cap thread : Pos(v.log, d) < Pos(v.log, c)
          /\ G.cls[c] = "needs" => (G.tgt[c] \in thread /\ Pos(v.log, G.tgt[c]) < Pos(v.log, c))
    \* ... title and labels are those of a last surviving writer
    /\ v.lww = LastOf(G, v.log, {"ok"})
    /\ IF labels = {} THEN v.labels = Root
       ELSE v.labels \in {c \in labels : Desc(G, c) \cap labels = {}}

AlgWithinStatement(G, e) == Allowed(G, Observable(ViewOf(e)))

\* The theorems about one change set H (what a replica holds: closed under dependencies).
TheoremsAt(H) ==
    LET e == Eval(H) IN
    /\ OrderIsLinearExtension(H)
    /\ OrderStableUnderRemoval(H)
    /\ C06_PrunedIsRejectedUpClosure(H, e)
    /\ C06_NoTrace(H, e)
    /\ C06_NoEffect(H, e)
    /\ AlgWithinStatement(H, e)

\* ... for a graph and every dependency-closed part of it (every state a replica that is
\* receiving the graph can be in).
Theorems(G) == \A S \in DownSets(G) : TheoremsAt(Restrict(G, S))
=============================================================================
