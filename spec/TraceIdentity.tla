--------------------------- MODULE TraceIdentity ---------------------------
(* Validates histories recorded from the real identity COB evaluation (harness engine          *)
(* c04_identity, mode record) against Identity.tla.                                            *)
(*                                                                                             *)
(* The trace is a concatenation of histories separated by {"ev":"reset"} records.  Every other *)
(* record is one change in evaluation order: the operation, the step of Identity.tla that the  *)
(* generator intended (lin / forkx / x / forky / y / join), the parents it gave the change and,*)
(* where the history up to that change is complete, the projection of the REAL object after    *)
(* evaluating it (`obs`).  The trace specification replays the operation through the actions   *)
(* of Identity.tla (a change that descends from a change the model pruned is a Skip), requires *)
(* that the parents the generator used are the ones the model derives, and that every observed *)
(* projection equals the model state.  All invariants and step properties of Identity.tla are  *)
(* evaluated on every step.                                                                    *)
EXTENDS Identity, Json, IOUtils, SequencesExt

Rec == ndJsonDeserialize(IOEnv.TRACE)

\* documents of the recorded runs (the engine is started with the same table): the four of the
\* bounded model plus {b,c,s} (the founder and d removed, the stranger added)
TraceDocDels == << {"a","b","c","d"}, {"a","b","c","d"}, {"a","b"}, {"a","b","c","d","s"}, {"b","c","s"} >>

VARIABLE l
tvars == <<st, nops, phase, dead, chainTip, aliveTip, forkPt, xTip, xAlive, yAlive, forks, log, l>>

IsReset == l <= Len(Rec) /\ Rec[l].ev = "reset"

OpOf(e) == [author |-> e.op.author,
            acts |-> [i \in DOMAIN e.op.acts |->
                        [t |-> e.op.acts[i].t, rev |-> e.op.acts[i].rev,
                         doc |-> e.op.acts[i].doc, sig |-> e.op.acts[i].sig]]]

Named(step, op) ==
    IF dead /\ step \in {"lin", "x", "y"} THEN Skip(op)
    ELSE CASE step = "lin"   -> LinStep(op)
           [] step = "forkx" -> ForkX(op)
           [] step = "x"     -> XStep(op)
           [] step = "forky" -> ForkY(op)
           [] step = "y"     -> YStep(op)
           [] step = "join"  -> Join(op)

RevMatches(o) ==
    /\ o.id \in DOMAIN st'.revs
    /\ LET m == st'.revs[o.id] IN
       /\ m.state = o.state /\ m.parent = o.parent /\ m.author = o.author /\ m.doc = o.doc
       /\ Accepts(m) = ToSet(o.accepts)
       /\ (m.state = "accepted" => m.title = o.title)

ObsMatches(o) ==
    /\ st'.current = o.current
    /\ DOMAIN st'.heads = DOMAIN o.heads
    /\ \A k \in DOMAIN st'.heads : st'.heads[k] = o.heads[k]
    /\ Len(o.revs) = Cardinality(DOMAIN st'.revs)
    /\ \A i \in DOMAIN o.revs : RevMatches(o.revs[i])

TInit == Init /\ l = 1

TNext ==
    /\ l <= Len(Rec)
    /\ l' = l + 1
    /\ LET e == Rec[l] IN
       IF e.ev = "reset"
       THEN /\ st' = InitState
            /\ nops' = 0 /\ phase' = "lin" /\ dead' = FALSE
            /\ chainTip' = Root /\ aliveTip' = Root /\ forkPt' = Root /\ xTip' = Root
            /\ xAlive' = 0 /\ yAlive' = 0 /\ forks' = 0
            /\ log' = <<>>
       ELSE /\ Named(e.step, OpOf(e))
            /\ log'[Len(log')].par = ToSet(e.par)
            /\ (e.obs.has => ObsMatches(e.obs))

TSpec == TInit /\ [][TNext]_tvars

\* the step properties of Identity.tla, exempting the artificial reset steps
T_Majority       == [][IsReset \/ MajorityStep]_tvars
T_Strangers      == [][IsReset \/ StrangerStep]_tvars
T_AcceptedStable == [][IsReset \/ AcceptedStableStep]_tvars
T_NoTrace        == [][IsReset \/ NoTraceStep]_tvars

Accepted ==
    IF TLCGet("stats").diameter - 1 = Len(Rec)
    THEN PrintT("TRACE-ACCEPTED")
    ELSE PrintT("TRACE-REJECTED at=" \o ToString(TLCGet("stats").diameter))
=============================================================================
