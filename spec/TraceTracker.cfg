CONSTANTS
  Actor <- TActor
  Doc <- TDoc
  Delegates <- TDelegates
  Threshold <- TThreshold
  LabelSets <- TLabelSets
  AssignSets <- TAssignSets
  Titles = {0, 1, 2, 9}
  Bodies = {0, 1}
  VerdictVals = {0, 1, 2}
  SummaryVals = {0, 1}
  Commit <- TCommit
  Anc <- TAnc
  Kinds <- TKinds
  Creators <- TActor
  MaxC = 1000
  MaxE = 1000
  MaxR = 1000
  MaxRC = 1000
  MaxV = 1000
  MaxVC = 1000
  Reactors <- TActor
  HeadInits = {}
  Pushers = {}
  Variant = "code"
INIT TInit
NEXT TNext
INVARIANTS NoPanic
PROPERTIES C07_Issue C07_Patch C08_Step RejectedNoEffect
POSTCONDITION Accepted
