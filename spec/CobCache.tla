------------------------------ MODULE CobCache ------------------------------
(***************************************************************************)
(* The persistent cache of issues and patches (radicle::cob::cache,        *)
(* cob::patch::cache, cob::issue::cache, radicle-node worker::fetch::      *)
(* cache_cobs) next to the repository it caches.                           *)
(*                                                                         *)
(* Repository side.  A collaborative object is a history of operations;    *)
(* every namespace (the local node "me", a remote "peer") that took part   *)
(* holds one reference to the object, pointing at the last operation it    *)
(* made.  In this module actors are in sync before they act (every new     *)
(* operation has all existing tips as parents), so the history of an       *)
(* object is a sequence `hist[i]` and a reference is an index into it:     *)
(* `tip[i][ns]`.  The object that *direct evaluation* sees is the fold of  *)
(* the prefix up to the greatest tip; an object without references does    *)
(* not exist.  Deleting a reference can therefore make an object fall      *)
(* back to an older state, or disappear.                                   *)
(*                                                                         *)
(* Cache side.  `cache[i]` is a materialised copy of the evaluated object, *)
(* written by                                                              *)
(*   Create / LocalOp   write-through of `Cache::create`, `PatchMut` /     *)
(*                      `IssueMut` transactions,                           *)
(*   Remove             `Cache::remove` (delete my reference, then the     *)
(*                      cache entry),                                      *)
(*   Fetched            `cache_cobs`: after a fetch, update-or-remove for  *)
(*                      every object whose reference changed (created,     *)
(*                      updated or deleted by the peer),                   *)
(*   WriteAll           `Cache::write_all` (clear, then re-insert all).    *)
(*                                                                         *)
(* Queries (`Patches` / `Issues` traits): get, list, list_by_status,       *)
(* counts, find_by_revision.  `Answers(m, viaCache)` computes all of them   *)
(* from an object map; property C09 is                                     *)
(*       Answers(cache, TRUE, n) = Answers(Direct, FALSE, n)                *)
(* (one record of answers per repository)                                   *)
(* in every reachable state.                                               *)
(*                                                                         *)
(* One database, several repositories.  The cache is a single database of  *)
(* the node, shared by all its repositories (`rad` opens one cache.db for   *)
(* every repository in storage).  Every object belongs to one repository    *)
(* (field `repo` of its creation); `cache` holds the rows of all of them,   *)
(* every query is asked about one repository and must only see that         *)
(* repository's rows: QueriesAgree is stated per repository, whatever the   *)
(* other repositories contain.  (Identifiers of objects, revisions and      *)
(* comments are commit ids that cover the repository's identity, so two     *)
(* repositories never share one; the model issues globally fresh ids.)      *)
(* The constant Unscoped names queries whose cached implementation forgets  *)
(* the `repo = ?` condition (MCCobCache_dev_Unscoped*.cfg: TLC rejects).    *)
(*                                                                         *)
(* Three constants switch on what the code did before the fixes recorded   *)
(* in props/C09.findings.json (TLC rejects each, MCCobCache_dev*.cfg):     *)
(*   JsonTree     find_by_revision looks the id up with sqlite json_tree   *)
(*                under $.revisions: it also hits redacted revisions       *)
(*                (value null) and the keys of nested maps (comment ids)   *)
(*                and then fails to decode the value as a revision;        *)
(*   StatusOnly   the cached issue list_by_status compares only the status *)
(*                tag and ignores the close reason;                        *)
(*   RemoveDrops  Cache::remove deletes the cache entry although the       *)
(*                object still exists through the peer's reference.        *)
(***************************************************************************)
EXTENDS Integers, FiniteSets, Sequences, TLC

CONSTANTS
    MaxObjs,        \* bound on the number of objects ever created
    MaxOps,         \* bound on the total number of operations (creations included)
    MaxSteps,       \* bound on the number of steps (operations, removals, write_all)
    NRepos,         \* number of repositories sharing the cache database
    Unscoped,       \* subset of {"get", "list", "status", "counts", "find"}: cached queries that ignore the repository
    JsonTree, StatusOnly, RemoveDrops

Repos == 1..NRepos
Me   == "me"
Peer == "peer"
NS   == {Me, Peer}

PatchStatus == {"draft", "open", "archived", "merged"}
IssueStatus == {"open", "closed:solved", "closed:other"}
StatusClass(s) == IF s \in {"closed:solved", "closed:other"} THEN "closed" ELSE s

None == [kind |-> "none"]

VARIABLES
    hist,       \* [object id -> sequence of operations]
    tip,        \* [object id -> [subset of NS -> index into hist]]
    cache,      \* [subset of object ids -> evaluated object]
    next,       \* next fresh identifier (operation ids are global; object id = id of its first operation)
    steps,
    log         \* history with the expected answers after each step (hidden by VIEW)

vars == <<hist, tip, cache, next, steps, log>>
view == <<hist, tip, cache, next, steps>>

Put(f, k, v) == [x \in DOMAIN f \cup {k} |-> IF x = k THEN v ELSE f[x]]
Drop(f, S)   == [x \in DOMAIN f \ S |-> f[x]]
MaxOf(S)       == CHOOSE x \in S : \A y \in S : y <= x

-----------------------------------------------------------------------------
\* Operations and evaluation (what Patch::op / Issue::op compute, as far as the cache cares)
\* op = [k, id, by, arg, st, kind, repo]

ApplyOp(v, o) ==
    CASE o.k = "create" ->
            [kind |-> o.kind, repo |-> o.repo, status |-> o.st, author |-> o.by,
             revs |-> IF o.kind = "patch" THEN (o.id :> "live") ELSE <<>>,
             revby |-> IF o.kind = "patch" THEN (o.id :> o.by) ELSE <<>>,
             comments |-> <<>>, reviews |-> <<>>,
             merged |-> 0]                       \* the revision that was merged, if any
      [] o.k = "revision" -> [v EXCEPT !.revs = Put(@, o.id, "live"), !.revby = Put(@, o.id, o.by)]
      [] o.k = "redactRev" ->
            \* the revision becomes `null`; its discussion and reviews go with it.
            \* A merged revision is not redacted: the action is accepted and ignored.
            IF o.arg = v.merged THEN v ELSE
            [v EXCEPT !.revs = Put(@, o.arg, "redacted"),
                      !.comments = Drop(@, {c \in DOMAIN @ : @[c].rev = o.arg}),
                      !.reviews  = Drop(@, {r \in DOMAIN @ : @[r].rev = o.arg})]
      [] o.k = "comment" -> [v EXCEPT !.comments = Put(@, o.id, [rev |-> o.arg, state |-> "live", by |-> o.by])]
      [] o.k = "redactComment" -> [v EXCEPT !.comments[o.arg].state = "redacted"]
      [] o.k = "review" -> [v EXCEPT !.reviews = Put(@, o.id, [rev |-> o.arg, by |-> o.by])]
      [] o.k = "reviewComment" ->
            [v EXCEPT !.comments = Put(@, o.id, [rev |-> v.reviews[o.arg].rev, state |-> "live", by |-> o.by])]
      \* the merge is of the latest revision of the patch author (`Patch::latest`)
      [] o.k = "status" -> [v EXCEPT !.status = o.st,
                                     !.merged = IF o.st = "merged"
                                                THEN MaxOf({r \in DOMAIN v.revs : v.revs[r] = "live" /\ v.revby[r] = v.author})
                                                ELSE @]

RECURSIVE Eval(_, _)
Eval(h, n) == IF n = 0 THEN None ELSE ApplyOp(Eval(h, n - 1), h[n])

Objs == DOMAIN hist
Exists(i) == DOMAIN tip[i] # {}
Top(i) == MaxOf({tip[i][ns] : ns \in DOMAIN tip[i]})
Value(i) == Eval(hist[i], Top(i))
\* what direct evaluation of the repository sees
Direct == [i \in {j \in Objs : Exists(j)} |-> Value(i)]

-----------------------------------------------------------------------------
\* Queries, over an object map m

OfKind(m, kind) == {i \in DOMAIN m : m[i].kind = kind}
LiveRevs(v) == {r \in DOMAIN v.revs : v.revs[r] = "live"}
\* keys that sqlite's json_tree finds somewhere below $.revisions besides the live revisions:
\* redacted revisions (value null) and the comment ids of threads inside live revisions
OtherKeys(v) == {r \in DOMAIN v.revs : v.revs[r] = "redacted"} \cup DOMAIN v.comments

Found == "found"
FindByRevision(m, x, tree) ==
    LET live == {p \in OfKind(m, "patch") : x \in LiveRevs(m[p])}
        junk == {p \in OfKind(m, "patch") : x \in OtherKeys(m[p])}
    IN IF live # {} THEN [r |-> Found, patch |-> CHOOSE p \in live : TRUE]
       ELSE IF tree /\ junk # {} THEN [r |-> "error", patch |-> 0]
       ELSE [r |-> "none", patch |-> 0]

ListByStatus(m, kind, s, classOnly) ==
    {i \in OfKind(m, kind) : IF classOnly THEN StatusClass(m[i].status) = StatusClass(s) ELSE m[i].status = s}

Counts(m, kind) ==
    LET classes == IF kind = "patch" THEN PatchStatus ELSE {"open", "closed"} IN
    [c \in classes |-> Cardinality({i \in OfKind(m, kind) : StatusClass(m[i].status) = c})]

Unknown == 0

\* the rows of repository r
InRepo(m, r) == [i \in {j \in DOMAIN m : m[j].repo = r} |-> m[i]]
\* what the implementation of query q looks at when asked about repository r
Scope(m, r, q, viaCache) == IF viaCache /\ q \in Unscoped THEN m ELSE InRepo(m, r)

\* all answers about repository r; n = number of identifiers issued so far (in any repository):
\* every one of them is used as a query argument
AnswersIn(m, viaCache, n, r) ==
    LET mg == Scope(m, r, "get", viaCache)
        ml == Scope(m, r, "list", viaCache)
        ms == Scope(m, r, "status", viaCache)
        mc == Scope(m, r, "counts", viaCache)
        mf == Scope(m, r, "find", viaCache)
    IN
    [get    |-> [i \in 1..n |-> IF i \in DOMAIN mg THEN mg[i] ELSE None],
     list   |-> [patch |-> OfKind(ml, "patch"), issue |-> OfKind(ml, "issue")],
     status |-> [patch |-> [s \in PatchStatus |-> ListByStatus(ms, "patch", s, FALSE)],
                 issue |-> [s \in IssueStatus |-> ListByStatus(ms, "issue", s, viaCache /\ StatusOnly)]],
     counts |-> [patch |-> Counts(mc, "patch"), issue |-> Counts(mc, "issue")],
     find   |-> [x \in 1..n |-> FindByRevision(mf, x, viaCache /\ JsonTree)],
     findUnknown |-> FindByRevision(mf, Unknown, viaCache /\ JsonTree)]

Answers(m, viaCache, n) == [r \in Repos |-> AnswersIn(m, viaCache, n, r)]

\* C09
QueriesAgree == Answers(cache, TRUE, next - 1) = Answers(Direct, FALSE, next - 1)
\* the stronger, structural form (what the write paths are supposed to maintain)
CacheCoherent == cache = Direct

-----------------------------------------------------------------------------
\* Operations an actor may perform on object i in its current state v

NewOp(k, by, arg, st) == [k |-> k, id |-> next, by |-> by, arg |-> arg, st |-> st, kind |-> "-", repo |-> 0]

OpsOn(i, by) ==
    LET v == Value(i) IN
    IF v.kind = "patch" THEN
           {NewOp("revision", by, 0, "-")}
      \cup {NewOp("redactRev", by, r, "-") : r \in {r \in LiveRevs(v) : r # i /\ v.revby[r] = by}}
      \cup {NewOp("comment", by, r, "-") : r \in LiveRevs(v)}
      \cup {NewOp("redactComment", by, c, "-") : c \in {c \in DOMAIN v.comments : v.comments[c].by = by /\ v.comments[c].state = "live"}}
      \cup {NewOp("review", by, r, "-") : r \in {r \in LiveRevs(v) : ~\E w \in DOMAIN v.reviews : v.reviews[w].rev = r /\ v.reviews[w].by = by}}
      \cup {NewOp("reviewComment", by, w, "-") : w \in DOMAIN v.reviews}
      \* lifecycle: the author or a delegate (me); merging: a delegate
      \cup {NewOp("status", by, 0, s) : s \in IF (by = Me \/ v.author = by) /\ v.status # "merged"
                                               THEN ({"draft", "open", "archived"} \ {v.status}) \cup (IF by = Me THEN {"merged"} ELSE {})
                                               ELSE {}}
    ELSE
           {NewOp("comment", by, 0, "-")}
      \cup {NewOp("status", by, 0, s) : s \in IF by = Me \/ v.author = by THEN IssueStatus \ {v.status} ELSE {}}

NoOp == [k |-> "-", id |-> 0, by |-> "-", arg |-> 0, st |-> "-", kind |-> "-", repo |-> 0]
CreateOp(kind, by, st, r) == [k |-> "create", id |-> next, by |-> by, arg |-> 0, st |-> st, kind |-> kind, repo |-> r]
Creations(by) == {CreateOp("patch", by, st, r) : st \in {"open", "draft"}, r \in Repos}
                 \cup {CreateOp("issue", by, "open", r) : r \in Repos}

-----------------------------------------------------------------------------
\* Steps

Init ==
    /\ hist = <<>> /\ tip = <<>> /\ cache = <<>>
    /\ next = 1 /\ steps = 0 /\ log = <<>>

\* `what` describes the step for the replay; `ans` = the answers every query must give in the
\* new state, from the cache and from the repository alike
Record(what) ==
    /\ steps' = steps + 1
    /\ log' = Append(log, [step |-> what,
                           ans |-> Answers([i \in {j \in DOMAIN hist' : DOMAIN tip'[j] # {}} |->
                                               Eval(hist'[i], MaxOf({tip'[i][ns] : ns \in DOMAIN tip'[i]}))], FALSE, next' - 1)])

OpsSoFar == next - 1

\* Cache::create / Cache::draft (patches), Cache::create (issues): me, write-through
Create(o) ==
    /\ Cardinality(Objs) < MaxObjs /\ OpsSoFar < MaxOps
    /\ hist' = Put(hist, o.id, <<o>>)
    /\ tip' = Put(tip, o.id, (Me :> 1))
    /\ cache' = Put(cache, o.id, ApplyOp(None, o))
    /\ next' = next + 1
    /\ Record([a |-> "create", obj |-> o.id, op |-> o])

\* a transaction through PatchMut / IssueMut obtained from the cache: me, write-through
LocalOp(i, o) ==
    /\ OpsSoFar < MaxOps
    /\ i \in DOMAIN cache /\ Exists(i)          \* get_mut reads the cache
    /\ hist' = [hist EXCEPT ![i] = Append(SubSeq(@, 1, Top(i)), o)]
    /\ tip' = [tip EXCEPT ![i] = Put(@, Me, Top(i) + 1)]
    /\ cache' = Put(cache, i, ApplyOp(Value(i), o))
    /\ next' = next + 1
    /\ Record([a |-> "local", obj |-> i, op |-> o])

\* Cache::remove: my reference goes; the entry is removed -- or, if the object lives on through
\* the peer's reference, rewritten with what is left of it
RemoveMine(i) ==
    /\ i \in Objs /\ Me \in DOMAIN tip[i]
    /\ tip' = [tip EXCEPT ![i] = Drop(@, {Me})]
    /\ cache' = IF Peer \in DOMAIN tip[i] /\ ~RemoveDrops
                THEN Put(cache, i, Eval(hist[i], tip[i][Peer]))
                ELSE Drop(cache, {i})
    /\ UNCHANGED <<hist, next>>
    /\ Record([a |-> "remove", obj |-> i, op |-> NoOp])

\* the peer acted (one new object or one operation on an existing object), we fetched, and the
\* worker called cache_cobs with the references that changed: update-or-remove
FetchedCreate(o) ==
    /\ Cardinality(Objs) < MaxObjs /\ OpsSoFar < MaxOps
    /\ hist' = Put(hist, o.id, <<o>>)
    /\ tip' = Put(tip, o.id, (Peer :> 1))
    /\ cache' = Put(cache, o.id, ApplyOp(None, o))
    /\ next' = next + 1
    /\ Record([a |-> "fetchedCreate", obj |-> o.id, op |-> o])

FetchedOp(i, o) ==
    /\ OpsSoFar < MaxOps
    /\ Exists(i)
    /\ hist' = [hist EXCEPT ![i] = Append(SubSeq(@, 1, Top(i)), o)]
    /\ tip' = [tip EXCEPT ![i] = Put(@, Peer, Top(i) + 1)]
    /\ cache' = Put(cache, i, ApplyOp(Value(i), o))
    /\ next' = next + 1
    /\ Record([a |-> "fetched", obj |-> i, op |-> o])

\* the peer deleted its reference; the fetch pruned it here
FetchedDelete(i) ==
    /\ i \in Objs /\ Peer \in DOMAIN tip[i]
    /\ tip' = [tip EXCEPT ![i] = Drop(@, {Peer})]
    /\ cache' = IF Me \in DOMAIN tip[i] THEN Put(cache, i, Eval(hist[i], tip[i][Me])) ELSE Drop(cache, {i})
    /\ UNCHANGED <<hist, next>>
    /\ Record([a |-> "fetchedDelete", obj |-> i, op |-> NoOp])

\* Cache::write_all for one kind in one repository: delete that repository's rows of the kind,
\* then insert everything direct evaluation lists there
WriteAll(kind, r) ==
    LET old == OfKind(InRepo(cache, r), kind)
        new == OfKind(InRepo(Direct, r), kind)
    IN
    /\ cache' = [i \in (DOMAIN cache \ old) \cup new |-> IF i \in new THEN Direct[i] ELSE cache[i]]
    /\ UNCHANGED <<hist, tip, next>>
    /\ Record([a |-> "writeAll", obj |-> 0, op |-> [NoOp EXCEPT !.kind = kind, !.repo = r]])

Next ==
    /\ steps < MaxSteps
    /\ \/ \E o \in Creations(Me) : Create(o)
       \/ \E o \in Creations(Peer) : FetchedCreate(o)
       \/ \E i \in Objs : Exists(i) /\ (\E o \in OpsOn(i, Me) : LocalOp(i, o))
       \/ \E i \in Objs : Exists(i) /\ (\E o \in OpsOn(i, Peer) : FetchedOp(i, o))
       \/ \E i \in Objs : RemoveMine(i) \/ FetchedDelete(i)
       \/ \E kind \in {"patch", "issue"}, r \in Repos : WriteAll(kind, r)

Spec == Init /\ [][Next]_vars
=============================================================================
