CONSTANTS
  Family = "lists"
  MaxDelegates = 255
  CurrentVersion = 1
  MaxEdits = 1
  EditDids = {1, 256}
  EditThresholds = {0, 255, 256}
  Payloads = {"project"}
  ListIds = {2, 3, 5, 8, 11, 13}
  ListThresholds = {0, 1, 255, 256}
  JsonDocs <- MCJsonDocs
INIT Init
NEXT Next
INVARIANTS AcceptedIsValid FoldIsDedupThenLimit AcceptIffRules RefusedJson RoundTrip RidIsInitialDoc FuncAgrees EmitInv
