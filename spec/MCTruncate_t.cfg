\* thorough, strings: every string of <= 5 graphemes over all 7 kinds, as a one-item line
CONSTANTS
  KindIds = {1, 2, 3, 4, 5, 6, 7}
  MaxLen = 5
  MaxItems = 1
  MaxW = 6
  ND = 4
  Orig = FALSE
  GW <- MCGW
  GB <- MCGB
  GWs <- MCGWs
  Lines <- MCLines
  Widths <- MCWidths
  Delims <- MCDelims
SPECIFICATION Spec
INVARIANTS NoPanic WidthBound Shape StrSound IterBound FuncAgrees EmitInv
PROPERTIES Decreases Termination
