CONSTANTS
  Rid = {"R1", "R2"}
  Node = {"D", "A", "O"}
  Variant = "design"
  MaxSent = 1
  Dynamic = TRUE
  Scale = "q"
INIT MCInit
NEXT MCNext
INVARIANTS TypeOK C12_ServeOnlyIfAllowed C12_RefusalBeforeData C12_ServedIsAuthorised ParserSound C13_NoCrash
