\* gating only
CONSTANTS
  MaxDelegates = 255
  CurrentVersion = 1
  MaxEdits = 0
  JsonDocs <- None
  EditDids <- None
  EditThresholds <- None
INIT TInit
NEXT TNext
INVARIANTS NoPanic AcceptedIsValid
POSTCONDITION Accepted
