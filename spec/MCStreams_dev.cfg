CONSTANTS
  MaxSeq = 3
  MaxOps = 6
  Dev = {"remote-opens-any"}
INIT Init
NEXT Next
VIEW view
INVARIANTS NoCrash
