CONSTANTS
  MaxSeq = 2
  MaxTasks = 4
  MaxEpoch = 2
  MaxOps = 7
  Dev = {"remote-opens-any"}
INIT Init
NEXT Next
VIEW view
INVARIANTS NoCrash
