\* C06 thorough (1): every change graph on the root + 3 changes, timestamps 1..2, every assignment
\* of the six payload classes; the theorems also for every dependency-closed part of each graph.
CONSTANTS
  Atomic = TRUE
  SingleInPlace = FALSE
  DropDetached = TRUE
  Namespace = {1}
  M = 3
  MaxTs = 2
  Classes = {"ok", "guest", "label", "needs", "badSig", "rf.redactMissing.d", "rf.redactMissing.g", "rf.editMissing.d", "rf.editMissing.g", "rf.reactMissing.d", "rf.reactMissing.g", "rf.replyMissing.d", "rf.replyMissing.g", "rf.badTitle.d", "rf.badTitle.g", "rf.label.g", "rejectLater"}
  MaxBad = 3
  FullCauses = 1
  AllowDetached = FALSE
  Emit = TRUE
  EmitMod = 1
INIT InitGraphs
NEXT NextGraphs
INVARIANTS TheoremsHold TheoremsHoldAllClosures EmitInv
