\* C06 thorough (1): every change graph on the root + 3 changes, timestamps 1..2, every assignment
\* of the six payload classes; the theorems also for every dependency-closed part of each graph.
CONSTANTS
  Atomic = TRUE
  DropDetached = TRUE
  Namespace = {1}
  M = 3
  MaxTs = 2
  Classes = {"ok", "guest", "needs", "badSig", "rejectFirst", "rejectLater"}
  MaxBad = 3
  AllowDetached = FALSE
  Emit = TRUE
  EmitMod = 1
INIT InitGraphs
NEXT NextGraphs
INVARIANTS TheoremsHold TheoremsHoldAllClosures EmitInv
