CONSTANTS
  Values = {}
  Variant = "spec"
INIT TInit
NEXT TNext
INVARIANTS AlgMatchesDefinition FloatsRejected Statement
POSTCONDITION Accepted
