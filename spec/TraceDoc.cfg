\* AcceptedIsValid is C19 (gating); FuncAgrees is the exact verdict of the transcribed rules (drift)
CONSTANTS
  MaxDelegates = 255
  CurrentVersion = 1
  MaxEdits = 0
  JsonDocs <- None
  EditDids <- None
  EditThresholds <- None
INIT TInit
NEXT TNext
INVARIANTS NoPanic AcceptedIsValid FuncAgrees
POSTCONDITION Accepted
