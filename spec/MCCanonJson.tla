---------------------------- MODULE MCCanonJson ----------------------------
(* Bounded instances of CanonJson: which JSON values TLC enumerates.               *)
(* Alphabet: b d e  U+0301 (combining acute)  U+00E9 (e-acute)  "  \  U+0001  LF   *)
(* space  U+007F.  `e U+0301` is the non-NFC spelling of U+00E9; space sorts below *)
(* the closing quote; U+0001 / LF / " / \ are emitted as escapes; U+007F is not.   *)
EXTENDS CanonJson, Json

CONSTANTS StrLen,      \* scalar strings: every string over Alphabet up to this length ...
          CoreStrLen,  \* ... and every string over CoreAlphabet up to this (larger) length
          FullKeyLen,  \* objects with two members: every ordered pair of keys up to this length
          TripleKeys,  \* objects with three members: every ordered triple over the first n keys of KeySeq
          Deep         \* TRUE: larger nesting pools

Alphabet == {98, 100, 101, 769, 233, 34, 92, 1, 10, 32, 127}
CoreAlphabet == {101, 769, 34, 98}      \* composition, composition blocked by an escape, fragments
StrsOver(A, n) == UNION {[1..k -> A] : k \in 0..n}
StrsUpTo(n) == StrsOver(Alphabet, n)

\* number texts: 0 -1 7, the 64-bit bounds and their neighbours, float syntax
T(ds) == [i \in DOMAIN ds |-> IF ds[i] < 10 THEN 48 + ds[i]
                              ELSE CASE ds[i] = 10 -> 46 [] ds[i] = 11 -> 101 [] ds[i] = 12 -> 69 [] ds[i] = 13 -> 45]
NumTexts == {
    T(<<0>>), T(<<13,1>>), T(<<7>>),
    T(<<9,2,2,3,3,7,2,0,3,6,8,5,4,7,7,5,8,0,7>>),            \* i64::MAX
    T(<<9,2,2,3,3,7,2,0,3,6,8,5,4,7,7,5,8,0,8>>),            \* i64::MAX + 1 (still u64)
    T(<<13,9,2,2,3,3,7,2,0,3,6,8,5,4,7,7,5,8,0,8>>),         \* i64::MIN
    T(<<13,9,2,2,3,3,7,2,0,3,6,8,5,4,7,7,5,8,0,9>>),         \* i64::MIN - 1: f64
    T(<<1,8,4,4,6,7,4,4,0,7,3,7,0,9,5,5,1,6,1,5>>),          \* u64::MAX
    T(<<1,8,4,4,6,7,4,4,0,7,3,7,0,9,5,5,1,6,1,6>>),          \* u64::MAX + 1: f64
    T(<<1,10,5>>), T(<<1,11,3>>), T(<<1,12,3>>), T(<<8,10,0>>) }   \* 1.5 1e3 1E3 8.0

Scalars == {Null, Bool(TRUE), Bool(FALSE)} \cup {Num(t) : t \in NumTexts} \cup {Str(s) : s \in StrsUpTo(StrLen) \cup StrsOver(CoreAlphabet, CoreStrLen)}

\* keys chosen to separate the candidate orders (raw bytes / normalised / as emitted)
KeySeq == << <<98>>, <<98, 32>>, <<101, 769>>, <<233>>, <<98, 1>>, <<98, 34>>, <<>>, <<101, 100>>, <<100>>, <<98, 100>>,
            <<233, 98>>, <<101, 769, 98>>, <<98, 127>>, <<98, 92>>, <<32>>, <<1>>, <<34>>, <<92>>, <<127>>, <<769>>,
            <<101>>, <<10>> >>
KeyPool == {KeySeq[i] : i \in DOMAIN KeySeq}
N(i) == Num(<<48 + i>>)
Pairs(K)   == {Obj(<< <<k1, N(1)>>, <<k2, N(2)>> >>) : k1 \in K, k2 \in K} 
Triples(K) == {Obj(<< <<k[1], N(1)>>, <<k[2], N(2)>>, <<k[3], N(3)>> >>) :
                  k \in {t \in K \X K \X K : t[1] # t[2] /\ t[1] # t[3] /\ t[2] # t[3]}}
DistinctKeys(o) == \A i, j \in DOMAIN Pay(o) : i # j => Pay(o)[i][1] # Pay(o)[j][1]
Objects == {Obj(<<>>)} \cup {Obj(<< <<k, N(1)>> >>) : k \in KeyPool}
           \cup {o \in Pairs(KeyPool \cup StrsUpTo(FullKeyLen)) : DistinctKeys(o)}
           \cup Triples({KeySeq[i] : i \in 1..TripleKeys})

SeqsUpTo(S, n) == UNION {[1..k -> S] : k \in 0..n}
ElemPool == {Null, Bool(FALSE), N(0), Num(T(<<13,9,2,2,3,3,7,2,0,3,6,8,5,4,7,7,5,8,0,8>>)), Num(T(<<1,10,5>>)),
             Str(<<>>), Str(<<101, 769>>), Str(<<98, 10>>)}
Arrays == {Arr(a) : a \in SeqsUpTo(ElemPool, 3)}

\* depth-1 containers used as members of depth-2 (and, if Deep, depth-3) values
Pool1 == {Arr(<<>>), Obj(<<>>), Arr(<<N(1)>>), Arr(<<Str(<<101, 769>>), Null>>),
          Obj(<< <<<<98>>, N(1)>> >>),
          Obj(<< <<<<101, 769>>, N(1)>>, <<<<233>>, N(2)>> >>),          \* collide after NFC
          Obj(<< <<<<100>>, N(2)>>, <<<<98, 32>>, N(3)>>, <<<<98>>, N(1)>> >>),
          Obj(<< <<<<100>>, Num(T(<<1,10,5>>))>> >>)}                    \* float inside
NestKeys == {<<100>>, <<98>>, <<101, 769>>, <<1>>}
Nest(P) == {Arr(a) : a \in SeqsUpTo(P, IF Deep THEN 3 ELSE 2) \ {<<>>}}
           \cup {Obj(<< <<kk[1], x>>, <<kk[2], y>> >>) : kk \in {q \in NestKeys \X NestKeys : q[1] # q[2]}, x \in P, y \in P}
           \cup {Obj(<< <<k1, x>> >>) : k1 \in NestKeys, x \in P}
Depth2 == Nest(Pool1 \cup {N(0), Str(<<34>>)})
Pool2 == {Arr(<<Obj(<< <<<<100>>, Arr(<<>>)>>, <<<<98>>, Obj(<<>>)>> >>)>>),
          Obj(<< <<<<100>>, Obj(<< <<<<100>>, N(1)>>, <<<<98>>, N(2)>> >>)>>, <<<<98>>, Arr(<<N(1), N(2)>>)>> >>),
          Obj(<< <<<<98>>, Arr(<<Obj(<< <<<<233>>, Null>> >>)>>)>> >>)}
Depth3 == IF Deep THEN Nest(Pool2 \cup {N(0), Arr(<<>>)}) ELSE {Arr(<<x>>) : x \in Pool2}

\* a handful of values for the runs with a deliberately wrong formatter (cfg files *_dev_*)
DevValues == {Obj(<< <<<<100>>, N(1)>>, <<<<98>>, N(2)>> >>), Str(<<98, 101, 769>>), Arr(<<N(1), Num(T(<<1,10,5>>))>>),
              Obj(<< <<<<101, 769>>, Str(<<101, 769>>)>> >>), Null}

MCValues == Scalars \cup Objects \cup Arrays \cup Depth2 \cup Depth3

\* One case per finished serialisation: the value, the bytes the model expects ([-1] = refused)
\* and whether ordering by raw key bytes would have given the same output.
EmitInv == Done => PrintT(<<"CASE", ToJson([v |-> v, exp |-> Result, raw |-> RawOrderAgrees(v)])>>)
=============================================================================
