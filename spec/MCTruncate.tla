----------------------------- MODULE MCTruncate -----------------------------
(* Bounded instances of Truncate.tla.  Graphemes are the kind numbers below; the harness       *)
(* concretises each kind by several real clusters with exactly these attributes (e.g. kind 1   *)
(* as "a" or "e"+U+0301, kind 6 as U+3000).                                                    *)
(*   1 [w1 b1 --]  a            2 [w2 b3 --]  好            3 [w1 b1 ws]  ' '                   *)
(*   4 [w1 b2 ws]  U+00A0       5 [w1 b3 ws]  U+2003        6 [w2 b3 ws]  U+3000                *)
(*   7 [w0 b3 --]  zero width (not realisable with unicode-display-width 0.3: design level only) *)
(*   8 [w1 b3 --]  the delimiter "…"     9 [w1 b1 --]  "." (the delimiter ".." is two of them) *)
(*  10 [w2 b3 --]  a two-column delimiter, "＊"   (8, 9, 10 only occur in delimiters, so that   *)
(*                 the harness can tell input clusters from delimiter clusters in a result)     *)
EXTENDS Truncate, Json

CONSTANTS KindIds,    \* kinds input strings are built from
          MaxLen,     \* graphemes per item
          MaxItems,   \* items per line
          MaxW,       \* widths 0..MaxW
          ND          \* number of delimiters taken from DelimSeq

KindW  == <<1, 2, 1, 1, 1, 2, 0, 1, 1, 2>>
KindB  == <<1, 3, 1, 2, 3, 3, 3, 3, 1, 3>>
KindWs == <<FALSE, FALSE, TRUE, TRUE, TRUE, TRUE, FALSE, FALSE, FALSE, FALSE>>
MCGW(g)  == KindW[g]
MCGB(g)  == KindB[g]
MCGWs(g) == KindWs[g]
Realisable == {1, 2, 3, 4, 5, 6, 8, 9, 10}

DelimSeq == << <<>>, <<8>>, <<10>>, <<9, 9>> >>

RECURSIVE StrN(_)
StrN(n) == IF n = 0 THEN {<<>>} ELSE {Append(s, g) : s \in StrN(n - 1), g \in KindIds}
Strs == UNION {StrN(n) : n \in 0..MaxLen}
RECURSIVE LinesN(_)
LinesN(n) == IF n = 0 THEN {<<>>} ELSE {Append(l, s) : l \in LinesN(n - 1), s \in Strs}

MCLines  == UNION {LinesN(n) : n \in 0..MaxItems}
MCWidths == 0..MaxW
MCDelims == {DelimSeq[i] : i \in 1..ND}

\* One case per input line: the expected result for every width and delimiter.
Res(l, w, d) == LET f == LineTruncate(l, w, d) IN [r |-> f.res, o |-> f.out]
IsReal(l) == \A i \in DOMAIN l : \A j \in DOMAIN l[i] : l[i][j] \in Realisable
Emit == PrintT(<<"CASE", ToJson([line |-> line,
                                 exp  |-> [wi \in 1..(MaxW + 1) |-> [di \in 1..ND |-> Res(line, wi - 1, DelimSeq[di])]]])>>)
EmitInv == (iters = 0 /\ width = 0 /\ delim = DelimSeq[1] /\ IsReal(line)) => Emit
=============================================================================
