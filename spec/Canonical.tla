------------------------------ MODULE Canonical ------------------------------
(***************************************************************************)
(* Canonical reference computation (radicle::git::canonical).              *)
(*                                                                         *)
(* State: a commit graph (parents), the tip each delegate currently        *)
(* publishes for the reference (0 = the delegate has no such reference),   *)
(* changed by Vote(d, c) -- which is what `Canonical::modify_vote` / a     *)
(* push by delegate d does.  The canonical head for a threshold is a       *)
(* function of that state.                                                 *)
(*                                                                         *)
(* Two descriptions of the function are given:                             *)
(*   Allowed    -- declarative: what property C03 permits;                 *)
(*   AlgOutcomes-- operational: `Canonical::quorum` transcribed (vote      *)
(*                 counting, then the "longest" scan over the candidates   *)
(*                 in object-id order, which the model treats as an        *)
(*                 arbitrary order).                                       *)
(* TLC checks AlgOutcomes \subseteq Allowed in every reachable state; the  *)
(* harness checks that the real `quorum` answers inside Allowed (gating)   *)
(* and inside AlgOutcomes (reported as drift).                             *)
(***************************************************************************)
EXTENDS Integers, FiniteSets, Sequences, TLC

CONSTANTS N,          \* commits are 1..N; parents of c are among 1..c-1
          Delegate,   \* set of delegate ids (1..K)
          PairCounting \* TRUE: model the pair-counting vote phase of the original code

Commit == 1..N
NoHead == 0           \* outcome: no head (NoCandidates / Diverging / git error)

VARIABLES parents,    \* sequence of length N: parents[c] \subseteq 1..c-1
          tips        \* [Delegate -> 0..N]
vars == <<parents, tips>>

-----------------------------------------------------------------------------
\* Commit graphs

ParentChoices(c) == {S \in SUBSET (1..(c-1)) : Cardinality(S) <= 2}

RECURSIVE Dags(_)
Dags(n) == IF n = 0 THEN {<<>>}
           ELSE {Append(g, p) : g \in Dags(n-1), p \in ParentChoices(n)}

RECURSIVE Anc(_, _)
Anc(par, c) == {c} \cup UNION {Anc(par, p) : p \in par[c]}

\* a is equal to, or an ancestor of, b
IsAnc(par, a, b) == a \in Anc(par, b)
Related(par, a, b) == Anc(par, a) \cap Anc(par, b) # {}

-----------------------------------------------------------------------------
\* Declarative statement (C03)

Present(t) == {d \in DOMAIN t : t[d] # 0}
TipSet(t) == {t[d] : d \in Present(t)}
Support(par, t, c) == {d \in Present(t) : IsAnc(par, c, t[d])}
Cand(par, t, thr) == {c \in TipSet(t) : Cardinality(Support(par, t, c)) >= thr}
Dominant(par, C) == {m \in C : \A c \in C : IsAnc(par, c, m)}

\* The head the statement requires when one may be returned at all, else NoHead.
Expected(par, t, thr) ==
    LET C == Cand(par, t, thr)
        D == Dominant(par, C)
    IN IF D = {} THEN NoHead ELSE CHOOSE m \in D : TRUE

\* Outcomes the statement permits. A head must be the dominant sufficiently supported tip.
\* (Refusing to answer when a dominant tip exists is not excluded by the statement.)
Allowed(par, t, thr) == {NoHead, Expected(par, t, thr)}

-----------------------------------------------------------------------------
\* `Canonical::quorum`, transcribed

\* git merge-base: the model only needs "is the base one of the two commits";
\* unrelated histories make libgit2 return NotFound, which `quorum` propagates.
BaseIs(par, x, a, b) == x \in {a, b} /\ IsAnc(par, x, a) /\ IsAnc(par, x, b)

\* Phase 1, fixed code: one vote per delegate whose tip equals or descends from the commit.
VotesDistinct(par, t, c) == Cardinality({d \in Present(t) : t[d] = c \/ BaseIs(par, c, c, t[d])})

\* Phase 1, original code: a direct vote per delegate, plus one vote to the base for every
\* unordered pair of delegates with different tips whose merge base is one of the two tips.
VotesPairs(par, t, c) ==
    Cardinality({d \in Present(t) : t[d] = c})
  + Cardinality({p \in Present(t) \X Present(t) :
                    /\ p[1] < p[2] /\ t[p[1]] # t[p[2]]
                    /\ BaseIs(par, c, t[p[1]], t[p[2]])})

Votes(par, t, c) == IF PairCounting THEN VotesPairs(par, t, c) ELSE VotesDistinct(par, t, c)

AlgCand(par, t, thr) == {c \in TipSet(t) : Votes(par, t, c) >= thr}

\* does phase 1 hit a pair of unrelated tips? (git error)
Phase1Error(par, t) == \E a, b \in TipSet(t) : ~Related(par, a, b)

\* Phase 2: scan the candidates in the given order.
RECURSIVE Scan(_, _, _)
Scan(par, longest, rest) ==
    IF rest = <<>> THEN longest
    ELSE LET h == Head(rest) IN
         IF ~Related(par, h, longest) THEN NoHead                    \* git error
         ELSE IF IsAnc(par, longest, h) THEN Scan(par, h, Tail(rest)) \* base = longest
         ELSE IF IsAnc(par, h, longest) THEN Scan(par, longest, Tail(rest))
         ELSE NoHead                                                  \* Diverging

Perms(S) == {s \in [1..Cardinality(S) -> S] : \A i, j \in 1..Cardinality(S) : i # j => s[i] # s[j]}

AlgOutcomes(par, t, thr) ==
    IF Phase1Error(par, t) THEN {NoHead}
    ELSE LET C == AlgCand(par, t, thr) IN
         IF C = {} THEN {NoHead}
         ELSE {Scan(par, s[1], SubSeq(s, 2, Len(s))) : s \in Perms(C)}

-----------------------------------------------------------------------------
\* State machine

Init == /\ parents \in Dags(N)
        /\ tips = [d \in Delegate |-> 0]

Vote(d, c) == /\ tips' = [tips EXCEPT ![d] = c]
              /\ UNCHANGED parents

Next == \E d \in Delegate, c \in 0..N : Vote(d, c)

Spec == Init /\ [][Next]_vars

Thresholds == 1..Cardinality(Delegate)

\* C03, on the algorithm as designed
AlgSound == \A thr \in Thresholds : AlgOutcomes(parents, tips, thr) \subseteq Allowed(parents, tips, thr)

\* The statement's three clauses, spelled out on whatever head the algorithm can return.
HeadIsSupportedTip ==
    \A thr \in Thresholds : \A h \in AlgOutcomes(parents, tips, thr) \ {NoHead} :
        /\ h \in TipSet(tips)
        /\ Cardinality(Support(parents, tips, h)) >= thr
        /\ \A c \in Cand(parents, tips, thr) : IsAnc(parents, h, c) => c = h
NoSupportNoHead ==
    \A thr \in Thresholds : Cand(parents, tips, thr) = {} => AlgOutcomes(parents, tips, thr) = {NoHead}
DivergenceIsError ==
    \A thr \in Thresholds :
        (Cand(parents, tips, thr) # {} /\ Dominant(parents, Cand(parents, tips, thr)) = {})
            => AlgOutcomes(parents, tips, thr) = {NoHead}
=============================================================================
