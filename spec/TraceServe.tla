----------------------------- MODULE TraceServe -----------------------------
(* Validates what was recorded from the implementation against Serve.tla.                      *)
(*                                                                                             *)
(* One ndjson record per step:                                                                 *)
(*   {"k":"hdr","len":<LenClass>,"body":[tokens],"res":{ok,err,rid,host,port,nextra,v2}}       *)
(*       a header (random token sequence, beyond MCServe's product) fed as real bytes to the   *)
(*       real `pktline::git_request`, and what it returned                                     *)
(*   {"k":"world","def":..,"pol":{rid:..},"present":{..},"docok":{..},"private":{..},"allow":{rid:[..]}, *)
(*    "delegates":{rid:[..]}}   the state a responder node was set up with                     *)
(*   {"k":"policy","rid":..,"p":..}   a policy row rewritten on the running responder          *)
(*   {"k":"fetch","n":..,"rid":..,"served":b,"ok":b,"had":b,"has":b}                           *)
(*       one `Handle::fetch(rid, responder)` from requester n between real nodes: whether the   *)
(*       responder emitted upload-pack data for (rid, n), whether the requester reports        *)
(*       success, and whether the requester's storage held the repository before / after.      *)
(*                                                                                             *)
(* Each record becomes one state of Serve's variables (the stream variables show the request    *)
(* at its end), so that every invariant of Serve.tla is evaluated on what really happened.      *)
EXTENDS Serve, Json, IOUtils, SequencesExt

Rec == ndJsonDeserialize(IOEnv.TRACE)

\* Rid and Node are fixed in the cfg (R1..R48; D, A, O): the harness names repositories within that set.

VARIABLES l, cur
tvars == <<vars, l, cur>>

HonestHdr(r) == [len |-> "exact", body |-> <<"CMD", "SP", "SL", r, "NUL", "NUL", "V2", "NUL">>]

TInit == /\ l = 1 /\ cur = [k |-> "init"]
         /\ default = "block"
         /\ policy = [r \in Rid |-> "none"]
         /\ repo = [r \in Rid |-> [present |-> FALSE, docok |-> FALSE, private |-> FALSE, allow |-> {}, delegates |-> {}]]
         /\ StreamInit

Get(f, r, dflt) == IF r \in DOMAIN f THEN f[r] ELSE dflt

StepWorld(r) ==
    /\ default' = r.def
    /\ policy' = [x \in Rid |-> Get(r.pol, x, "none")]
    /\ repo' = [x \in Rid |-> [present |-> Get(r.present, x, FALSE), docok |-> Get(r.docok, x, FALSE),
                               private |-> Get(r.private, x, FALSE),
                               allow |-> ToSet(Get(r.allow, x, <<>>)), delegates |-> ToSet(Get(r.delegates, x, <<>>))]]
    /\ UNCHANGED stream

\* {"k":"doc","rid":..,"ok":b}: the responder's identity head for rid was moved to a revision whose
\* document cannot be read (ok = false) or back (ok = true)
StepDoc(r) ==
    /\ repo' = [repo EXCEPT ![r.rid].docok = r.ok]
    /\ UNCHANGED <<default, policy, stream>>

StepPolicy(r) ==
    /\ policy' = [policy EXCEPT ![r.rid] = r.p]
    /\ UNCHANGED <<default, repo, stream>>

\* the request at its end, as observed
StepFetch(r) ==
    /\ UNCHANGED world
    /\ pc' = "closed" /\ remote' = r.n /\ hdr' = HonestHdr(r.rid) /\ req' = ParseBody(HonestHdr(r.rid).body)
    /\ snap' = [seeded |-> Seeded(default, policy, r.rid), present |-> repo[r.rid].present, docok |-> repo[r.rid].docok,
                visible |-> VisibleTo(repo, r.rid, r.n)]
    /\ sent' = IF r.served THEN 1 ELSE 0
    /\ authRid' = IF r.served THEN r.rid ELSE NoRid
    /\ servedRid' = IF r.served THEN r.rid ELSE NoRid
    /\ outcome' = IF r.served THEN "served" ELSE "refused:observed"

StepHdr(r) ==
    /\ UNCHANGED world
    /\ hdr' = [len |-> r.len, body |-> r.body] /\ req' = r.res /\ remote' = "O"
    /\ pc' = IF r.res.ok THEN "parsed" ELSE "closed"
    /\ outcome' = IF r.res.ok THEN "-" ELSE IF r.res.err = "panic" THEN "crash" ELSE "refused:header"
    /\ sent' = 0 /\ authRid' = NoRid /\ servedRid' = NoRid /\ snap' = NoSnap

TNext == /\ l <= Len(Rec)
         /\ l' = l + 1
         /\ cur' = Rec[l]
         /\ LET r == Rec[l] IN
            CASE r.k = "world"  -> StepWorld(r)
              [] r.k = "policy" -> StepPolicy(r)
              [] r.k = "doc"    -> StepDoc(r)
              [] r.k = "fetch"  -> StepFetch(r)
              [] r.k = "hdr"    -> StepHdr(r)

\* C12 on an observed fetch, stated directly (C12_ServeOnlyIfAllowed says the same through snap):
FetchAllowed == cur.k = "fetch" /\ cur.served => MayServe(default, policy, repo, cur.rid, cur.n)
\* a requester that was refused holds nothing of the repository afterwards
RefusedLeavesNothing == cur.k = "fetch" /\ ~cur.served /\ ~cur.had => ~cur.has
\* Informational (separate cfg): the implementation follows the model exactly, i.e. also serves
\* whenever it may, and reads headers exactly as transcribed.
FetchExact == cur.k = "fetch" => (cur.served <=> MayServe(default, policy, repo, cur.rid, cur.n))
HdrExact == cur.k = "hdr" => cur.res \in ReadOutcomes([len |-> cur.len, body |-> cur.body])

Accepted ==
    IF TLCGet("stats").diameter - 1 = Len(Rec)
    THEN PrintT("TRACE-ACCEPTED")
    ELSE PrintT("TRACE-REJECTED at=" \o ToString(TLCGet("stats").diameter))
=============================================================================
