CONSTANTS
  Peer = {1, 2}
  Other = {3}
  Repo = {1, 2, 3}
  Stored = {1, 2}
  Seeded = {1, 2}
  InitPrivate = {2, 3}
  Allow <- MCAllow
  Delegates <- MCDelegates
  TS = {0, 5, 6, 4000}
  MaxTicks = 2
  MaxOps = 6
  Dev = {}
  Anns <- MCAnns
  InvOf <- MCInvOf
INIT Init
NEXT Next
VIEW view
INVARIANTS EmitInv C10_StoreFresh C10_NoEcho C10_NoEchoReplay C10_RelayStored C11_Refs C29_OwnStoredBelowCounter RoutingJustified RoutingKnownNodes
PROPERTIES C10_Monotone C11_InventoryAtCreation C29_Increasing OwnRoutingPublicAtStart
