------------------------------- MODULE Fetch -------------------------------
(***************************************************************************)
(* One fetch of radicle-fetch (`radicle_fetch::clone` / `pull`), as the    *)
(* sequence of stages of `FetchState::run` (crates/radicle-fetch/src/      *)
(* state.rs), between a *serving peer* whose repository content is chosen  *)
(* arbitrarily (honest or tampered with) and the *local storage*.          *)
(*                                                                         *)
(* What is abstracted                                                      *)
(*  - Git objects are names.  A `rad/sigrefs` commit is a pair             *)
(*    (version, flavour): versions v1 < v2, v1 < v2f, v2 and v2f diverge   *)
(*    (this gives behind / equal / ahead / diverged without modelling      *)
(*    git); the flavour says what is wrong with the two blobs of the       *)
(*    commit (see Flavours).  What a commit lists is a function of the     *)
(*    pair (Listing), because commits are content addressed.               *)
(*  - Ed25519 is an abstract predicate (SigVerifies).                      *)
(*  - The pack transfer is "the wanted objects arrive, or the fetch        *)
(*    errors because the serving peer does not have them" (ghost).         *)
(*  - The identity document does not change during the fetch: delegates    *)
(*    and threshold are scenario parameters (the canonical `rad/id` is     *)
(*    the same on both sides).                                             *)
(*                                                                         *)
(* What is kept literally                                                  *)
(*  - the stage order, which references each stage asks for and what it    *)
(*    turns into pending updates (`tips`), with their no-fast-forward      *)
(*    policies (`refs::special_update`, `DataRefs::prepare_updates`);      *)
(*  - the in-memory refdb (`mem`) that `Cached::validate_remote` looks at, *)
(*    and *only* at;                                                       *)
(*  - `SpecialRefs::pre_validate` / `ensure_threshold` counting every      *)
(*    received special ref;                                                *)
(*  - `RemoteRefs::load`: one sigrefs that does not verify fails the       *)
(*    whole fetch;                                                         *)
(*  - the validation loop over the loaded remotes in key order, its four   *)
(*    arms, `FetchState::prune`, `valid_delegates` / `failed_delegates`;   *)
(*  - the threshold gate, then the NON-ATOMIC application of the pending   *)
(*    updates one by one (`repository::update`, `direct`, `prune`).        *)
(*                                                                         *)
(* Properties: C01 (C01_Match, C01_Untouched, ...) and C02 (C02_NoRewind,  *)
(* C02_Gate, C02_FailedUnchanged) below.                                   *)
(***************************************************************************)
EXTENDS Integers, FiniteSets, Sequences, TLC

CONSTANTS
    N,                     \* namespaces are 1..N, numbered in public-key order (BTreeMap order)
    AcceptNoRoot,          \* deviation D1 (KNOWN FINDING, open): `SignedRefs::verify` accepts a refs
                           \* blob without `refs/rad/root` (no binding to a repository). TRUE = code.
    RefsAtUsesAdvertised,  \* historical deviation (fixed e45f16a): with `refs_at`, signed refs were
                           \* loaded from the advertised tip instead of the announced commit
    RefsAtIgnoresBlock,    \* historical deviation (fixed 680f9a3): announced sigrefs of blocked
                           \* peers were applied
    KeepStaleRad,          \* historical deviation (fixed a18a1ad): `refs/rad/*` never pruned
    SkipUnloaded           \* historical deviation (fixed 8b012aa): only remotes whose signed refs
                           \* were loaded went through the validation loop

NS == 1..N

-----------------------------------------------------------------------------
\* Abstract git objects

Vers     == {"v1", "v2", "v2f"}
Flavours == {"ok",         \* honest commit
             "forged",     \* signature blob is not a signature of the refs blob by anybody we know
             "rekeyed",    \* refs blob signed by a different key than the namespace's
             "otherRepo",  \* validly signed, but `refs/rad/root` names another repository
             "noRoot",     \* validly signed, no `refs/rad/root` entry at all
             "noId",       \* validly signed, no `refs/rad/id` entry
             "ghost"}      \* validly signed, lists an object the serving peer cannot deliver
SigC  == [ver : Vers, fl : Flavours]
NoSig == [ver |-> "none", fl |-> "ok"]
V1ok  == [ver |-> "v1", fl |-> "ok"]

\* Reference names below a namespace, in the order of their full names (the order of the `Refs`
\* BTreeMap, hence of the data updates and of `references_of`):
\*   cx refs/cobs/..  ha refs/heads/a  hb refs/heads/b  id refs/rad/id  root refs/rad/root  tt refs/tags/t
\* `rad/sigrefs` itself is kept apart (field `sig`).
NameOrder == <<"cx", "ha", "hb", "id", "root", "tt">>
Names     == {"cx", "ha", "hb", "id", "root", "tt"}
RadNames  == {"id", "root"}

EmptyRefs == [x \in {} |-> "o1"]
Put(f, k, v) == [x \in DOMAIN f \cup {k} |-> IF x = k THEN v ELSE f[x]]
Del(f, k)    == [x \in DOMAIN f \ {k} |-> f[x]]
SeqOfNames(S) == SelectSeq(NameOrder, LAMBDA n : n \in S)

\* What an honest owner lists at each version.  o1 <- o2, o1 <- o3 (o2, o3 diverge);
\* i1 <- i2, i1 <- i2f; r is the identity root (the same commit as i1).
Base(ver) ==
    CASE ver = "v1"  -> ("ha" :> "o1" @@ "hb" :> "o1" @@ "id" :> "i1" @@ "root" :> "r")
      [] ver = "v2"  -> ("cx" :> "o1" @@ "ha" :> "o2" @@ "id" :> "i2" @@ "root" :> "r")
      [] ver = "v2f" -> ("ha" :> "o3" @@ "hb" :> "o2" @@ "id" :> "i1" @@ "root" :> "r" @@ "tt" :> "o1")

Listing(s) ==
    LET b == Base(s.ver) IN
    CASE s.fl = "otherRepo" -> Put(b, "root", "rX")
      [] s.fl = "noRoot"    -> Del(b, "root")
      [] s.fl = "noId"      -> Del(b, "id")
      [] s.fl = "ghost"     -> Put(b, "ha", "og")
      [] OTHER              -> b

Unavailable == {"og"}      \* objects nobody can deliver

\* Ancestry of data / identity commits (repository::ancestry: old -> new)
Child == {<<"o1", "o2">>, <<"o1", "o3">>, <<"i1", "i2">>, <<"i1", "i2f">>}
OidAncestry(old, new) ==
    IF old = new THEN "Equal"
    ELSE IF <<old, new>> \in Child THEN "Ahead"
    ELSE IF <<new, old>> \in Child THEN "Behind"
    ELSE "Diverged"

\* Ancestry of sigrefs commits: every v2 / v2f commit (any flavour) has the honest v1 commit as
\* its parent; v1 commits are roots.
SigAncestry(old, new) ==
    IF old = new THEN "Equal"
    ELSE IF old = V1ok /\ new.ver \in {"v2", "v2f"} THEN "Ahead"
    ELSE IF new = V1ok /\ old.ver \in {"v2", "v2f"} THEN "Behind"
    ELSE "Diverged"

\* `SignedRefs::verify` (crates/radicle/src/storage/refs.rs)
SigVerifies(s) == s.fl \notin {"forged", "rekeyed"}
NamesThisRepo(s) == "root" \in DOMAIN Listing(s) /\ Listing(s)["root"] = "r"
Verify(s) ==
    IF ~SigVerifies(s) THEN "InvalidSignature"
    ELSE IF "root" \in DOMAIN Listing(s)
         THEN (IF Listing(s)["root"] = "r" THEN "ok" ELSE "MismatchedIdentity")
         ELSE (IF AcceptNoRoot THEN "ok" ELSE "MissingIdentityRoot")

-----------------------------------------------------------------------------
\* State

VARIABLES
    \* --- the scenario: chosen in Init, never changed
    sc,        \* [mode, delegates, threshold, local, blocked, followAll, followed, useRefsAt, refsAt]
    srv,       \* [NS -> [sig, rid, junk]]: what the serving peer advertises for each namespace:
               \*   sig  its rad/sigrefs commit (NoSig: none), rid its rad/id ("none": none),
               \*   junk tampering of the plain references (unsigned extra ref, ref moved off its
               \*        signed target, signed ref missing) -- never looked at by a fetch
    loc0,      \* local storage before the fetch
    \* --- local storage: [NS -> [sig, refs]]
    loc,
    \* --- FetchState
    pc,
    mem,       \* `FetchState::refs`, the in-memory refdb: [NS -> [sig, refs]]
    tips,      \* `FetchState::tips`: [NS -> Seq(update)]
    stSig,     \* `FetchState::sigrefs`: [NS -> SigC \cup {NoSig}]
    fetched,   \* remotes seen in the special refs stage
    signed,    \* `RemoteRefs`: loaded and verified signed refs, [NS -> SigC \cup {NoSig}]
    vq,        \* remotes still to validate (ascending)
    validDel, failedDel, okRemotes,
    queue,     \* updates still to apply: Seq([ns, up])
    result, err,
    events     \* history: `Applied::updated` in order

scv  == <<sc, srv, loc0>>
fsv  == <<mem, tips, stSig, fetched, signed, vq, validDel, failedDel, okRemotes, queue>>
vars == <<sc, srv, loc0, loc, pc, mem, tips, stSig, fetched, signed, vq, validDel, failedDel,
          okRemotes, queue, result, err, events>>

\* `handle.blocked`; `pull` adds the local peer
Blocked == sc.blocked \cup (IF sc.mode = "pull" /\ sc.local # 0 THEN {sc.local} ELSE {})
\* `delegates` in `run`: the identity's delegates that are not blocked
Dels == sc.delegates \ Blocked
LocalIsDelegate == sc.local \in sc.delegates
\* "The local peer does not need to count towards the threshold"
Thr == IF LocalIsDelegate THEN sc.threshold - 1 ELSE sc.threshold

RA == {r.ns : r \in sc.refsAt}
RAeff == IF RefsAtIgnoresBlock THEN RA ELSE RA \ Blocked
At(ns) == [ver |-> (CHOOSE r \in sc.refsAt : r.ns = ns).ver, fl |-> "ok"]

LocOf(s) == [sig |-> s, refs |-> IF s = NoSig THEN EmptyRefs ELSE Listing(s)]
EmptyNs == [sig |-> NoSig, refs |-> EmptyRefs]

\* Updates (crates/radicle-fetch/src/git/refs/update.rs)
DirectOid(name, oid, pol) == [kind |-> "direct", name |-> name, sig |-> NoSig, oid |-> oid, pol |-> pol]
DirectSig(s, pol)         == [kind |-> "direct", name |-> "sig", sig |-> s, oid |-> "", pol |-> pol]
PruneUp(name)             == [kind |-> "prune", name |-> name, sig |-> NoSig, oid |-> "", pol |-> "Allow"]

\* `mem::Refdb::update`
MemOne(m, up) ==
    IF up.kind = "direct"
    THEN (IF up.name = "sig" THEN [m EXCEPT !.sig = up.sig]
          ELSE [m EXCEPT !.refs = Put(m.refs, up.name, up.oid)])
    ELSE (IF up.name \in DOMAIN m.refs THEN [m EXCEPT !.refs = Del(m.refs, up.name)] ELSE m)
RECURSIVE MemAll(_, _)
MemAll(m, ups) == IF ups = <<>> THEN m ELSE MemAll(MemOne(m, Head(ups)), Tail(ups))

\* `refs::special_update`: "reject any updates if the remote is not a delegate, since this is
\* not fatal"
SpecialPolicy(ns) == IF ns \in Dels THEN "Abort" ELSE "Reject"

Start ==
    /\ loc = loc0
    /\ pc = "canonical"
    /\ mem = [ns \in NS |-> EmptyNs]
    /\ tips = [ns \in NS |-> <<>>]
    /\ stSig = [ns \in NS |-> NoSig]
    /\ fetched = {}
    /\ signed = [ns \in NS |-> NoSig]
    /\ vq = <<>>
    /\ validDel = {} /\ failedDel = {} /\ okRemotes = {}
    /\ queue = <<>>
    /\ result = "none" /\ err = ""
    /\ events = <<>>

\* The unbounded scenario space ("Tamper": the serving peer's content is arbitrary).
ScenarioOK ==
    /\ sc.mode \in {"clone", "pull"}
    /\ sc.delegates \in (SUBSET NS) \ {{}}
    /\ sc.threshold \in 1..Cardinality(sc.delegates)
    /\ sc.local \in NS \cup {0}
    /\ sc.blocked \in SUBSET NS
    /\ sc.followAll \in BOOLEAN /\ sc.followed \in SUBSET NS
    /\ sc.useRefsAt \in BOOLEAN
    /\ \A r \in sc.refsAt : r.ns \in NS /\ r.ver \in Vers
    /\ \A r1, r2 \in sc.refsAt : r1.ns = r2.ns => r1 = r2
    /\ (sc.mode = "clone" => ~sc.useRefsAt /\ \A ns \in NS : loc0[ns] = EmptyNs)
    /\ \A ns \in NS :
          /\ srv[ns].sig \in SigC \cup {NoSig}
          /\ srv[ns].rid \in {"none", "i1", "i2", "i2f"}
          /\ srv[ns].junk \in {"none", "extra", "moved", "missing"}
          /\ loc0[ns].sig \in SigC \cup {NoSig}
          /\ loc0[ns] = LocOf(loc0[ns].sig)           \* local storage starts consistent
          /\ (loc0[ns].sig # NoSig => Verify(loc0[ns].sig) = "ok")

Fail(kind) ==
    /\ result' = "Error" /\ err' = kind /\ pc' = "done"
    /\ UNCHANGED <<scv, loc, fsv, events>>

-----------------------------------------------------------------------------
\* Stage 1: `CanonicalId` -- asks for the canonical refs/rad/id; produces no updates (the
\* namespaced arm of its filter never matches what `ls-refs refs/rad/id` returns). The anchor
\* document gives `delegates` and `threshold`.
StageCanonicalId ==
    /\ pc = "canonical"
    /\ pc' = "special"
    /\ UNCHANGED <<scv, loc, fsv, result, err, events>>

\* Stage 2a: `SpecialRefs` (no refs_at): rad/id and rad/sigrefs of every namespace in scope.
InScope(ns) == sc.followAll \/ ns \in sc.followed \/ ns \in Dels

StageSpecialRefs ==
    /\ pc = "special" /\ ~sc.useRefsAt
    /\ LET recvSig == {ns \in NS : InScope(ns) /\ ns \notin Blocked /\ srv[ns].sig # NoSig}
           recvId  == {ns \in NS : InScope(ns) /\ ns \notin Blocked /\ srv[ns].rid # "none"}
           nrecv   == Cardinality(recvSig) + Cardinality(recvId)
           ups(ns) == (IF ns \in recvId THEN <<DirectOid("id", srv[ns].rid, SpecialPolicy(ns))>> ELSE <<>>)
                      \o (IF ns \in recvSig THEN <<DirectSig(srv[ns].sig, SpecialPolicy(ns))>> ELSE <<>>)
       IN \* `ensure_threshold(wants = delegates' sigrefs, haves = ALL received refs, threshold)`
          IF Thr > 0 /\ Dels # {} /\ nrecv < Thr
          THEN Fail("InsufficientRefs")
          ELSE /\ stSig' = [ns \in NS |-> IF ns \in recvSig THEN srv[ns].sig ELSE NoSig]
               /\ fetched' = recvSig \cup recvId
               /\ tips' = [ns \in NS |-> tips[ns] \o ups(ns)]
               /\ mem' = [ns \in NS |-> MemAll(mem[ns], ups(ns))]
               /\ pc' = "load"
               /\ UNCHANGED <<scv, loc, signed, vq, validDel, failedDel, okRemotes, queue, result, err, events>>

\* Stage 2b: `SigrefsAt` (refs_at announced): the announced commits are wanted and become the
\* rad/sigrefs updates; blocked remotes are dropped from the announcement.
StageSigrefsAt ==
    /\ pc = "special" /\ sc.useRefsAt
    /\ LET recvSig == {ns \in RAeff : ns \notin Blocked /\ srv[ns].sig # NoSig}
           ups(ns) == IF ns \in RAeff THEN <<DirectSig(At(ns), SpecialPolicy(ns))>> ELSE <<>>
       IN /\ stSig' = [ns \in NS |->
                          IF RefsAtUsesAdvertised
                          THEN (IF ns \in recvSig THEN srv[ns].sig ELSE NoSig)
                          ELSE (IF ns \in RAeff THEN At(ns) ELSE NoSig)]
          /\ fetched' = recvSig
          /\ tips' = [ns \in NS |-> tips[ns] \o ups(ns)]
          /\ mem' = [ns \in NS |-> MemAll(mem[ns], ups(ns))]
          /\ pc' = "load"
          /\ UNCHANGED <<scv, loc, signed, vq, validDel, failedDel, okRemotes, queue, result, err, events>>

\* Stage 3: `RemoteRefs::load` -- every fetched remote and every delegate (refs_at: every
\* announced remote); from the tip seen in stage 2, else from local storage. A sigrefs that does
\* not verify is an error for the whole fetch.
Cand(ns) == IF stSig[ns] # NoSig THEN stSig[ns] ELSE loc[ns].sig

LoadSigrefs ==
    /\ pc = "load"
    /\ LET toLoad == IF sc.useRefsAt THEN RAeff ELSE fetched \cup Dels
           bad    == {ns \in toLoad : Cand(ns) # NoSig /\ Verify(Cand(ns)) # "ok"}
       IN IF bad # {}
          THEN Fail(Verify(Cand(CHOOSE ns \in bad : \A o \in bad : ns <= o)))
          ELSE /\ signed' = [ns \in NS |-> IF ns \in toLoad THEN Cand(ns) ELSE NoSig]
               /\ pc' = "data"
               /\ UNCHANGED <<scv, loc, mem, tips, stSig, fetched, vq, validDel, failedDel, okRemotes, queue, result, err, events>>

\* Stage 4: `DataRefs` -- no ls-refs: wants are exactly the listed objects; one direct update
\* (Policy::Allow) per listed reference, one prune per local reference that is no longer listed
\* (rad/sigrefs excepted).
DataUpdates(ns) ==
    LET L == Listing(signed[ns])
        listed == SeqOfNames(DOMAIN L)
        stale  == SeqOfNames({n \in DOMAIN loc[ns].refs : n \notin DOMAIN L /\ (KeepStaleRad => n \notin RadNames)})
    IN [i \in 1..Len(listed) |-> DirectOid(listed[i], L[listed[i]], "Allow")]
       \o [i \in 1..Len(stale) |-> PruneUp(stale[i])]

StageDataRefs ==
    /\ pc = "data"
    /\ LET rem == {ns \in NS : signed[ns] # NoSig}
           ghost == \E ns \in rem : \E n \in DOMAIN Listing(signed[ns]) : Listing(signed[ns])[n] \in Unavailable
           ups(ns) == IF ns \in rem THEN DataUpdates(ns) ELSE <<>>
       IN IF ghost
          THEN Fail("NotOurRef")
          ELSE /\ tips' = [ns \in NS |-> tips[ns] \o ups(ns)]
               /\ mem' = [ns \in NS |-> MemAll(mem[ns], ups(ns))]
               \* every loaded remote, and every remote with pending tips (its special refs were
               \* advertised, but no rad/sigrefs could be loaded for it)
               /\ vq' = SelectSeq([i \in 1..N |-> i],
                                  LAMBDA ns : ns \in rem \/ (~SkipUnloaded /\ tips[ns] # <<>>))
               \* "The valid delegates start with all delegates that this peer currently has
               \* valid references for"
               /\ validDel' = {d \in Dels : loc[d].sig # NoSig}
               /\ failedDel' = {} /\ okRemotes' = {}
               /\ pc' = "validate"
               /\ UNCHANGED <<scv, loc, stSig, fetched, signed, queue, result, err, events>>

\* `Cached::validate_remote`: the IN-MEMORY refdb of the remote against its signed refs.
ValidationFails(ns, sr) ==
    LET M == mem[ns]
        L == Listing(sr)
    IN \/ \E n \in DOMAIN M.refs : n \notin DOMAIN L                          \* UnsignedRef
       \/ \E n \in DOMAIN M.refs \cap DOMAIN L : M.refs[n] # L[n]             \* MismatchedRef
       \/ M.sig = NoSig                                                       \* MissingRadSigRefs
       \/ \E n \in DOMAIN L : n \notin DOMAIN M.refs                          \* MissingRef

\* `FetchState::prune`
PruneRemote(ns) ==
    /\ tips' = [tips EXCEPT ![ns] = <<>>]
    /\ stSig' = [stSig EXCEPT ![ns] = NoSig]

\* Stage 5: one iteration of the validation loop.
ValidateOne ==
    /\ pc = "validate" /\ vq # <<>>
    /\ LET ns == Head(vq)
           sr == signed[ns]
           lo == loc[ns].sig
           anc == IF lo = NoSig \/ sr = NoSig THEN "None" ELSE SigAncestry(lo, sr)
       IN /\ vq' = Tail(vq)
          /\ IF ns \in Blocked
             THEN \* "Skipping blocked remote"
                  UNCHANGED <<tips, stSig, validDel, failedDel, okRemotes, pc, result, err>>
             ELSE IF sr = NoSig
             THEN \* `data: None` arms: "Pruning ... tips, missing 'rad/sigrefs'"
                  /\ PruneRemote(ns)
                  /\ validDel' = validDel \ {ns}
                  /\ failedDel' = IF ns \in Dels THEN failedDel \cup {ns} ELSE failedDel
                  /\ UNCHANGED <<okRemotes, pc, result, err>>
             ELSE IF ns \notin Dels
             THEN \* NonDelegate: behind or diverged are pruned, non-fatal
                  IF anc \in {"Behind", "Diverged"} \/ ValidationFails(ns, sr)
                  THEN PruneRemote(ns) /\ UNCHANGED <<validDel, failedDel, okRemotes, pc, result, err>>
                  ELSE okRemotes' = okRemotes \cup {ns}
                       /\ UNCHANGED <<tips, stSig, validDel, failedDel, pc, result, err>>
             ELSE \* Delegate
                  IF anc = "Behind"
                  THEN PruneRemote(ns) /\ UNCHANGED <<validDel, failedDel, okRemotes, pc, result, err>>
                  ELSE IF anc = "Diverged"
                  THEN /\ result' = "Error" /\ err' = "Diverged" /\ pc' = "done"
                       /\ UNCHANGED <<tips, stSig, validDel, failedDel, okRemotes>>
                  ELSE IF ValidationFails(ns, sr)
                  THEN /\ PruneRemote(ns)
                       /\ validDel' = validDel \ {ns}
                       /\ failedDel' = failedDel \cup {ns}
                       /\ UNCHANGED <<okRemotes, pc, result, err>>
                  ELSE /\ validDel' = validDel \cup {ns}
                       /\ okRemotes' = okRemotes \cup {ns}
                       /\ UNCHANGED <<tips, stSig, failedDel, pc, result, err>>
    /\ UNCHANGED <<scv, loc, mem, fetched, signed, queue, events>>

\* Stage 6: the threshold gate. "only apply to Git repository if there are enough valid
\* delegates that pass the threshold"
RECURSIVE Flatten(_)
Flatten(ns) == IF ns > N THEN <<>>
               ELSE [i \in 1..Len(tips[ns]) |-> [ns |-> ns, up |-> tips[ns][i]]] \o Flatten(ns + 1)

Gate ==
    /\ pc = "validate" /\ vq = <<>>
    /\ IF Cardinality(validDel) >= Thr
       THEN /\ queue' = Flatten(1)
            /\ pc' = "apply"
            /\ UNCHANGED <<result, err>>
       ELSE /\ result' = "Failed" /\ err' = "" /\ pc' = "done"
            /\ UNCHANGED queue
    /\ UNCHANGED <<scv, loc, mem, tips, stSig, fetched, signed, vq, validDel, failedDel, okRemotes, events>>

\* Stage 7: `repository::update` applies ONE update (`direct` / `prune`). Not a transaction: an
\* abort leaves the earlier updates written.
Ev(k, ns, up) == [k |-> k, ns |-> ns, name |-> up.name, to |-> up.oid, sig |-> up.sig]

ApplyOne ==
    /\ pc = "apply" /\ queue # <<>>
    /\ LET ns == Head(queue).ns
           up == Head(queue).up
           isSig == up.name = "sig"
           present == IF isSig THEN loc[ns].sig # NoSig ELSE up.name \in DOMAIN loc[ns].refs
           anc == IF ~present THEN "None"
                  ELSE IF isSig THEN SigAncestry(loc[ns].sig, up.sig)
                  ELSE OidAncestry(loc[ns].refs[up.name], up.oid)
           written == IF isSig THEN [loc EXCEPT ![ns].sig = up.sig]
                      ELSE [loc EXCEPT ![ns].refs = Put(loc[ns].refs, up.name, up.oid)]
       IN /\ queue' = Tail(queue)
          /\ IF up.kind = "prune"
             THEN IF present
                  THEN /\ loc' = [loc EXCEPT ![ns].refs = Del(loc[ns].refs, up.name)]
                       /\ events' = Append(events, [k |-> "deleted", ns |-> ns, name |-> up.name, to |-> "-", sig |-> NoSig])
                       /\ UNCHANGED <<pc, result, err>>
                  ELSE UNCHANGED <<loc, events, pc, result, err>>          \* rejected
             ELSE IF anc = "None"
             THEN loc' = written /\ events' = Append(events, Ev("created", ns, up)) /\ UNCHANGED <<pc, result, err>>
             ELSE IF anc = "Equal"
             THEN events' = Append(events, Ev("skipped", ns, up)) /\ UNCHANGED <<loc, pc, result, err>>
             ELSE IF anc = "Ahead" \/ up.pol = "Allow"
             THEN loc' = written /\ events' = Append(events, Ev("updated", ns, up)) /\ UNCHANGED <<pc, result, err>>
             ELSE IF anc = "Behind" \/ up.pol = "Reject"
             THEN UNCHANGED <<loc, events, pc, result, err>>               \* rejected, not fatal
             ELSE \* Diverged /\ Policy::Abort: error::Update::NonFF
                  /\ result' = "Error" /\ err' = "NonFF" /\ pc' = "done"
                  /\ UNCHANGED <<loc, events>>
    /\ UNCHANGED <<scv, mem, tips, stSig, fetched, signed, vq, validDel, failedDel, okRemotes>>

Finish ==
    /\ pc = "apply" /\ queue = <<>>
    /\ result' = "Success" /\ err' = "" /\ pc' = "done"
    /\ UNCHANGED <<scv, loc, fsv, events>>

Next == \/ StageCanonicalId \/ StageSpecialRefs \/ StageSigrefsAt \/ LoadSigrefs \/ StageDataRefs
        \/ ValidateOne \/ Gate \/ ApplyOne \/ Finish

Init == ScenarioOK /\ Start
Spec == Init /\ [][Next]_vars

-----------------------------------------------------------------------------
\* Properties

Done == pc = "done"
Changed == {ns \in NS : loc[ns] # loc0[ns]}

\* D1 is tolerated exactly where it is enabled: a root-less blob names no repository at all.
NamesThisRepoOrD1(s) == NamesThisRepo(s) \/ (AcceptNoRoot /\ "root" \notin DOMAIN Listing(s))

\* C01, first sentence. Also holds in every intermediate state reached by Finish or an error.
C01_Match ==
    Done => \A ns \in Changed :
               /\ loc[ns].sig # NoSig
               /\ loc[ns].refs = Listing(loc[ns].sig)
               /\ SigVerifies(loc[ns].sig)
               /\ NamesThisRepoOrD1(loc[ns].sig)

\* C01, second sentence. "Advertised data" of a namespace = what this fetch takes from the peer
\* for it: the sigrefs commit it loads (the advertised tip, or the announced commit with
\* refs_at), the advertised rad/id, and the listed objects. Plain references the peer advertises
\* are never asked for, so tampering with them (srv.junk) cannot fail a check.
Offered(ns) ==
    IF sc.useRefsAt
    THEN (IF RefsAtUsesAdvertised THEN (IF ns \in RA THEN srv[ns].sig ELSE NoSig)
          ELSE (IF ns \in RA THEN At(ns) ELSE NoSig))
    ELSE srv[ns].sig
BadOffer(ns) ==
    LET s == Offered(ns) IN
    /\ s # NoSig
    /\ \/ ~SigVerifies(s)
       \/ ~NamesThisRepoOrD1(s)
       \/ \E n \in DOMAIN Listing(s) : Listing(s)[n] \in Unavailable
       \* an advertised rad/id that is not signed -- and that the fetch would have to keep
       \* (a stored rad/id that is no longer signed is pruned, the advertised one with it)
       \/ (~sc.useRefsAt /\ srv[ns].rid # "none" /\ "id" \notin DOMAIN Listing(s)
              /\ "id" \notin DOMAIN loc0[ns].refs)
C01_Untouched == Done => \A ns \in NS : BadOffer(ns) => loc[ns] = loc0[ns]

\* Blocked namespaces (and, on a pull, our own) are never written.
BlockedUntouched == \A ns \in Blocked : loc[ns] = loc0[ns]
\* Namespaces out of scope are never written.
OutOfScopeUntouched == \A ns \in NS : (~sc.useRefsAt /\ ~InScope(ns)) => loc[ns] = loc0[ns]

\* C02, first sentence, as an action property ...
C02_NoRewind ==
    [][\A d \in sc.delegates :
          loc[d].sig # loc'[d].sig => (loc[d].sig = NoSig \/ SigAncestry(loc[d].sig, loc'[d].sig) = "Ahead")]_vars
\* ... and for every namespace (what the design actually gives)
NoRewindAny ==
    \A ns \in NS : loc[ns].sig # loc0[ns].sig =>
                      (loc0[ns].sig = NoSig \/ SigAncestry(loc0[ns].sig, loc[ns].sig) = "Ahead")

\* C02, second sentence.
NsValid(l) == /\ l.sig # NoSig /\ l.refs = Listing(l.sig) /\ SigVerifies(l.sig) /\ NamesThisRepoOrD1(l.sig)
\* delegates that could have valid signed refs after this fetch: stored valid, or offered valid
CouldBeValid(d) == NsValid(loc0[d]) \/ (Offered(d) # NoSig /\ ~BadOffer(d))
C02_Gate ==
    (Done /\ result = "Success") => Cardinality({d \in Dels : NsValid(loc[d])}) >= Thr
C02_FewImpliesFailure ==
    (Done /\ Cardinality({d \in Dels : CouldBeValid(d)}) < Thr) => (result # "Success" /\ loc = loc0)
\* The threshold is about THIS fetch ("one fewer when the local node is itself a delegate": its own
\* namespace is not fetched): delegates the serving peer does not offer with valid signed refs do not
\* count, however valid their stored copy is.
OfferedValid(d) == Offered(d) # NoSig /\ ~BadOffer(d)
C02_FewOfferedImpliesFailure ==
    (Done /\ ~sc.useRefsAt /\ Cardinality({d \in Dels : OfferedValid(d)}) < Thr) => result # "Success"
C02_FailedUnchanged == (Done /\ result = "Failed") => loc = loc0
\* Errors before the application stage leave storage unchanged as well.
ErrorBeforeApplyUnchanged == (Done /\ result = "Error" /\ err # "NonFF") => loc = loc0

\* NOT a property of the design (checked by MCFetch_dev*.cfg, TLC must find the counterexample):
\* an abort in the middle of `repository::update` leaves earlier updates written.
AtomicOnError == (Done /\ result = "Error") => loc = loc0

TypeOK ==
    /\ pc \in {"canonical", "special", "load", "data", "validate", "apply", "done"}
    /\ result \in {"none", "Success", "Failed", "Error"}
    /\ (pc = "done") = (result # "none")
    /\ \A ns \in NS : DOMAIN loc[ns].refs \subseteq Names /\ DOMAIN mem[ns].refs \subseteq Names
=============================================================================
