------------------------------- MODULE Tracker -------------------------------
(***************************************************************************)
(* Issues and patches of radicle (crates/radicle/src/cob/{issue,patch,     *)
(* thread,common}.rs) as state machines driven by operations.              *)
(*                                                                         *)
(* An operation ("op") is what one change commit carries after decoding:   *)
(* an author (actor), the identity document the change commits to (the     *)
(* `resource` of the change = `Op::identity`, read back with               *)
(* `Op::identity_doc`), and one action.  Evaluation of an op against an    *)
(* object is `Issue::op` / `Patch::op`:                                    *)
(*                                                                         *)
(*     authorization(action, actor, doc)  ->  Allow | Deny | Unknown | Err *)
(*        Allow   -> action(...)   (may itself fail or do nothing)         *)
(*        Deny    -> Err(NotAuthorized)            "rejected"              *)
(*        Unknown -> Ok(()) without effect         "ignored"               *)
(*                                                                         *)
(* Both halves are transcribed here arm by arm (IssueAuthz / IssueAction,  *)
(* PatchAuthz / PatchAction) as pure operators, so that the same           *)
(* definitions serve the next-state relation, the one-step "fan-out"       *)
(* predictions handed to the conformance harness, and the validation of    *)
(* traces recorded from the implementation (TraceTracker.tla).             *)
(*                                                                         *)
(* A role is never a property of an actor alone: it is relative to the     *)
(* document the op refers to (Delegates[op.d]), so the same actor may be a *)
(* delegate for one op and a stranger for the next.                        *)
(*                                                                         *)
(* Identifiers.  The code names comments, revisions and reviews by the id  *)
(* of the op that created them.  The model names them by creation order    *)
(* (1, 2, ...) so that states reached by different op orders coincide; the *)
(* harness keeps the table.  `Missing` stands for an id that names nothing *)
(* (a causal dependency that never arrived).                               *)
(*                                                                         *)
(* Redaction.  The code replaces a redacted comment / revision by `None`   *)
(* and thereby forgets everything about it, including what it contained    *)
(* (a redacted revision takes its discussion and its reviews with it).     *)
(* The model does the same: a redacted thing becomes a tombstone whose     *)
(* fields are blank, so that model state = observable state.               *)
(*                                                                         *)
(* Properties: C07 (authorisation) and C08 (merge threshold) are stated as *)
(* predicates over one step (pre-state, op, post-state) -- StmtIssue,      *)
(* StmtPatch, C08Step -- and checked by TLC as action properties on every  *)
(* transition of the bounded model, and on every recorded step of the      *)
(* implementation by TraceTracker.                                         *)
(***************************************************************************)
EXTENDS Integers, Sequences, FiniteSets, TLC

CONSTANTS
    Actor,       \* actors (positive integers)
    Doc,         \* identity documents an op can refer to (positive integers)
    Delegates,   \* [Doc -> SUBSET Actor]      delegates of each document
    Threshold,   \* [Doc -> 1..]               threshold of each document
    LabelSets,   \* sequence of label sets a Label action can carry   (op.x indexes it)
    AssignSets,  \* sequence of assignee sets an Assign action can carry
    Titles,      \* title codes an Edit can carry; 0 = title given at creation, InvalidTitle = "a\nb"
    Bodies,      \* body flags a comment/edit can carry: 0 = some text, 1 = empty text
    Commit,      \* commits that merges can name (positive integers)
    Anc,         \* [Commit -> SUBSET Commit]  proper ancestors of each commit
    VerdictVals, \* verdicts a Review / ReviewEdit can carry: 0 none, 1 accept, 2 reject
    SummaryVals, \* summaries: 0 none, 1 some text
    Kinds,       \* op kinds enabled in the next-state relation
    Creators,    \* actors who create the object in the next-state relation
    MaxC,        \* bounds that make the reachable state space finite: issue comments,
    MaxE,        \*   edits per comment / description,
    MaxR,        \*   revisions,
    MaxRC,       \*   revision comments,
    MaxV,        \*   reviews,
    MaxVC,       \*   review comments,
    Reactors,    \*   actors whose reactions are explored
    HeadInits,   \* initial default-branch heads to start from (set of [Actor -> Commit \cup {0}])
    Pushers,     \* actors whose default branch may move during a behaviour
    Variant      \* "code" = the rules as implemented; other values = deliberately wrong
                 \* variants used to show that the properties can fail (MCTracker_dev*.cfg)

Missing      == 99      \* an identifier that names nothing
InvalidTitle == 9       \* a title containing a newline

VARIABLES
    issue,       \* the issue  (author = 0: not created)
    patch,       \* the patch  (author = 0: not created)
    heads,       \* [Actor -> Commit \cup {0}]: head of refs/namespaces/<actor>/refs/heads/<default>
    log,         \* history: sequence of [op, res]; hidden from the fingerprint (VIEW)
    ghost        \* history for C08: merges ever recorded, threshold at the last quorum; hidden too
vars == <<issue, patch, heads, log, ghost>>
View == <<issue, patch, heads>>

-----------------------------------------------------------------------------
(* Operations *)

Op(a, d, k, x, y, z) == [a |-> a, d |-> d, k |-> k, x |-> x, y |-> y, z |-> z]

IsDelegate(a, d) == a \in Delegates[d]
Auth(b) == IF b THEN "allow" ELSE "deny"

\* result of evaluating one op: res \in {"applied", "ignored", "rejected"}
\*   applied / ignored -> the code returns Ok(()),  rejected -> it returns Err(_)
Out(res, st) == [res |-> res, st |-> st]
Applied(st)  == Out("applied", st)
Ignored(st)  == Out("ignored", st)
Rejected(st) == Out("rejected", st)

\* "commit is on actor's default branch": reference_oid(author, branch) exists and the commit is
\* the head or one of its ancestors  (Patch::action, Merge arm)
OnBranch(hd, a, c) == hd[a] # 0 /\ (c = hd[a] \/ c \in Anc[hd[a]])

Toggle(S, a, active) == IF active = 1 THEN S \cup {a} ELSE S \ {a}

-----------------------------------------------------------------------------
(* Issue *)

NoIssue == [author |-> 0, title |-> 0, state |-> 0, labels |-> {}, assignees |-> {},
            comments |-> <<>>]

\* A comment of the issue thread. `edits` lists the authors of the successive bodies (the first is
\* the comment author), `re` the comment replied to (0 = none), `rx` who currently reacts.
NewComment(a, re) == [a |-> a, live |-> TRUE, edits |-> <<a>>, re |-> re, rx |-> {}]
CTomb == [a |-> 0, live |-> FALSE, edits |-> <<>>, re |-> 0, rx |-> {}]

\* Issue::from_root: the first action is the description (a comment); the remaining actions of the
\* root op (title, assignees, labels) go through `authorization` with the op author as issue
\* author; a Deny fails the whole creation.
IssueCreateEval(op) ==
    IF IsDelegate(op.a, op.d) \/ (LabelSets[op.x] = {} /\ AssignSets[op.y] = {})
    THEN Applied([author |-> op.a, title |-> 0, state |-> 0, labels |-> LabelSets[op.x],
                  assignees |-> AssignSets[op.y], comments |-> <<NewComment(op.a, 0)>>])
    ELSE Rejected(NoIssue)

\* Issue::authorization
IssueAuthz(i, op) ==
    IF IsDelegate(op.a, op.d) THEN "allow"        \* a delegate is authorized to do all actions
    ELSE CASE op.k = "i.assign"    -> \* only delegates; the no-op is allowed "for backwards compatibility"
                  IF Variant = "assignAnyone" \/ AssignSets[op.x] = i.assignees THEN "allow" ELSE "deny"
           [] op.k = "i.edit"      -> Auth(op.a = i.author)
           [] op.k = "i.lifecycle" -> Auth(op.a = i.author)
           [] op.k = "i.label"     ->
                  IF Variant = "labelAnyone" \/ LabelSets[op.x] = i.labels THEN "allow" ELSE "deny"
           [] op.k = "i.comment"   -> "allow"
           [] op.k \in {"i.cedit", "i.credact"} ->
                  IF op.x \notin DOMAIN i.comments THEN "error"              \* thread::Error::Missing
                  ELSE IF ~i.comments[op.x].live THEN "unknown"              \* redacted: cannot tell
                  ELSE IF Variant = "redactAnyone" /\ op.k = "i.credact" THEN "allow"
                  ELSE Auth(op.a = i.comments[op.x].a)
           [] op.k = "i.creact"    -> "allow"

\* Issue::action (reached only with Allow)
IssueAction(i, op) ==
    CASE op.k = "i.assign"    -> Applied([i EXCEPT !.assignees = AssignSets[op.x]])
      [] op.k = "i.edit"      -> IF op.x = InvalidTitle THEN Rejected(i)
                                 ELSE Applied([i EXCEPT !.title = op.x])
      [] op.k = "i.lifecycle" -> Applied([i EXCEPT !.state = op.x])
      [] op.k = "i.label"     -> Applied([i EXCEPT !.labels = LabelSets[op.x]])
      [] op.k = "i.comment"   -> \* thread::comment: non-empty body, reply target must be known
                                 \* (a redacted target is still known)
                  IF op.z = 1 THEN Rejected(i)
                  ELSE IF op.x # 0 /\ op.x \notin DOMAIN i.comments THEN Rejected(i)
                  ELSE Applied([i EXCEPT !.comments = Append(@, NewComment(op.a, op.x))])
      [] op.k = "i.cedit"     -> \* thread::edit
                  IF op.z = 1 THEN Rejected(i)
                  ELSE IF op.x \notin DOMAIN i.comments THEN Rejected(i)
                  ELSE IF ~i.comments[op.x].live THEN Ignored(i)
                  ELSE Applied([i EXCEPT !.comments[op.x].edits = Append(@, op.a)])
      [] op.k = "i.credact"   -> \* the root comment (the description) cannot be redacted
                  IF op.x = 1 THEN Rejected(i)
                  ELSE IF op.x \notin DOMAIN i.comments THEN Rejected(i)
                  ELSE Applied([i EXCEPT !.comments[op.x] = CTomb])
      [] op.k = "i.creact"    -> \* thread::react
                  IF op.x \notin DOMAIN i.comments THEN Rejected(i)
                  ELSE IF ~i.comments[op.x].live THEN Ignored(i)
                  ELSE Applied([i EXCEPT !.comments[op.x].rx = Toggle(@, op.a, op.y)])

\* Issue::op_action
IssueEval(i, op) ==
    LET z == IssueAuthz(i, op) IN
    CASE z = "allow"   -> IssueAction(i, op)
      [] z = "deny"    -> Rejected(i)
      [] z = "error"   -> Rejected(i)
      [] z = "unknown" -> Ignored(i)

\* every op that can be aimed at issue i (targets: what exists, plus an unknown id)
CIds(i) == DOMAIN i.comments \cup {Missing}
IssueOpsBy(i, a, d) ==
         {Op(a, d, "i.assign", x, 0, 0)    : x \in DOMAIN AssignSets}
    \cup {Op(a, d, "i.label", x, 0, 0)     : x \in DOMAIN LabelSets}
    \cup {Op(a, d, "i.edit", x, 0, 0)      : x \in Titles}
    \cup {Op(a, d, "i.lifecycle", x, 0, 0) : x \in 0..2}
    \cup {Op(a, d, "i.comment", x, 0, z)   : x \in {0} \cup CIds(i), z \in Bodies}
    \cup {Op(a, d, "i.cedit", x, 0, z)     : x \in CIds(i), z \in Bodies}
    \cup {Op(a, d, "i.credact", x, 0, 0)   : x \in CIds(i)}
    \cup {Op(a, d, "i.creact", x, y, 0)    : x \in CIds(i), y \in {0, 1}}
IssueOps(i) == UNION {IssueOpsBy(i, a, d) : a \in Actor, d \in Doc}

IssueBound(i) ==
    /\ Len(i.comments) <= MaxC
    /\ \A c \in DOMAIN i.comments : Len(i.comments[c].edits) <= MaxE /\ i.comments[c].rx \subseteq Reactors

-----------------------------------------------------------------------------
(* Patch *)

NoPatch == [author |-> 0, title |-> 0, state |-> [k |-> "open", set |-> {}], labels |-> {},
            assignees |-> {}, merges |-> {}, revs |-> <<>>, rcomments |-> <<>>, reviews |-> <<>>,
            vcomments |-> <<>>]

\*  state     [k \in {"draft","open","archived","merged"}, set]: for "merged" the single
\*            <<revision, commit>>, for "open" the conflicting <<revision, commit>> pairs
\*  merges    set of <<actor, revision, commit>>, at most one per actor (Patch.merges)
\*  revs      revisions: author, live, authors of the description edits, reactions
\*  rcomments comments of revision discussions: [rev, a, live, edits, re, rx]
\*  reviews   [rev, a, live, v (0 none, 1 accept, 2 reject), s (0 no summary, 1 summary)]
\*  vcomments comments of reviews: [review, a, live, edits, re, rx, res (resolved)]
NewRev(a)             == [a |-> a, live |-> TRUE, edits |-> <<a>>, rx |-> {}]
RevTomb               == [a |-> 0, live |-> FALSE, edits |-> <<>>, rx |-> {}]
NewRC(r, a, re)       == [rev |-> r, a |-> a, live |-> TRUE, edits |-> <<a>>, re |-> re, rx |-> {}]
RCTomb(r)             == [rev |-> r, a |-> 0, live |-> FALSE, edits |-> <<>>, re |-> 0, rx |-> {}]
NewReview(r, a, v, s) == [rev |-> r, a |-> a, live |-> TRUE, v |-> v, s |-> s]
ReviewTomb(r)         == [rev |-> r, a |-> 0, live |-> FALSE, v |-> 0, s |-> 0]
NewVC(v, a, re)       == [review |-> v, a |-> a, live |-> TRUE, edits |-> <<a>>, re |-> re, rx |-> {},
                          res |-> FALSE]
VCTomb(v)             == [review |-> v, a |-> 0, live |-> FALSE, edits |-> <<>>, re |-> 0, rx |-> {},
                          res |-> FALSE]

\* Patch::from_root: [Revision, Edit, Label]; the label action is authorized like any other.
PatchCreateEval(op) ==
    IF IsDelegate(op.a, op.d) \/ LabelSets[op.x] = {}
    THEN Applied([NoPatch EXCEPT !.author = op.a, !.labels = LabelSets[op.x],
                                 !.revs = <<NewRev(op.a)>>])
    ELSE Rejected(NoPatch)

\* lookup::revision / lookup::review: live, redacted (Ok(None)) or missing (Err)
RevState(p, r) == IF r \notin DOMAIN p.revs THEN "missing"
                  ELSE IF p.revs[r].live THEN "live" ELSE "redacted"
\* a review is unreachable when it was redacted or when its revision was (tombstone in both cases)
ReviewState(p, v) == IF v \notin DOMAIN p.reviews THEN "missing"
                     ELSE IF p.reviews[v].live THEN "live" ELSE "redacted"
\* comment c belongs to the discussion of revision r (possibly redacted) / is readable there
RCIn(p, r, c)   == c \in DOMAIN p.rcomments /\ p.rcomments[c].rev = r
RCLive(p, r, c) == RCIn(p, r, c) /\ p.rcomments[c].live
VCIn(p, v, c)   == c \in DOMAIN p.vcomments /\ p.vcomments[c].review = v
VCLive(p, v, c) == VCIn(p, v, c) /\ p.vcomments[c].live

\* Patch::authorization
PatchAuthz(p, op) ==
    IF IsDelegate(op.a, op.d) THEN "allow"
    ELSE CASE op.k \in {"p.edit", "p.lifecycle"} -> Auth(op.a = p.author)
           [] op.k = "p.label" ->
                  IF Variant = "labelAnyone" \/ LabelSets[op.x] = p.labels THEN "allow" ELSE "deny"
           [] op.k = "p.assign" -> IF Variant = "assignAnyone" THEN "allow" ELSE "deny"
           [] op.k = "p.merge"  -> IF Variant = "mergeAnyone" THEN "allow" ELSE "deny"
           [] op.k \in {"p.review", "p.vcomment", "p.vcreact", "p.revision", "p.revreact",
                        "p.rcomment", "p.rcreact"} -> "allow"
           [] op.k \in {"p.vedit", "p.vredact"} ->
                  LET s == ReviewState(p, op.x) IN
                  IF s = "missing" THEN "error"
                  ELSE IF s = "redacted" THEN "unknown"
                  ELSE Auth(op.a = p.reviews[op.x].a)
           [] op.k \in {"p.vcedit", "p.vcredact"} ->
                  LET s == ReviewState(p, op.x) IN
                  IF s = "missing" THEN "error"
                  ELSE IF s = "live" /\ VCLive(p, op.x, op.y) THEN Auth(op.a = p.vcomments[op.y].a)
                  ELSE "unknown"
           [] op.k \in {"p.vcresolve", "p.vcunresolve"} ->
                  \* the commenter, the reviewer or the author of the reviewed revision
                  LET s == ReviewState(p, op.x) IN
                  IF s = "missing" THEN "error"
                  ELSE IF s = "live" /\ VCLive(p, op.x, op.y)
                       THEN Auth(op.a \in {p.vcomments[op.y].a, p.reviews[op.x].a,
                                           p.revs[p.reviews[op.x].rev].a})
                  ELSE "unknown"
           [] op.k \in {"p.revedit", "p.revredact"} ->
                  LET s == RevState(p, op.x) IN
                  IF s = "missing" THEN "error"
                  ELSE IF s = "redacted" THEN "unknown"
                  ELSE IF Variant = "redactAnyone" /\ op.k = "p.revredact" THEN "allow"
                  ELSE Auth(op.a = p.revs[op.x].a)
           [] op.k \in {"p.rcedit", "p.rcredact"} ->
                  LET s == RevState(p, op.x) IN
                  IF s = "missing" THEN "error"
                  ELSE IF s = "live" /\ RCLive(p, op.x, op.y) THEN Auth(op.a = p.rcomments[op.y].a)
                  ELSE "unknown"

\* redacting revision r forgets its discussion, its reviews and their comments
RedactRev(p, r) ==
    [p EXCEPT !.revs[r] = RevTomb,
              !.rcomments = [c \in DOMAIN @ |-> IF @[c].rev = r THEN RCTomb(r) ELSE @[c]],
              !.reviews   = [v \in DOMAIN @ |-> IF @[v].rev = r THEN ReviewTomb(r) ELSE @[v]],
              !.vcomments = [c \in DOMAIN @ |->
                                IF p.reviews[@[c].review].rev = r THEN VCTomb(@[c].review) ELSE @[c]]]
\* redacting review v forgets its comments
RedactReview(p, v) ==
    [p EXCEPT !.reviews[v] = ReviewTomb(@.rev),
              !.vcomments = [c \in DOMAIN @ |-> IF @[c].review = v THEN VCTomb(v) ELSE @[c]]]

\* Merge arm of Patch::action. The merge of `op.a` replaces its previous one; the recorded merges
\* are counted per (revision, commit); those reaching the threshold of the op's document decide the
\* state: none -> unchanged, one -> merged, several -> open with conflicts.
MergeEval(p, op, hd) ==
    LET rs == RevState(p, op.x) IN
    IF rs = "missing" THEN Rejected(p)
    ELSE IF rs = "redacted" THEN Ignored(p)      \* a redacted revision is never merged
    ELSE IF ~OnBranch(hd, op.a, op.y) THEN Ignored(p)   \* not (yet) in the merger's default branch
    ELSE LET m2    == {m \in p.merges : m[1] # op.a} \cup {<<op.a, op.x, op.y>>}
             key(m) == IF Variant = "countPerRevision" THEN <<m[2], 0>> ELSE <<m[2], m[3]>>
             pairs == {<<m[2], m[3]>> : m \in m2}
             cnt(pr) == Cardinality({m \in m2 : key(m) = key(<<0, pr[1], pr[2]>>)})
             q     == {pr \in pairs : IF Variant = "thresholdMinusOne"
                                      THEN cnt(pr) >= Threshold[op.d] - 1
                                      ELSE cnt(pr) >= Threshold[op.d]}
             st2   == IF q = {} THEN p.state
                      ELSE IF Cardinality(q) = 1 THEN [k |-> "merged", set |-> q]
                      ELSE [k |-> "open", set |-> q]
         IN Applied([p EXCEPT !.merges = m2, !.state = st2])

\* Patch::action (reached only with Allow)
PatchAction(p, op, hd) ==
    CASE op.k = "p.edit"   -> Applied([p EXCEPT !.title = op.x])      \* no title validation here
      [] op.k = "p.label"  -> Applied([p EXCEPT !.labels = LabelSets[op.x]])
      [] op.k = "p.assign" -> Applied([p EXCEPT !.assignees = AssignSets[op.x]])
      [] op.k = "p.lifecycle" ->
            \* only from draft, archived or (conflict-free) open; otherwise silently nothing
            IF Variant = "lifecycleUnguarded"
               \/ p.state.k \in {"draft", "archived"} \/ (p.state.k = "open" /\ p.state.set = {})
            THEN Applied([p EXCEPT !.state = [k |-> CASE op.x = 0 -> "open" [] op.x = 1 -> "draft"
                                                        [] op.x = 2 -> "archived", set |-> {}]])
            ELSE Ignored(p)
      [] op.k = "p.merge" -> MergeEval(p, op, hd)
      [] op.k = "p.revision" -> Applied([p EXCEPT !.revs = Append(@, NewRev(op.a))])
      [] op.k = "p.revedit" ->
            LET s == RevState(p, op.x) IN
            IF s = "missing" THEN Rejected(p)
            ELSE IF s = "redacted" THEN Ignored(p)
            ELSE Applied([p EXCEPT !.revs[op.x].edits = Append(@, op.a)])
      [] op.k = "p.revredact" ->
            IF op.x = 1 THEN Rejected(p)                    \* the root revision stays
            ELSE IF RevState(p, op.x) = "missing" THEN Rejected(p)
            ELSE IF \E m \in p.merges : m[2] = op.x THEN Ignored(p)   \* merged revisions stay
            ELSE Applied(RedactRev(p, op.x))
      [] op.k = "p.revreact" ->
            LET s == RevState(p, op.x) IN
            IF s = "missing" THEN Rejected(p)
            ELSE IF s = "redacted" THEN Ignored(p)
            ELSE Applied([p EXCEPT !.revs[op.x].rx = Toggle(@, op.a, op.y)])
      [] op.k = "p.rcomment" ->
            LET s == RevState(p, op.x) IN
            IF s = "missing" THEN Rejected(p)
            ELSE IF s = "redacted" THEN Ignored(p)
            ELSE IF op.z = 1 THEN Rejected(p)
            ELSE IF op.y # 0 /\ ~RCIn(p, op.x, op.y) THEN Rejected(p)
            ELSE Applied([p EXCEPT !.rcomments = Append(@, NewRC(op.x, op.a, op.y))])
      [] op.k = "p.rcedit" ->
            LET s == RevState(p, op.x) IN
            IF s = "missing" THEN Rejected(p)
            ELSE IF s = "redacted" THEN Ignored(p)
            ELSE IF op.z = 1 THEN Rejected(p)
            ELSE IF ~RCIn(p, op.x, op.y) THEN Rejected(p)
            ELSE IF ~p.rcomments[op.y].live THEN Ignored(p)
            ELSE Applied([p EXCEPT !.rcomments[op.y].edits = Append(@, op.a)])
      [] op.k = "p.rcredact" ->
            LET s == RevState(p, op.x) IN
            IF s = "missing" THEN Rejected(p)
            ELSE IF s = "redacted" THEN Ignored(p)
            ELSE IF ~RCIn(p, op.x, op.y) THEN Rejected(p)
            ELSE Applied([p EXCEPT !.rcomments[op.y] = RCTomb(op.x)])
      [] op.k = "p.rcreact" ->
            LET s == RevState(p, op.x) IN
            IF s = "missing" THEN Rejected(p)
            ELSE IF s = "redacted" THEN Ignored(p)
            ELSE IF ~RCIn(p, op.x, op.y) THEN Rejected(p)
            ELSE IF ~p.rcomments[op.y].live THEN Ignored(p)
            ELSE Applied([p EXCEPT !.rcomments[op.y].rx = Toggle(@, op.a, op.z)])
      [] op.k = "p.review" ->
            \* an unknown revision is *ignored* here (not an error), like a redacted one;
            \* a second review of the same revision by the same author is ignored
            IF RevState(p, op.x) # "live" THEN Ignored(p)
            ELSE IF \E v \in DOMAIN p.reviews :
                        p.reviews[v].live /\ p.reviews[v].rev = op.x /\ p.reviews[v].a = op.a
                 THEN Ignored(p)
            ELSE Applied([p EXCEPT !.reviews = Append(@, NewReview(op.x, op.a, op.y, op.z))])
      [] op.k = "p.vedit" ->
            IF op.y = 0 /\ op.z = 0 THEN Rejected(p)        \* Error::EmptyReview
            ELSE LET s == ReviewState(p, op.x) IN
                 IF s = "missing" THEN Rejected(p)
                 ELSE IF s = "redacted" THEN Ignored(p)
                 ELSE Applied([p EXCEPT !.reviews[op.x].v = op.y, !.reviews[op.x].s = op.z])
      [] op.k = "p.vredact" ->
            LET s == ReviewState(p, op.x) IN
            IF s = "missing" THEN Rejected(p)
            ELSE IF s = "redacted" THEN Ignored(p)
            ELSE Applied(RedactReview(p, op.x))
      [] op.k = "p.vcomment" ->
            LET s == ReviewState(p, op.x) IN
            IF s = "missing" THEN Rejected(p)
            ELSE IF s = "redacted" THEN Ignored(p)
            ELSE IF op.z = 1 THEN Rejected(p)
            ELSE IF op.y # 0 /\ ~VCIn(p, op.x, op.y) THEN Rejected(p)
            ELSE Applied([p EXCEPT !.vcomments = Append(@, NewVC(op.x, op.a, op.y))])
      [] op.k = "p.vcedit" ->
            LET s == ReviewState(p, op.x) IN
            IF s = "missing" THEN Rejected(p)
            ELSE IF s = "redacted" THEN Ignored(p)
            ELSE IF op.z = 1 THEN Rejected(p)
            ELSE IF ~VCIn(p, op.x, op.y) THEN Rejected(p)
            ELSE IF ~p.vcomments[op.y].live THEN Ignored(p)
            ELSE Applied([p EXCEPT !.vcomments[op.y].edits = Append(@, op.a)])
      [] op.k = "p.vcredact" ->
            LET s == ReviewState(p, op.x) IN
            IF s = "missing" THEN Rejected(p)
            ELSE IF s = "redacted" THEN Ignored(p)
            ELSE IF ~VCIn(p, op.x, op.y) THEN Rejected(p)
            ELSE Applied([p EXCEPT !.vcomments[op.y] = VCTomb(op.x)])
      [] op.k = "p.vcreact" ->
            LET s == ReviewState(p, op.x) IN
            IF s = "missing" THEN Rejected(p)
            ELSE IF s = "redacted" THEN Ignored(p)
            ELSE IF ~VCIn(p, op.x, op.y) THEN Rejected(p)
            ELSE IF ~p.vcomments[op.y].live THEN Ignored(p)
            ELSE Applied([p EXCEPT !.vcomments[op.y].rx = Toggle(@, op.a, op.z)])
      [] op.k \in {"p.vcresolve", "p.vcunresolve"} ->
            LET s == ReviewState(p, op.x) IN
            IF s = "missing" THEN Rejected(p)
            ELSE IF s = "redacted" THEN Ignored(p)
            ELSE IF ~VCIn(p, op.x, op.y) THEN Rejected(p)
            ELSE IF ~p.vcomments[op.y].live THEN Ignored(p)
            ELSE Applied([p EXCEPT !.vcomments[op.y].res = (op.k = "p.vcresolve")])

\* Patch::op_action
PatchEval(p, op, hd) ==
    LET z == PatchAuthz(p, op) IN
    CASE z = "allow"   -> PatchAction(p, op, hd)
      [] z = "deny"    -> Rejected(p)
      [] z = "error"   -> Rejected(p)
      [] z = "unknown" -> Ignored(p)

RIds(p)  == DOMAIN p.revs \cup {Missing}
VIds(p)  == DOMAIN p.reviews \cup {Missing}
RCIds(p) == DOMAIN p.rcomments \cup {Missing}
VCIds(p) == DOMAIN p.vcomments \cup {Missing}
PatchOpsBy(p, a, d) ==
         {Op(a, d, "p.edit", x, 0, 0)       : x \in Titles}
    \cup {Op(a, d, "p.label", x, 0, 0)      : x \in DOMAIN LabelSets}
    \cup {Op(a, d, "p.assign", x, 0, 0)     : x \in DOMAIN AssignSets}
    \cup {Op(a, d, "p.lifecycle", x, 0, 0)  : x \in 0..2}
    \cup {Op(a, d, "p.merge", x, y, 0)      : x \in RIds(p), y \in Commit}
    \cup {Op(a, d, "p.revision", 0, 0, 0)}
    \cup {Op(a, d, "p.revedit", x, 0, 0)    : x \in RIds(p)}
    \cup {Op(a, d, "p.revredact", x, 0, 0)  : x \in RIds(p)}
    \cup {Op(a, d, "p.revreact", x, y, 0)   : x \in RIds(p), y \in {0, 1}}
    \cup {Op(a, d, "p.rcomment", x, y, z)   : x \in RIds(p), y \in {0} \cup RCIds(p), z \in Bodies}
    \cup {Op(a, d, "p.rcedit", x, y, z)     : x \in RIds(p), y \in RCIds(p), z \in Bodies}
    \cup {Op(a, d, "p.rcredact", x, y, 0)   : x \in RIds(p), y \in RCIds(p)}
    \cup {Op(a, d, "p.rcreact", x, y, z)    : x \in RIds(p), y \in RCIds(p), z \in {0, 1}}
    \cup {Op(a, d, "p.review", x, y, z)     : x \in RIds(p), y \in VerdictVals, z \in SummaryVals}
    \cup {Op(a, d, "p.vedit", x, y, z)      : x \in VIds(p), y \in VerdictVals, z \in SummaryVals}
    \cup {Op(a, d, "p.vredact", x, 0, 0)    : x \in VIds(p)}
    \cup {Op(a, d, "p.vcomment", x, y, z)   : x \in VIds(p), y \in {0} \cup VCIds(p), z \in Bodies}
    \cup {Op(a, d, "p.vcedit", x, y, z)     : x \in VIds(p), y \in VCIds(p), z \in Bodies}
    \cup {Op(a, d, "p.vcredact", x, y, 0)   : x \in VIds(p), y \in VCIds(p)}
    \cup {Op(a, d, "p.vcreact", x, y, z)    : x \in VIds(p), y \in VCIds(p), z \in {0, 1}}
    \cup {Op(a, d, k, x, y, 0)              : k \in {"p.vcresolve", "p.vcunresolve"},
                                              x \in VIds(p), y \in VCIds(p)}
PatchOps(p) == UNION {PatchOpsBy(p, a, d) : a \in Actor, d \in Doc}

PatchBound(p) ==
    /\ Len(p.revs) <= MaxR /\ Len(p.rcomments) <= MaxRC
    /\ Len(p.reviews) <= MaxV /\ Len(p.vcomments) <= MaxVC
    /\ \A r \in DOMAIN p.revs : Len(p.revs[r].edits) <= MaxE /\ p.revs[r].rx \subseteq Reactors
    /\ \A c \in DOMAIN p.rcomments :
           Len(p.rcomments[c].edits) <= MaxE /\ p.rcomments[c].rx \subseteq Reactors
    /\ \A c \in DOMAIN p.vcomments :
           Len(p.vcomments[c].edits) <= MaxE /\ p.vcomments[c].rx \subseteq Reactors

-----------------------------------------------------------------------------
(* History kept for the C08 statement. *)

\* rec: every merge ever recorded, as <<actor, revision, commit, doc>>; thr: the threshold of the
\* document of the merge op that last produced a quorum
NoGhost == [rec |-> {}, thr |-> 0]
GhostAfter(g, p, op, out) ==
    IF op.k = "p.merge" /\ out.res = "applied"
    THEN [rec |-> g.rec \cup {<<op.a, op.x, op.y, op.d>>},
          thr |-> IF out.st.state # p.state THEN Threshold[op.d] ELSE g.thr]
    ELSE g

-----------------------------------------------------------------------------
(* Next-state relation: one action per `Action` variant of the code. *)

Init == /\ issue = NoIssue
        /\ patch = NoPatch
        /\ heads \in HeadInits
        /\ log = <<>>
        /\ ghost = NoGhost

Logged(op, res) == log' = Append(log, [op |-> op, res |-> res])

IssueCreate(a, d, x, y) ==
    LET op == Op(a, d, "i.create", x, y, 0) out == IssueCreateEval(op) IN
    /\ "i.create" \in Kinds /\ a \in Creators /\ issue.author = 0 /\ patch.author = 0
    /\ issue' = out.st /\ Logged(op, out.res) /\ UNCHANGED <<patch, heads, ghost>>

IssueDo(op) ==
    LET out == IssueEval(issue, op) IN
    /\ op.k \in Kinds /\ issue.author # 0
    /\ IssueBound(out.st)
    /\ issue' = out.st /\ Logged(op, out.res) /\ UNCHANGED <<patch, heads, ghost>>

IssueAssign(a, d, x)       == IssueDo(Op(a, d, "i.assign", x, 0, 0))
IssueLabel(a, d, x)        == IssueDo(Op(a, d, "i.label", x, 0, 0))
IssueEdit(a, d, x)         == IssueDo(Op(a, d, "i.edit", x, 0, 0))
IssueLifecycle(a, d, x)    == IssueDo(Op(a, d, "i.lifecycle", x, 0, 0))
IssueComment(a, d, x, z)   == IssueDo(Op(a, d, "i.comment", x, 0, z))
IssueCommentEdit(a, d, x, z) == IssueDo(Op(a, d, "i.cedit", x, 0, z))
IssueCommentRedact(a, d, x)  == IssueDo(Op(a, d, "i.credact", x, 0, 0))
IssueCommentReact(a, d, x, y) == IssueDo(Op(a, d, "i.creact", x, y, 0))

IssueNext ==
    \E a \in Actor, d \in Doc :
        \/ \E x \in DOMAIN LabelSets, y \in DOMAIN AssignSets : IssueCreate(a, d, x, y)
        \/ \E x \in DOMAIN AssignSets : IssueAssign(a, d, x)
        \/ \E x \in DOMAIN LabelSets : IssueLabel(a, d, x)
        \/ \E x \in Titles : IssueEdit(a, d, x)
        \/ \E x \in 0..2 : IssueLifecycle(a, d, x)
        \/ \E x \in {0} \cup CIds(issue), z \in Bodies : IssueComment(a, d, x, z)
        \/ \E x \in CIds(issue), z \in Bodies : IssueCommentEdit(a, d, x, z)
        \/ \E x \in CIds(issue) : IssueCommentRedact(a, d, x)
        \/ \E x \in CIds(issue), y \in {0, 1} : IssueCommentReact(a, d, x, y)

PatchCreate(a, d, x) ==
    LET op == Op(a, d, "p.create", x, 0, 0) out == PatchCreateEval(op) IN
    /\ "p.create" \in Kinds /\ a \in Creators /\ issue.author = 0 /\ patch.author = 0
    /\ patch' = out.st /\ Logged(op, out.res) /\ UNCHANGED <<issue, heads, ghost>>

PatchDo(op) ==
    LET out == PatchEval(patch, op, heads) IN
    /\ op.k \in Kinds /\ patch.author # 0
    /\ PatchBound(out.st)
    /\ patch' = out.st /\ Logged(op, out.res)
    /\ ghost' = GhostAfter(ghost, patch, op, out)
    /\ UNCHANGED <<issue, heads>>

PatchEdit(a, d, x)           == PatchDo(Op(a, d, "p.edit", x, 0, 0))
PatchLabel(a, d, x)          == PatchDo(Op(a, d, "p.label", x, 0, 0))
PatchAssign(a, d, x)         == PatchDo(Op(a, d, "p.assign", x, 0, 0))
PatchLifecycle(a, d, x)      == PatchDo(Op(a, d, "p.lifecycle", x, 0, 0))
PatchMerge(a, d, x, y)       == PatchDo(Op(a, d, "p.merge", x, y, 0))
PatchRevision(a, d)          == PatchDo(Op(a, d, "p.revision", 0, 0, 0))
PatchRevisionEdit(a, d, x)   == PatchDo(Op(a, d, "p.revedit", x, 0, 0))
PatchRevisionRedact(a, d, x) == PatchDo(Op(a, d, "p.revredact", x, 0, 0))
PatchRevisionReact(a, d, x, y) == PatchDo(Op(a, d, "p.revreact", x, y, 0))
PatchRevisionComment(a, d, x, y, z)       == PatchDo(Op(a, d, "p.rcomment", x, y, z))
PatchRevisionCommentEdit(a, d, x, y, z)   == PatchDo(Op(a, d, "p.rcedit", x, y, z))
PatchRevisionCommentRedact(a, d, x, y)    == PatchDo(Op(a, d, "p.rcredact", x, y, 0))
PatchRevisionCommentReact(a, d, x, y, z)  == PatchDo(Op(a, d, "p.rcreact", x, y, z))
PatchReview(a, d, x, y, z)                == PatchDo(Op(a, d, "p.review", x, y, z))
PatchReviewEdit(a, d, x, y, z)            == PatchDo(Op(a, d, "p.vedit", x, y, z))
PatchReviewRedact(a, d, x)                == PatchDo(Op(a, d, "p.vredact", x, 0, 0))
PatchReviewComment(a, d, x, y, z)         == PatchDo(Op(a, d, "p.vcomment", x, y, z))
PatchReviewCommentEdit(a, d, x, y, z)     == PatchDo(Op(a, d, "p.vcedit", x, y, z))
PatchReviewCommentRedact(a, d, x, y)      == PatchDo(Op(a, d, "p.vcredact", x, y, 0))
PatchReviewCommentReact(a, d, x, y, z)    == PatchDo(Op(a, d, "p.vcreact", x, y, z))
PatchReviewCommentResolve(a, d, x, y)     == PatchDo(Op(a, d, "p.vcresolve", x, y, 0))
PatchReviewCommentUnresolve(a, d, x, y)   == PatchDo(Op(a, d, "p.vcunresolve", x, y, 0))

PatchNext ==
    \E a \in Actor, d \in Doc :
        \/ \E x \in DOMAIN LabelSets : PatchCreate(a, d, x)
        \/ \E x \in Titles : PatchEdit(a, d, x)
        \/ \E x \in DOMAIN LabelSets : PatchLabel(a, d, x)
        \/ \E x \in DOMAIN AssignSets : PatchAssign(a, d, x)
        \/ \E x \in 0..2 : PatchLifecycle(a, d, x)
        \/ \E x \in RIds(patch), y \in Commit : PatchMerge(a, d, x, y)
        \/ PatchRevision(a, d)
        \/ \E x \in RIds(patch) : \/ PatchRevisionEdit(a, d, x)
                                  \/ PatchRevisionRedact(a, d, x)
                                  \/ \E y \in {0, 1} : PatchRevisionReact(a, d, x, y)
        \/ \E x \in RIds(patch), y \in {0} \cup RCIds(patch), z \in Bodies :
               PatchRevisionComment(a, d, x, y, z)
        \/ \E x \in RIds(patch), y \in RCIds(patch) :
               \/ \E z \in Bodies : PatchRevisionCommentEdit(a, d, x, y, z)
               \/ PatchRevisionCommentRedact(a, d, x, y)
               \/ \E z \in {0, 1} : PatchRevisionCommentReact(a, d, x, y, z)
        \/ \E x \in RIds(patch), y \in VerdictVals, z \in SummaryVals : PatchReview(a, d, x, y, z)
        \/ \E x \in VIds(patch) : \/ \E y \in VerdictVals, z \in SummaryVals : PatchReviewEdit(a, d, x, y, z)
                                  \/ PatchReviewRedact(a, d, x)
        \/ \E x \in VIds(patch), y \in {0} \cup VCIds(patch), z \in Bodies :
               PatchReviewComment(a, d, x, y, z)
        \/ \E x \in VIds(patch), y \in VCIds(patch) :
               \/ \E z \in Bodies : PatchReviewCommentEdit(a, d, x, y, z)
               \/ PatchReviewCommentRedact(a, d, x, y)
               \/ \E z \in {0, 1} : PatchReviewCommentReact(a, d, x, y, z)
               \/ PatchReviewCommentResolve(a, d, x, y)
               \/ PatchReviewCommentUnresolve(a, d, x, y)

\* Environment: an actor moves its default branch (a push). Not an op of any object; it changes
\* what later merge evaluations see.
Push(a, c) ==
    /\ "push" \in Kinds /\ a \in Pushers
    /\ heads[a] # c
    /\ heads' = [heads EXCEPT ![a] = c]
    /\ Logged(Op(a, 0, "push", c, heads[a], 0), "applied")     \* y = the head before the push
    /\ UNCHANGED <<issue, patch, ghost>>

Next == IssueNext \/ PatchNext \/ (\E a \in Actor, c \in Commit \cup {0} : Push(a, c))

Spec == Init /\ [][Next]_vars

-----------------------------------------------------------------------------
(* C07: the statement, as a predicate over one evaluated op. *)

\* what "edited or redacted" means for the things the statement protects
CommentTouched(c, c2) == c2.live # c.live \/ c2.edits # c.edits \/ c2.a # c.a
ReviewTouched(v, v2)  == v2.live # v.live \/ v2.v # v.v \/ v2.s # v.s \/ v2.a # v.a \/ v2.rev # v.rev

StmtIssue(i, op, i2) ==
    LET del == IsDelegate(op.a, op.d)
        own == op.a = i.author
    IN
    \* assignees and labels change only through delegates of the document the op refers to
    /\ (i2.labels # i.labels \/ i2.assignees # i.assignees) => del
    \* title and lifecycle only through the issue author or a delegate
    /\ (i2.title # i.title \/ i2.state # i.state) => (del \/ own)
    /\ i2.author = i.author
    \* a comment is edited or redacted only by its author or a delegate; comments never vanish
    /\ Len(i2.comments) >= Len(i.comments)
    /\ \A c \in DOMAIN i.comments :
           CommentTouched(i.comments[c], i2.comments[c]) => (del \/ op.a = i.comments[c].a)
    \* any other such action has no effect at all
    /\ (op.k \in {"i.label", "i.assign"} /\ ~del) => i2 = i
    /\ (op.k \in {"i.edit", "i.lifecycle"} /\ ~(del \/ own)) => i2 = i
    /\ (op.k \in {"i.cedit", "i.credact"} /\ op.x \in DOMAIN i.comments
          /\ ~(del \/ op.a = i.comments[op.x].a)) => i2 = i
    \* a new comment belongs to the actor of the op
    /\ \A c \in DOMAIN i2.comments \ DOMAIN i.comments : i2.comments[c].a = op.a

StmtPatch(p, op, p2) ==
    LET del == IsDelegate(op.a, op.d)
        own == op.a = p.author
        \* a revision redacted by its own author (or a delegate) takes its contents with it, a
        \* review redacted by its author takes its comments with it: that is the redaction of the
        \* container, not of somebody else's comment
        revGone(r) == op.k = "p.revredact" /\ op.x = r /\ r \in DOMAIN p.revs
                      /\ (del \/ op.a = p.revs[r].a)
        reviewGone(v) == \/ (op.k = "p.vredact" /\ op.x = v /\ v \in DOMAIN p.reviews
                               /\ (del \/ op.a = p.reviews[v].a))
                         \/ (v \in DOMAIN p.reviews /\ revGone(p.reviews[v].rev))
    IN
    /\ (p2.labels # p.labels \/ p2.assignees # p.assignees \/ p2.merges # p.merges) => del
    /\ (p2.title # p.title \/ p2.state # p.state) => (del \/ own)
    /\ p2.author = p.author
    /\ Len(p2.revs) >= Len(p.revs) /\ Len(p2.rcomments) >= Len(p.rcomments)
    /\ Len(p2.reviews) >= Len(p.reviews) /\ Len(p2.vcomments) >= Len(p.vcomments)
    \* a review is edited or redacted only by its author or a delegate
    /\ \A v \in DOMAIN p.reviews :
           ReviewTouched(p.reviews[v], p2.reviews[v])
               => (del \/ op.a = p.reviews[v].a \/ revGone(p.reviews[v].rev))
    \* comments (revision discussion, review) likewise
    /\ \A c \in DOMAIN p.rcomments :
           CommentTouched(p.rcomments[c], p2.rcomments[c])
               => (del \/ op.a = p.rcomments[c].a \/ revGone(p.rcomments[c].rev))
    /\ \A c \in DOMAIN p.vcomments :
           CommentTouched(p.vcomments[c], p2.vcomments[c])
               => (del \/ op.a = p.vcomments[c].a \/ reviewGone(p.vcomments[c].review))
    \* no effect otherwise
    /\ (op.k \in {"p.label", "p.assign", "p.merge"} /\ ~del) => p2 = p
    /\ (op.k \in {"p.edit", "p.lifecycle"} /\ ~(del \/ own)) => p2 = p
    /\ (op.k \in {"p.vedit", "p.vredact"} /\ op.x \in DOMAIN p.reviews
          /\ ~(del \/ op.a = p.reviews[op.x].a)) => p2 = p
    /\ (op.k \in {"p.rcedit", "p.rcredact"} /\ op.y \in DOMAIN p.rcomments
          /\ ~(del \/ op.a = p.rcomments[op.y].a)) => p2 = p
    /\ (op.k \in {"p.vcedit", "p.vcredact"} /\ op.y \in DOMAIN p.vcomments
          /\ ~(del \/ op.a = p.vcomments[op.y].a)) => p2 = p
    /\ \A c \in DOMAIN p2.rcomments \ DOMAIN p.rcomments : p2.rcomments[c].a = op.a
    /\ \A c \in DOMAIN p2.vcomments \ DOMAIN p.vcomments : p2.vcomments[c].a = op.a
    /\ \A v \in DOMAIN p2.reviews \ DOMAIN p.reviews : p2.reviews[v].a = op.a

\* Not part of the statement of C07, but rules the code documents ("only the revision author can
\* edit or redact their revision", who may resolve review comments); reported as drift if broken.
ExtraPatch(p, op, p2) ==
    LET del == IsDelegate(op.a, op.d) IN
    /\ \A r \in DOMAIN p.revs :
           (p2.revs[r].live # p.revs[r].live \/ p2.revs[r].edits # p.revs[r].edits)
               => (del \/ op.a = p.revs[r].a)
    /\ \A c \in DOMAIN p.vcomments :
           (p.vcomments[c].live /\ p2.vcomments[c].live /\ p2.vcomments[c].res # p.vcomments[c].res)
               => LET v == p.vcomments[c].review IN
                  (del \/ op.a \in {p.vcomments[c].a, p.reviews[v].a, p.revs[p.reviews[v].rev].a})

-----------------------------------------------------------------------------
(* C08: a patch is merged only by a threshold of agreeing delegates. *)

MergersOf(p, pr) == {m[1] : m \in {m \in p.merges : <<m[2], m[3]>> = pr}}

C08Step(p, op, p2, hd) ==
    \* a merge is recorded (or replaced) only for the delegate who made the op, only for a live
    \* revision, only for a commit on that delegate's default branch at evaluation time
    /\ \A m \in p2.merges \ p.merges :
           /\ op.k = "p.merge" /\ m = <<op.a, op.x, op.y>>
           /\ IsDelegate(op.a, op.d)
           /\ op.x \in DOMAIN p.revs /\ p.revs[op.x].live
           /\ OnBranch(hd, op.a, op.y)
    /\ \A m \in p.merges \ p2.merges : op.k = "p.merge" /\ m[1] = op.a
    \* the patch becomes merged at (r, c) only through a merge op, and only when at least the
    \* threshold (of the document of that op) of distinct actors have that same (r, c) recorded
    /\ (p2.state # p.state /\ p2.state.k = "merged") =>
           /\ op.k = "p.merge"
           /\ Cardinality(p2.state.set) = 1
           /\ \A pr \in p2.state.set : Cardinality(MergersOf(p2, pr)) >= Threshold[op.d]
    \* once merged, lifecycle actions cannot move it back
    /\ (p.state.k = "merged" /\ op.k = "p.lifecycle") => p2.state = p.state
    \* conflicts are only produced by merges, each conflicting pair having its own quorum
    /\ (p2.state # p.state /\ p2.state.k = "open" /\ p2.state.set # {}) =>
           /\ op.k = "p.merge"
           /\ \A pr \in p2.state.set : Cardinality(MergersOf(p2, pr)) >= Threshold[op.d]
    \* a revision that somebody merged is not redacted
    /\ \A m \in p2.merges : m[2] \in DOMAIN p2.revs /\ p2.revs[m[2]].live

-----------------------------------------------------------------------------
(* Properties checked by TLC on the bounded model. *)

Stepped   == Len(log') = Len(log) + 1      \* an op was evaluated in this step
LastEntry == log'[Len(log')]

C07_Issue ==
    [][(Stepped /\ LastEntry.op.k \in {"i.assign", "i.label", "i.edit", "i.lifecycle",
                                           "i.comment", "i.cedit", "i.credact", "i.creact"})
           => StmtIssue(issue, LastEntry.op, issue')]_vars
C07_Patch ==
    [][(Stepped /\ patch.author # 0 /\ LastEntry.op.k # "push")
           => StmtPatch(patch, LastEntry.op, patch')]_vars
C07_PatchExtra ==
    [][(Stepped /\ patch.author # 0 /\ LastEntry.op.k # "push")
           => ExtraPatch(patch, LastEntry.op, patch')]_vars
C08_Step ==
    [][(Stepped /\ patch.author # 0 /\ LastEntry.op.k # "push")
           => C08Step(patch, LastEntry.op, patch', heads)]_vars
\* rejected ops leave the object exactly as it was
RejectedNoEffect ==
    [][(Stepped /\ LastEntry.res = "rejected") => (issue' = issue /\ patch' = patch)]_vars
\* only the environment moves branches; objects do not appear or disappear
Frame == [][(heads' # heads => (Stepped /\ LastEntry.op.k = "push"))]_vars

\* State invariants
TypeOK ==
    /\ issue.author \in Actor \cup {0} /\ patch.author \in Actor \cup {0}
    /\ issue.labels \in {LabelSets[x] : x \in DOMAIN LabelSets}
    /\ patch.state.k \in {"draft", "open", "archived", "merged"}
    /\ \A m \in patch.merges : m[1] \in Actor /\ m[3] \in Commit
IssueWF ==
    issue.author # 0 =>
        /\ Len(issue.comments) >= 1
        /\ issue.comments[1].live /\ issue.comments[1].a = issue.author   \* the description stays
        /\ \A c \in DOMAIN issue.comments : issue.comments[c].live => issue.comments[c].re < c
PatchWF ==
    patch.author # 0 =>
        /\ Len(patch.revs) >= 1 /\ patch.revs[1].live /\ patch.revs[1].a = patch.author
        \* one merge per actor
        /\ \A m1, m2 \in patch.merges : m1[1] = m2[1] => m1 = m2
        \* a live review sits on a live revision, one per (revision, author)
        /\ \A v \in DOMAIN patch.reviews : patch.reviews[v].live => patch.revs[patch.reviews[v].rev].live
        /\ \A v, w \in DOMAIN patch.reviews :
               (patch.reviews[v].live /\ patch.reviews[w].live /\ patch.reviews[v].rev = patch.reviews[w].rev
                  /\ patch.reviews[v].a = patch.reviews[w].a) => v = w
        \* live comments sit in live containers
        /\ \A c \in DOMAIN patch.rcomments : patch.rcomments[c].live => patch.revs[patch.rcomments[c].rev].live
        /\ \A c \in DOMAIN patch.vcomments : patch.vcomments[c].live => patch.reviews[patch.vcomments[c].review].live
\* merged(r, c) => at least the threshold (in force when the quorum formed) of distinct delegates
\* recorded a merge of exactly (r, c); every recorded merge was made by a delegate of the document
\* its op referred to; redacted revisions are never merged
C08_Merged ==
    /\ patch.state.k = "merged" =>
           \A pr \in patch.state.set :
               /\ Cardinality({m[1] : m \in {m \in ghost.rec : m[2] = pr[1] /\ m[3] = pr[2]}}) >= ghost.thr
               /\ ghost.thr >= 1
    /\ \A m \in ghost.rec : IsDelegate(m[1], m[4])
    /\ \A m \in patch.merges : \E g \in ghost.rec : <<g[1], g[2], g[3]>> = m

\* A rule the code states ("we don't want to redact merged revisions") but does not keep: the
\* redaction guard looks at the recorded merges only, and a merged state survives its mergers
\* changing their mind (A merges (r2,c), the patch is merged; A merges (r1,c) under a higher
\* threshold: no quorum, the state stays merged(r2,c), nobody's merge names r2 any more, r2 can be
\* redacted).  Not part of the statement of C08; MCTracker_dev_mergedlive.cfg shows the
\* counterexample, and the replay confirms the code follows it.
X08_MergedRevisionLive ==
    patch.state.k = "merged" => \A pr \in patch.state.set : patch.revs[pr[1]].live
=============================================================================
