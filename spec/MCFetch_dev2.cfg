CONSTANTS
  N = 3
  AcceptNoRoot = TRUE
  RefsAtUsesAdvertised = FALSE
  RefsAtIgnoresBlock = TRUE
  KeepStaleRad = FALSE
  SkipUnloaded = FALSE
  Family = {"refsat"}
  Junks = {"none", "extra"}
  DelCount = {1, 2, 3}
  LocalChoices = {0, 1}
INIT MCInit
NEXT Next
INVARIANTS BlockedUntouched
