CONSTANTS
  MaxObjs = 1000
  MaxOps = 100000
  MaxSteps = 100000
  NRepos = 2
  Unscoped = {}
  JsonTree = FALSE
  StatusOnly = FALSE
  RemoveDrops = FALSE
INIT TInit
NEXT TNext
INVARIANTS QueriesAgree CacheCoherent
POSTCONDITION Accepted
