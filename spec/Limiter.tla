------------------------------- MODULE Limiter -------------------------------
(***************************************************************************)
(* Peer rate limiter of the node service                                   *)
(* (crates/radicle-node/src/service/limiter.rs): one token bucket per host *)
(* name, a bypass list of node ids, and no limiting at all for addresses   *)
(* that are not globally routable.                                         *)
(*                                                                         *)
(* Arithmetic is in integer MILLI-tokens and milliseconds.  The code uses  *)
(* f64 tokens; for capacities and rates that are multiples of 1/8 (all     *)
(* instances replayed exactly) the two agree bit for bit.  Rates that are  *)
(* not dyadic (0.2, 0.7 ...) are covered by the window property alone,     *)
(* which is stated on admission times and does not depend on the model's   *)
(* arithmetic (TraceLimiter.tla).                                          *)
(*                                                                         *)
(* Actions: Limit(host, nid, params, now) = `RateLimiter::limit`; the       *)
(* clock argument is arbitrary (also backwards).  `LocalTime::duration_    *)
(* since` panics when the bucket's last refill lies in the future of       *)
(* `now`; the call then admits nothing and changes nothing -- outcome      *)
(* "panic", a non-admission.  Tick / Accepted model how the service feeds  *)
(* the limiter: `Service::tick` ignores a clock that goes backwards, so    *)
(* the limiter only ever sees a monotone clock there.                      *)
(*                                                                         *)
(* Property C17: WindowBound -- between any two admissions of a host, the  *)
(* number admitted is at most capacity + rate * whole seconds elapsed;     *)
(* NeverLimited -- bypassed nodes and non-routable hosts are admitted and  *)
(* leave no trace.                                                         *)
(***************************************************************************)
EXTENDS Integers, FiniteSets, Sequences, TLC

CONSTANTS Hosts,        \* host names (integers)
          NonRoutable,  \* subset of Hosts: LAN / loopback addresses
          Nids,         \* node ids; 0 stands for "no node id given"
          Bypass,       \* subset of Nids on the bypass list
          Params,       \* set of [cap |-> tokens, rate |-> milli-tokens per second]
          Times,        \* clock values (ms) a caller may pass
          RefillByMillis, \* TRUE: a deliberately wrong variant (refill proportional to elapsed
                        \* milliseconds instead of whole seconds) that must violate WindowBound
          MaxCalls      \* bound on the number of Limit calls (the ghost history grows with them)

VARIABLES buckets,   \* host -> [cap, rate, tokens (milli), at (ms)]; DOMAIN = hosts seen so far
          admitted,  \* ghost: host -> sequence of the clock values of its admitted requests
          clock,     \* the service's clock (Tick / Accepted)
          ncalls
vars == <<buckets, admitted, clock, ncalls>>

Min2(a, b) == IF a < b THEN a ELSE b
Max2(a, b) == IF a > b THEN a ELSE b
Put(f, k, v) == [x \in DOMAIN f \cup {k} |-> IF x = k THEN v ELSE f[x]]

-----------------------------------------------------------------------------
\* limiter.rs, transcribed

\* `TokenBucket::new`
NewBucket(p, now) == [cap |-> p.cap, rate |-> p.rate, tokens |-> p.cap * 1000, at |-> now]

\* `TokenBucket::refill` (only whole elapsed seconds count; the refill time always moves to `now`)
Refill(b, now) ==
    [b EXCEPT !.tokens = Min2(b.tokens + (IF RefillByMillis THEN ((now - b.at) * b.rate) \div 1000
                                          ELSE ((now - b.at) \div 1000) * b.rate), b.cap * 1000),
              !.at = now]

\* `TokenBucket::take`; "panic" = `now.duration_since(refilled_at)` with a clock in the past
Take(b, now) ==
    IF now < b.at THEN [next |-> b, ret |-> "panic"]
    ELSE LET r == Refill(b, now)
         IN IF r.tokens >= 1000 THEN [next |-> [r EXCEPT !.tokens = @ - 1000], ret |-> "admit"]
            ELSE [next |-> r, ret |-> "limit"]

\* `RateLimiter::limit(addr, nid, tokens, now)`: [next buckets, ret]
LimitF(bs, host, nid, p, now) ==
    IF nid \in Bypass THEN [next |-> bs, ret |-> "admit"]
    ELSE IF host \in NonRoutable THEN [next |-> bs, ret |-> "admit"]
    ELSE LET b == IF host \in DOMAIN bs THEN bs[host] ELSE NewBucket(p, now)
             t == Take(b, now)
         IN \* a panic unwinds out of `limit`; the entry (if new it cannot panic) stays as it was
            [next |-> IF t.ret = "panic" THEN bs ELSE Put(bs, host, t.next), ret |-> t.ret]

-----------------------------------------------------------------------------
\* State machine

Init == /\ buckets = <<>>
        /\ admitted = [h \in Hosts |-> <<>>]
        /\ clock = 0
        /\ ncalls = 0

Counted(host, nid) == nid \notin Bypass /\ host \notin NonRoutable

Limit(host, nid, p, now) ==
    LET r == LimitF(buckets, host, nid, p, now) IN
    /\ ncalls < MaxCalls
    /\ buckets' = r.next
    /\ admitted' = IF r.ret = "admit" /\ Counted(host, nid)
                   THEN [admitted EXCEPT ![host] = Append(@, now)] ELSE admitted
    /\ ncalls' = ncalls + 1
    /\ UNCHANGED clock

\* `Service::tick(now)`: a clock that goes backwards is ignored
Tick(now) == /\ clock' = Max2(clock, now)
             /\ UNCHANGED <<buckets, admitted, ncalls>>
\* `Service::accepted(ip)` / message handling: the limiter is asked with the service clock
Accepted(host, nid, p) == Limit(host, nid, p, clock)

NextDirect == \E h \in Hosts, n \in Nids, p \in Params, now \in Times : Limit(h, n, p, now)
NextService == \/ \E now \in Times : Tick(now)
               \/ \E h \in Hosts, n \in Nids, p \in Params : Accepted(h, n, p)
Spec == Init /\ [][NextDirect \/ NextService]_vars

-----------------------------------------------------------------------------
\* C17

\* For every host and every window that starts and ends at an admission (the tightest windows):
\* admissions <= capacity + rate * whole seconds. (1000 * count <= 1000 * cap + rate_milli * secs)
WindowBoundFor(adm, cap, rate) ==
    \A i, j \in DOMAIN adm : i <= j =>
        (j - i + 1) * 1000 <= cap * 1000 + rate * ((adm[j] - adm[i]) \div 1000)
WindowBound ==
    \A h \in DOMAIN buckets : WindowBoundFor(admitted[h], buckets[h].cap, buckets[h].rate)
\* admission times never go backwards, whatever clock values were passed
AdmissionsMonotone ==
    \A h \in Hosts : \A i, j \in DOMAIN admitted[h] : i <= j => admitted[h][i] <= admitted[h][j]
\* bypassed nodes and non-routable hosts: never limited, never recorded
NeverLimited ==
    /\ \A h \in Hosts, n \in Nids, p \in Params, now \in Times :
          ~Counted(h, n) => LET r == LimitF(buckets, h, n, p, now) IN r.ret = "admit" /\ r.next = buckets
    /\ DOMAIN buckets \cap NonRoutable = {}
\* tokens stay within the bucket
TokensBounded == \A h \in DOMAIN buckets : buckets[h].tokens >= 0 /\ buckets[h].tokens <= buckets[h].cap * 1000
\* through the service the limiter never panics (its clock is monotone)
ServiceNeverPanics ==
    \A h \in Hosts, n \in Nids, p \in Params :
        (\A x \in DOMAIN buckets : buckets[x].at <= clock) => LimitF(buckets, h, n, p, clock).ret # "panic"
=============================================================================
