CONSTANTS
  MaxSeq = 3
  MaxTasks = 5
  MaxEpoch = 2
  MaxOps = 8
  Dev = {}
INIT Init
NEXT Next
VIEW view
INVARIANTS NoCrash OurIdsAreOurs OpenHasTask NoStolenStream EmitInv
