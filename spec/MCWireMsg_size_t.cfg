CONSTANTS
  InventoryLimit = 2973
  RefRemoteLimit = 1024
  AddressLimit = 16
  AliasMax = 32
  AgentMax = 64
  HostMax = 255
  MaxPingZeroes = 65529
  MaxPongZeroes = 65531
  FilterSizes = {1024, 4096, 16384}
  SizeMax = 65535
  MaxAddrKinds = 5
  AcceptNonZeroPadding = FALSE
  AcceptPartialAgent = FALSE
INIT SizeInit
NEXT SizeNext
INVARIANTS WorstCaseFits SizeOK InventoryLimitIsMaximal PingLimitIsExact PongLimitIsExact EmitSize
