------------------------------- MODULE SigRefs -------------------------------
(***************************************************************************)
(* Signed references (radicle::storage::refs): the text format of          *)
(* `refs/rad/sigrefs` and what a signature over it binds.                  *)
(*                                                                         *)
(* A node publishes, per repository, the blob `refs` (one line             *)
(* "<oid> <refname>\n" per reference, sorted by name) and the blob         *)
(* `signature` (Ed25519 over the canonical text) in a commit on            *)
(* `refs/namespaces/<key>/refs/rad/sigrefs`.  A reader does                *)
(*                                                                         *)
(*     refs := Refs::from_canonical(blob)        -- Parse                  *)
(*     key.verify(refs.canonical(), signature)   -- over the RE-ENCODED    *)
(*                                                  text of what was parsed*)
(*     if refs has refs/rad/root: the identity document at that commit     *)
(*        must hash to this repository's id                                *)
(*                                                                         *)
(* (SignedRefs::load_at / verify).  The text that is verified is therefore *)
(* not the stored blob but the canonical text of the accepted references;  *)
(* a blob that is not in canonical form (other line order, repeated names, *)
(* zero-oid lines, CRLF, abbreviated or upper-case hex) is accepted iff    *)
(* the references it parses to are the signed ones.                        *)
(*                                                                         *)
(* State: what the owner signed (ghost), and the three things stored or    *)
(* transmitted that an adversary / a bug can change: blob, signature,      *)
(* claimed key.  Actions: Sign, and single-point mutations of each.        *)
(* `Load` is the reader's function of the stored state.                    *)
(*                                                                         *)
(* Abstractions: names are 1..NN ordered like the byte order of their      *)
(* concretisations, name Root is refs/rad/root; oids are 0 (the zero oid)  *)
(* and 1..NO, where as target of Root oid 1 is a commit carrying this      *)
(* repository's identity document, 2 a commit carrying another             *)
(* repository's, 3.. an object that is absent; a signature is the pair     *)
(* (key, message) or garbage -- unforgeability is assumed, not checked.    *)
(***************************************************************************)
EXTENDS Integers, Sequences, FiniteSets, SequencesExt, TLC

CONSTANTS NN,        \* number of reference names
          Root,      \* the name that is refs/rad/root (0: none in this instance)
          NO,        \* non-zero object ids 1..NO
          Keys,      \* signing keys
          Signers,   \* keys of honest owners (subset of Keys; the others only attack)
          MaxMuts,   \* mutations applied to one signed object
          SignedMayHoldZero, \* may the programmatic Refs that is signed contain zero oids?
          Variant    \* "spec"; deliberately wrong readers: "VerifyBlob", "NoRootCheck", "KeepZero"

Names  == 1..NN
Absent == -1
Zero   == 0
Oids   == 1..NO

\* A set of references: total map name -> oid or Absent.
RefMaps == [Names -> {Absent} \cup (IF SignedMayHoldZero THEN 0..NO ELSE Oids)]
NoRefs == [n \in Names |-> Absent]
Present(r) == {n \in Names : r[n] # Absent}
ZeroFree(r) == \A n \in Names : r[n] # Zero

-----------------------------------------------------------------------------
\* Text

\* One line of a blob.  k = "ref": "<oid> <name>" with a valid name and hex oid (possibly all
\* zeros); f is how the hex is written ("canon": 40 lower-case digits, "upper", "short": abbreviated,
\* which git2 pads with zeros -- the concretisation makes both denote the same oid).
\* Other kinds are malformed: "empty" line, "nospace" (no separator), "badoid", "badname".
Line(n, o)  == [k |-> "ref", n |-> n, o |-> o, f |-> "canon"]
Bad(kind)   == [k |-> kind, n |-> 0, o |-> 0, f |-> "canon"]
BadKinds    == {"empty", "nospace", "badoid", "badname"}
Forms       == {"canon", "upper", "short"}
Eols        == {"lf", "crlf", "nofinal"}   \* line terminator; "nofinal": LF but none after the last line

\* Refs::canonical: lines sorted by name (BTreeMap order), LF-terminated.  Zero oids are emitted.
CanonBlob(r) ==
    LET ord == SetToSortSeq(Present(r), LAMBDA a, b : a < b)
    IN [lines |-> [i \in DOMAIN ord |-> Line(ord[i], r[ord[i]])], eol |-> "lf"]

\* Refs::from_canonical: line by line; the first malformed line is an error; zero oids are
\* skipped (they do not erase an earlier line of the same name); a repeated name overwrites.
Err == [ok |-> FALSE, refs |-> NoRefs]
RECURSIVE ParseLines(_, _)
ParseLines(ls, acc) ==
    IF ls = <<>> THEN [ok |-> TRUE, refs |-> acc]
    ELSE LET h == Head(ls) IN
         IF h.k # "ref" THEN Err
         ELSE IF h.o = Zero /\ Variant # "KeepZero" THEN ParseLines(Tail(ls), acc)
         ELSE ParseLines(Tail(ls), [acc EXCEPT ![h.n] = h.o])
Parse(b) == ParseLines(b.lines, NoRefs)

-----------------------------------------------------------------------------
\* Signatures (abstract)

Sig(key, msg) == [key |-> key, msg |-> msg, ok |-> TRUE]
Garbage(s)    == [s EXCEPT !.ok = FALSE]          \* any bit of the 64 bytes changed
VerifySig(key, msg, s) == s.ok /\ s.key = key /\ s.msg = msg

\* Identity carried by the commit an oid names (only consulted for the Root reference)
IdentityAt(o) == IF o = 1 THEN "this" ELSE IF o = 2 THEN "other" ELSE "none"

-----------------------------------------------------------------------------
\* The reader: SignedRefs::load_at = from_canonical + verify

Load(b, s, key) ==
    LET p == Parse(b) IN
    IF ~p.ok THEN [res |-> "parse", refs |-> NoRefs]
    ELSE LET msg == IF Variant = "VerifyBlob" THEN b ELSE CanonBlob(p.refs) IN
         IF ~VerifySig(key, msg, s) THEN [res |-> "signature", refs |-> NoRefs]
         ELSE IF Root \in Names /\ p.refs[Root] # Absent /\ IdentityAt(p.refs[Root]) # "this" /\ Variant # "NoRootCheck"
              THEN [res |-> "identity", refs |-> NoRefs]
         ELSE [res |-> "ok", refs |-> p.refs]

-----------------------------------------------------------------------------
\* State machine

VARIABLES signed,   \* ghost: [key, refs] the owner signed
          blob,     \* stored `refs` blob
          sig,      \* stored `signature` blob
          claimed,  \* the namespace (public key) the object is stored under
          muts      \* mutations applied so far
vars == <<signed, blob, sig, claimed, muts>>

\* Refs::signed + SignedRefs::save
Init == \E k \in Signers, r \in RefMaps :
            /\ signed = [key |-> k, refs |-> r]
            /\ blob = CanonBlob(r)
            /\ sig = Sig(k, CanonBlob(r))
            /\ claimed = k
            /\ muts = 0

Mut == muts < MaxMuts /\ muts' = muts + 1 /\ UNCHANGED signed
Lines == blob.lines
SetLines(ls) == blob' = [blob EXCEPT !.lines = ls]
RefLine(i) == i \in DOMAIN Lines /\ Lines[i].k = "ref"
InsLine(ls, i, x) == SubSeq(ls, 1, i - 1) \o <<x>> \o SubSeq(ls, i, Len(ls))
DelLine(ls, i) == SubSeq(ls, 1, i - 1) \o SubSeq(ls, i + 1, Len(ls))

\* -- the blob
\* Different abstract blobs must be different bytes (signatures are compared through their
\* messages), so spellings that do not change the bytes are excluded: upper case of an all-digit
\* oid (the zero oid), abbreviation of an oid without trailing zeros (1 and 2 are real commits),
\* an empty last line without final terminator, a terminator style on an empty blob.
FormApplies(o, f) == f = "canon" \/ (f = "upper" /\ o # Zero) \/ (f = "short" /\ o \notin {1, 2})
WellFormedBlob(b) == /\ (b.lines = <<>> => b.eol = "lf")
                     /\ (b.eol = "nofinal" => b.lines[Len(b.lines)].k # "empty")
SetBlob(b) == WellFormedBlob(b) /\ blob' = b
SetOid(i, o)   == Mut /\ RefLine(i) /\ o # Lines[i].o /\ SetLines([Lines EXCEPT ![i].o = o, ![i].f = "canon"]) /\ UNCHANGED <<sig, claimed>>
SetName(i, n)  == Mut /\ RefLine(i) /\ n # Lines[i].n /\ SetLines([Lines EXCEPT ![i].n = n]) /\ UNCHANGED <<sig, claimed>>
SetForm(i, f)  == /\ Mut /\ RefLine(i) /\ f # Lines[i].f /\ FormApplies(Lines[i].o, f)
                  /\ SetLines([Lines EXCEPT ![i].f = f]) /\ UNCHANGED <<sig, claimed>>
DeleteLine(i)  == /\ Mut /\ i \in DOMAIN Lines
                  /\ SetBlob([lines |-> DelLine(Lines, i), eol |-> IF Len(Lines) = 1 THEN "lf" ELSE blob.eol])
                  /\ UNCHANGED <<sig, claimed>>
InsertRef(i, n, o) == Mut /\ i \in 1..(Len(Lines) + 1) /\ SetLines(InsLine(Lines, i, Line(n, o))) /\ UNCHANGED <<sig, claimed>>
InsertBad(i, k)    == /\ Mut /\ i \in 1..(Len(Lines) + 1)
                      /\ SetBlob([blob EXCEPT !.lines = InsLine(Lines, i, Bad(k))]) /\ UNCHANGED <<sig, claimed>>
SwapLines(i)   == /\ Mut /\ i \in 1..(Len(Lines) - 1)
                  /\ SetBlob([blob EXCEPT !.lines = [Lines EXCEPT ![i] = Lines[i + 1], ![i + 1] = Lines[i]]])
                  /\ UNCHANGED <<sig, claimed>>
SetEol(e)      == Mut /\ e # blob.eol /\ SetBlob([blob EXCEPT !.eol = e]) /\ UNCHANGED <<sig, claimed>>
\* -- the signature
CorruptSig     == Mut /\ sig.ok /\ sig' = Garbage(sig) /\ UNCHANGED <<blob, claimed>>
\* somebody holding key k signs the stored bytes as they are (an attacker with its own key, or
\* an owner / a client that signs the blob instead of the canonical text)
ResignBlob(k)  == Mut /\ sig' = Sig(k, blob) /\ UNCHANGED <<blob, claimed>>
\* somebody holding key k signs the canonical text of what the blob parses to
ResignCanon(k) == Mut /\ Parse(blob).ok /\ sig' = Sig(k, CanonBlob(Parse(blob).refs)) /\ UNCHANGED <<blob, claimed>>
\* -- the key
Reclaim(k)     == Mut /\ k # claimed /\ claimed' = k /\ UNCHANGED <<blob, sig>>

Next == \/ \E i \in 1..(NN + MaxMuts), o \in 0..NO : SetOid(i, o)
        \/ \E i \in 1..(NN + MaxMuts), n \in Names : SetName(i, n)
        \/ \E i \in 1..(NN + MaxMuts), f \in Forms : SetForm(i, f)
        \/ \E i \in 1..(NN + MaxMuts) : DeleteLine(i) \/ SwapLines(i)
        \/ \E i \in 1..(NN + MaxMuts + 1), n \in Names, o \in 0..NO : InsertRef(i, n, o)
        \/ \E i \in 1..(NN + MaxMuts + 1), k \in BadKinds : InsertBad(i, k)
        \/ \E e \in Eols : SetEol(e)
        \/ CorruptSig
        \/ \E k \in Keys : ResignBlob(k) \/ ResignCanon(k) \/ Reclaim(k)

Spec == Init /\ [][Next]_vars

-----------------------------------------------------------------------------
\* Properties (C20)

Loaded == Load(blob, sig, claimed)
Accepted == Loaded.res = "ok"
OriginalSig == sig = Sig(signed.key, CanonBlob(signed.refs))

\* canonical text parses back to the same set (zero-free sets; a signed zero is dropped)
RoundTrip == LET p == Parse(CanonBlob(signed.refs)) IN
             /\ p.ok
             /\ \A n \in Names : p.refs[n] = IF signed.refs[n] = Zero THEN Absent ELSE signed.refs[n]
\* the canonical text identifies the set
CanonInjective == muts = 0 => \A r \in RefMaps : CanonBlob(r) = CanonBlob(signed.refs) => r = signed.refs

\* verification succeeds only when the signature is by the claimed key over the canonical text of
\* exactly the refs that are then accepted
AcceptedIsSigned == Accepted => VerifySig(claimed, CanonBlob(Loaded.refs), sig)

\* with the owner's signature, nothing but the owner's refs under the owner's key is accepted:
\* changing any ref, object id or key makes verification fail
BindsExactly == Accepted /\ OriginalSig => Loaded.refs = signed.refs /\ claimed = signed.key

\* an untouched object of zero-free refs is accepted (unless its identity root is wrong)
RootFine(r) == Root \in Names => r[Root] \in {Absent, 1}
HonestAccepted == muts = 0 /\ ZeroFree(signed.refs) /\ RootFine(signed.refs) => Accepted /\ Loaded.refs = signed.refs

\* accepted refs never contain the zero oid, and an accepted identity root is this repository's
AcceptedWellFormed ==
    Accepted => /\ ZeroFree(Loaded.refs)
                /\ (Root \in Names /\ Loaded.refs[Root] # Absent => IdentityAt(Loaded.refs[Root]) = "this")
=============================================================================
