CONSTANTS
  Actor <- A4
  Doc = {1, 2}
  Delegates <- Dlg2
  Threshold <- Thr2
  LabelSets <- LS2
  AssignSets <- AS2
  Titles = {0, 1, 9}
  Bodies = {0, 1}
  VerdictVals = {0, 1, 2}
  SummaryVals = {0, 1}
  Commit <- C2
  Anc <- Anc2
  Kinds <- DiscKinds
  FanKinds <- DiscKinds
  Creators <- A4
  MaxC = 2
  MaxE = 1
  MaxR = 2
  MaxRC = 2
  MaxV = 0
  MaxVC = 0
  Reactors = {}
  HeadInits <- H0
  Pushers = {}
  Variant = "code"
  Emit = TRUE
INIT Init
NEXT Next
VIEW View
INVARIANTS TypeOK IssueWF PatchWF C08_Merged EmitInv
PROPERTIES C07_Issue C07_Patch C07_PatchExtra C08_Step RejectedNoEffect Frame
