\* quick, strings: every string of <= 3 graphemes over all 7 kinds, as a one-item line
CONSTANTS
  KindIds = {1, 2, 3, 4, 5, 6, 7}
  MaxLen = 3
  MaxItems = 1
  MaxW = 4
  ND = 3
  Orig = FALSE
  GW <- MCGW
  GB <- MCGB
  GWs <- MCGWs
  Lines <- MCLines
  Widths <- MCWidths
  Delims <- MCDelims
SPECIFICATION Spec
INVARIANTS NoPanic WidthBound Shape StrSound IterBound FuncAgrees EmitInv
PROPERTIES Decreases
