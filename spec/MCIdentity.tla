---------------------------- MODULE MCIdentity ----------------------------
(* Bounded instances of Identity.tla.  Keys are strings so that emitted cases are JSON-friendly. *)
EXTENDS Identity, Json, SequencesExt

\* 1: print a case for every complete state; k > 1: for about one state in k (the big instances:
\* every state is still model-checked, a sample is replayed against the implementation)
CONSTANT EmitEvery

\* documents: 1 = initial {a,b,c,d}; 2 = same delegates, other content; 3 = {a,b} (c, d removed);
\*            4 = {a,b,c,d,s} (the stranger becomes a delegate)
MCDocDels == << {"a","b","c","d"}, {"a","b","c","d"}, {"a","b"}, {"a","b","c","d","s"} >>
\* small world (adoption after one accept, so that histories of 4 changes reach delegate-set
\* changes): 1 = initial {a,b}; 2 = same delegates, other content; 3 = {a}; 4 = {a,b,s}
MCDocDels2 == << {"a","b"}, {"a","b"}, {"a"}, {"a","b","s"} >>

\* One case per reachable state whose history is complete: the history (changes in evaluation
\* order with their parents) and the object the model predicts.
RevOut(r) == [id |-> r, parent |-> st.revs[r].parent, author |-> st.revs[r].author,
              doc |-> st.revs[r].doc, state |-> st.revs[r].state, title |-> st.revs[r].title,
              accepts |-> Accepts(st.revs[r]), rejects |-> Rejects(st.revs[r])]

Emit ==
    (Complete /\ (EmitEvery = 1 \/ TLCGet("distinct") % EmitEvery = 0)) =>
    LET ids == SetToSeq(DOMAIN st.revs) IN
    PrintT(<<"CASE", ToJson([log |-> log,
                             current |-> st.current,
                             revs |-> [i \in 1..Len(ids) |-> RevOut(ids[i])],
                             heads |-> st.heads])>>)
EmitInv == Emit
=============================================================================
