CONSTANTS
  StreamSet = {}
  Mode = "overflow"
  K = 131072
  Growth = 2
  MaxInbox = 16
  AllocDeclared = FALSE
  InnerEofIncomplete = FALSE
INIT MCInit
NEXT Next
INVARIANTS TypeOK BufAligned C14_Mem C14_Chunking C14_Invalid OutputsInOrder NoSpuriousError EmitInv
