CONSTANTS
  Repos = {1,2}
  Nodes = {1,2}
  TS = {0,1,2}
  Which = {"seeding","following"}
  MaxDepth <- DepthDev
  Variant = "SeedKeepsBlock"
INIT Init
NEXT Next
VIEW View
INVARIANTS ForeignKeys RowidsUnique 
PROPERTIES SeedingReflectsLastWrite FollowingReflectsLastWrite
