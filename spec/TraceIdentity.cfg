CONSTANTS
  Key = {"a", "b", "c", "d", "s"}
  NoKey = "-"
  DocDels <- TraceDocDels
  Authors = {"a", "b", "c", "d", "s"}
  NewDocs = {1, 2, 3, 4, 5}
  InPlace = FALSE
  MaxOps = 1000
  MaxActs = 2
  MaxForks = 1000
INIT TInit
NEXT TNext
INVARIANTS TypeOK ActiveIsChildOfCurrent AcceptedChain CurrentAccepted HeadsBacked VerdictsValid
PROPERTIES T_Majority T_Strangers T_AcceptedStable T_NoTrace
POSTCONDITION Accepted
