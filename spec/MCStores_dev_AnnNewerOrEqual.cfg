CONSTANTS
  Repos = {1,2}
  Nodes = {1,2}
  TS = {0,1,2}
  Which = {"gossip"}
  MaxDepth <- DepthDev
  Variant = "AnnNewerOrEqual"
INIT Init
NEXT Next
VIEW View
INVARIANTS ForeignKeys RowidsUnique 
PROPERTIES AnnouncementReplacedByNewer
