------------------------------- MODULE MCSync -------------------------------
(* Bounded instances of Sync.tla, one per machine (Mode).  `hist` is the sequence of calls that  *)
(* led to the current state; it is hidden from the fingerprint (VIEW), so TLC keeps the first     *)
(* (shortest) call sequence reaching each distinct state.  One CASE line per distinct state:      *)
(* that call sequence with every return value, the projected state, and EVERY outgoing call with  *)
(* its return value and projected successor -- i.e. every transition of the state graph.          *)
EXTENDS Sync, Json

CONSTANTS Mode,        \* "announcer" | "fetcher"
          MaxR,        \* replica numbers 0..MaxR
          MaxExtra,    \* fetcher: extra candidates sequences up to this length
          MaxReady,    \* fetcher: bound on the ready queue
          MaxResults,  \* fetcher (original model only): bound on the result list
          DegenerateRanges, \* also construct range(l, u) with l >= u (becomes MustReach(l))
          EmitCases

VARIABLE hist
mcvars == <<an, fe, last, hist>>
View == <<an, fe>>

\* constructor calls for the replication factor, incl. degenerate ranges (lower >= upper)
Ctors == {<<"must", n, 0>> : n \in 0..MaxR}
         \cup {c \in {<<"range", l, u>> : l \in 0..MaxR, u \in 1..MaxR} : DegenerateRanges \/ c[2] < c[3]}
RFof(c) == IF c[1] = "must" THEN Must(c[2]) ELSE RFrange(c[2], c[3])

AnCfgs == {[pref |-> p, synced |-> s, unsynced |-> u, rf |-> RFof(c), ctor |-> c] :
              p \in SUBSET Node, s \in SUBSET Node, u \in SUBSET Node, c \in Ctors}

SeqsUpTo(S, n) == UNION {[1..k -> S] : k \in 0..n}
FeCfgs == {[seeds |-> s, rf |-> RFof(c), ctor |-> c, extra |-> e] :
              s \in SUBSET Node, c \in Ctors, e \in SeqsUpTo(Node, MaxExtra)}

Init == an = AnIdle /\ fe = FeIdle /\ last = Call("init", None, TRUE, None) /\ hist = <<>>

ResultsRoom == ~FetcherOriginal \/ Len(fe.results) < MaxResults

NextA == \/ \E cfg \in AnCfgs : AnnouncerNew(cfg)
         \/ \E n \in Node : SyncedWith(n)
         \/ TimedOut
         \/ CanContinue
NextF == \/ \E cfg \in FeCfgs : FetcherNew(cfg)
         \/ NextNode
         \/ \E n \in Node : fe.st = "active" /\ Len(fe.ready) < MaxReady /\ ReadyToFetch(n)
         \/ NextFetch
         \/ \E n \in Node : fe.st = "active" /\ ResultsRoom /\ FetchFailed(n)
         \/ \E n \in Node, ok \in BOOLEAN : fe.st = "active" /\ ResultsRoom /\ FetchComplete(n, ok)
         \/ Finish
Next == /\ IF Mode = "announcer" THEN NextA ELSE NextF
        /\ hist' = Append(hist, last')

-----------------------------------------------------------------------------
\* projections compared by the harness after every call (observable through the public API)
AnProj(a) == IF a.st = "active" THEN <<Asc(AnToSync(a)), AnProgress(a)>> ELSE <<>>
FeProj(f) == IF f.st = "active" THEN FeProgress(f) ELSE <<>>

Out(op, arg, ok, r, proj) == <<op, arg, ok, r.ret, proj>>
AnOuts ==
    IF an.st # "active" THEN {}
    ELSE {Out("synced_with", n, TRUE, AnSyncedWithF(an, n), AnProj(AnSyncedWithF(an, n).next)) : n \in Node}
         \cup {Out("timed_out", None, TRUE, AnTimedOutF(an), AnProj(AnTimedOutF(an).next)),
               Out("can_continue", None, TRUE, AnCanContinueF(an), AnProj(AnCanContinueF(an).next))}
FeOuts ==
    IF fe.st # "active" THEN {}
    ELSE {Out("next_node", None, TRUE, FeNextNodeF(fe), FeProj(FeNextNodeF(fe).next)),
          Out("next_fetch", None, TRUE, FeNextFetchF(fe), FeProj(FeNextFetchF(fe).next)),
          Out("finish", None, TRUE, FeFinishF(fe), FeProj(FeFinishF(fe).next))}
         \cup {Out("ready_to_fetch", n, TRUE, FeReadyF(fe, n), FeProj(FeReadyF(fe, n).next)) : n \in Node}
         \cup {Out("fetch_failed", n, FALSE, FeFailedF(fe, n), FeProj(FeFailedF(fe, n).next)) : n \in Node}
         \cup {Out("fetch_complete", n, ok, FeCompleteF(fe, n, ok), FeProj(FeCompleteF(fe, n, ok).next)) :
                  n \in Node, ok \in BOOLEAN}

Emit ==
    (EmitCases /\ hist # <<>>) =>
    PrintT(<<"CASE", ToJson([m |-> Mode, path |-> hist,
                             proj |-> IF Mode = "announcer" THEN AnProj(an) ELSE FeProj(fe),
                             outs |-> SetToSeq(IF Mode = "announcer" THEN AnOuts ELSE FeOuts)])>>)
EmitInv == Emit
=============================================================================
