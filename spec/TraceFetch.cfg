CONSTANTS
  N = 4
  AcceptNoRoot = TRUE
  RefsAtUsesAdvertised = FALSE
  RefsAtIgnoresBlock = FALSE
  KeepStaleRad = FALSE
  SkipUnloaded = FALSE
INIT TInit
NEXT TNext
INVARIANTS TypeOK RecordedScenarioLegal C01_Match C01_Untouched BlockedUntouched OutOfScopeUntouched NoRewindAny C02_Gate C02_FewImpliesFailure C02_FailedUnchanged ErrorBeforeApplyUnchanged
POSTCONDITION Accepted
