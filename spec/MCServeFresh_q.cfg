CONSTANTS
  Vis = {"public", "seed", "both"}
  MaxOps = 4
  Dev = {}
INIT Init
NEXT Next
INVARIANTS FreshIdentity ServedOnlyIfAllowed EmitInv
