CONSTANTS
  MaxSeq = 2
  MaxTasks = 4
  MaxEpoch = 2
  MaxOps = 7
  Dev = {"late-closes-new"}
INIT Init
NEXT Next
VIEW view
INVARIANTS NoStolenStream
