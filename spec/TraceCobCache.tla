--------------------------- MODULE TraceCobCache ---------------------------
(* Validates behaviours recorded from the real cache + repository (harness engine c09_cobcache, *)
(* mode record) against CobCache.tla.  Records: {"ev":"reset"} starts a new behaviour; every    *)
(* other record is one step (same encoding as the `log` of the bounded model) together with the *)
(* answers the REAL stores gave after it, projected to the terms of the model (cache and direct *)
(* evaluation are compared with each other in full by the engine; the answers recorded here are *)
(* those of direct evaluation).  The trace specification takes the same step in the model and   *)
(* requires the model's answers (per repository) to be the recorded ones; QueriesAgree and CacheCoherent are     *)
(* checked in every state.                                                                      *)
EXTENDS CobCache, Json, IOUtils, SequencesExt

Rec == ndJsonDeserialize(IOEnv.TRACE)

VARIABLE l
tvars == <<hist, tip, cache, next, steps, log, l>>

OpOf(o) == [k |-> o.k, id |-> o.id, by |-> o.by, arg |-> o.arg, st |-> o.st, kind |-> o.kind, repo |-> o.repo]

Take(s) ==
    LET o == OpOf(s.op) IN
    CASE s.a = "create"        -> o \in Creations(Me) /\ Create(o)
      [] s.a = "fetchedCreate" -> o \in Creations(Peer) /\ FetchedCreate(o)
      [] s.a = "local"         -> s.obj \in Objs /\ Exists(s.obj) /\ o \in OpsOn(s.obj, Me) /\ LocalOp(s.obj, o)
      [] s.a = "fetched"       -> s.obj \in Objs /\ Exists(s.obj) /\ o \in OpsOn(s.obj, Peer) /\ FetchedOp(s.obj, o)
      [] s.a = "remove"        -> RemoveMine(s.obj)
      [] s.a = "fetchedDelete" -> FetchedDelete(s.obj)
      [] s.a = "writeAll"      -> s.op.repo \in Repos /\ WriteAll(s.op.kind, s.op.repo)

\* JSON objects with numeric keys come back as records with string field names
KeysOf(f) == DOMAIN f
ObjMatches(m, r) ==
    /\ m.kind = r.kind
    /\ m.kind # "none" =>
        /\ m.status = r.status /\ m.author = r.author
        /\ {ToString(k) : k \in DOMAIN m.revs} = KeysOf(r.revs)
        /\ \A k \in DOMAIN m.revs : m.revs[k] = r.revs[ToString(k)]
        /\ {ToString(k) : k \in DOMAIN m.comments} = KeysOf(r.comments)
        /\ \A k \in DOMAIN m.comments : /\ m.comments[k].rev = r.comments[ToString(k)].rev
                                        /\ m.comments[k].state = r.comments[ToString(k)].state
        /\ {ToString(k) : k \in DOMAIN m.reviews} = KeysOf(r.reviews)
        /\ \A k \in DOMAIN m.reviews : /\ m.reviews[k].rev = r.reviews[ToString(k)].rev
                                       /\ m.reviews[k].by = r.reviews[ToString(k)].by

AnsMatchesIn(a, r) ==
    /\ Len(r.get) = Len(a.get)
    /\ \A i \in DOMAIN a.get : ObjMatches(a.get[i], r.get[i])
    /\ \A i \in DOMAIN a.find : a.find[i].r = r.find[i].r /\ a.find[i].patch = r.find[i].patch
    /\ a.findUnknown.r = r.findUnknown.r
    /\ a.list.patch = ToSet(r.list.patch) /\ a.list.issue = ToSet(r.list.issue)
    /\ \A s \in PatchStatus : a.status.patch[s] = ToSet(r.status.patch[s])
    /\ \A s \in IssueStatus : a.status.issue[s] = ToSet(r.status.issue[s])
    /\ \A s \in PatchStatus : a.counts.patch[s] = r.counts.patch[s]
    /\ \A s \in {"open", "closed"} : a.counts.issue[s] = r.counts.issue[s]

\* one record of answers per repository
AnsMatches(a, r) == Len(r) = NRepos /\ \A k \in Repos : AnsMatchesIn(a[k], r[k])

TInit == Init /\ l = 1

TNext ==
    /\ l <= Len(Rec)
    /\ l' = l + 1
    /\ LET e == Rec[l] IN
       IF e.ev = "reset"
       THEN /\ hist' = <<>> /\ tip' = <<>> /\ cache' = <<>>
            /\ next' = 1 /\ steps' = 0 /\ log' = <<>>
       ELSE /\ Take(e.step)
            /\ AnsMatches(log'[Len(log')].ans, e.ans)

TSpec == TInit /\ [][TNext]_tvars

Accepted ==
    IF TLCGet("stats").diameter - 1 = Len(Rec)
    THEN PrintT("TRACE-ACCEPTED")
    ELSE PrintT("TRACE-REJECTED at=" \o ToString(TLCGet("stats").diameter))
=============================================================================
