CONSTANTS
  Mode = "emit"
  Hosts = {0, 2}
  NonRoutable = {2}
  Nids = {0, 1, 2}
  Bypass = {2}
  Params <- MCParams
  ParamSeq <- ParamsQuick
  Times = {0, 250, 500, 750, 1000, 1250, 1500, 2000, 2250, 3000, 4000, 5250, 7000, 9000, 60000}
  MaxCalls = 99
  RefillByMillis = FALSE
INIT MCInit
NEXT MCNext
VIEW ViewEmit
INVARIANTS NeverLimited TokensBounded EmitInv
