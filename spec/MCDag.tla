-------------------------------- MODULE MCDag --------------------------------
(* Bounded instance of Dag.tla: every DAG over a subset of Keys is a reachable state; in each  *)
(* state the transcribed algorithms are checked against the statement for every argument of   *)
(* the instance, and one CASE line carries the arguments and the model's answers for replay.  *)
EXTENDS Dag, Json

CONSTANTS Full,        \* TRUE: all root subsets in both orders and all rankings (thorough)
          MaxOther,    \* graphs merged into the state have at most this many nodes
          EmitMerges,  \* emit merge cases (FALSE for the large instance)
          CheckMerges

N == Cardinality(Keys)
KeySeq == Asc(Keys)

\* rankings: identity, reverse, and (Full) every permutation. A rank is a function Keys -> 1..N.
Perms == {f \in [Keys -> 1..N] : \A a, b \in Keys : a # b => f[a] # f[b]}
IdRank == [k \in Keys |-> k]
RevRank == [k \in Keys |-> N + 1 - k]
MixRank == [k \in Keys |-> IF k % 2 = 0 THEN k \div 2 ELSE N - (k \div 2)]
Ranks == IF Full THEN Perms ELSE {IdRank, RevRank, MixRank}
PruneRanks == IF Full THEN {IdRank, RevRank, MixRank} ELSE {IdRank, RevRank}
RankSeq(rank) == [i \in 1..N |-> rank[KeySeq[i]]]

\* root arguments. Keys outside the graph are legal and ignored by the code.
RootSetsEmitted == IF Full THEN SUBSET Keys
                   ELSE {RootsOf(nodes, deps), nodes} \cup {{k} : k \in IF N <= 4 THEN Keys ELSE {1, N}}
RootSetsChecked == RootSetsEmitted
RootSeqs(S) == IF N <= 4 THEN {Asc(S), Desc(S)} ELSE {Asc(S)}   \* prune_by takes its roots in the given order
Stops == SUBSET nodes

\* every DAG (and, for merge, every edge set: a union may even be cyclic) over at most MaxOther keys
Others == {g \in UNION {{<<M, D>> : D \in SUBSET ((M \X M) \ {<<k, k>> : k \in M})} :
                         M \in {X \in SUBSET Keys : Cardinality(X) <= MaxOther}} : Acyclic(g[1], g[2])}

R == Rep(nodes, deps)
RepAfter(M) == Rep(M, RestrictTo(deps, M))

-----------------------------------------------------------------------------
\* Algorithm within statement, for every argument

SortedSound == \A rank \in Ranks : IsTopo(AlgSorted(R, rank), nodes, deps)

FoldSound == \A roots \in RootSetsChecked : \A stop \in Stops :
                FoldOk(AlgFold(R, roots, stop), nodes, deps, roots, stop)

PruneSound == \A roots \in RootSetsChecked : \A rs \in RootSeqs(roots) : \A stop \in Stops :
              \A rank \in PruneRanks :
                LET p == AlgPrune(R, rs, stop, rank) IN
                /\ p.rep = RepAfter(PrunedNodes(nodes, deps, roots, stop))
                /\ FoldOk(p.log, nodes, deps, roots, stop)

RemoveSound == \A k \in Keys : AlgRemove(R, k) = RepAfter(RemovedNodes(nodes, deps, k))

MergeSound == CheckMerges =>
              \A o \in Others : AlgMerge(R, Rep(o[1], o[2])) = Rep(nodes \cup o[1], deps \cup o[2])

\* Sanity of the declarative side itself: visiting nothing-stopped folds from the roots is a
\* topological order of everything.
FoldAllIsTopo == IsTopo(AlgFold(R, RootsOf(nodes, deps), {}), nodes, deps)

-----------------------------------------------------------------------------
\* Replay cases

SetSeq(S) == Asc(S)
DepSeq(D) == SetToSeq(D)
RepJson(M, D) == [n |-> SetSeq(M), d |-> DepSeq(D), tips |-> SetSeq(TipsOf(M, D)), roots |-> SetSeq(RootsOf(M, D))]

Emit ==
    PrintT(<<"CASE", ToJson(
      [g      |-> RepJson(nodes, deps),
       sorted |-> SetToSeq({<<RankSeq(rank), AlgSorted(R, rank)>> : rank \in Ranks}),
       folds  |-> SetToSeq({<<Asc(roots), SetSeq(stop), AlgFold(R, roots, stop),
                              SetSeq(Visited(deps, roots, stop, nodes))>> :
                                roots \in RootSetsEmitted, stop \in Stops}),
       prunes |-> SetToSeq(UNION {{
                     LET p == AlgPrune(R, rs, stop, rank)
                         M == PrunedNodes(nodes, deps, roots, stop) IN
                     <<rs, SetSeq(stop), RankSeq(rank), p.log, [i \in DOMAIN p.sib |-> SetSeq(p.sib[i])],
                       RepJson(M, RestrictTo(deps, M)), SetSeq(Visited(deps, roots, stop, nodes))>> :
                         rs \in RootSeqs(roots), stop \in Stops,
                         rank \in PruneRanks} :
                       roots \in RootSetsEmitted}),
       removes |-> SetToSeq({LET M == RemovedNodes(nodes, deps, k) IN <<k, RepJson(M, RestrictTo(deps, M))>> : k \in Keys}),
       merges |-> IF EmitMerges
                  THEN SetToSeq({<<SetSeq(o[1]), DepSeq(o[2]), RepJson(nodes \cup o[1], deps \cup o[2])>> : o \in Others})
                  ELSE <<>>])>>)
EmitInv == Emit
=============================================================================
