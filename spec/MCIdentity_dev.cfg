CONSTANTS
  Key = {"a", "b", "c", "d", "s"}
  NoKey = "-"
  DocDels <- MCDocDels
  Authors = {"a", "b", "c"}
  NewDocs = {2}
  InPlace = TRUE
  MaxOps = 3
  MaxActs = 1
  MaxForks = 1
  EmitEvery = 1
INIT Init
NEXT Next
VIEW view
PROPERTIES C04_Majority
