CONSTANTS
  Values = {}
  Variant = "spec"
INIT TInit
NEXT TNext
INVARIANTS ShowCanon
POSTCONDITION Accepted
