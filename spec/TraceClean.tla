----------------------------- MODULE TraceClean -----------------------------
(* Validates executions recorded from the real `Storage::clean` (8 peers, random delegate sets,  *)
(* random namespace states, schedules of up to 5 clean / fetch steps) against Clean.tla.         *)
(* Records: {op: "reset" | "clean" | "fetch" | "breakid", arg, delegates, res, ret, exists, ns,  *)
(* iddoc}; `reset`                                                                                *)
(* starts a new run with the given delegate set and namespace states.                            *)
(*  * TNext just loads every recorded step into the module's variables (last = the step with its *)
(*    pre-state): the module's property invariants are then evaluated on the real executions.    *)
(*  * TNextStrict additionally demands that every recorded clean IS a step of the module's Clean *)
(*    action (same result, same reported remotes, same resulting namespaces): informational.     *)
EXTENDS Clean, Json, IOUtils, SequencesExt

TNode == {"L", "d1", "d2", "d3", "f1", "f2", "o1", "o2"}
None == {}
Rec == ndJsonDeserialize(IOEnv.TRACE)

VARIABLE l
tvars == <<vars, l>>

NsOf(r) == [n \in TNode |-> r.ns[n]]
RetOf(r) == ToSet(r.ret)

TInit == /\ l = 1 /\ exists = TRUE /\ ns = [n \in TNode |-> "absent"] /\ delegates = {"L"} /\ iddoc = "ok"
         /\ last = [op |-> "init", pre |-> [n \in TNode |-> "absent"], res |-> "ok", ret |-> {}]
         /\ hist = <<>>

Load(r) == /\ exists' = r.exists /\ ns' = NsOf(r) /\ delegates' = ToSet(r.delegates) /\ iddoc' = r.iddoc
           /\ last' = [op |-> IF r.op = "reset" THEN "init" ELSE r.op, pre |-> ns, res |-> r.res, ret |-> RetOf(r)]
           /\ hist' = IF r.op = "reset" THEN <<>>
                      ELSE Append(hist, [op |-> r.op, arg |-> r.arg, pre |-> ns, res |-> r.res, ret |-> RetOf(r),
                                         exists |-> r.exists, ns |-> NsOf(r), iddoc |-> r.iddoc])

TNext == l <= Len(Rec) /\ l' = l + 1 /\ Load(Rec[l])

\* strict: a recorded clean must be the module's Clean step from the current state
TNextStrict ==
    /\ l <= Len(Rec) /\ l' = l + 1
    /\ IF Rec[l].op = "clean"
       THEN Clean /\ exists' = Rec[l].exists /\ ns' = NsOf(Rec[l]) /\ last'.res = Rec[l].res /\ last'.ret = RetOf(Rec[l])
       ELSE Load(Rec[l])

Accepted ==
    IF TLCGet("stats").diameter - 1 = Len(Rec)
    THEN PrintT("TRACE-ACCEPTED")
    ELSE PrintT("TRACE-REJECTED at=" \o ToString(TLCGet("stats").diameter))
=============================================================================
