------------------------------ MODULE TraceCrdt ------------------------------
(* Validates runs recorded from the real radicle-crdt types: three replicas, each holding an       *)
(* LWWMap, LWWSet, LWWReg, GMap, GSet and Redactable, receiving random local operations and         *)
(* merges of each other's state (keys, clocks and values beyond the bounded model).  The model      *)
(* replicas evolve by the Join operators of Crdt.tla; after every recorded step every observer      *)
(* of the touched replica (get / contains / clock) must equal the model's.                          *)
EXTENDS Crdt, Json, IOUtils

Rec == ndJsonDeserialize(IOEnv.TRACE)

VARIABLES l, reps, nk
tvars == <<ty, a, b, c, phase, m, ops, l, reps, nk>>

Fresh == [map |-> <<>>, set |-> <<>>, reg |-> [c |-> 0, v |-> 0], gmap |-> <<>>, gset |-> {}, red |-> 0]
One(k, x) == [y \in {k} |-> x]

ApplyOp(bd, r) ==
    CASE r.op = "map_ins"  -> [bd EXCEPT !.map = JoinMap(@, One(r.k, [c |-> r.c, v |-> r.v]), RegOptJ)]
      [] r.op = "map_rem"  -> [bd EXCEPT !.map = JoinMap(@, One(r.k, [c |-> r.c, v |-> NoneV]), RegOptJ)]
      [] r.op = "set_ins"  -> [bd EXCEPT !.set = JoinMap(@, One(r.k, [c |-> r.c, v |-> 0]), RegOptJ)]
      [] r.op = "set_rem"  -> [bd EXCEPT !.set = JoinMap(@, One(r.k, [c |-> r.c, v |-> NoneV]), RegOptJ)]
      [] r.op = "reg_set"  -> [bd EXCEPT !.reg = JoinReg(@, [c |-> r.c, v |-> r.v], Max2)]
      [] r.op = "gmap_ins" -> [bd EXCEPT !.gmap = JoinMap(@, One(r.k, r.v), Max2)]
      [] r.op = "gset_ins" -> [bd EXCEPT !.gset = @ \cup {r.k}]
      [] r.op = "red_merge" -> [bd EXCEPT !.red = JoinRedactable(@, r.v)]
      [] r.op = "merge"    -> LET o == reps[r.from] IN
                              [map |-> JoinMap(bd.map, o.map, RegOptJ), set |-> JoinMap(bd.set, o.set, RegOptJ),
                               reg |-> JoinReg(bd.reg, o.reg, Max2), gmap |-> JoinMap(bd.gmap, o.gmap, Max2),
                               gset |-> bd.gset \cup o.gset, red |-> JoinRedactable(bd.red, o.red)]

GetG(g, k) == IF k \in DOMAIN g THEN g[k] ELSE NoneV
ObsOk(bd, o, n) ==
    /\ \A i \in 1..n : /\ o.map[i] = Get(bd.map, i - 1)
                       /\ o.set[i] = (Get(bd.set, i - 1) # NoneV)
                       /\ o.gmap[i] = GetG(bd.gmap, i - 1)
                       /\ o.gset[i] = ((i - 1) \in bd.gset)
    /\ o.reg = <<bd.reg.c, bd.reg.v>>
    /\ o.red = bd.red

Step(r) ==
    IF r.op = "reset"
    THEN reps' = [x \in 0..2 |-> Fresh] /\ nk' = r.nk
    ELSE LET nb == ApplyOp(reps[r.r], r)
         IN /\ reps' = [reps EXCEPT ![r.r] = nb]
            /\ ObsOk(nb, r.obs, nk)
            /\ UNCHANGED nk

TInit == /\ l = 1 /\ reps = [x \in 0..2 |-> Fresh] /\ nk = 0
         /\ ty = "bool" /\ a = FALSE /\ b = FALSE /\ c = FALSE /\ phase = 0 /\ m = <<>> /\ ops = {}
TNext == /\ l <= Len(Rec) /\ Step(Rec[l]) /\ l' = l + 1
         /\ UNCHANGED <<ty, a, b, c, phase, m, ops>>
TSpec == TInit /\ [][TNext]_tvars

Accepted ==
    IF TLCGet("stats").diameter - 1 = Len(Rec)
    THEN PrintT("TRACE-ACCEPTED")
    ELSE PrintT("TRACE-REJECTED at=" \o ToString(TLCGet("stats").diameter))
=============================================================================
