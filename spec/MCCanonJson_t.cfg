CONSTANTS
  Values <- MCValues
  Variant = "spec"
  StrLen = 4
  CoreStrLen = 6
  FullKeyLen = 2
  TripleKeys = 22
  Deep = TRUE
INIT Init
NEXT Next
INVARIANTS StackDiscipline AlgMatchesDefinition FloatsRejected OutputDecodes OutputDenotesValue KeysSorted Normalised ControlEscaped NoWhitespace ReencodeIsIdentity EmitInv
