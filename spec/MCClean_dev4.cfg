CONSTANTS
  Local = "L"
  MaxOps = 3
  Variant = "firstonly"
  Node <- MCNode
  Delegates <- MCDelegates
  NsStates <- MCNsStates
  IdStates <- MCIdStates
INIT Init
NEXT Next
INVARIANTS OnlyStrangersRemoved
