------------------------------ MODULE Timestamp ------------------------------
(***************************************************************************)
(* The node's announcement timestamp counter (Service::timestamp,          *)
(* Service::tick), unbounded: the clock is any natural number and may      *)
(* stall or be set backwards by the environment (Service::tick ignores     *)
(* backward settings).  C29: every timestamp issued is strictly greater    *)
(* than every timestamp issued before.  Proved with TLAPS for all          *)
(* behaviours (no bound), as a complement to the bounded TLC runs of       *)
(* Gossip.tla and the recorded executions.                                 *)
(***************************************************************************)
EXTENDS Naturals, TLAPS

VARIABLES clock,   \* the service's clock
          last,    \* last_timestamp
          maxIssued \* ghost: greatest timestamp issued so far (0 = none yet)
vars == <<clock, last, maxIssued>>

TypeOK == clock \in Nat /\ last \in Nat /\ maxIssued \in Nat

Init == clock \in Nat /\ last \in Nat /\ maxIssued = 0 /\ last >= maxIssued

\* Service::tick(now): a backward `now` is ignored
Tick(now) == /\ clock' = IF now >= clock THEN now ELSE clock
             /\ UNCHANGED <<last, maxIssued>>

\* Service::timestamp(): never returns the same timestamp twice
Issue == /\ last' = IF clock > last THEN clock ELSE last + 1
         /\ maxIssued' = last'
         /\ UNCHANGED clock

Next == Issue \/ \E now \in Nat : Tick(now)
Spec == Init /\ [][Next]_vars

Inv == TypeOK /\ last >= maxIssued

\* C29 as a step property: an issued timestamp exceeds everything issued before
StrictlyIncreasing == [][maxIssued' # maxIssued => maxIssued' > maxIssued]_vars

THEOREM InvHolds == Spec => []Inv
<1>1. Init => Inv
  BY DEF Init, Inv, TypeOK
<1>2. Inv /\ [Next]_vars => Inv'
  BY DEF Inv, TypeOK, Next, Issue, Tick, vars
<1>3. QED
  BY <1>1, <1>2, PTL DEF Spec

THEOREM C29 == Spec => StrictlyIncreasing
<1>1. Inv /\ [Next]_vars => (maxIssued' # maxIssued => maxIssued' > maxIssued)
  BY DEF Inv, TypeOK, Next, Issue, Tick, vars
<1>2. QED
  BY <1>1, InvHolds, PTL DEF Spec, StrictlyIncreasing
=============================================================================
