---------------------------- MODULE MCServeFresh ----------------------------
EXTENDS ServeFresh, Json
\* one case per behaviour that ends in a request
EmitInv == (Len(hist) > 0 /\ hist[Len(hist)][1] = "request" /\ Cardinality({i \in 1..Len(hist) : hist[i][1] = "request"}) = 1 /\ \E i \in 1..Len(hist) : hist[i][1] = "pull") =>
              PrintT(<<"CASE", ToJson([ops |-> hist, expect |-> last])>>)
=============================================================================
