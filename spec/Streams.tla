------------------------------- MODULE Streams -------------------------------
(***************************************************************************)
(* Stream multiplexing of one peer connection (radicle-node               *)
(* wire/protocol.rs `Streams`, wire/frame.rs `StreamId`).                  *)
(*                                                                         *)
(* A stream id carries its initiator in the lowest bit; each side numbers  *)
(* the streams it opens itself: our n-th outgoing fetch on a connection    *)
(* uses <<"us", n>>.  Control frames from the peer (`open`, `close`,       *)
(* `eof`) name a stream id of the PEER's choosing.  Opening a stream that  *)
(* is already registered is a fatal error for us (`Streams::open` expects  *)
(* the id to be free), so the peer must not be able to occupy our ids.     *)
(*                                                                         *)
(* Actions:                                                                *)
(*   OurOpen        Io::Fetch translated by Wire::next -> Streams::open    *)
(*   RemoteOpen(s)  Control::Open from the peer -> Streams::register       *)
(*   RemoteClose(s) Control::Close from the peer -> Streams::unregister    *)
(*   WorkerDone(s)  worker result -> Streams::unregister                   *)
(*   Disconnect     Streams::shutdown, connection gone; a reconnect starts *)
(*                  with fresh Streams                                     *)
(* Deviation "remote-opens-any" (the code as found): RemoteOpen registers  *)
(* any id, including ids with our initiator bit.                           *)
(***************************************************************************)
EXTENDS Integers, FiniteSets, Sequences

CONSTANTS MaxSeq,   \* bound on streams per connection
          MaxOps,   \* bound on behaviour length
          Dev

Side == {"us", "them"}
Id == Side \X (1..MaxSeq)

VARIABLES open,     \* set of registered stream ids
          seq,      \* number of streams we opened on this connection
          crashed,  \* Streams::open found its id taken
          hist      \* the behaviour so far, as a harness script (not part of the view)
vars == <<open, seq, crashed, hist>>
view == <<open, seq, crashed>>

Init == open = {} /\ seq = 0 /\ crashed = FALSE /\ hist = <<>>
Log(op) == Len(hist) < MaxOps /\ hist' = Append(hist, op)

OurOpen ==
    /\ ~crashed /\ seq < MaxSeq
    /\ seq' = seq + 1
    /\ IF <<"us", seq + 1>> \in open
       THEN crashed' = TRUE /\ UNCHANGED open
       ELSE open' = open \cup {<<"us", seq + 1>>} /\ UNCHANGED crashed
    /\ Log(<<"fetch">>)

RemoteOpen(s) ==
    /\ ~crashed
    /\ IF s \in open \/ (s[1] = "us" /\ "remote-opens-any" \notin Dev)
       THEN UNCHANGED open          \* ignored: already open, or reserved for us
       ELSE open' = open \cup {s}
    /\ Log(<<"ctrl", "open", s[1], s[2]>>)
    /\ UNCHANGED <<seq, crashed>>

RemoteClose(s) == ~crashed /\ open' = open \ {s} /\ Log(<<"ctrl", "close", s[1], s[2]>>) /\ UNCHANGED <<seq, crashed>>
WorkerDone(s) == ~crashed /\ s \in open /\ s[1] = "us" /\ open' = open \ {s} /\ Log(<<"done", s[2]>>) /\ UNCHANGED <<seq, crashed>>
Disconnect == ~crashed /\ open' = {} /\ seq' = 0 /\ Log(<<"reconnect">>) /\ UNCHANGED crashed

Next == OurOpen \/ Disconnect \/ \E s \in Id : RemoteOpen(s) \/ RemoteClose(s) \/ WorkerDone(s)
Spec == Init /\ [][Next]_vars

\* C13: no sequence of control frames makes our own stream allocation fail.
NoCrash == ~crashed
\* Our ids are only ever registered by us, in order.
OurIdsAreOurs == \A s \in open : s[1] = "us" => s[2] <= seq
=============================================================================
