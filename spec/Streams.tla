------------------------------- MODULE Streams -------------------------------
(***************************************************************************)
(* Stream multiplexing of the connection(s) to one peer (radicle-node      *)
(* wire/protocol.rs `Streams`, `Wire::worker_result`, the Io::Fetch arm of  *)
(* `Wire::next`, the control-frame arms of `handle_transport_event`;        *)
(* wire/frame.rs `StreamId`).                                               *)
(*                                                                         *)
(* A stream id carries its initiator in the lowest bit; each side numbers  *)
(* the streams it opens itself: our n-th outgoing fetch on a connection    *)
(* uses <<"us", n>>.  Control frames from the peer (`open`, `close`,       *)
(* `eof`) name a stream id of the PEER's choosing.  Opening a stream that  *)
(* is already registered is a fatal error for us (`Streams::open` expects  *)
(* the id to be free), so the peer must not be able to occupy our ids.     *)
(*                                                                         *)
(* Every registered stream has a worker task: an initiator task for our    *)
(* fetches, a responder task for the streams the peer opened.  The worker  *)
(* pool finishes a task at an arbitrary later time -- possibly after the   *)
(* connection it belonged to is gone and a new one (a new epoch, with      *)
(* fresh stream bookkeeping) took its place.  Results name the peer and    *)
(* the stream id, nothing else.                                            *)
(*                                                                         *)
(* Actions:                                                                *)
(*   OurOpen        Io::Fetch translated by Wire::next -> Streams::open,    *)
(*                  task to the worker, `open` frame to the peer            *)
(*   RemoteOpen(s)  Control::Open from the peer -> Streams::register,       *)
(*                  responder task to the worker                            *)
(*   RemoteClose(s) Control::Close from the peer -> Streams::unregister    *)
(*   RemoteEof(s)   Control::Eof from the peer -> forwarded to the worker   *)
(*   WorkerDone(g)  Wire::worker_result -> Streams::unregister, `close`     *)
(*                  frame to the peer if the stream was still registered    *)
(*   Disconnect     connection lost: Streams::shutdown                      *)
(*   Connect        the peer is back: fresh Streams, next epoch             *)
(* Deviations (CONSTANT Dev):                                               *)
(*   "remote-opens-any"  (the code as found, fixed) RemoteOpen registers    *)
(*                       any id, including ids with our initiator bit.      *)
(*   "late-closes-new"   (the code as it is; the wire half of the open      *)
(*                       finding C16 late-same-peer) the result of a task   *)
(*                       of an earlier connection unregisters -- and closes *)
(*                       towards the peer -- the stream with the same id    *)
(*                       on the current connection.                          *)
(***************************************************************************)
EXTENDS Integers, FiniteSets, Sequences

CONSTANTS MaxSeq,    \* bound on stream numbers per connection
          MaxTasks,  \* bound on worker tasks
          MaxEpoch,  \* bound on connections
          MaxOps,    \* bound on behaviour length
          Dev

Side == {"us", "them"}
Id == Side \X (1..MaxSeq)

VARIABLES connected, \* is there a connection
          epoch,     \* number of the current (or last) connection
          open,      \* set of registered stream ids
          seq,       \* number of streams we opened on this connection
          tasks,     \* worker tasks: [side, epoch, n, st] with st \in {"running", "done"}
          sent,      \* control frames we wrote in the last step: <<kind, side, n>>
          crashed,   \* Streams::open found its id taken
          stolen,    \* ghost: a result closed a stream of a connection its task did not belong to
          hist       \* the behaviour so far, as a harness script (not part of the view)
vars == <<connected, epoch, open, seq, tasks, sent, crashed, stolen, hist>>
view == <<connected, epoch, open, seq, tasks, sent, crashed, stolen>>

Init == /\ connected = TRUE /\ epoch = 1 /\ open = {} /\ seq = 0 /\ tasks = <<>> /\ sent = <<>>
        /\ crashed = FALSE /\ stolen = FALSE /\ hist = <<>>
Log(op) == Len(hist) < MaxOps /\ hist' = Append(hist, op)

NewTask(side, n) == [side |-> side, epoch |-> epoch, n |-> n, st |-> "running"]

OurOpen ==
    /\ ~crashed /\ connected /\ seq < MaxSeq /\ Len(tasks) < MaxTasks
    /\ seq' = seq + 1
    /\ IF <<"us", seq + 1>> \in open
       THEN crashed' = TRUE /\ UNCHANGED <<open, tasks, sent>>
       ELSE /\ open' = open \cup {<<"us", seq + 1>>}
            /\ tasks' = Append(tasks, NewTask("us", seq + 1))
            /\ sent' = << <<"open", "us", seq + 1>> >>
            /\ UNCHANGED crashed
    /\ Log(<<"fetch">>)
    /\ UNCHANGED <<connected, epoch, stolen>>

RemoteOpen(s) ==
    /\ ~crashed /\ connected /\ Len(tasks) < MaxTasks
    /\ IF s \in open \/ (s[1] = "us" /\ "remote-opens-any" \notin Dev)
       THEN UNCHANGED <<open, tasks>>          \* ignored: already open, or reserved for us
       ELSE open' = open \cup {s} /\ tasks' = Append(tasks, NewTask(s[1], s[2]))
    /\ sent' = <<>>
    /\ Log(<<"ctrl", "open", s[1], s[2]>>)
    /\ UNCHANGED <<connected, epoch, seq, crashed, stolen>>

RemoteClose(s) ==
    /\ ~crashed /\ connected
    /\ open' = open \ {s} /\ sent' = <<>>
    /\ Log(<<"ctrl", "close", s[1], s[2]>>)
    /\ UNCHANGED <<connected, epoch, seq, tasks, crashed, stolen>>

RemoteEof(s) ==
    /\ ~crashed /\ connected
    /\ sent' = <<>>
    /\ Log(<<"ctrl", "eof", s[1], s[2]>>)
    /\ UNCHANGED <<connected, epoch, open, seq, tasks, crashed, stolen>>

\* The worker finishes task g.  Without a connection the result is dropped.  Otherwise the stream
\* the result names is unregistered on the CURRENT connection and, if it was registered, closed
\* towards the peer.
WorkerDone(g) ==
    /\ ~crashed /\ g \in DOMAIN tasks /\ tasks[g].st = "running"
    /\ tasks' = [tasks EXCEPT ![g].st = "done"]
    /\ LET s == <<tasks[g].side, tasks[g].n>>
           mine == tasks[g].epoch = epoch
       IN IF connected /\ s \in open /\ (mine \/ "late-closes-new" \in Dev)
          THEN /\ open' = open \ {s}
               /\ sent' = << <<"close", s[1], s[2]>> >>
               /\ stolen' = (stolen \/ ~mine)
          ELSE /\ sent' = <<>> /\ UNCHANGED <<open, stolen>>
    /\ Log(<<"done", g>>)
    /\ UNCHANGED <<connected, epoch, seq, crashed>>

Disconnect ==
    /\ ~crashed /\ connected
    /\ connected' = FALSE /\ open' = {} /\ seq' = 0 /\ sent' = <<>>
    /\ Log(<<"disconnect">>)
    /\ UNCHANGED <<epoch, tasks, crashed, stolen>>

Connect ==
    /\ ~crashed /\ ~connected /\ epoch < MaxEpoch
    /\ connected' = TRUE /\ epoch' = epoch + 1 /\ sent' = <<>>
    /\ Log(<<"connect">>)
    /\ UNCHANGED <<open, seq, tasks, crashed, stolen>>

ROpen == \E s \in Id : RemoteOpen(s)
RClose == \E s \in Id : RemoteClose(s)
REof == \E s \in Id : RemoteEof(s)
Done == \E g \in DOMAIN tasks : WorkerDone(g)
Next == OurOpen \/ Disconnect \/ Connect \/ ROpen \/ RClose \/ REof \/ Done
Spec == Init /\ [][Next]_vars

\* C13: no sequence of control frames makes our own stream allocation fail.
NoCrash == ~crashed
\* Our ids are only ever registered by us, in order.
OurIdsAreOurs == \A s \in open : s[1] = "us" => s[2] <= seq
\* Every registered stream has a running task.
OpenHasTask == \A s \in open : \E g \in DOMAIN tasks :
                   tasks[g].side = s[1] /\ tasks[g].n = s[2] /\ tasks[g].epoch = epoch /\ tasks[g].st = "running"
\* A result only ever closes a stream of the connection its task belonged to.
NoStolenStream == ~stolen
=============================================================================
