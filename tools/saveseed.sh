#!/bin/bash
# usage: tools/saveseed.sh <ID> <Cnn> <yes|no> "<detail>"  -- stores a confirmed seeded change under seeded/<ID>/ and removes its scratch worktree
id=$1; prop=$2; caught=$3; note=$4
[ -f /tmp/mut/$id/out/verified.txt ] || { echo "not verified"; exit 2; }
grep -q "with_patch_rc=101 without_patch_rc=0" /tmp/mut/$id/out/verified.txt || { echo "demo does not discriminate: $(cat /tmp/mut/$id/out/verified.txt)"; exit 2; }
mkdir -p /verif/seeded/$id; cp /tmp/mut/$id/out/patch.diff /tmp/mut/$id/out/demo.diff /verif/seeded/$id/
python3 - "$id" "$prop" "$caught" "$note" <<'PY'
import json,sys
id,prop,caught,note=sys.argv[1:5]
m=json.load(open(f'/tmp/mut/{id}/out/meta.json'))
v=open(f'/tmp/mut/{id}/out/verified.txt').read().strip()
m.update({"id":id,"property":prop,"author":"independent sub-agent (given only the property text and a scratch worktree)",
 "confirmed_by_me":{"how":"applied patch.diff + demo.diff in the scratch worktree, ran demo_cmd (fails), reverted patch.diff, ran demo_cmd (passes)","result":v},
 "check_result":{"cmd":f"tools/seedtest.sh seeded/{id}/patch.diff {prop}","caught":caught=="yes","detail":note}})
json.dump(m,open(f'/verif/seeded/{id}/meta.json','w'),indent=1)
PY
git -C /repo worktree remove --force /tmp/mut/$id; rm -rf /tmp/mut/$id; echo saved $id
