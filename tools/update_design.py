#!/usr/bin/env python3
"""Refreshes the seeded-changes table in DESIGN.md (between the catches markers) from seeded/*/meta.json."""
import os, re, subprocess
V = os.path.dirname(os.path.dirname(os.path.abspath(__file__)))
table = subprocess.check_output(["python3", os.path.join(V, "tools", "catches.py")], text=True)
p = os.path.join(V, "DESIGN.md")
s = open(p).read()
s = re.sub(r"<!-- catches:begin -->.*<!-- catches:end -->", "<!-- catches:begin -->\n" + table.replace("\\", "\\\\") + "<!-- catches:end -->", s, flags=re.S)
open(p, "w").write(s)
