#!/bin/bash
# usage: tools/sweep.sh <tier> <seed> <Cnn>...  -- runs checks one at a time (each under the /repo lock shared with
# tools/seedtest.sh), appends "Cnn tier seed rc seconds" to /tmp/sweep.log
T=$1; S=$2; shift 2
for C in "$@"; do
  t0=$(date +%s)
  flock /tmp/repo.lock bash -c "cd /verif && VERIF_SEED=$S ./check $C --tier $T > /tmp/sweep.$C.$T.log 2>&1"; rc=$?
  echo "$C $T seed=$S rc=$rc $(( $(date +%s) - t0 ))s $(grep -c '^VIOLATION' /tmp/sweep.$C.$T.log) violations" >> /tmp/sweep.log
done
