#!/bin/bash
# usage: tools/seedtest.sh <patch.diff> <Cnn> [tier]  -- applies a seeded change to /repo, runs the check, reverts.
P=$1; C=$2; T=${3:-quick}
exec 9>/tmp/repo.lock; flock 9      # one user of /repo's working tree at a time (shared with tools/sweep.sh)
cd /repo || exit 2
if [ -n "$(git status --porcelain --untracked-files=no)" ]; then echo "repo not clean"; exit 2; fi
git apply "$P" || { echo "patch does not apply"; exit 2; }
cd /verif && ./check $C --tier $T > /tmp/seedtest.$C.log 2>&1; rc=$?
cd /repo && git checkout -- .
echo "== $P on $C: rc=$rc"; grep -E "^(VIOLATION|KNOWN-FINDING|TOOL-ERROR)|^  " /tmp/seedtest.$C.log | cut -c1-260 | head -8
exit $rc
