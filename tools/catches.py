#!/usr/bin/env python3
"""Prints the markdown table of seeded changes (seeded/*/meta.json) for DESIGN.md section 9.4."""
import glob, json, os
V = os.path.dirname(os.path.dirname(os.path.abspath(__file__)))
print("| id | property | change (files) | needs to manifest | caught | by |")
print("|---|---|---|---|---|---|")
for f in sorted(glob.glob(os.path.join(V, "seeded", "*", "meta.json"))):
    m = json.load(open(f))
    cr = m.get("check_result", {})
    files = ", ".join(os.path.basename(x) for x in m.get("files", [])[:2])
    summ = (m.get("summary", "") or "").replace("|", "/").replace("\n", " ")[:170]
    need = (m.get("needs_to_manifest", "") or "").replace("|", "/").replace("\n", " ")[:170]
    print(f"| {m['id']} | {m['property']} | {summ} ({files}) | {need} | {'yes' if cr.get('caught') else 'NO'} | {(cr.get('detail') or '').replace('|','/')[:200]} |")
