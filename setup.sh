#!/bin/sh
# Build the conformance harness offline against /repo's working tree and parse all TLA+ modules.
set -e
cd "$(dirname "$0")"
export CARGO_NET_OFFLINE=true
cp ../repo/Cargo.lock harness/Cargo.lock 2>/dev/null || cp /repo/Cargo.lock harness/Cargo.lock
(cd harness && cargo build --offline --bins 2>&1 | grep -v '^warning' | tail -5)
# modules with TLAPS proofs import TLAPS.tla from the proof system's library
export JAVA_TOOL_OPTIONS="${JAVA_TOOL_OPTIONS:+$JAVA_TOOL_OPTIONS }-DTLA-Library=/opt/veriftools/tlapm/lib/tlapm/stdlib"
(cd spec && for m in *.tla; do case "$m" in *_TTrace_*) continue;; esac; tla-sany "$m" > /dev/null 2>&1 || { echo "SANY failed: $m"; exit 1; }; done)
echo setup done
