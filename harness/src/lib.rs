//! Common plumbing for the conformance engines (one binary per engine under `src/bin`).
//!
//! Conventions shared by all engines:
//!  * input: ndjson "cases" emitted by TLC (one JSON object per line) read from a file;
//!  * output: ndjson records written to a file, either verdict records
//!    (`{"case":…, "ok":bool, "expected":…, "actual":…}`) or trace events for TLC validation;
//!  * a panic in code under test is data: engines wrap calls in [`guard`].
use std::fs::File;
use std::io::{BufRead, BufReader, BufWriter, Write};
use std::panic::{catch_unwind, AssertUnwindSafe};
use std::path::Path;

pub use serde_json::{json, Value};

pub mod cobworld;

/// Read ndjson values from a file. Blank lines are skipped.
pub fn read_ndjson(path: &Path) -> Vec<Value> {
    let f = File::open(path).unwrap_or_else(|e| fatal(&format!("open {}: {e}", path.display())));
    BufReader::new(f)
        .lines()
        .map(|l| l.expect("read line"))
        .filter(|l| !l.trim().is_empty())
        .map(|l| {
            serde_json::from_str(&l).unwrap_or_else(|e| fatal(&format!("bad json line {l:?}: {e}")))
        })
        .collect()
}

/// ndjson writer.
pub struct Out {
    w: BufWriter<File>,
    pub n: usize,
}

impl Out {
    pub fn create(path: &Path) -> Self {
        let f =
            File::create(path).unwrap_or_else(|e| fatal(&format!("create {}: {e}", path.display())));
        Out { w: BufWriter::new(f), n: 0 }
    }
    pub fn emit(&mut self, v: &Value) {
        serde_json::to_writer(&mut self.w, v).expect("write");
        self.w.write_all(b"\n").expect("write");
        self.n += 1;
    }
    pub fn finish(mut self) {
        self.w.flush().expect("flush");
    }
}

/// Tool error (not a verdict): exit code 2.
pub fn fatal(msg: &str) -> ! {
    eprintln!("hwv: tool error: {msg}");
    std::process::exit(2)
}

/// Run code under test; a panic becomes `Err(message)`.
pub fn guard<T>(f: impl FnOnce() -> T) -> Result<T, String> {
    match catch_unwind(AssertUnwindSafe(f)) {
        Ok(v) => Ok(v),
        Err(e) => {
            let msg = if let Some(s) = e.downcast_ref::<&str>() {
                s.to_string()
            } else if let Some(s) = e.downcast_ref::<String>() {
                s.clone()
            } else {
                "panic".to_string()
            };
            Err(msg)
        }
    }
}

/// Silence the default panic hook (panics are reported as data).
pub fn quiet_panics() {
    if std::env::var("HWV_LOUD").is_ok() {
        return;
    }
    std::panic::set_hook(Box::new(|_| {}));
}

/// Simple `--key value` argument access.
pub struct Args(Vec<String>);
impl Args {
    pub fn parse() -> Self {
        Args(std::env::args().skip(1).collect())
    }
    pub fn get(&self, key: &str) -> Option<&str> {
        self.0.iter().position(|a| a == key).and_then(|i| self.0.get(i + 1)).map(|s| s.as_str())
    }
    pub fn req(&self, key: &str) -> &str {
        self.get(key).unwrap_or_else(|| fatal(&format!("missing argument {key}")))
    }
    pub fn flag(&self, key: &str) -> bool {
        self.0.iter().any(|a| a == key)
    }
    pub fn num(&self, key: &str, default: u64) -> u64 {
        self.get(key).map(|s| s.parse().unwrap_or_else(|_| fatal(&format!("bad number for {key}")))).unwrap_or(default)
    }
}

pub fn seed() -> u64 {
    std::env::var("VERIF_SEED").ok().and_then(|s| s.parse().ok()).unwrap_or(1)
}
