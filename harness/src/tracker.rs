//! Shared engine of C07 (authorisation of issue / patch actions) and C08 (merge threshold):
//! binds spec/Tracker.tla to `radicle::cob::issue::Issue` and `radicle::cob::patch::Patch`.
//!
//! Abstract ops of the model -- `[actor, doc, kind, x, y, z]` -- are concretised as real `Op`s
//! (built the way `radicle::cob::test::Actor` builds them: real keys, fresh entry ids) that refer to real identity
//! document commits in a real repository (`Op::identity_doc` -> `Repository::identity_doc_at`),
//! and applied through `store::Cob::from_root` / `store::Cob::op`. Merges consult real
//! `refs/namespaces/<actor>/refs/heads/master` references and a real commit graph.
//!
//! Modes
//!  * `replay`: every CASE emitted by TLC (op log + state + fan-out) is replayed: the log on a
//!    fresh object, then every fan-out op on a clone of the reached object; the projection of the
//!    real object must equal the model's state / predicted successor after each of them.
//!  * `record`: random multi-author histories (more actors, documents and steps than the bounded
//!    model, concurrent branches, unauthorised and malformed ops) are written as change commits
//!    into a real storage repository *without* the pre-check of `cob::update`, and evaluated by the
//!    real `radicle_cob::get` (change graph loading, traversal order, pruning) with a transparent
//!    recording wrapper around `Issue` / `Patch`; the evaluated steps are logged for
//!    TraceTracker.tla.
#![allow(clippy::too_many_arguments, dead_code)]
use std::cell::RefCell;
use std::collections::{BTreeMap, BTreeSet};
use std::path::Path;
use std::str::FromStr;

use amplify::Wrapper as _;
use hwv::*;
use nonempty::NonEmpty;
use radicle::cob;
use radicle::cob::issue::{self, Issue};
use radicle::cob::patch::{self, Patch, RevisionId, ReviewId};
use radicle::cob::store::Cob;
use radicle::cob::{Label, Reaction, Timestamp};
use radicle::crypto::test::signer::MockSigner;
use radicle::crypto::PublicKey;
use radicle::git::Oid;
use radicle::identity::doc::RawDoc;
use radicle::identity::{Did, Project, RepoId, Visibility};
use radicle::node::device::Device;
use radicle::storage::git::Repository;
use radicle::storage::WriteRepository;

/// Signs nothing (ops are evaluated in memory, like the unit tests of issue.rs / patch.rs do);
/// builds real `Op`s with a real author key and a fresh entry id.
pub struct Actor<G> {
    pub signer: Device<G>,
}

impl<G: radicle::crypto::Signer> Actor<G> {
    pub fn new(signer: Device<G>) -> Self {
        Self { signer }
    }

    /// Same construction as `radicle::cob::test::Actor::op_with` (that module is `cfg(test)`).
    pub fn op_with<T>(&mut self, actions: impl IntoIterator<Item = T::Action>, identity: Option<Oid>, timestamp: Timestamp) -> cob::Op<T::Action>
    where
        T: Cob + cob::store::CobWithType,
        T::Action: Clone + serde::Serialize,
    {
        let actions = actions.into_iter().collect::<Vec<_>>();
        let data = cob::store::encoding::encode(serde_json::json!({"action": actions, "nonce": fastrand::u64(..)})).unwrap();
        let id: Oid = git2::Oid::hash_object(git2::ObjectType::Blob, &data).unwrap().into();
        let author = *self.signer.public_key();
        let actions = NonEmpty::from_vec(actions).unwrap();
        let manifest = cob::Manifest::new(T::type_name().clone(), cob::Version::default());
        cob::Op::new(id, actions, author, timestamp, identity, manifest)
    }
}

pub const MISSING: i64 = 99;
pub const INVALID_TITLE: i64 = 9;

// ------------------------------------------------------------------------------------------------
// Instance constants (printed by TLC as the `cfg` case, or chosen by the recorder)

#[derive(Clone, Debug)]
pub struct Cfg {
    pub actors: usize,
    pub delegates: Vec<Vec<usize>>,
    pub threshold: Vec<usize>,
    pub labelsets: Vec<Vec<i64>>,
    pub assignsets: Vec<Vec<usize>>,
    pub commits: usize,
    pub anc: Vec<Vec<usize>>,
}

fn ints(v: &Value) -> Vec<i64> {
    v.as_array().map(|a| a.iter().map(|x| x.as_i64().unwrap_or(-1)).collect()).unwrap_or_default()
}

impl Cfg {
    pub fn from_json(v: &Value) -> Self {
        let us = |v: &Value| ints(v).into_iter().map(|x| x as usize).collect::<Vec<_>>();
        let uss = |v: &Value| v.as_array().map(|a| a.iter().map(us).collect::<Vec<_>>()).unwrap_or_default();
        Cfg {
            actors: v["actors"].as_u64().unwrap() as usize,
            delegates: uss(&v["delegates"]),
            threshold: us(&v["threshold"]),
            labelsets: v["labelsets"].as_array().map(|a| a.iter().map(ints).collect()).unwrap_or_default(),
            assignsets: uss(&v["assignsets"]),
            commits: v["commits"].as_u64().unwrap() as usize,
            anc: uss(&v["anc"]),
        }
    }
    pub fn to_json(&self) -> Value {
        json!({"actors": self.actors, "delegates": self.delegates, "threshold": self.threshold,
               "labelsets": self.labelsets, "assignsets": self.assignsets, "commits": self.commits,
               "anc": self.anc})
    }
    pub fn is_delegate(&self, a: i64, d: i64) -> bool {
        d >= 1 && (d as usize) <= self.delegates.len() && self.delegates[d as usize - 1].contains(&(a as usize))
    }
}

// ------------------------------------------------------------------------------------------------
// Abstract ops

#[derive(Clone, Debug, PartialEq)]
pub struct AOp {
    pub a: i64,
    pub d: i64,
    pub k: String,
    pub x: i64,
    pub y: i64,
    pub z: i64,
}

impl AOp {
    pub fn from_json(v: &Value) -> Self {
        let a = v.as_array().unwrap_or_else(|| fatal("op is not an array"));
        AOp {
            a: a[0].as_i64().unwrap(),
            d: a[1].as_i64().unwrap(),
            k: a[2].as_str().unwrap().to_string(),
            x: a[3].as_i64().unwrap(),
            y: a[4].as_i64().unwrap(),
            z: a[5].as_i64().unwrap(),
        }
    }
    pub fn to_json(&self) -> Value {
        json!([self.a, self.d, self.k, self.x, self.y, self.z])
    }
}

// ------------------------------------------------------------------------------------------------
// The world: a real repository with identity documents, commits and per-actor branches

pub struct World {
    _tmp: tempfile::TempDir,
    pub repo: Repository,
    pub cfg: Cfg,
    pub actors: Vec<Actor<MockSigner>>,
    pub pks: Vec<PublicKey>,
    pub docs: Vec<Oid>,
    pub commits: Vec<Oid>,
    pub base: Oid,
    heads: Vec<i64>,
    clock: u64,
    nonce: u64,
}

fn git_sig() -> git2::Signature<'static> {
    git2::Signature::new("verif", "verif@localhost", &git2::Time::new(1514817556, 0)).unwrap()
}

pub fn actor_seed(i: usize) -> [u8; 32] {
    let mut s = [0x5a; 32];
    s[0] = (i + 1) as u8;
    s[31] = 0x07;
    s
}

impl World {
    pub fn new(dir: &Path, cfg: &Cfg) -> Self {
        let tmp = tempfile::tempdir_in(dir).expect("tempdir");
        let rid: RepoId = radicle::test::arbitrary::gen(1);
        let actors: Vec<Actor<MockSigner>> =
            (0..cfg.actors).map(|i| Actor::new(Device::mock_from_seed(actor_seed(i)))).collect();
        let pks: Vec<PublicKey> = actors.iter().map(|a| *a.signer.public_key()).collect();
        let info = radicle::git::UserInfo { alias: radicle::node::Alias::new("verif"), key: pks[0] };
        let repo = Repository::create(tmp.path().join("repo"), rid, &info).expect("create repo");
        let mut w = World {
            _tmp: tmp,
            repo,
            cfg: cfg.clone(),
            actors,
            pks,
            docs: vec![],
            commits: vec![],
            base: Oid::from(git2::Oid::zero()),
            heads: vec![0; cfg.actors],
            clock: 1_700_000_000,
            nonce: 0,
        };
        for d in 0..cfg.delegates.len() {
            let oid = w.doc_commit(&cfg.delegates[d], cfg.threshold[d]);
            w.docs.push(oid);
        }
        w.make_commits();
        w
    }

    /// An identity document as the repository stores it: a commit whose tree holds
    /// `embeds/radicle.json`. This is what `Repository::identity_doc_at` (-> `Doc::load_at`) reads
    /// for the `identity` an op commits to.
    fn doc_commit(&self, delegates: &[usize], threshold: usize) -> Oid {
        let project = Project::new(
            radicle::identity::project::ProjectName::from_str("verif").unwrap(),
            "verification world".to_string(),
            radicle::git::refname!("master"),
        )
        .expect("project");
        let dids: Vec<Did> = delegates.iter().map(|a| Did::from(self.pks[a - 1])).collect();
        let doc = RawDoc::new(project, dids, threshold, Visibility::Public).verified().expect("doc");
        let (_, bytes) = doc.encode().expect("encode doc");
        let raw = self.repo.raw();
        let blob = raw.blob(&bytes).unwrap();
        let mut inner = raw.treebuilder(None).unwrap();
        inner.insert("radicle.json", blob, 0o100644).unwrap();
        let inner = inner.write().unwrap();
        let mut outer = raw.treebuilder(None).unwrap();
        outer.insert("embeds", inner, 0o040000).unwrap();
        let tree = raw.find_tree(outer.write().unwrap()).unwrap();
        let sig = git_sig();
        let msg = format!("identity {delegates:?} {threshold}");
        raw.commit(None, &sig, &sig, &msg, &tree, &[]).unwrap().into()
    }

    /// Commit graph: a base commit; commit c has as parents the maximal elements of anc[c]
    /// (or the base when it has no ancestors in the model).
    fn make_commits(&mut self) {
        let raw = self.repo.raw();
        let tree = raw.find_tree(raw.treebuilder(None).unwrap().write().unwrap()).unwrap();
        let sig = git_sig();
        let base = raw.commit(None, &sig, &sig, "base", &tree, &[]).unwrap();
        self.base = base.into();
        let n = self.cfg.commits;
        let mut oids: Vec<Option<git2::Oid>> = vec![None; n];
        // ancestors first
        let mut order: Vec<usize> = (0..n).collect();
        order.sort_by_key(|c| self.cfg.anc[*c].len());
        for c in order {
            let anc = &self.cfg.anc[c];
            let direct: Vec<usize> = anc
                .iter()
                .filter(|p| !anc.iter().any(|q| self.cfg.anc[*q - 1].contains(p)))
                .cloned()
                .collect();
            let parents: Vec<git2::Commit> = if direct.is_empty() {
                vec![raw.find_commit(base).unwrap()]
            } else {
                direct.iter().map(|p| raw.find_commit(oids[*p - 1].expect("ancestor order")).unwrap()).collect()
            };
            let prefs: Vec<&git2::Commit> = parents.iter().collect();
            let oid = raw.commit(None, &sig, &sig, &format!("commit {}", c + 1), &tree, &prefs).unwrap();
            oids[c] = Some(oid);
        }
        self.commits = oids.into_iter().map(|o| o.unwrap().into()).collect();
    }

    /// Point `refs/namespaces/<actor>/refs/heads/master` at commit c (0 = delete the reference).
    pub fn set_head(&mut self, actor: usize, c: i64) {
        if self.heads[actor - 1] == c {
            return;
        }
        let name = radicle::git::refs::storage::branch_of(&self.pks[actor - 1], &radicle::git::refname!("master"));
        let raw = self.repo.raw();
        if c == 0 {
            if let Ok(mut r) = raw.find_reference(name.as_str()) {
                r.delete().unwrap();
            }
        } else {
            raw.reference(name.as_str(), *self.commits[c as usize - 1], true, "verif").unwrap();
        }
        self.heads[actor - 1] = c;
    }

    pub fn set_heads(&mut self, heads: &[i64]) {
        for (i, h) in heads.iter().enumerate() {
            self.set_head(i + 1, *h);
        }
    }

    pub fn heads(&self) -> Vec<i64> {
        self.heads.clone()
    }

    pub fn actor_of(&self, pk: &PublicKey) -> i64 {
        self.pks.iter().position(|p| p == pk).map(|i| i as i64 + 1).unwrap_or(-1)
    }

    pub fn commit_of(&self, oid: &Oid) -> i64 {
        self.commits.iter().position(|c| c == oid).map(|i| i as i64 + 1).unwrap_or(-1)
    }

    pub fn doc_of(&self, oid: &Oid) -> i64 {
        self.docs.iter().position(|c| c == oid).map(|i| i as i64 + 1).unwrap_or(-1)
    }

    fn fresh_oid(&mut self) -> Oid {
        self.nonce += 1;
        let data = format!("missing-{}-{}", std::process::id(), self.nonce);
        git2::Oid::hash_object(git2::ObjectType::Blob, data.as_bytes()).unwrap().into()
    }

    fn tick(&mut self) -> Timestamp {
        self.clock += 1;
        Timestamp::from_secs(self.clock)
    }
}

// ------------------------------------------------------------------------------------------------
// Concretisation of abstract values

pub fn label(n: i64) -> Label {
    Label::new(format!("l{n}")).unwrap()
}
pub fn label_code(l: &Label) -> i64 {
    l.name().strip_prefix('l').and_then(|s| s.parse().ok()).unwrap_or(-1)
}
pub fn title(code: i64) -> String {
    if code == INVALID_TITLE {
        "a\nb".to_string()
    } else {
        format!("t{code}")
    }
}
pub fn title_code(t: &str) -> i64 {
    if t == "a\nb" {
        INVALID_TITLE
    } else {
        t.strip_prefix('t').and_then(|s| s.parse().ok()).unwrap_or(-1)
    }
}
fn body(z: i64) -> String {
    if z == 1 {
        String::new()
    } else {
        "text".to_string()
    }
}
pub fn reaction() -> Reaction {
    Reaction::new('\u{1F44D}').unwrap()
}

/// Identifier tables: model index (creation order) -> real entry id.
#[derive(Clone, Default, Debug)]
pub struct Tables {
    pub comments: Vec<Oid>,
    pub revs: Vec<Oid>,
    pub rcomments: Vec<(usize, Oid)>,
    pub reviews: Vec<(usize, Oid)>,
    pub vcomments: Vec<(usize, Oid)>,
}

#[derive(Clone)]
pub enum Obj {
    None,
    Issue(Issue),
    Patch(Patch),
}

impl Obj {
    pub fn kind(&self) -> &'static str {
        match self {
            Obj::None => "none",
            Obj::Issue(_) => "issue",
            Obj::Patch(_) => "patch",
        }
    }
}

impl World {
    fn id_in(&mut self, ids: &[Oid], x: i64) -> Oid {
        if x >= 1 && (x as usize) <= ids.len() {
            ids[x as usize - 1]
        } else {
            self.fresh_oid()
        }
    }
    fn id2_in(&mut self, ids: &[(usize, Oid)], x: i64) -> Oid {
        if x >= 1 && (x as usize) <= ids.len() {
            ids[x as usize - 1].1
        } else {
            self.fresh_oid()
        }
    }
    fn did(&self, a: usize) -> Did {
        Did::from(self.pks[a - 1])
    }
    fn labels_of(&self, x: i64) -> BTreeSet<Label> {
        self.cfg.labelsets[x as usize - 1].iter().map(|n| label(*n)).collect()
    }
    fn assignees_of(&self, x: i64) -> BTreeSet<Did> {
        self.cfg.assignsets[x as usize - 1].iter().map(|a| self.did(*a)).collect()
    }

    /// The real issue action of an abstract op.
    pub fn issue_action(&mut self, t: &Tables, op: &AOp) -> issue::Action {
        use issue::Action as A;
        match op.k.as_str() {
            "i.assign" => A::Assign { assignees: self.assignees_of(op.x) },
            "i.label" => A::Label { labels: self.labels_of(op.x) },
            "i.edit" => A::Edit { title: title(op.x) },
            "i.lifecycle" => A::Lifecycle {
                state: match op.x {
                    0 => issue::State::Open,
                    1 => issue::State::Closed { reason: issue::CloseReason::Other },
                    _ => issue::State::Closed { reason: issue::CloseReason::Solved },
                },
            },
            "i.comment" => A::Comment {
                body: body(op.z),
                reply_to: if op.x == 0 { None } else { Some(self.id_in(&t.comments, op.x)) },
                embeds: vec![],
            },
            "i.cedit" => A::CommentEdit { id: self.id_in(&t.comments, op.x), body: body(op.z), embeds: vec![] },
            "i.credact" => A::CommentRedact { id: self.id_in(&t.comments, op.x) },
            "i.creact" => A::CommentReact { id: self.id_in(&t.comments, op.x), reaction: reaction(), active: op.y == 1 },
            k => fatal(&format!("unknown issue op kind {k}")),
        }
    }

    /// The real patch action of an abstract op.
    pub fn patch_action(&mut self, t: &Tables, op: &AOp) -> patch::Action {
        use patch::Action as A;
        let verdict = |y: i64| match y {
            1 => Some(patch::Verdict::Accept),
            2 => Some(patch::Verdict::Reject),
            _ => None,
        };
        let summary = |z: i64| if z == 1 { Some("S".to_string()) } else { None };
        match op.k.as_str() {
            "p.edit" => A::Edit { title: title(op.x), target: patch::MergeTarget::Delegates },
            "p.label" => A::Label { labels: self.labels_of(op.x) },
            "p.assign" => A::Assign { assignees: self.assignees_of(op.x) },
            "p.lifecycle" => A::Lifecycle {
                state: match op.x {
                    0 => patch::Lifecycle::Open,
                    1 => patch::Lifecycle::Draft,
                    _ => patch::Lifecycle::Archived,
                },
            },
            "p.merge" => A::Merge {
                revision: RevisionId::from(self.id_in(&t.revs, op.x)),
                commit: if op.y >= 1 && (op.y as usize) <= self.commits.len() { self.commits[op.y as usize - 1] } else { self.fresh_oid() },
            },
            "p.revision" => A::Revision {
                description: "rev".to_string(),
                base: self.base,
                oid: self.commits[0],
                resolves: Default::default(),
            },
            "p.revedit" => A::RevisionEdit { revision: RevisionId::from(self.id_in(&t.revs, op.x)), description: "edited".to_string(), embeds: vec![] },
            "p.revredact" => A::RevisionRedact { revision: RevisionId::from(self.id_in(&t.revs, op.x)) },
            "p.revreact" => A::RevisionReact { revision: RevisionId::from(self.id_in(&t.revs, op.x)), location: None, reaction: reaction(), active: op.y == 1 },
            "p.rcomment" => A::RevisionComment {
                revision: RevisionId::from(self.id_in(&t.revs, op.x)),
                location: None,
                body: body(op.z),
                reply_to: if op.y == 0 { None } else { Some(self.id2_in(&t.rcomments, op.y)) },
                embeds: vec![],
            },
            "p.rcedit" => A::RevisionCommentEdit {
                revision: RevisionId::from(self.id_in(&t.revs, op.x)),
                comment: self.id2_in(&t.rcomments, op.y),
                body: body(op.z),
                embeds: vec![],
            },
            "p.rcredact" => A::RevisionCommentRedact { revision: RevisionId::from(self.id_in(&t.revs, op.x)), comment: self.id2_in(&t.rcomments, op.y) },
            "p.rcreact" => A::RevisionCommentReact {
                revision: RevisionId::from(self.id_in(&t.revs, op.x)),
                comment: self.id2_in(&t.rcomments, op.y),
                reaction: reaction(),
                active: op.z == 1,
            },
            "p.review" => A::Review { revision: RevisionId::from(self.id_in(&t.revs, op.x)), summary: summary(op.z), verdict: verdict(op.y), labels: vec![] },
            "p.vedit" => A::ReviewEdit { review: ReviewId::from(self.id2_in(&t.reviews, op.x)), summary: summary(op.z), verdict: verdict(op.y), labels: vec![] },
            "p.vredact" => A::ReviewRedact { review: ReviewId::from(self.id2_in(&t.reviews, op.x)) },
            "p.vcomment" => A::ReviewComment {
                review: ReviewId::from(self.id2_in(&t.reviews, op.x)),
                body: body(op.z),
                location: None,
                reply_to: if op.y == 0 { None } else { Some(self.id2_in(&t.vcomments, op.y)) },
                embeds: vec![],
            },
            "p.vcedit" => A::ReviewCommentEdit {
                review: ReviewId::from(self.id2_in(&t.reviews, op.x)),
                comment: self.id2_in(&t.vcomments, op.y),
                body: body(op.z),
                embeds: vec![],
            },
            "p.vcredact" => A::ReviewCommentRedact { review: ReviewId::from(self.id2_in(&t.reviews, op.x)), comment: self.id2_in(&t.vcomments, op.y) },
            "p.vcreact" => A::ReviewCommentReact {
                review: ReviewId::from(self.id2_in(&t.reviews, op.x)),
                comment: self.id2_in(&t.vcomments, op.y),
                reaction: reaction(),
                active: op.z == 1,
            },
            "p.vcresolve" => A::ReviewCommentResolve { review: ReviewId::from(self.id2_in(&t.reviews, op.x)), comment: self.id2_in(&t.vcomments, op.y) },
            "p.vcunresolve" => A::ReviewCommentUnresolve { review: ReviewId::from(self.id2_in(&t.reviews, op.x)), comment: self.id2_in(&t.vcomments, op.y) },
            k => fatal(&format!("unknown patch op kind {k}")),
        }
    }

    /// Actions of the root op of an issue / a patch (as `Issues::create` / `Patches::create`
    /// compose them).
    pub fn issue_root_actions(&self, op: &AOp) -> Vec<issue::Action> {
        vec![
            issue::Action::Comment { body: "description".to_string(), reply_to: None, embeds: vec![] },
            issue::Action::Edit { title: title(0) },
            issue::Action::Assign { assignees: self.assignees_of(op.y) },
            issue::Action::Label { labels: self.labels_of(op.x) },
        ]
    }
    pub fn patch_root_actions(&self, op: &AOp) -> Vec<patch::Action> {
        vec![
            patch::Action::Revision { description: "rev".to_string(), base: self.base, oid: self.commits[0], resolves: Default::default() },
            patch::Action::Edit { title: title(0), target: patch::MergeTarget::Delegates },
            patch::Action::Label { labels: self.labels_of(op.x) },
        ]
    }

    /// Apply one abstract op to the real object through the real evaluation code.
    /// Returns Ok(()) / Err(message) as the code does (a panic is an error of its own kind).
    pub fn apply(&mut self, obj: &mut Obj, t: &mut Tables, op: &AOp) -> Result<(), String> {
        if op.k == "push" {
            self.set_head(op.a as usize, op.x);
            return Ok(());
        }
        let ts = self.tick();
        let doc = Some(self.docs[op.d as usize - 1]);
        let a = op.a as usize - 1;
        match op.k.as_str() {
            "i.create" => {
                let actions = self.issue_root_actions(op);
                let rop = self.actors[a].op_with::<Issue>(actions, doc, ts);
                let id = rop.id;
                let repo = &self.repo;
                match guard(|| Issue::from_root(rop, repo)) {
                    Ok(Ok(i)) => {
                        *obj = Obj::Issue(i);
                        t.comments.push(id);
                        Ok(())
                    }
                    Ok(Err(e)) => Err(e.to_string()),
                    Err(p) => Err(format!("panic: {p}")),
                }
            }
            "p.create" => {
                let actions = self.patch_root_actions(op);
                let rop = self.actors[a].op_with::<Patch>(actions, doc, ts);
                let id = rop.id;
                let repo = &self.repo;
                match guard(|| Patch::from_root(rop, repo)) {
                    Ok(Ok(p)) => {
                        *obj = Obj::Patch(p);
                        t.revs.push(id);
                        Ok(())
                    }
                    Ok(Err(e)) => Err(e.to_string()),
                    Err(p) => Err(format!("panic: {p}")),
                }
            }
            _ => match obj {
                Obj::Issue(i) => {
                    let action = self.issue_action(t, op);
                    let rop = self.actors[a].op_with::<Issue>([action], doc, ts);
                    let id = rop.id;
                    let repo = &self.repo;
                    let r = match guard(|| i.op(rop, [], repo)) {
                        Ok(Ok(())) => Ok(()),
                        Ok(Err(e)) => Err(e.to_string()),
                        Err(p) => Err(format!("panic: {p}")),
                    };
                    // a new comment carries the id of the op that made it
                    if i.thread().comment(&id).is_some() && !t.comments.contains(&id) {
                        t.comments.push(id);
                    }
                    r
                }
                Obj::Patch(p) => {
                    let action = self.patch_action(t, op);
                    let rop = self.actors[a].op_with::<Patch>([action], doc, ts);
                    let id = rop.id;
                    let repo = &self.repo;
                    let r = match guard(|| p.op(rop, [], repo)) {
                        Ok(Ok(())) => Ok(()),
                        Ok(Err(e)) => Err(e.to_string()),
                        Err(p) => Err(format!("panic: {p}")),
                    };
                    register_patch_ids(p, t, id);
                    r
                }
                Obj::None => Err("no object".to_string()),
            },
        }
    }
}

/// After an op with entry id `id` was applied to the real patch: anything the patch now holds
/// under that id is a new revision / comment / review; give it the next model index.
pub fn register_patch_ids(p: &Patch, t: &mut Tables, id: Oid) {
    if p.revision(&RevisionId::from(id)).is_some() && !t.revs.contains(&id) {
        t.revs.push(id);
    }
    for (ri, rid) in t.revs.clone().iter().enumerate() {
        let Some(rev) = p.revision(&RevisionId::from(*rid)) else { continue };
        if rev.discussion().comment(&id).is_some() && !t.rcomments.iter().any(|(_, c)| *c == id) {
            t.rcomments.push((ri + 1, id));
        }
        for (_, review) in rev.reviews() {
            if review.id().into_inner() == id && !t.reviews.iter().any(|(_, v)| *v == id) {
                t.reviews.push((ri + 1, id));
            }
        }
    }
    for (vi, (ri, vid)) in t.reviews.clone().iter().enumerate() {
        let Some(rev) = p.revision(&RevisionId::from(t.revs[*ri - 1])) else { continue };
        let Some((_, review)) = rev.reviews().find(|(_, r)| r.id().into_inner() == *vid) else { continue };
        if review.comments().any(|(c, _)| *c == id) && !t.vcomments.iter().any(|(_, c)| *c == id) {
            t.vcomments.push((vi + 1, id));
        }
    }
}

// ------------------------------------------------------------------------------------------------
// Projection of the real objects onto the model's state (through the public accessors)

fn sorted(mut v: Vec<i64>) -> Vec<i64> {
    v.sort();
    v
}

fn thumbs(w: &World, reactions: &BTreeMap<&Reaction, Vec<&PublicKey>>) -> Vec<i64> {
    let mut out = vec![];
    for (_, who) in reactions.iter() {
        for pk in who {
            out.push(w.actor_of(pk));
        }
    }
    sorted(out)
}

pub fn project_issue(w: &World, i: &Issue, t: &Tables) -> Value {
    let comments: Vec<Value> = t
        .comments
        .iter()
        .map(|id| match i.thread().comment(id) {
            Some(c) => json!({
                "a": w.actor_of(&c.author()),
                "live": true,
                "edits": c.edits().map(|e| w.actor_of(&e.author)).collect::<Vec<_>>(),
                "re": c.reply_to().map(|r| t.comments.iter().position(|x| *x == r).map(|p| p as i64 + 1).unwrap_or(-1)).unwrap_or(0),
                "rx": thumbs(w, &c.reactions()),
            }),
            None => json!({"a": 0, "live": false, "edits": [], "re": 0, "rx": []}),
        })
        .collect();
    let mut v = json!({
        "author": w.actor_of(i.author().id().as_key()),
        "title": title_code(i.title()),
        "state": match i.state() {
            issue::State::Open => 0,
            issue::State::Closed { reason: issue::CloseReason::Other } => 1,
            issue::State::Closed { reason: issue::CloseReason::Solved } => 2,
        },
        "labels": sorted(i.labels().map(label_code).collect()),
        "assignees": sorted(i.assignees().map(|d| w.actor_of(d.as_key())).collect()),
        "comments": comments,
    });
    let extra = i.comments().filter(|(id, _)| !t.comments.contains(id)).count();
    if extra > 0 {
        v["extra"] = json!(extra);
    }
    v
}

pub fn project_patch(w: &World, p: &Patch, t: &Tables) -> Value {
    let rev_ix = |id: &RevisionId| t.revs.iter().position(|x| *x == id.into_inner()).map(|p| p as i64 + 1).unwrap_or(-1);
    let mut extra = 0usize;
    let revs: Vec<Value> = t
        .revs
        .iter()
        .map(|id| match p.revision(&RevisionId::from(*id)) {
            Some(r) => json!({
                "a": w.actor_of(r.author().id().as_key()),
                "live": true,
                "edits": r.edits().map(|e| w.actor_of(&e.author)).collect::<Vec<_>>(),
                "rx": sorted(r.reactions().values().flat_map(|s| s.iter().map(|(pk, _)| w.actor_of(pk))).collect()),
            }),
            None => json!({"a": 0, "live": false, "edits": [], "rx": []}),
        })
        .collect();
    extra += p.revisions().filter(|(id, _)| rev_ix(id) < 0).count();
    let rcomments: Vec<Value> = t
        .rcomments
        .iter()
        .map(|(ri, id)| {
            let c = p.revision(&RevisionId::from(t.revs[*ri - 1])).and_then(|r| r.discussion().comment(id));
            match c {
                Some(c) => json!({
                    "rev": ri,
                    "a": w.actor_of(&c.author()),
                    "live": true,
                    "edits": c.edits().map(|e| w.actor_of(&e.author)).collect::<Vec<_>>(),
                    "re": c.reply_to().map(|r| t.rcomments.iter().position(|(_, x)| *x == r).map(|p| p as i64 + 1).unwrap_or(-1)).unwrap_or(0),
                    "rx": thumbs(w, &c.reactions()),
                }),
                None => json!({"rev": ri, "a": 0, "live": false, "edits": [], "re": 0, "rx": []}),
            }
        })
        .collect();
    let find_review = |ri: usize, id: &Oid| {
        p.revision(&RevisionId::from(t.revs[ri - 1])).and_then(|r| r.reviews().find(|(_, v)| v.id().into_inner() == *id).map(|(_, v)| v))
    };
    let reviews: Vec<Value> = t
        .reviews
        .iter()
        .map(|(ri, id)| match find_review(*ri, id) {
            Some(v) => json!({
                "rev": ri,
                "a": w.actor_of(v.author().id().as_key()),
                "live": true,
                "v": match v.verdict() { None => 0, Some(patch::Verdict::Accept) => 1, Some(patch::Verdict::Reject) => 2 },
                "s": if v.summary().is_some() { 1 } else { 0 },
            }),
            None => json!({"rev": ri, "a": 0, "live": false, "v": 0, "s": 0}),
        })
        .collect();
    let vcomments: Vec<Value> = t
        .vcomments
        .iter()
        .map(|(vi, id)| {
            let (ri, vid) = &t.reviews[*vi - 1];
            let c = find_review(*ri, vid).and_then(|v| v.comments().find(|(c, _)| **c == *id).map(|(_, c)| c));
            match c {
                Some(c) => json!({
                    "review": vi,
                    "a": w.actor_of(&c.author()),
                    "live": true,
                    "edits": c.edits().map(|e| w.actor_of(&e.author)).collect::<Vec<_>>(),
                    "re": c.reply_to().map(|r| t.vcomments.iter().position(|(_, x)| *x == r).map(|p| p as i64 + 1).unwrap_or(-1)).unwrap_or(0),
                    "rx": thumbs(w, &c.reactions()),
                    "res": c.is_resolved(),
                }),
                None => json!({"review": vi, "a": 0, "live": false, "edits": [], "re": 0, "rx": [], "res": false}),
            }
        })
        .collect();
    // anything the real patch holds that the tables do not know
    for (rid, rev) in p.revisions() {
        if rev_ix(&rid) < 0 {
            continue;
        }
        extra += rev.discussion().comments().filter(|(c, _)| !t.rcomments.iter().any(|(_, x)| x == *c)).count();
        for (_, v) in rev.reviews() {
            if !t.reviews.iter().any(|(_, x)| *x == v.id().into_inner()) {
                extra += 1;
            }
            extra += v.comments().filter(|(c, _)| !t.vcomments.iter().any(|(_, x)| x == *c)).count();
        }
    }
    let pair = |r: &RevisionId, c: &Oid| json!([rev_ix(r), w.commit_of(c)]);
    let state = match p.state() {
        patch::State::Draft => json!({"k": "draft", "set": []}),
        patch::State::Archived => json!({"k": "archived", "set": []}),
        patch::State::Open { conflicts } => json!({"k": "open", "set": conflicts.iter().map(|(r, c)| pair(r, c)).collect::<Vec<_>>()}),
        patch::State::Merged { revision, commit } => json!({"k": "merged", "set": [pair(revision, commit)]}),
    };
    let mut v = json!({
        "author": w.actor_of(p.author().id().as_key()),
        "title": title_code(p.title()),
        "state": state,
        "labels": sorted(p.labels().map(label_code).collect()),
        "assignees": sorted(p.assignees().map(|d| w.actor_of(d.as_key())).collect()),
        "merges": p.merges().map(|(pk, m)| json!([w.actor_of(pk), rev_ix(&m.revision), w.commit_of(&m.commit)])).collect::<Vec<_>>(),
        "revs": revs,
        "rcomments": rcomments,
        "reviews": reviews,
        "vcomments": vcomments,
    });
    if extra > 0 {
        v["extra"] = json!(extra);
    }
    v
}

pub fn project(w: &World, obj: &Obj, t: &Tables) -> Value {
    let mut v = match obj {
        Obj::None => json!({"author": 0}),
        Obj::Issue(i) => project_issue(w, i, t),
        Obj::Patch(p) => project_patch(w, p, t),
    };
    canon(&mut v);
    v
}

const SETKEYS: [&str; 5] = ["labels", "assignees", "rx", "merges", "set"];
const SEQKEYS: [&str; 5] = ["comments", "revs", "rcomments", "reviews", "vcomments"];

/// Canonical form: arrays that stand for sets are sorted.
pub fn canon(v: &mut Value) {
    match v {
        Value::Object(m) => {
            for (k, x) in m.iter_mut() {
                canon(x);
                if SETKEYS.contains(&k.as_str()) {
                    if let Value::Array(a) = x {
                        a.sort_by_key(|e| e.to_string());
                    }
                }
            }
        }
        Value::Array(a) => {
            for x in a.iter_mut() {
                canon(x);
            }
        }
        _ => {}
    }
}

/// The model's predicted successor: its pre-state plus the emitted delta.
pub fn apply_delta(pre: &Value, delta: &Value) -> Value {
    let mut out = pre.clone();
    if let Value::Object(d) = delta {
        for (k, v) in d {
            if SEQKEYS.contains(&k.as_str()) {
                let arr = out[k].as_array_mut().unwrap_or_else(|| fatal("delta on a non-sequence"));
                for e in v.as_array().unwrap() {
                    let ix = e[0].as_u64().unwrap() as usize;
                    if ix <= arr.len() {
                        arr[ix - 1] = e[1].clone();
                    } else {
                        arr.push(e[1].clone());
                    }
                }
            } else {
                out[k] = v.clone();
            }
        }
    }
    canon(&mut out);
    out
}

// ------------------------------------------------------------------------------------------------
// Replay

const PROTECTED: [&str; 16] = [
    "i.assign", "i.label", "i.edit", "i.lifecycle", "i.cedit", "i.credact", "p.label", "p.assign", "p.merge", "p.edit",
    "p.lifecycle", "p.vedit", "p.vredact", "p.rcedit", "p.rcredact", "p.vcedit",
];

#[derive(Default)]
struct Stats {
    cases: u64,
    log_ops: u64,
    fan: u64,
    fan_rejected: u64,
    fan_ok_changed: u64,
    fan_ok_unchanged: u64,
    nondelegate_protected: u64,
    nondelegate_protected_applied: u64,
    class_drift: u64,
    state_mismatch: u64,
    fan_mismatch: u64,
    merged_states: u64,
    conflict_states: u64,
    kinds: BTreeMap<String, u64>,
}

/// Initial heads of a behaviour: the final heads with the pushes of the log undone.
fn initial_heads(case: &Value) -> Vec<i64> {
    let mut h = ints(&case["heads"]);
    if let Some(log) = case["log"].as_array() {
        for e in log.iter().rev() {
            let op = AOp::from_json(&e[0]);
            if op.k == "push" {
                h[op.a as usize - 1] = op.y;
            }
        }
    }
    h
}

/// Replay the op log of a case; returns the object, tables and (if `trace`) the recorded steps.
fn run_log(w: &mut World, case: &Value, trace: Option<&mut Vec<Value>>, stats: &mut Stats) -> (Obj, Tables) {
    let mut obj = Obj::None;
    let mut t = Tables::default();
    let h0 = initial_heads(case);
    w.set_heads(&h0);
    let mut tr = trace;
    let empty = vec![];
    for e in case["log"].as_array().unwrap_or(&empty) {
        let op = AOp::from_json(&e[0]);
        let model_ok = e[1].as_i64().unwrap() != 0;
        let was_none = matches!(obj, Obj::None);
        let r = w.apply(&mut obj, &mut t, &op);
        stats.log_ops += 1;
        if r.is_ok() != model_ok {
            stats.class_drift += 1;
        }
        if let Some(tr) = tr.as_deref_mut() {
            if op.k == "push" {
                tr.push(json!({"ev": "push", "a": op.a, "c": op.x}));
            } else if was_none {
                if !matches!(obj, Obj::None) {
                    tr.push(json!({"ev": "reset", "obj": obj.kind(), "op": op.to_json(), "st": project(w, &obj, &t), "heads": w.heads()}));
                }
            } else {
                tr.push(json!({"ev": "op", "obj": obj.kind(), "op": op.to_json(), "res": if r.is_ok() { 1 } else { 0 },
                               "st": project(w, &obj, &t), "err": r.err().unwrap_or_default()}));
            }
        }
    }
    (obj, t)
}

fn replay_chunk(work: &Path, cfg: &Cfg, cases: Vec<Value>, fan_on: bool, max_fail: usize) -> (Vec<Value>, Stats) {
    let mut w = World::new(work, cfg);
    let mut recs = Vec::new();
    let mut st = Stats::default();
    for case in cases {
        st.cases += 1;
        let (obj, t) = run_log(&mut w, &case, None, &mut st);
        let mut expected = case["st"].clone();
        canon(&mut expected);
        let actual = project(&w, &obj, &t);
        let expected = if case["obj"] == "none" { json!({"author": 0}) } else { expected };
        if case["obj"] == "patch" {
            match expected["state"]["k"].as_str() {
                Some("merged") => st.merged_states += 1,
                Some("open") if !expected["state"]["set"].as_array().map(|a| a.is_empty()).unwrap_or(true) => st.conflict_states += 1,
                _ => {}
            }
        }
        if actual != expected {
            st.state_mismatch += 1;
            if recs.len() < max_fail {
                let mut tr = Vec::new();
                let mut s2 = Stats::default();
                run_log(&mut w, &case, Some(&mut tr), &mut s2);
                recs.push(json!({"type": "state", "obj": case["obj"], "log": case["log"], "heads": case["heads"], "expected": expected, "actual": actual, "trace": tr}));
            }
            continue;
        }
        if !fan_on {
            continue;
        }
        let fan: Value = match case["fan"].as_str() {
            Some(s) => serde_json::from_str(s).unwrap_or_else(|e| fatal(&format!("bad fan: {e}"))),
            None => json!([]),
        };
        let heads = w.heads();
        for f in fan.as_array().unwrap() {
            let op = AOp::from_json(&f[0]);
            let model_ok = f[1].as_i64().unwrap() != 0;
            let exp = if case["obj"] == "none" {
                // creation: the delta is relative to the empty object of that kind
                if model_ok { Some(f[2].clone()) } else { None }
            } else {
                Some(apply_delta(&expected, &f[2]))
            };
            let mut o2 = obj.clone();
            let mut t2 = t.clone();
            let r = w.apply(&mut o2, &mut t2, &op);
            st.fan += 1;
            *st.kinds.entry(op.k.clone()).or_default() += 1;
            let act = project(&w, &o2, &t2);
            let nondel = !cfg.is_delegate(op.a, op.d);
            if nondel && PROTECTED.contains(&op.k.as_str()) {
                st.nondelegate_protected += 1;
                if r.is_ok() && act != actual {
                    st.nondelegate_protected_applied += 1;
                }
            }
            if r.is_err() {
                st.fan_rejected += 1;
            } else if act != actual {
                st.fan_ok_changed += 1;
            } else {
                st.fan_ok_unchanged += 1;
            }
            let same = match (&exp, case["obj"] == "none") {
                (None, true) => matches!(o2, Obj::None),
                (Some(d), true) => {
                    // compare field by field with the creation delta
                    let mut ok = !matches!(o2, Obj::None);
                    if let Value::Object(m) = d {
                        for (k, v) in m {
                            let mut v = if SEQKEYS.contains(&k.as_str()) {
                                Value::Array(v.as_array().unwrap().iter().map(|e| e[1].clone()).collect())
                            } else {
                                v.clone()
                            };
                            let mut wrap = json!({ k.clone(): v.take() });
                            canon(&mut wrap);
                            ok = ok && act[k] == wrap[k];
                        }
                    }
                    ok
                }
                (Some(e), false) => *e == act,
                (None, false) => false,
            };
            if !same {
                st.fan_mismatch += 1;
                if recs.len() < max_fail {
                    let pre_ev = json!({"ev": "reset", "obj": case["obj"], "st": expected, "heads": heads});
                    let step = json!({"ev": "op", "obj": o2.kind(), "op": op.to_json(), "res": if r.is_ok() { 1 } else { 0 }, "st": act, "err": r.clone().err().unwrap_or_default()});
                    recs.push(json!({"type": "fan", "obj": case["obj"], "log": case["log"], "heads": heads, "pre": expected, "op": op.to_json(),
                                     "model_res": f[1], "expected": exp, "actual": act, "actual_res": if r.is_ok() { 1 } else { 0 },
                                     "err": r.err().unwrap_or_default(), "trace": if case["obj"] == "none" { json!([]) } else { json!([pre_ev, step]) }}));
                }
            } else if r.is_ok() != model_ok {
                st.class_drift += 1;
            }
            // the world's branch heads are untouched by object ops; pushes are not in the fan-out
        }
    }
    (recs, st)
}

pub fn replay_main(args: &Args) {
    let cases = read_ndjson(Path::new(args.req("--cases")));
    let out = Path::new(args.req("--out")).to_path_buf();
    let nthreads = args.num("--threads", 8) as usize;
    let fan_on = !args.flag("--no-fan");
    let max_fail = args.num("--max-fail", 40) as usize;
    let work = std::env::current_dir().unwrap();
    let cfg = cases.iter().find(|c| c.get("cfg").is_some()).map(|c| Cfg::from_json(&c["cfg"])).unwrap_or_else(|| fatal("no cfg case"));
    let cases: Vec<Value> = cases.into_iter().filter(|c| c.get("cfg").is_none()).collect();
    let mut chunks: Vec<Vec<Value>> = (0..nthreads).map(|_| Vec::new()).collect();
    for (i, c) in cases.into_iter().enumerate() {
        chunks[i % nthreads].push(c);
    }
    let handles: Vec<_> = chunks
        .into_iter()
        .map(|chunk| {
            let work = work.clone();
            let cfg = cfg.clone();
            std::thread::spawn(move || replay_chunk(&work, &cfg, chunk, fan_on, max_fail))
        })
        .collect();
    let mut o = Out::create(&out);
    let mut tot = Stats::default();
    for h in handles {
        let (recs, s) = h.join().unwrap_or_else(|_| fatal("replay thread panicked"));
        for r in recs {
            o.emit(&r);
        }
        tot.cases += s.cases;
        tot.log_ops += s.log_ops;
        tot.fan += s.fan;
        tot.fan_rejected += s.fan_rejected;
        tot.fan_ok_changed += s.fan_ok_changed;
        tot.fan_ok_unchanged += s.fan_ok_unchanged;
        tot.nondelegate_protected += s.nondelegate_protected;
        tot.nondelegate_protected_applied += s.nondelegate_protected_applied;
        tot.class_drift += s.class_drift;
        tot.state_mismatch += s.state_mismatch;
        tot.fan_mismatch += s.fan_mismatch;
        tot.merged_states += s.merged_states;
        tot.conflict_states += s.conflict_states;
        for (k, v) in s.kinds {
            *tot.kinds.entry(k).or_default() += v;
        }
    }
    o.emit(&json!({"summary": true, "cases": tot.cases, "log_ops": tot.log_ops, "fan": tot.fan, "fan_rejected": tot.fan_rejected,
        "fan_ok_changed": tot.fan_ok_changed, "fan_ok_unchanged": tot.fan_ok_unchanged,
        "nondelegate_protected": tot.nondelegate_protected, "nondelegate_protected_applied": tot.nondelegate_protected_applied,
        "class_drift": tot.class_drift, "state_mismatch": tot.state_mismatch, "fan_mismatch": tot.fan_mismatch,
        "merged_states": tot.merged_states, "conflict_states": tot.conflict_states, "kinds": tot.kinds,
        "cfg": cfg.to_json()}));
    o.finish();
}

// ------------------------------------------------------------------------------------------------
// Record: random histories through real storage and the real `radicle_cob::get`

thread_local! {
    static REC: RefCell<Option<RecState>> = const { RefCell::new(None) };
}

struct RecState {
    world: *const World,
    tables: Tables,
    events: Vec<Value>,
}

/// What the real action of an evaluated entry is in the model's vocabulary.
fn abstract_issue_op(w: &World, t: &Tables, author: &PublicKey, identity: Option<Oid>, action: &issue::Action) -> AOp {
    use issue::Action as A;
    let cix = |id: &Oid| t.comments.iter().position(|x| x == id).map(|p| p as i64 + 1).unwrap_or(MISSING);
    let set_ix = |sets: &Vec<Vec<i64>>, s: Vec<i64>| sets.iter().position(|x| sorted(x.clone()) == s).map(|p| p as i64 + 1).unwrap_or(-1);
    let (k, x, y, z) = match action {
        A::Assign { assignees } => {
            let s = sorted(assignees.iter().map(|d| w.actor_of(d.as_key())).collect());
            let sets: Vec<Vec<i64>> = w.cfg.assignsets.iter().map(|v| v.iter().map(|a| *a as i64).collect()).collect();
            ("i.assign", set_ix(&sets, s), 0, 0)
        }
        A::Label { labels } => ("i.label", set_ix(&w.cfg.labelsets, sorted(labels.iter().map(label_code).collect())), 0, 0),
        A::Edit { title } => ("i.edit", title_code(title), 0, 0),
        A::Lifecycle { state } => (
            "i.lifecycle",
            match state {
                issue::State::Open => 0,
                issue::State::Closed { reason: issue::CloseReason::Other } => 1,
                issue::State::Closed { reason: issue::CloseReason::Solved } => 2,
            },
            0,
            0,
        ),
        A::Comment { body, reply_to, .. } => ("i.comment", reply_to.map(|r| cix(&r)).unwrap_or(0), 0, body.is_empty() as i64),
        A::CommentEdit { id, body, .. } => ("i.cedit", cix(id), 0, body.is_empty() as i64),
        A::CommentRedact { id } => ("i.credact", cix(id), 0, 0),
        A::CommentReact { id, active, .. } => ("i.creact", cix(id), *active as i64, 0),
    };
    AOp { a: w.actor_of(author), d: identity.map(|o| w.doc_of(&o)).unwrap_or(-1), k: k.to_string(), x, y, z }
}

fn abstract_patch_op(w: &World, t: &Tables, author: &PublicKey, identity: Option<Oid>, action: &patch::Action) -> AOp {
    use patch::Action as A;
    let rix = |id: &RevisionId| t.revs.iter().position(|x| *x == id.into_inner()).map(|p| p as i64 + 1).unwrap_or(MISSING);
    let vix = |id: &ReviewId| t.reviews.iter().position(|(_, x)| *x == id.into_inner()).map(|p| p as i64 + 1).unwrap_or(MISSING);
    let rcix = |id: &Oid| t.rcomments.iter().position(|(_, x)| x == id).map(|p| p as i64 + 1).unwrap_or(MISSING);
    let vcix = |id: &Oid| t.vcomments.iter().position(|(_, x)| x == id).map(|p| p as i64 + 1).unwrap_or(MISSING);
    let set_ix = |sets: &Vec<Vec<i64>>, s: Vec<i64>| sets.iter().position(|x| sorted(x.clone()) == s).map(|p| p as i64 + 1).unwrap_or(-1);
    let vd = |v: &Option<patch::Verdict>| match v {
        None => 0,
        Some(patch::Verdict::Accept) => 1,
        Some(patch::Verdict::Reject) => 2,
    };
    let (k, x, y, z): (&str, i64, i64, i64) = match action {
        A::Edit { title, .. } => ("p.edit", title_code(title), 0, 0),
        A::Label { labels } => ("p.label", set_ix(&w.cfg.labelsets, sorted(labels.iter().map(label_code).collect())), 0, 0),
        A::Assign { assignees } => {
            let s = sorted(assignees.iter().map(|d| w.actor_of(d.as_key())).collect());
            let sets: Vec<Vec<i64>> = w.cfg.assignsets.iter().map(|v| v.iter().map(|a| *a as i64).collect()).collect();
            ("p.assign", set_ix(&sets, s), 0, 0)
        }
        A::Lifecycle { state } => ("p.lifecycle", match state { patch::Lifecycle::Open => 0, patch::Lifecycle::Draft => 1, patch::Lifecycle::Archived => 2 }, 0, 0),
        A::Merge { revision, commit } => ("p.merge", rix(revision), w.commit_of(commit), 0),
        A::Revision { .. } => ("p.revision", 0, 0, 0),
        A::RevisionEdit { revision, .. } => ("p.revedit", rix(revision), 0, 0),
        A::RevisionRedact { revision } => ("p.revredact", rix(revision), 0, 0),
        A::RevisionReact { revision, active, .. } => ("p.revreact", rix(revision), *active as i64, 0),
        A::RevisionComment { revision, body, reply_to, .. } => ("p.rcomment", rix(revision), reply_to.map(|r| rcix(&r)).unwrap_or(0), body.is_empty() as i64),
        A::RevisionCommentEdit { revision, comment, body, .. } => ("p.rcedit", rix(revision), rcix(comment), body.is_empty() as i64),
        A::RevisionCommentRedact { revision, comment } => ("p.rcredact", rix(revision), rcix(comment), 0),
        A::RevisionCommentReact { revision, comment, active, .. } => ("p.rcreact", rix(revision), rcix(comment), *active as i64),
        A::Review { revision, summary, verdict, .. } => ("p.review", rix(revision), vd(verdict), summary.is_some() as i64),
        A::ReviewEdit { review, summary, verdict, .. } => ("p.vedit", vix(review), vd(verdict), summary.is_some() as i64),
        A::ReviewRedact { review } => ("p.vredact", vix(review), 0, 0),
        A::ReviewComment { review, body, reply_to, .. } => ("p.vcomment", vix(review), reply_to.map(|r| vcix(&r)).unwrap_or(0), body.is_empty() as i64),
        A::ReviewCommentEdit { review, comment, body, .. } => ("p.vcedit", vix(review), vcix(comment), body.is_empty() as i64),
        A::ReviewCommentRedact { review, comment } => ("p.vcredact", vix(review), vcix(comment), 0),
        A::ReviewCommentReact { review, comment, active, .. } => ("p.vcreact", vix(review), vcix(comment), *active as i64),
        A::ReviewCommentResolve { review, comment } => ("p.vcresolve", vix(review), vcix(comment), 0),
        A::ReviewCommentUnresolve { review, comment } => ("p.vcunresolve", vix(review), vcix(comment), 0),
    };
    AOp { a: w.actor_of(author), d: identity.map(|o| w.doc_of(&o)).unwrap_or(-1), k: k.to_string(), x, y, z }
}

/// Transparent wrappers: `radicle_cob::get::<RecIssue, _>` runs the real loading and traversal and
/// calls the real `Issue::init` / `Issue::apply` through these, which only observe.
#[derive(Debug)]
pub struct RecIssue(pub Issue);
#[derive(Debug)]
pub struct RecPatch(pub Patch);

impl cob::Evaluate<Repository> for RecIssue {
    type Error = issue::Error;

    fn init(entry: &cob::Entry, repo: &Repository) -> Result<Self, Self::Error> {
        let r = <Issue as cob::Evaluate<Repository>>::init(entry, repo);
        REC.with(|c| {
            let mut c = c.borrow_mut();
            let st = c.as_mut().expect("recorder");
            let w = unsafe { &*st.world };
            if let Ok(i) = &r {
                st.tables.comments.push(*entry.id());
                let op = issue::Op::try_from(entry).ok();
                let aop = op.map(|op| json!([w.actor_of(&op.author), op.identity.map(|o| w.doc_of(&o)).unwrap_or(-1), "i.create", 0, 0, 0])).unwrap_or(json!([]));
                st.events.push(json!({"ev": "reset", "obj": "issue", "op": aop, "st": canon_of(project_issue(w, i, &st.tables)), "heads": w.heads()}));
            }
        });
        r.map(RecIssue)
    }

    fn apply<'a, I: Iterator<Item = (&'a cob::EntryId, &'a cob::Entry)>>(
        &mut self,
        entry: &cob::Entry,
        concurrent: I,
        repo: &Repository,
    ) -> Result<(), Self::Error> {
        let aops: Vec<AOp> = REC.with(|c| {
            let c = c.borrow();
            let st = c.as_ref().expect("recorder");
            let w = unsafe { &*st.world };
            match issue::Op::try_from(entry) {
                Ok(op) => op.actions.iter().map(|a| abstract_issue_op(w, &st.tables, &op.author, op.identity, a)).collect(),
                Err(_) => vec![],
            }
        });
        let r = self.0.apply(entry, concurrent, repo);
        REC.with(|c| {
            let mut c = c.borrow_mut();
            let st = c.as_mut().expect("recorder");
            let w = unsafe { &*st.world };
            let id = *entry.id();
            if self.0.thread().comment(&id).is_some() && !st.tables.comments.contains(&id) {
                st.tables.comments.push(id);
            }
            let op = if aops.len() == 1 { aops[0].to_json() } else { json!([]) };
            st.events.push(json!({"ev": "op", "obj": "issue", "op": op, "n_actions": aops.len(), "res": if r.is_ok() { 1 } else { 0 },
                                  "st": canon_of(project_issue(w, &self.0, &st.tables)), "err": r.as_ref().err().map(|e| e.to_string()).unwrap_or_default()}));
        });
        r
    }
}

impl cob::Evaluate<Repository> for RecPatch {
    type Error = patch::Error;

    fn init(entry: &cob::Entry, repo: &Repository) -> Result<Self, Self::Error> {
        let r = <Patch as cob::Evaluate<Repository>>::init(entry, repo);
        REC.with(|c| {
            let mut c = c.borrow_mut();
            let st = c.as_mut().expect("recorder");
            let w = unsafe { &*st.world };
            if let Ok(p) = &r {
                st.tables.revs.push(*entry.id());
                let op = patch::Op::try_from(entry).ok();
                let aop = op.map(|op| json!([w.actor_of(&op.author), op.identity.map(|o| w.doc_of(&o)).unwrap_or(-1), "p.create", 0, 0, 0])).unwrap_or(json!([]));
                st.events.push(json!({"ev": "reset", "obj": "patch", "op": aop, "st": canon_of(project_patch(w, p, &st.tables)), "heads": w.heads()}));
            }
        });
        r.map(RecPatch)
    }

    fn apply<'a, I: Iterator<Item = (&'a cob::EntryId, &'a cob::Entry)>>(
        &mut self,
        entry: &cob::Entry,
        concurrent: I,
        repo: &Repository,
    ) -> Result<(), Self::Error> {
        let aops: Vec<AOp> = REC.with(|c| {
            let c = c.borrow();
            let st = c.as_ref().expect("recorder");
            let w = unsafe { &*st.world };
            match patch::Op::try_from(entry) {
                Ok(op) => op.actions.iter().map(|a| abstract_patch_op(w, &st.tables, &op.author, op.identity, a)).collect(),
                Err(_) => vec![],
            }
        });
        let r = self.0.apply(entry, concurrent, repo);
        REC.with(|c| {
            let mut c = c.borrow_mut();
            let st = c.as_mut().expect("recorder");
            let w = unsafe { &*st.world };
            register_patch_ids(&self.0, &mut st.tables, *entry.id());
            let op = if aops.len() == 1 { aops[0].to_json() } else { json!([]) };
            st.events.push(json!({"ev": "op", "obj": "patch", "op": op, "n_actions": aops.len(), "res": if r.is_ok() { 1 } else { 0 },
                                  "st": canon_of(project_patch(w, &self.0, &st.tables)), "err": r.as_ref().err().map(|e| e.to_string()).unwrap_or_default()}));
        });
        r
    }
}

fn canon_of(mut v: Value) -> Value {
    canon(&mut v);
    v
}

/// Store one change commit for the object without evaluating it (what a remote peer's change is
/// when it arrives by fetch), on top of the given tips, and move the author's reference to it.
fn store_change<A: serde::Serialize>(
    w: &World,
    type_name: &cob::TypeName,
    object: Option<&cob::ObjectId>,
    actor: usize,
    identity: Oid,
    tips: Vec<Oid>,
    actions: Vec<A>,
    related: Vec<Oid>,
) -> Oid {
    use radicle_cob::change::Storage as _;
    use radicle_cob::object::Storage as _;
    let contents: Vec<Vec<u8>> = actions.iter().map(|a| cob::store::encoding::encode(a).expect("encode")).collect();
    let signer = &w.actors[actor - 1].signer;
    let entry = w
        .repo
        .store(
            Some(identity),
            related,
            signer,
            cob::change::Template {
                type_name: type_name.clone(),
                tips,
                message: "verif".to_string(),
                embeds: vec![],
                contents: NonEmpty::from_vec(contents).expect("actions"),
            },
        )
        .unwrap_or_else(|e| fatal(&format!("store change: {e}")));
    let oid = entry.id;
    let object_id = object.cloned().unwrap_or_else(|| cob::ObjectId::from(oid));
    w.repo
        .update(signer.public_key(), type_name, &object_id, &oid)
        .unwrap_or_else(|e| fatal(&format!("update ref: {e}")));
    oid
}

pub struct RecordOpts {
    pub n: u64,
    pub steps: usize,
    pub merge_heavy: bool,
}

pub fn record_main(args: &Args, merge_heavy: bool) {
    let out = Path::new(args.req("--out")).to_path_buf();
    let opts = RecordOpts { n: args.num("--n", 50), steps: args.num("--steps", 30) as usize, merge_heavy };
    let work = std::env::current_dir().unwrap();
    let mut rng = fastrand::Rng::with_seed(seed() ^ if merge_heavy { 0x8 } else { 0x7 });
    // beyond the bounded model: 6 actors, 3 documents with changing delegate sets and thresholds
    let cfg = if merge_heavy {
        Cfg {
            actors: 6,
            delegates: vec![vec![1, 2, 3], vec![1, 2, 3, 4], vec![2, 3, 4, 5]],
            threshold: vec![2, 3, 2],
            labelsets: vec![vec![], vec![1], vec![1, 2]],
            assignsets: vec![vec![], vec![2], vec![2, 6]],
            commits: 4,
            anc: vec![vec![], vec![1], vec![1, 2], vec![]],
        }
    } else {
        Cfg {
            actors: 6,
            delegates: vec![vec![1, 2], vec![1, 3], vec![2, 3, 4]],
            threshold: vec![1, 2, 2],
            labelsets: vec![vec![], vec![1], vec![2], vec![1, 2]],
            assignsets: vec![vec![], vec![2], vec![5], vec![2, 6]],
            commits: 3,
            anc: vec![vec![], vec![1], vec![]],
        }
    };
    let mut w = World::new(&work, &cfg);
    let mut o = Out::create(&out);
    o.emit(&json!({"ev": "cfg", "cfg": cfg.to_json()}));
    let mut runs = 0u64;
    let mut steps = 0u64;
    let mut rejected = 0u64;
    let mut forks = 0u64;
    for run in 0..opts.n {
        let is_issue = if merge_heavy { false } else { run % 2 == 0 };
        let (evs, nrej, nfork) = record_run(&mut w, &mut rng, is_issue, &opts);
        if evs.is_empty() {
            continue;
        }
        runs += 1;
        rejected += nrej;
        forks += nfork;
        steps += evs.len() as u64 - 1;
        for e in evs {
            o.emit(&e);
        }
    }
    o.emit(&json!({"ev": "end", "runs": runs, "steps": steps, "rejected": rejected, "forks": forks}));
    o.finish();
}

/// Candidate abstract ops against the generator's own view (the model-independent tables of what
/// it created so far); deliberately includes unauthorised, malformed and dangling ones.
fn random_op(rng: &mut fastrand::Rng, cfg: &Cfg, is_issue: bool, t: &GenTables, merge_heavy: bool) -> AOp {
    let a = rng.i64(1..=cfg.actors as i64);
    let d = rng.i64(1..=cfg.delegates.len() as i64);
    let pick = |rng: &mut fastrand::Rng, n: usize| -> i64 {
        if n == 0 || rng.u8(0..12) == 0 {
            MISSING
        } else {
            rng.i64(1..=n as i64)
        }
    };
    let body = |rng: &mut fastrand::Rng| if rng.u8(0..10) == 0 { 1 } else { 0 };
    let (k, x, y, z): (&str, i64, i64, i64) = if is_issue {
        match rng.u8(0..14) {
            0 => ("i.assign", rng.i64(1..=cfg.assignsets.len() as i64), 0, 0),
            1 | 2 => ("i.label", rng.i64(1..=cfg.labelsets.len() as i64), 0, 0),
            3 => ("i.edit", *[0, 1, 2, 9].get(rng.usize(0..4)).unwrap(), 0, 0),
            4 => ("i.lifecycle", rng.i64(0..3), 0, 0),
            5..=7 => ("i.comment", if rng.bool() { 0 } else { pick(rng, t.comments) }, 0, body(rng)),
            8 | 9 => ("i.cedit", pick(rng, t.comments), 0, body(rng)),
            10 | 11 => ("i.credact", pick(rng, t.comments), 0, 0),
            _ => ("i.creact", pick(rng, t.comments), rng.i64(0..2), 0),
        }
    } else if merge_heavy {
        match rng.u8(0..12) {
            0..=5 => ("p.merge", pick(rng, t.revs), rng.i64(1..=cfg.commits as i64), 0),
            6 | 7 => ("p.lifecycle", rng.i64(0..3), 0, 0),
            8 => ("p.revision", 0, 0, 0),
            9 | 10 => ("p.revredact", pick(rng, t.revs), 0, 0),
            _ => ("p.edit", rng.i64(0..3), 0, 0),
        }
    } else {
        match rng.u8(0..30) {
            0 => ("p.edit", *[0, 1, 2, 9].get(rng.usize(0..4)).unwrap(), 0, 0),
            1 | 2 => ("p.label", rng.i64(1..=cfg.labelsets.len() as i64), 0, 0),
            3 => ("p.assign", rng.i64(1..=cfg.assignsets.len() as i64), 0, 0),
            4 => ("p.lifecycle", rng.i64(0..3), 0, 0),
            5 => ("p.merge", pick(rng, t.revs), rng.i64(1..=cfg.commits as i64), 0),
            6 | 7 => ("p.revision", 0, 0, 0),
            8 => ("p.revedit", pick(rng, t.revs), 0, 0),
            9 => ("p.revredact", pick(rng, t.revs), 0, 0),
            10 => ("p.revreact", pick(rng, t.revs), rng.i64(0..2), 0),
            11 | 12 => ("p.rcomment", pick(rng, t.revs), if rng.bool() { 0 } else { pick(rng, t.rcomments) }, body(rng)),
            13 => ("p.rcedit", pick(rng, t.revs), pick(rng, t.rcomments), body(rng)),
            14 => ("p.rcredact", pick(rng, t.revs), pick(rng, t.rcomments), 0),
            15 => ("p.rcreact", pick(rng, t.revs), pick(rng, t.rcomments), rng.i64(0..2)),
            16..=18 => ("p.review", pick(rng, t.revs), rng.i64(0..3), rng.i64(0..2)),
            19 | 20 => ("p.vedit", pick(rng, t.reviews), rng.i64(0..3), rng.i64(0..2)),
            21 => ("p.vredact", pick(rng, t.reviews), 0, 0),
            22 | 23 => ("p.vcomment", pick(rng, t.reviews), if rng.bool() { 0 } else { pick(rng, t.vcomments) }, body(rng)),
            24 => ("p.vcedit", pick(rng, t.reviews), pick(rng, t.vcomments), body(rng)),
            25 => ("p.vcredact", pick(rng, t.reviews), pick(rng, t.vcomments), 0),
            26 => ("p.vcreact", pick(rng, t.reviews), pick(rng, t.vcomments), rng.i64(0..2)),
            27 => ("p.vcresolve", pick(rng, t.reviews), pick(rng, t.vcomments), 0),
            28 => ("p.vcunresolve", pick(rng, t.reviews), pick(rng, t.vcomments), 0),
            _ => ("p.revision", 0, 0, 0),
        }
    };
    AOp { a, d, k: k.to_string(), x, y, z }
}

#[derive(Default, Clone)]
struct GenTables {
    comments: usize,
    revs: usize,
    rcomments: usize,
    reviews: usize,
    vcomments: usize,
}

/// One random history: a DAG of change commits (mostly linear, with forks), then one evaluation.
fn record_run(w: &mut World, rng: &mut fastrand::Rng, is_issue: bool, opts: &RecordOpts) -> (Vec<Value>, u64, u64) {
    let cfg = w.cfg.clone();
    // branch heads for this run
    let heads: Vec<i64> = (0..cfg.actors).map(|_| rng.i64(0..=cfg.commits as i64)).collect();
    w.set_heads(&heads);
    let type_name = if is_issue { issue::TYPENAME.clone() } else { patch::TYPENAME.clone() };
    // The generator addresses targets by *its own* creation order of id-producing changes; the
    // evaluation may order concurrent ones differently (or drop them), so the generator keeps the
    // real ids and the recording wrapper re-derives the model indices in evaluation order.
    let mut gt = Tables::default();
    let author = rng.usize(1..=cfg.actors);
    let d0 = rng.usize(1..=cfg.delegates.len());
    let root = if is_issue {
        let op = AOp { a: author as i64, d: d0 as i64, k: "i.create".into(), x: 1, y: 1, z: 0 };
        store_change(w, &type_name, None, author, w.docs[d0 - 1], vec![], w.issue_root_actions(&op), vec![])
    } else {
        let op = AOp { a: author as i64, d: d0 as i64, k: "p.create".into(), x: 1, y: 0, z: 0 };
        let rel = vec![w.base, w.commits[0]];
        store_change(w, &type_name, None, author, w.docs[d0 - 1], vec![], w.patch_root_actions(&op), rel)
    };
    let object = cob::ObjectId::from(root);
    if is_issue {
        gt.comments.push(root);
    } else {
        gt.revs.push(root);
    }
    let mut all: Vec<Oid> = vec![root];
    let mut tips: Vec<Oid> = vec![root];
    let mut nfork = 0u64;
    for _ in 0..opts.steps {
        let counts = GenTables { comments: gt.comments.len(), revs: gt.revs.len(), rcomments: gt.rcomments.len(), reviews: gt.reviews.len(), vcomments: gt.vcomments.len() };
        let op = random_op(rng, &cfg, is_issue, &counts, opts.merge_heavy);
        // parents: usually all current tips (linear), sometimes an older change (a concurrent branch)
        let parents: Vec<Oid> = if rng.u8(0..5) == 0 && all.len() > 1 {
            nfork += 1;
            vec![all[rng.usize(0..all.len())]]
        } else {
            tips.clone()
        };
        let a = op.a as usize;
        let ident = w.docs[op.d as usize - 1];
        let oid = if is_issue {
            let action = w.issue_action(&gt, &op);
            store_change(w, &type_name, Some(&object), a, ident, parents.clone(), vec![action], vec![])
        } else {
            let action = w.patch_action(&gt, &op);
            use radicle::cob::store::CobAction as _;
            let related = action.parents();
            store_change(w, &type_name, Some(&object), a, ident, parents.clone(), vec![action], related)
        };
        // Was the change accepted? (plain evaluation by the real code.) A rejected change stays in
        // the history -- it is loaded and refused again by the recorded evaluation -- but nobody
        // builds on it, since everything below a refused change is pruned with it.
        let accepted = if is_issue {
            radicle_cob::get::<Issue, _>(&w.repo, &type_name, &object).ok().flatten().map(|o| o.history().graph().contains(&oid)).unwrap_or(false)
        } else {
            radicle_cob::get::<Patch, _>(&w.repo, &type_name, &object).ok().flatten().map(|o| o.history().graph().contains(&oid)).unwrap_or(false)
        };
        if !accepted {
            continue;
        }
        match op.k.as_str() {
            "i.comment" => gt.comments.push(oid),
            "p.revision" => gt.revs.push(oid),
            "p.rcomment" => gt.rcomments.push((op.x.clamp(1, gt.revs.len() as i64) as usize, oid)),
            "p.review" => gt.reviews.push((op.x.clamp(1, gt.revs.len() as i64) as usize, oid)),
            "p.vcomment" => gt.vcomments.push((op.x.clamp(1, gt.reviews.len().max(1) as i64) as usize, oid)),
            _ => {}
        }
        all.push(oid);
        tips.retain(|t| !parents.contains(t));
        tips.push(oid);
    }
    // one evaluation of the whole history by the real code, observed step by step
    REC.with(|c| *c.borrow_mut() = Some(RecState { world: w as *const World, tables: Tables::default(), events: vec![] }));
    let r = if is_issue {
        guard(|| radicle_cob::get::<RecIssue, _>(&w.repo, &type_name, &object).map(|o| o.is_some()))
    } else {
        guard(|| radicle_cob::get::<RecPatch, _>(&w.repo, &type_name, &object).map(|o| o.is_some()))
    };
    let st = REC.with(|c| c.borrow_mut().take()).expect("recorder");
    let mut events = st.events;
    match r {
        Ok(Ok(true)) => {}
        Ok(Ok(false)) => fatal("recorded object not found"),
        Ok(Err(e)) => fatal(&format!("evaluation failed: {e}")),
        Err(p) => events.push(json!({"ev": "panic", "msg": p})),
    }
    let nrej = events.iter().filter(|e| e["ev"] == "op" && e["res"] == 0).count() as u64;
    // remove the object's references so the next run starts clean
    for a in 1..=cfg.actors {
        let _ = radicle_cob::object::Storage::remove(&w.repo, &w.pks[a - 1], &type_name, &object);
    }
    (events, nrej, nfork)
}

pub fn main_with(merge_heavy: bool) {
    let args = Args::parse();
    quiet_panics();
    match args.req("--mode") {
        "replay" => replay_main(&args),
        "record" => record_main(&args, merge_heavy),
        _ => fatal("unknown mode"),
    }
}
