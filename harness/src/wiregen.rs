//! Shared by the wire engines (c14_frames, c15_messages); included with `#[path]`.
//!  * a counting global allocator (allocation is OBSERVED, not inferred),
//!  * varint encoding with a forced width (the real encoder only emits minimal widths),
//!  * builders for real wire values from a seeded RNG,
//!  * a worker-process runner: risky batches run in child processes under RLIMIT_AS; a child that
//!    dies is attributed to the case it logged before executing it.
#![allow(dead_code)]
use std::alloc::{GlobalAlloc, Layout, System};
use std::io::{Seek, SeekFrom, Write};
use std::path::{Path, PathBuf};
use std::sync::atomic::{AtomicIsize, AtomicUsize, Ordering::Relaxed};

use hwv::{json, Value};

// ------------------------------------------------------------------------------------------------
// Counting allocator

pub struct Counting;
static LIVE: AtomicIsize = AtomicIsize::new(0);
static PEAK: AtomicIsize = AtomicIsize::new(0);
static MAXREQ: AtomicUsize = AtomicUsize::new(0);

#[inline]
fn grow(n: usize) {
    let live = LIVE.fetch_add(n as isize, Relaxed) + n as isize;
    PEAK.fetch_max(live, Relaxed);
    MAXREQ.fetch_max(n, Relaxed);
}

unsafe impl GlobalAlloc for Counting {
    unsafe fn alloc(&self, l: Layout) -> *mut u8 {
        grow(l.size());
        System.alloc(l)
    }
    unsafe fn alloc_zeroed(&self, l: Layout) -> *mut u8 {
        grow(l.size());
        System.alloc_zeroed(l)
    }
    unsafe fn dealloc(&self, p: *mut u8, l: Layout) {
        LIVE.fetch_sub(l.size() as isize, Relaxed);
        System.dealloc(p, l)
    }
    unsafe fn realloc(&self, p: *mut u8, l: Layout, new: usize) -> *mut u8 {
        // the request is `new` bytes; live memory changes by the difference
        MAXREQ.fetch_max(new, Relaxed);
        if new >= l.size() {
            let live = LIVE.fetch_add((new - l.size()) as isize, Relaxed) + (new - l.size()) as isize;
            PEAK.fetch_max(live, Relaxed);
        } else {
            LIVE.fetch_sub((l.size() - new) as isize, Relaxed);
        }
        System.realloc(p, l, new)
    }
}

/// Start an observation window; returns the live byte count at its start.
pub fn mem_begin() -> isize {
    let live = LIVE.load(Relaxed);
    PEAK.store(live, Relaxed);
    MAXREQ.store(0, Relaxed);
    live
}
/// End of window: max(peak live bytes above the start, largest single request).
pub fn mem_end(base: isize) -> u64 {
    let peak = (PEAK.load(Relaxed) - base).max(0) as u64;
    peak.max(MAXREQ.load(Relaxed) as u64)
}

// ------------------------------------------------------------------------------------------------
// Varints (RFC 9000) with a chosen width

pub fn varint_max(width: usize) -> u64 {
    match width {
        1 => (1 << 6) - 1,
        2 => (1 << 14) - 1,
        4 => (1 << 30) - 1,
        _ => (1 << 62) - 1,
    }
}

pub fn varint(x: u64, width: usize) -> Vec<u8> {
    assert!(x <= varint_max(width), "{x} does not fit a {width} byte varint");
    match width {
        1 => vec![x as u8],
        2 => ((0b01u16 << 14) | x as u16).to_be_bytes().to_vec(),
        4 => ((0b10u32 << 30) | x as u32).to_be_bytes().to_vec(),
        8 => ((0b11u64 << 62) | x).to_be_bytes().to_vec(),
        _ => panic!("bad varint width"),
    }
}

pub fn hex(b: &[u8]) -> String {
    let mut s = String::with_capacity(b.len() * 2);
    for x in b.iter().take(256) {
        s.push_str(&format!("{x:02x}"));
    }
    if b.len() > 256 {
        s.push_str(&format!("..(+{})", b.len() - 256));
    }
    s
}

pub fn rand_bytes(rng: &mut fastrand::Rng, n: usize) -> Vec<u8> {
    (0..n).map(|_| rng.u8(..)).collect()
}

// ------------------------------------------------------------------------------------------------
// Worker processes

/// Restrict the address space of this process (bytes).
pub fn limit_address_space(bytes: u64) {
    let lim = libc::rlimit { rlim_cur: bytes, rlim_max: bytes };
    unsafe {
        libc::setrlimit(libc::RLIMIT_AS, &lim);
        // no core files from deliberate aborts
        let zero = libc::rlimit { rlim_cur: 0, rlim_max: 0 };
        libc::setrlimit(libc::RLIMIT_CORE, &zero);
    }
}

/// Progress log of a worker: the case about to be executed and the counters so far, rewritten in
/// place before every case so that the parent can attribute an abort.
pub struct Progress {
    f: std::fs::File,
}
impl Progress {
    pub fn create(path: &Path) -> Self {
        Progress { f: std::fs::File::create(path).unwrap_or_else(|e| hwv::fatal(&format!("progress: {e}"))) }
    }
    pub fn set(&mut self, v: &Value) {
        let mut s = serde_json::to_string(v).unwrap();
        s.push('\n');
        // pad so that a shorter record fully overwrites a longer one
        while s.len() < 4096 {
            s.push(' ');
        }
        self.f.seek(SeekFrom::Start(0)).ok();
        self.f.write_all(s.as_bytes()).ok();
    }
}

pub struct WorkerOutcome {
    /// verdict records of all (re)started workers, summaries included
    pub records: Vec<Value>,
    /// progress records of the workers that died: {"idx":…, "what":…, "counts":…, "signal":…}
    pub deaths: Vec<Value>,
}

/// Run `total` cases in `procs` worker processes of this executable. Each worker gets
/// `--mode worker --from a --to b --out f --progress p` plus `extra`; when a worker dies (signal or
/// exit code other than 0) the case in its progress file is recorded as a death and the worker is
/// restarted behind that case.
pub fn run_workers(total: usize, procs: usize, work: &Path, tag: &str, extra: &[String]) -> WorkerOutcome {
    let exe = std::env::current_exe().expect("current_exe");
    let procs = procs.max(1).min(total.max(1));
    let per = (total + procs - 1) / procs.max(1);
    let mut handles = Vec::new();
    for k in 0..procs {
        let (a, b) = (k * per, ((k + 1) * per).min(total));
        if a >= b {
            continue;
        }
        let exe = exe.clone();
        let work = work.to_path_buf();
        let extra = extra.to_vec();
        let tag = tag.to_string();
        handles.push(std::thread::spawn(move || {
            let mut records = Vec::new();
            let mut deaths = Vec::new();
            let mut from = a;
            let mut gen = 0;
            while from < b {
                let out: PathBuf = work.join(format!("{tag}-w{k}-{gen}.ndjson"));
                let prog: PathBuf = work.join(format!("{tag}-w{k}-{gen}.progress"));
                let status = std::process::Command::new(&exe)
                    .args(["--mode", "worker", "--from", &from.to_string(), "--to", &b.to_string()])
                    .arg("--out").arg(&out).arg("--progress").arg(&prog)
                    .args(&extra)
                    .stderr(std::process::Stdio::null())
                    .status()
                    .unwrap_or_else(|e| hwv::fatal(&format!("spawn worker: {e}")));
                if out.exists() {
                    // a worker that died may have left a partial last line: skip what does not parse
                    if let Ok(text) = std::fs::read_to_string(&out) {
                        for l in text.lines() {
                            if let Ok(v) = serde_json::from_str::<Value>(l) {
                                records.push(v);
                            }
                        }
                    }
                }
                if status.success() {
                    break;
                }
                if status.code() == Some(2) {
                    hwv::fatal("worker reported a tool error");
                }
                // died: attribute to the logged case
                use std::os::unix::process::ExitStatusExt;
                let p: Value = std::fs::read_to_string(&prog)
                    .ok()
                    .and_then(|s| serde_json::from_str(s.trim()).ok())
                    .unwrap_or_else(|| hwv::fatal("worker died without a progress record"));
                let idx = p["idx"].as_u64().unwrap_or_else(|| hwv::fatal("bad progress record")) as usize;
                let mut d = p.clone();
                d["signal"] = json!(status.signal());
                d["code"] = json!(status.code());
                deaths.push(d);
                from = idx + 1;
                gen += 1;
                if gen > 200 {
                    hwv::fatal("too many worker deaths");
                }
            }
            (records, deaths)
        }));
    }
    let mut o = WorkerOutcome { records: Vec::new(), deaths: Vec::new() };
    for h in handles {
        let (r, d) = h.join().unwrap_or_else(|_| hwv::fatal("worker supervisor panicked"));
        o.records.extend(r);
        o.deaths.extend(d);
    }
    o
}
