//! A real collaborative-object world for the `Cob` engines (C05 `c05_cobstate`, C06 `c06_cobreject`).
//!
//! Binds `spec/Cob.tla` to the real code: a real `Storage` with a real repository and identity, a
//! real `Issue` (or `Patch`) whose root change is created through the public API, and *raw* change
//! commits written through the public storage traits
//! (`radicle_cob::change::Storage::store` + `radicle_cob::object::Storage::update`) so that arbitrary
//! change DAGs -- concurrent branches, equal timestamps, merges, invalid payloads, forged
//! signatures -- can be put in front of the real `cob::get` / `cob::list`
//! (`ChangeGraph::load` + `ChangeGraph::evaluate` + `Issue::apply` / `Patch::apply`).
//!
//! Model <-> implementation correspondence
//!  * change 0 is the root (the object id); changes `1..=M` are raw commits. The model's numeric
//!    order on `1..=M` is the *object-id order* of the commits (that is what the evaluation order
//!    breaks ties with), so commits are ground (a nonce in the commit message) until their ids are
//!    ordered like their labels.
//!  * `ts` is the committer time (`GIT_COMMITTER_DATE`, process-wide: engines are single-threaded per
//!    process and parallelise with child processes).
//!  * payload class -> actions, see [`World::actions`].
//!  * a namespace is a public key; a presentation assigns change ids to `refs/namespaces/<key>/refs/cobs/<type>/<id>`.
use std::collections::{BTreeMap, BTreeSet, HashMap};
use std::path::Path;
use std::str::FromStr;

use nonempty::NonEmpty;
use radicle::cob::{self, issue, patch, store::encoding::encode, Label, ObjectId, TypeName};
use radicle::crypto::test::signer::MockSigner;
use radicle::crypto::{PublicKey, Signer as _};
use radicle::git::Oid;
use radicle::storage::git::Repository;
use radicle::storage::ReadRepository;
use radicle::test::setup::{Node, NodeRepo};
use radicle_cob::change::{Storage as _, Template};
use radicle_cob::object::Storage as _;
use radicle_cob::signatures::ExtendedSignature;
use serde_json::{json, Value};

/// Committer time of the root change; `ts = k` of the model is `BASE_TS + k`.
pub const BASE_TS: u64 = 1_700_000_000;

/// Which real object type carries the model's abstract object.
#[derive(Clone, Copy, Debug, PartialEq, Eq)]
pub enum Kind {
    Issue,
    Patch,
}

impl Kind {
    pub fn parse(s: &str) -> Kind {
        match s {
            "issue" => Kind::Issue,
            "patch" => Kind::Patch,
            _ => crate::fatal(&format!("unknown object kind {s}")),
        }
    }
    pub fn name(&self) -> &'static str {
        match self {
            Kind::Issue => "issue",
            Kind::Patch => "patch",
        }
    }
}

/// Splits a refused-single-action class `rf.<cause>.<d|g>`.
pub fn rf_parts(cls: &str) -> (&str, &str) {
    let mut it = cls.split('.');
    match (it.next(), it.next(), it.next()) {
        (Some("rf"), Some(cause), Some(role)) => (cause, role),
        _ => crate::fatal(&format!("unknown class {cls}")),
    }
}

/// Signs with one key but names another: the resulting change commit has a signature that does
/// not verify (`Entry::valid_signatures` is false).
pub struct Forger {
    pub claims: PublicKey,
    pub inner: MockSigner,
}

impl signature::Signer<ExtendedSignature> for Forger {
    fn try_sign(&self, msg: &[u8]) -> Result<ExtendedSignature, signature::Error> {
        let sig: radicle::crypto::Signature = signature::Signer::try_sign(&self.inner, msg)?;
        Ok(ExtendedSignature::new(self.claims, sig))
    }
}

/// One change of a model graph (labels: 0 = root, 1..=M).
#[derive(Clone, Debug)]
pub struct ChangeSpec {
    pub deps: Vec<usize>,
    pub ts: u64,
    pub cls: String,
    /// For class `needs`: the change whose comment this one replies to.
    pub tgt: usize,
}

/// A model graph: `changes[k-1]` describes change `k`.
#[derive(Clone, Debug)]
pub struct GraphSpec {
    pub changes: Vec<ChangeSpec>,
}

impl GraphSpec {
    pub fn m(&self) -> usize {
        self.changes.len()
    }
    pub fn from_case(c: &Value) -> GraphSpec {
        let deps = c["deps"].as_array().expect("deps");
        let ts = c["ts"].as_array().expect("ts");
        let cls = c["cls"].as_array().expect("cls");
        let tgt = c["tgt"].as_array();
        let changes = (0..deps.len())
            .map(|i| ChangeSpec {
                deps: deps[i].as_array().unwrap().iter().map(|x| x.as_u64().unwrap() as usize).collect(),
                ts: ts[i].as_u64().unwrap(),
                cls: cls[i].as_str().unwrap().to_string(),
                tgt: tgt.map(|t| t[i].as_u64().unwrap() as usize).unwrap_or(0),
            })
            .collect();
        GraphSpec { changes }
    }
    /// Changes that no other change depends on.
    pub fn tips(&self) -> Vec<usize> {
        let mut has_dependent = BTreeSet::new();
        for c in &self.changes {
            for d in &c.deps {
                has_dependent.insert(*d);
            }
        }
        let t: Vec<usize> = (1..=self.m()).filter(|k| !has_dependent.contains(k)).collect();
        if t.is_empty() {
            vec![0]
        } else {
            t
        }
    }
    /// Tips of the sub-graph induced by `keep` (which must be closed under dependencies).
    pub fn tips_of(&self, keep: &BTreeSet<usize>) -> Vec<usize> {
        let mut has_dependent = BTreeSet::new();
        for k in keep {
            if *k == 0 {
                continue;
            }
            for d in &self.changes[*k - 1].deps {
                has_dependent.insert(*d);
            }
        }
        keep.iter().copied().filter(|k| !has_dependent.contains(k)).collect()
    }
    /// Transitive dependents of `k` (excluding `k`).
    pub fn descendants(&self, k: usize) -> BTreeSet<usize> {
        let mut out = BTreeSet::new();
        let mut changed = true;
        while changed {
            changed = false;
            for (i, c) in self.changes.iter().enumerate() {
                let id = i + 1;
                if !out.contains(&id) && c.deps.iter().any(|d| *d == k || out.contains(d)) {
                    out.insert(id);
                    changed = true;
                }
            }
        }
        out
    }
    /// A creation order: dependencies and `needs` targets first. `rev` picks another valid order.
    pub fn creation_order(&self, rev: bool) -> Vec<usize> {
        let m = self.m();
        let mut done = BTreeSet::from([0usize]);
        let mut order = Vec::new();
        while order.len() < m {
            let mut ready: Vec<usize> = (1..=m)
                .filter(|k| !done.contains(k))
                .filter(|k| {
                    let c = &self.changes[*k - 1];
                    c.deps.iter().all(|d| done.contains(d)) && (c.cls != "needs" || done.contains(&c.tgt))
                })
                .collect();
            if ready.is_empty() {
                crate::fatal("graph has a cycle through deps/needs");
            }
            if rev {
                ready.reverse();
            }
            let k = ready[0];
            done.insert(k);
            order.push(k);
        }
        order
    }
}

/// What is observed of an evaluated object, in model terms (labels instead of object ids) plus the
/// full serialised object for exact comparisons between presentations.
#[derive(Clone, Debug, PartialEq)]
pub struct Observed {
    /// Entry ids in the thread/patch timeline mapped to labels (`-1`: not a change of the graph).
    pub timeline: Vec<i64>,
    pub title: String,
    /// (label, body) of every visible comment, in thread order.
    pub comments: Vec<(i64, String)>,
    pub labels: Vec<String>,
    /// Labels of the changes in the returned `History`, ascending.
    pub hist: Vec<i64>,
    /// Labels of `History::tips`, ascending.
    pub tips: Vec<i64>,
    /// `serde_json` of the whole object.
    pub full: Value,
    /// The evaluated object itself: presentations / the cleaned history are compared with the
    /// object's own `PartialEq` as well.
    pub obj: Obj,
}

/// An evaluated object of either type.
#[derive(Clone, Debug, PartialEq)]
pub enum Obj {
    Issue(issue::Issue),
    Patch(patch::Patch),
}

impl Observed {
    pub fn to_json(&self) -> Value {
        json!({"timeline": self.timeline, "title": self.title, "comments": self.comments,
               "labels": self.labels, "hist": self.hist, "tips": self.tips})
    }
    /// The last-writer value: label k for title "t<k>", 0 for the root title.
    pub fn lww(&self) -> i64 {
        self.title.strip_prefix('t').and_then(|s| s.parse().ok()).unwrap_or(-1)
    }
    /// The label writer: k for the label set {"l<k>"}, 0 for no labels, -1 otherwise.
    pub fn labels_lww(&self) -> i64 {
        match self.labels.as_slice() {
            [] => 0,
            [l] => l.strip_prefix('l').and_then(|s| s.parse().ok()).unwrap_or(-1),
            _ => -1,
        }
    }
    /// Timeline entries in order, without the root (issue: the thread timeline; patch: the
    /// patch timeline, one entry per applied operation).
    pub fn log(&self) -> Vec<i64> {
        let mut out: Vec<i64> = Vec::new();
        for t in self.timeline.iter().skip(1) {
            if out.last() != Some(t) {
                out.push(*t);
            }
        }
        out
    }
}

pub struct World {
    pub kind: Kind,
    pub node: Node,
    pub repo: NodeRepo,
    pub stranger: MockSigner,
    pub forger: Forger,
    /// Namespace keys, sorted by their reference name.
    pub namespaces: Vec<PublicKey>,
    pub type_name: TypeName,
    pub object: ObjectId,
    pub identity: Oid,
    /// Number of `store` calls (including grinding attempts).
    pub stores: u64,
    /// Time spent in `store`, microseconds.
    pub store_us: u64,
    /// Number of evaluations (`cob::get` / `cob::list`).
    pub evals: u64,
}

impl World {
    /// A storage with one repository (delegate: the node's own key) and one object of `kind`.
    pub fn new(dir: &Path, kind: Kind) -> World {
        std::env::set_var("GIT_COMMITTER_DATE", BASE_TS.to_string());
        let tmp = tempfile::tempdir_in(dir).expect("tempdir");
        let node = Node::new(tmp, MockSigner::from_seed([0xA1; 32]), "alice");
        let repo = node.project();
        let stranger = MockSigner::from_seed([0xE5; 32]);
        let forger = Forger { claims: *node.signer.public_key(), inner: MockSigner::from_seed([0xF0; 32]) };
        let mut namespaces: Vec<PublicKey> =
            (1..=6u8).map(|i| *MockSigner::from_seed([i; 32]).public_key()).collect();
        namespaces.sort_by_key(|k| k.to_string());
        let identity = repo.identity_head().expect("identity head");
        let (type_name, object) = match kind {
            Kind::Issue => {
                let mut issues = issue::Cache::no_cache(&*repo).expect("issues");
                let i = issues.create("t0", "c0", &[], &[], [], &node.signer).expect("create issue");
                (issue::TYPENAME.clone(), *i.id())
            }
            Kind::Patch => {
                let branch = repo.checkout().branch_with([("README", b"Hello World!")]);
                let mut patches = patch::Cache::no_cache(&*repo).expect("patches");
                let p = patches
                    .create("t0", "c0", patch::MergeTarget::Delegates, branch.base, branch.oid, &[], &node.signer)
                    .expect("create patch");
                (patch::TYPENAME.clone(), *p.id())
            }
        };
        World { kind, node, repo, stranger, forger, namespaces, type_name, object, identity, stores: 0, store_us: 0, evals: 0 }
    }

    pub fn repository(&self) -> &Repository {
        &self.repo
    }

    pub fn root(&self) -> Oid {
        *self.object
    }

    /// The encoded actions of a change of class `cls` with label `k`.
    ///
    /// * `ok`          [comment "c<k>", title "t<k>"]            delegate  -- log entry + last-writer value
    /// * `guest`       [comment "c<k>"]                           stranger  -- log entry only
    /// * `needs`       [comment "c<k>" replying to change tgt]    delegate  -- valid iff tgt's comment exists
    /// * `badSig`      like `ok`, forged signature
    /// * `label`       [label "l<k>"]                             delegate  -- sets the labels, no thread entry
    /// * `rf.<cause>.<d|g>` a single refused action by the delegate (d) or the stranger (g):
    ///                 redactMissing / editMissing (non-empty body) / reactMissing / replyMissing: the
    ///                 target comment id is absent; badTitle: line break in the title; label: by the
    ///                 stranger. For patches the same on the root revision's discussion; where the
    ///                 patch code *ignores* the action instead of refusing it, the nearest refused
    ///                 one is used (missing revision), and `rf.badTitle.d` does not exist
    ///                 ([`World::supports`]).
    /// * `rejectLater` [comment, title, label, refused action]    (variants by k: missing comment,
    ///                 bad title, reply to / edit of / reaction to a missing comment; stranger labelling)
    ///
    /// Returns (actions, author) where author is 0 = delegate, 1 = stranger, 2 = forged delegate.
    pub fn actions(&self, cls: &str, k: usize, tgt: Option<Oid>) -> (Vec<Vec<u8>>, u8) {
        let root = self.root();
        // An id that is never a comment/revision: the identity commit.
        let missing = self.identity;
        let label = |s: String| Label::from_str(&s).expect("label");
        let reaction = radicle::cob::Reaction::new('\u{1F44D}').expect("reaction");
        match self.kind {
            Kind::Issue => {
                use issue::Action as A;
                let comment = |reply: Oid| A::Comment { body: format!("c{k}"), reply_to: Some(reply), embeds: vec![] };
                let title = A::Edit { title: format!("t{k}") };
                let lab = A::Label { labels: [label(format!("l{k}"))].into_iter().collect() };
                let enc = |v: Vec<A>| v.into_iter().map(|a| encode(a).expect("encode")).collect::<Vec<_>>();
                match cls {
                    "ok" => (enc(vec![comment(root), title]), 0),
                    "guest" => (enc(vec![comment(root)]), 1),
                    "needs" => (enc(vec![comment(tgt.expect("needs target"))]), 0),
                    "badSig" => (enc(vec![comment(root), title]), 2),
                    "label" => (enc(vec![lab]), 0),
                    "rejectLater" => match k % 6 {
                        0 => (enc(vec![comment(root), lab]), 1),
                        1 => (enc(vec![comment(root), title, lab, A::CommentRedact { id: missing }]), 0),
                        2 => (enc(vec![comment(root), title, lab, A::Edit { title: "bad\ntitle".into() }]), 0),
                        3 => (enc(vec![title, lab, comment(missing)]), 0),
                        4 => (enc(vec![title, lab, A::CommentEdit { id: missing, body: format!("e{k}"), embeds: vec![] }]), 0),
                        _ => (enc(vec![title, lab, A::CommentReact { id: missing, reaction, active: true }]), 0),
                    },
                    _ => {
                        let (cause, role) = rf_parts(cls);
                        let author = if role == "d" { 0 } else { 1 };
                        let a = match cause {
                            "redactMissing" => A::CommentRedact { id: missing },
                            "editMissing" => A::CommentEdit { id: missing, body: format!("e{k}"), embeds: vec![] },
                            "reactMissing" => A::CommentReact { id: missing, reaction, active: true },
                            "replyMissing" => comment(missing),
                            "badTitle" => A::Edit { title: format!("t{k}\nx") },
                            "label" if role == "g" => lab,
                            _ => crate::fatal(&format!("unknown class {cls}")),
                        };
                        (enc(vec![a]), author)
                    }
                }
            }
            Kind::Patch => {
                use patch::Action as A;
                let rev = patch::RevisionId::from(root);
                let comment = |reply: Option<Oid>| A::RevisionComment {
                    revision: rev,
                    location: None,
                    body: format!("c{k}"),
                    reply_to: reply,
                    embeds: vec![],
                };
                let title = A::Edit { title: format!("t{k}"), target: patch::MergeTarget::Delegates };
                let lab = A::Label { labels: [label(format!("l{k}"))].into_iter().collect() };
                let enc = |v: Vec<A>| v.into_iter().map(|a| encode(a).expect("encode")).collect::<Vec<_>>();
                match cls {
                    "ok" => (enc(vec![comment(None), title]), 0),
                    "guest" => (enc(vec![comment(None)]), 1),
                    "needs" => (enc(vec![comment(Some(tgt.expect("needs target")))]), 0),
                    "badSig" => (enc(vec![comment(None), title]), 2),
                    "label" => (enc(vec![lab]), 0),
                    "rejectLater" => match k % 6 {
                        0 => (enc(vec![comment(None), lab]), 1),
                        1 => (enc(vec![comment(None), title, lab, A::RevisionRedact { revision: patch::RevisionId::from(missing) }]), 0),
                        2 => (enc(vec![comment(None), title, lab, A::RevisionRedact { revision: rev }]), 0),
                        3 => (enc(vec![title, lab, comment(Some(missing))]), 0),
                        4 => (enc(vec![title, lab, A::RevisionCommentEdit { revision: rev, comment: missing, body: format!("e{k}"), embeds: vec![] }]), 0),
                        _ => (enc(vec![title, lab, A::RevisionCommentReact { revision: rev, comment: missing, reaction, active: true }]), 0),
                    },
                    _ => {
                        let (cause, role) = rf_parts(cls);
                        let author = if role == "d" { 0 } else { 1 };
                        let missing_rev = patch::RevisionId::from(missing);
                        let a = match (cause, role) {
                            // a non-delegate's redaction/edit of a missing *comment* is ignored by
                            // Patch::authorization (`Unknown`), not refused: use a missing revision
                            ("redactMissing", "d") => A::RevisionCommentRedact { revision: rev, comment: missing },
                            ("redactMissing", _) => A::RevisionRedact { revision: missing_rev },
                            ("editMissing", "d") => A::RevisionCommentEdit { revision: rev, comment: missing, body: format!("e{k}"), embeds: vec![] },
                            ("editMissing", _) => A::RevisionEdit { revision: missing_rev, description: format!("e{k}"), embeds: vec![] },
                            ("reactMissing", _) => A::RevisionCommentReact { revision: rev, comment: missing, reaction, active: true },
                            ("replyMissing", _) => comment(Some(missing)),
                            ("badTitle", "g") => A::Edit { title: format!("t{k}\nx"), target: patch::MergeTarget::Delegates },
                            ("label", "g") => lab,
                            _ => crate::fatal(&format!("class {cls} has no patch realisation")),
                        };
                        (enc(vec![a]), author)
                    }
                }
            }
        }
    }

    /// Whether class `cls` can be realised for this object type (patches do not validate titles:
    /// a delegate's title with a line break is not refused).
    pub fn supports(kind: Kind, cls: &str) -> bool {
        !(kind == Kind::Patch && cls == "rf.badTitle.d")
    }

    /// Write one raw change commit (no evaluation, no reference).
    pub fn store(&mut self, parents: &[Oid], ts: u64, actions: &[Vec<u8>], author: u8, nonce: u64) -> Oid {
        let _t = std::time::Instant::now();
        std::env::set_var("GIT_COMMITTER_DATE", (BASE_TS + ts).to_string());
        let contents = NonEmpty::from_vec(actions.to_vec()).expect("non-empty actions");
        let template = Template {
            type_name: self.type_name.clone(),
            tips: parents.to_vec(),
            message: format!("verif change n{nonce}"),
            embeds: vec![],
            contents,
        };
        let repo: &Repository = &self.repo;
        let id = Some(self.identity);
        let entry = match author {
            0 => repo.store(id, vec![], &self.node.signer, template),
            1 => repo.store(id, vec![], &self.stranger, template),
            _ => repo.store(id, vec![], &self.forger, template),
        }
        .expect("store change");
        self.stores += 1;
        self.store_us += _t.elapsed().as_micros() as u64;
        entry.id
    }

    /// Materialise a model graph as real change commits whose object-id order equals the label
    /// order. Returns `oids[k]` for k = 0..=M (0 = root). `salt` varies the commits, `rev` the order
    /// in which they are created.
    pub fn materialise(&mut self, g: &GraphSpec, salt: u64, rev: bool) -> Vec<Oid> {
        'attempt: for attempt in 0..64u64 {
            let mut oids: Vec<Option<Oid>> = vec![None; g.m() + 1];
            oids[0] = Some(self.root());
            for k in g.creation_order(rev) {
                let c = &g.changes[k - 1];
                let parents: Vec<Oid> = c.deps.iter().map(|d| oids[*d].expect("parent created")).collect();
                let tgt = if c.cls == "needs" { oids[c.tgt] } else { None };
                let (actions, author) = self.actions(&c.cls, k, tgt);
                // Change k gets an id in the k-th of M equal slices of the id space (by leading
                // byte): the ids are then ordered like the labels, and every attempt succeeds with
                // probability 1/M whatever ids were drawn before (no heavy tail).
                let m = g.m();
                let fits = |oid: Oid, _oids: &Vec<Option<Oid>>| {
                    let b = git2::Oid::from(oid).as_bytes()[0] as usize;
                    b * m / 256 + 1 == k
                };
                // Grinding: the first commit is written with nonce 0; if its id does not fit, the
                // id of the commit for every other nonce is *computed* from its raw bytes (the
                // nonce only occurs in the message; Ed25519 signatures are deterministic) and the
                // fitting one is then written with the real `store`.
                let tag = |n: u64| format!("n{}", salt.wrapping_mul(1_000_003).wrapping_add(attempt * 1_000_000_000 + n));
                let base = salt.wrapping_mul(1_000_003).wrapping_add(attempt * 1_000_000_000);
                let first = self.store(&parents, c.ts, &actions, author, base);
                let mut found = None;
                if fits(first, &oids) {
                    found = Some(first);
                } else {
                    let raw = {
                        let repo: &Repository = &self.repo;
                        let odb = repo.backend.odb().expect("odb");
                        let obj = odb.read(first.into()).expect("read commit");
                        String::from_utf8(obj.data().to_vec()).expect("utf8 commit")
                    };
                    let needle = format!("verif change {}\n", tag(0));
                    if let Some(at) = raw.find(&needle) {
                        let (pre, post) = (&raw[..at], &raw[at + needle.len()..]);
                        for n in 1..2_000_000u64 {
                            let buf = format!("{pre}verif change {}\n{post}", tag(n));
                            let oid: Oid = git2::Oid::hash_object(git2::ObjectType::Commit, buf.as_bytes()).expect("hash").into();
                            if fits(oid, &oids) {
                                let real = self.store(&parents, c.ts, &actions, author, base + n);
                                if real == oid {
                                    found = Some(real);
                                }
                                break;
                            }
                        }
                    }
                    if found.is_none() {
                        // fall back to writing candidates
                        for n in 2_000_000..2_000_400u64 {
                            let oid = self.store(&parents, c.ts, &actions, author, base + n);
                            if fits(oid, &oids) {
                                found = Some(oid);
                                break;
                            }
                        }
                    }
                }
                match found {
                    Some(oid) => oids[k] = Some(oid),
                    None => continue 'attempt,
                }
            }
            return oids.into_iter().map(|o| o.unwrap()).collect();
        }
        crate::fatal("could not grind change ids into label order")
    }

    /// Materialise a graph without constraining the ids; returns (oids by original label, rank) where
    /// `rank[k]` (k = 1..=M) is the position of change k in object-id order (1-based): relabelling
    /// by rank gives a graph in the model's conventions.
    pub fn materialise_free(&mut self, g: &GraphSpec, salt: u64) -> (Vec<Oid>, Vec<usize>) {
        let mut oids: Vec<Option<Oid>> = vec![None; g.m() + 1];
        oids[0] = Some(self.root());
        for k in g.creation_order(false) {
            let c = &g.changes[k - 1];
            let parents: Vec<Oid> = c.deps.iter().map(|d| oids[*d].expect("parent created")).collect();
            let tgt = if c.cls == "needs" { oids[c.tgt] } else { None };
            let (actions, author) = self.actions(&c.cls, k, tgt);
            oids[k] = Some(self.store(&parents, c.ts, &actions, author, salt));
        }
        let oids: Vec<Oid> = oids.into_iter().map(|o| o.unwrap()).collect();
        let mut sorted: Vec<usize> = (1..=g.m()).collect();
        sorted.sort_by_key(|k| oids[*k]);
        let mut rank = vec![0usize; g.m() + 1];
        for (i, k) in sorted.iter().enumerate() {
            rank[*k] = i + 1;
        }
        (oids, rank)
    }

    /// Remove every reference to the object, then create the given ones in the given order through
    /// the real `object::Storage::update`.
    pub fn present(&self, refs: &[(usize, Oid)]) {
        self.present_for(&self.type_name, &self.object, refs)
    }

    /// Same for any object of the repository.
    pub fn present_for(&self, type_name: &TypeName, object: &ObjectId, refs: &[(usize, Oid)]) {
        let repo: &Repository = &self.repo;
        let pattern = radicle::git::refs::storage::cobs(type_name, object);
        let names: Vec<String> = repo
            .backend
            .references_glob(pattern.as_str())
            .expect("glob")
            .filter_map(|r| r.ok().and_then(|r| r.name().map(|s| s.to_string())))
            .collect();
        for n in names {
            repo.backend.find_reference(&n).expect("find ref").delete().expect("delete ref");
        }
        for (ns, oid) in refs {
            repo.update(&self.namespaces[*ns], type_name, object, oid).expect("update ref");
        }
    }

    /// Evaluate the object with the real code (`via_list`: through `cob::list` instead of `cob::get`).
    /// `Err` carries a panic message or an evaluation error; `Ok(None)`: object not found.
    pub fn eval(&mut self, labels: &HashMap<Oid, i64>, via_list: bool) -> Result<Option<Observed>, String> {
        self.evals += 1;
        let repo: &Repository = &self.repo;
        let lab = |o: &Oid| labels.get(o).copied().unwrap_or(-1);
        let kind = self.kind;
        let tn = self.type_name.clone();
        let id = self.object;
        crate::guard(move || -> Result<Option<Observed>, String> {
            match kind {
                Kind::Issue => {
                    let obj = if via_list {
                        cob::list::<issue::Issue, _>(repo, &tn).map_err(|e| e.to_string())?.into_iter().find(|o| *o.id() == id)
                    } else {
                        cob::get::<issue::Issue, _>(repo, &tn, &id).map_err(|e| e.to_string())?
                    };
                    let Some(obj) = obj else { return Ok(None) };
                    let i = obj.object();
                    Ok(Some(Observed {
                        timeline: i.thread().timeline().map(|e| lab(e)).collect(),
                        title: i.title().to_string(),
                        comments: i.comments().map(|(id, c)| (lab(id), c.body().to_string())).collect(),
                        labels: i.labels().map(|l| l.to_string()).collect(),
                        hist: hist_of(obj.history(), &lab),
                        tips: sorted(obj.history().tips().iter().map(|o| lab(o)).collect()),
                        full: serde_json::to_value(i).map_err(|e| e.to_string())?,
                        obj: Obj::Issue(i.clone()),
                    }))
                }
                Kind::Patch => {
                    let obj = if via_list {
                        cob::list::<patch::Patch, _>(repo, &tn).map_err(|e| e.to_string())?.into_iter().find(|o| *o.id() == id)
                    } else {
                        cob::get::<patch::Patch, _>(repo, &tn, &id).map_err(|e| e.to_string())?
                    };
                    let Some(obj) = obj else { return Ok(None) };
                    let p = obj.object();
                    let comments = p
                        .revisions()
                        .flat_map(|(_, r)| r.discussion().comments().map(|(id, c)| (lab(id), c.body().to_string())).collect::<Vec<_>>())
                        .collect();
                    let full = serde_json::to_value(p).map_err(|e| e.to_string())?;
                    // `Patch::timeline` has no accessor: read it from the serialised object.
                    let timeline = full["timeline"]
                        .as_array()
                        .map(|a| a.iter().map(|v| v.as_str().and_then(|s| Oid::from_str(s).ok()).map(|o| lab(&o)).unwrap_or(-1)).collect())
                        .unwrap_or_default();
                    Ok(Some(Observed {
                        timeline,
                        title: p.title().to_string(),
                        comments,
                        labels: p.labels().map(|l| l.to_string()).collect(),
                        hist: hist_of(obj.history(), &lab),
                        tips: sorted(obj.history().tips().iter().map(|o| lab(o)).collect()),
                        full,
                        obj: Obj::Patch(p.clone()),
                    }))
                }
            }
        })
        .map_err(|p| format!("panic: {p}"))?
    }
}

fn sorted(mut v: Vec<i64>) -> Vec<i64> {
    v.sort();
    v
}

fn hist_of(h: &cob::History, lab: &impl Fn(&Oid) -> i64) -> Vec<i64> {
    sorted(h.graph().sorted().iter().map(|o| lab(o)).collect())
}

pub fn label_map(oids: &[Oid]) -> HashMap<Oid, i64> {
    oids.iter().enumerate().map(|(i, o)| (*o, i as i64)).collect()
}

/// All permutations of `0..n` (n <= 5).
pub fn permutations(n: usize) -> Vec<Vec<usize>> {
    fn go(cur: &mut Vec<usize>, used: &mut Vec<bool>, n: usize, out: &mut Vec<Vec<usize>>) {
        if cur.len() == n {
            out.push(cur.clone());
            return;
        }
        for i in 0..n {
            if !used[i] {
                used[i] = true;
                cur.push(i);
                go(cur, used, n, out);
                cur.pop();
                used[i] = false;
            }
        }
    }
    let mut out = Vec::new();
    go(&mut Vec::new(), &mut vec![false; n], n, &mut out);
    out
}

/// Number of distinct values in a map, for summaries.
pub fn count_by<T: Ord + Clone>(xs: impl Iterator<Item = T>) -> BTreeMap<T, u64> {
    let mut m = BTreeMap::new();
    for x in xs {
        *m.entry(x).or_insert(0) += 1;
    }
    m
}

// ------------------------------------------------------------------------------------------------
// Oracles

impl GraphSpec {
    /// Reachable closure of a set of changes (always contains the root).
    pub fn closure(&self, from: &[usize]) -> BTreeSet<usize> {
        let mut out = BTreeSet::from([0usize]);
        let mut stack: Vec<usize> = from.to_vec();
        while let Some(k) = stack.pop() {
            if out.insert(k) || k == 0 {
                if k != 0 {
                    stack.extend(self.changes[k - 1].deps.iter().copied());
                }
            }
        }
        out
    }
    pub fn cls(&self, k: usize) -> &str {
        &self.changes[k - 1].cls
    }
    /// Invalid whatever the state: forged signature, refused action, or "detached" -- a change
    /// without dependencies that is not the root (nothing ties it to the object).
    pub fn always_invalid(&self, k: usize) -> bool {
        matches!(self.cls(k), "badSig" | "rejectLater") || self.cls(k).starts_with("rf.") || self.changes[k - 1].deps.is_empty()
    }
    /// All sets of changes containing the root and closed under dependencies.
    pub fn down_sets(&self) -> Vec<BTreeSet<usize>> {
        let m = self.m();
        let mut out = Vec::new();
        for mask in 0..(1u32 << m) {
            let s: BTreeSet<usize> = std::iter::once(0).chain((1..=m).filter(|k| mask & (1 << (k - 1)) != 0)).collect();
            if s.iter().all(|k| *k == 0 || self.changes[*k - 1].deps.iter().all(|d| s.contains(d))) {
                out.push(s);
            }
        }
        out
    }
}

/// What properties C05/C06 *state* about the result of evaluating the changes `closure` of `g`,
/// independently of the evaluation order chosen by the implementation:
///  * the history is closed under dependencies, contains the root, and no change that is invalid
///    in every state (forged signature, refused action) nor any dependent of one;
///  * when validity is not state dependent (no `needs` change), it is exactly the rest;
///  * the object shows the surviving changes, each once, in an order compatible with their
///    dependencies, and nothing else: a reply (`needs`) survives only after its target, the title
///    is the one set by the last surviving title-setting change, no label set by a refused change.
pub fn statement_check(kind: Kind, g: &GraphSpec, closure: &BTreeSet<usize>, o: &Observed) -> Option<String> {
    let hist: BTreeSet<usize> = o.hist.iter().filter(|x| **x >= 0).map(|x| *x as usize).collect();
    if o.hist.iter().any(|x| *x < 0) {
        return Some("history contains a change that is not part of the graph".into());
    }
    if !hist.contains(&0) || !hist.is_subset(closure) {
        return Some(format!("history {:?} is not a subset of the loaded changes {:?} containing the root", hist, closure));
    }
    for k in &hist {
        if *k != 0 && !g.changes[*k - 1].deps.iter().all(|d| hist.contains(d)) {
            return Some(format!("history keeps change {k} without all of its dependencies"));
        }
        if *k != 0 && g.always_invalid(*k) {
            return Some(format!("invalid change {k} ({}) is still in the history", g.cls(*k)));
        }
    }
    let state_dependent = closure.iter().any(|k| *k != 0 && matches!(g.cls(*k), "needs" | "soft"));
    if !state_dependent {
        let mut expect = closure.clone();
        for k in closure {
            if *k != 0 && g.always_invalid(*k) {
                expect.remove(k);
                for d in g.descendants(*k) {
                    expect.remove(&d);
                }
            }
        }
        if expect != hist {
            return Some(format!("history is {:?}, expected the loaded changes minus the invalid ones and their dependents: {:?}", hist, expect));
        }
    }
    let tips: BTreeSet<usize> = g.tips_of(&hist).into_iter().collect();
    let otips: BTreeSet<usize> = o.tips.iter().map(|x| *x as usize).collect();
    if tips != otips {
        return Some(format!("history tips {:?} are not the tips {:?} of the history", otips, tips));
    }
    // the timeline: the surviving changes that have an entry, once each, dependencies first.
    // Issue: the thread timeline (changes that touched the thread); patch: one entry per operation.
    let log = o.log();
    if o.timeline.first() != Some(&0) {
        return Some(format!("timeline {:?} does not start with the root", o.timeline));
    }
    let thread_cls = |k: usize| matches!(g.cls(k), "ok" | "guest" | "needs" | "soft");
    let mut survivors = hist.clone();
    survivors.remove(&0);
    let want: BTreeSet<usize> = survivors.iter().copied().filter(|k| kind == Kind::Patch || thread_cls(*k)).collect();
    let logset: BTreeSet<usize> = log.iter().filter(|x| **x >= 0).map(|x| *x as usize).collect();
    if logset != want || log.len() != want.len() {
        return Some(format!("timeline shows entries of changes {:?} but the surviving changes with an entry are {:?}", log, want));
    }
    let pos = |k: usize| log.iter().position(|x| *x == k as i64);
    for k in &want {
        for d in g.closure(&[*k]) {
            if d != 0 && d != *k && want.contains(&d) && pos(d) > pos(*k) {
                return Some(format!("change {k} applied before its dependency {d}: {:?}", log));
            }
        }
        if g.cls(*k) == "needs" {
            let t = g.changes[*k - 1].tgt;
            if !want.contains(&t) || pos(t) > pos(*k) {
                return Some(format!("reply {k} survives without its target {t} applied before it: {:?}", log));
            }
        }
    }
    // comments: those of the surviving thread changes, in timeline order
    let thread_log: Vec<i64> = log.iter().copied().filter(|k| thread_cls(*k as usize)).collect();
    let mut comments: Vec<(i64, String)> = if kind == Kind::Issue { vec![(0, "c0".to_string())] } else { vec![] };
    comments.extend(thread_log.iter().map(|k| (*k, format!("c{k}"))));
    if o.comments != comments {
        return Some(format!("comments are {:?}, expected {:?}", o.comments, comments));
    }
    let lww = thread_log.iter().rev().find(|k| g.cls(**k as usize) == "ok").copied().unwrap_or(0);
    if o.lww() != lww {
        return Some(format!("title is {:?}, expected the one set by change {lww} (timeline {:?})", o.title, log));
    }
    // labels: those of a surviving `label` change that no other surviving `label` change depends on
    let labellers: BTreeSet<usize> = survivors.iter().copied().filter(|k| g.cls(*k) == "label").collect();
    let last: BTreeSet<i64> = if labellers.is_empty() {
        BTreeSet::from([0])
    } else {
        labellers.iter().filter(|k| g.descendants(**k).is_disjoint(&labellers)).map(|k| *k as i64).collect()
    };
    if !last.contains(&o.labels_lww()) {
        return Some(format!("labels are {:?}, expected those of one of the changes {:?}", o.labels, last));
    }
    None
}

/// Exact comparison with the model's prediction (a TLC case): timeline (`log` for an issue, `applied`
/// for a patch), comments, title, labels, history and tips.
pub fn model_diff(kind: Kind, case: &Value, o: &Observed) -> Option<String> {
    let ints = |v: &Value| -> Vec<i64> { v.as_array().map(|a| a.iter().map(|x| x.as_i64().unwrap()).collect()).unwrap_or_default() };
    let timeline = ints(if kind == Kind::Issue { &case["log"] } else { &case["applied"] });
    let (comments, hist, tips) = (ints(&case["comments"]), ints(&case["hist"]), ints(&case["tips"]));
    let lww = case["lww"].as_i64().unwrap_or(-1);
    let labels = case["labels"].as_i64().unwrap_or(-1);
    let ocomments: Vec<i64> = o.comments.iter().map(|c| c.0).filter(|k| *k != 0).collect();
    if o.log() != timeline || ocomments != comments || o.lww() != lww || o.labels_lww() != labels || o.hist != hist || o.tips != tips {
        Some(format!(
            "model: timeline={:?} comments={:?} lww={} labels={} hist={:?} tips={:?}; implementation: timeline={:?} comments={:?} lww={} labels={} hist={:?} tips={:?}",
            timeline, comments, lww, labels, hist, tips, o.log(), ocomments, o.lww(), o.labels_lww(), o.hist, o.tips
        ))
    } else {
        None
    }
}

// ------------------------------------------------------------------------------------------------
// Process-level parallelism (GIT_COMMITTER_DATE is process wide)

/// Split `cases` over `procs` child processes running the current executable with
/// `--mode <child_mode> --cases <shard> --out <shard out>` plus `extra`; concatenates their output
/// records (summary records are summed field-wise).
pub fn run_sharded(cases: &[Value], procs: usize, child_mode: &str, extra: &[String], work: &Path, out: &Path) {
    let procs = procs.max(1).min(cases.len().max(1));
    let exe = std::env::current_exe().expect("current exe");
    let mut children = Vec::new();
    for p in 0..procs {
        let shard = work.join(format!("shard-{p}.ndjson"));
        let sout = work.join(format!("shard-{p}.out.ndjson"));
        let mut w = crate::Out::create(&shard);
        for (i, c) in cases.iter().enumerate() {
            if i % procs == p {
                let mut c = c.clone();
                c["_i"] = json!(i);
                w.emit(&c);
            }
        }
        w.finish();
        let child = std::process::Command::new(&exe)
            .arg("--mode")
            .arg(child_mode)
            .arg("--cases")
            .arg(&shard)
            .arg("--out")
            .arg(&sout)
            .args(extra)
            .current_dir(work)
            .spawn()
            .unwrap_or_else(|e| crate::fatal(&format!("spawn child: {e}")));
        children.push((child, sout));
    }
    let mut o = crate::Out::create(out);
    let mut summary: BTreeMap<String, i64> = BTreeMap::new();
    for (mut child, sout) in children {
        let st = child.wait().expect("wait child");
        if !st.success() {
            crate::fatal(&format!("child engine failed: {st}"));
        }
        for r in crate::read_ndjson(&sout) {
            if r.get("summary").is_some() {
                for (k, v) in r.as_object().unwrap() {
                    if let Some(n) = v.as_i64() {
                        *summary.entry(k.clone()).or_insert(0) += n;
                    }
                }
            } else {
                o.emit(&r);
            }
        }
    }
    let mut s = serde_json::Map::new();
    s.insert("summary".into(), json!(true));
    for (k, v) in summary {
        s.insert(k, json!(v));
    }
    o.emit(&Value::Object(s));
    o.finish();
}

/// The object writes of libgit2 allocate and free a few hundred KB each; with glibc's default trim
/// threshold every one of them grows and shrinks the heap (`brk`), which is very slow on this kind
/// of virtual machine. Keep the memory.
pub fn tune_malloc() {
    unsafe {
        libc::mallopt(libc::M_TRIM_THRESHOLD, 1 << 30);
        libc::mallopt(libc::M_TOP_PAD, 64 << 20);
        libc::mallopt(libc::M_MMAP_THRESHOLD, 1 << 30);
    }
}

/// Called first by child engine processes: die with the parent (no stray processes when the
/// parent is killed by a timeout).
pub fn die_with_parent() {
    unsafe {
        libc::prctl(libc::PR_SET_PDEATHSIG, libc::SIGKILL);
    }
}

/// Small deterministic generator for the engines.
pub struct Rng(pub u64);
impl Rng {
    pub fn next(&mut self) -> u64 {
        // splitmix64
        self.0 = self.0.wrapping_add(0x9E3779B97F4A7C15);
        let mut z = self.0;
        z = (z ^ (z >> 30)).wrapping_mul(0xBF58476D1CE4E5B9);
        z = (z ^ (z >> 27)).wrapping_mul(0x94D049BB133111EB);
        z ^ (z >> 31)
    }
    pub fn below(&mut self, n: usize) -> usize {
        (self.next() % n.max(1) as u64) as usize
    }
    pub fn shuffle<T>(&mut self, v: &mut [T]) {
        for i in (1..v.len()).rev() {
            let j = self.below(i + 1);
            v.swap(i, j);
        }
    }
}

/// A random change graph with `m` changes: each depends on 1..=3 earlier-created changes (or the
/// root), timestamps in 1..=3, classes drawn from `classes` (weights), `needs` targets among the
/// concurrent, earlier-created changes.
pub fn random_graph(rng: &mut Rng, m: usize, classes: &[(&str, usize)], detached_one_in: usize) -> GraphSpec {
    let total: usize = classes.iter().map(|c| c.1).sum();
    let mut g = GraphSpec { changes: Vec::new() };
    for k in 1..=m {
        let mut deps = BTreeSet::new();
        let n = 1 + rng.below(3);
        for _ in 0..n {
            // bias towards recent changes so that chains and merges both occur
            let d = if rng.below(4) == 0 { rng.below(k) } else { k.saturating_sub(1 + rng.below(3.min(k))) };
            deps.insert(d);
        }
        if detached_one_in > 0 && rng.below(detached_one_in) == 0 {
            deps.clear();
        }
        let mut pick = rng.below(total);
        let mut cls = classes[0].0;
        for (c, w) in classes {
            if pick < *w {
                cls = c;
                break;
            }
            pick -= w;
        }
        g.changes.push(ChangeSpec { deps: deps.into_iter().collect(), ts: 1 + rng.below(3) as u64, cls: cls.to_string(), tgt: 0 });
        if cls == "needs" {
            // a concurrent earlier change
            let anc = {
                let mut a = BTreeSet::new();
                let mut st: Vec<usize> = g.changes[k - 1].deps.clone();
                while let Some(x) = st.pop() {
                    if x != 0 && a.insert(x) {
                        st.extend(g.changes[x - 1].deps.iter().copied());
                    }
                }
                a
            };
            let cands: Vec<usize> = (1..k).filter(|j| !anc.contains(j)).collect();
            if cands.is_empty() {
                g.changes[k - 1].cls = "ok".into();
            } else {
                g.changes[k - 1].tgt = cands[rng.below(cands.len())];
            }
        }
    }
    g
}

/// The observable view of an issue as a trace record for spec/TraceCob.tla. Payload strings carry
/// the creation-time labels: title and labels are mapped back through `rank` (identity for
/// ground graphs: pass `&[]`).
pub fn view_json(o: &Observed, rank: &[usize]) -> Value {
    let map = |k: i64| if k > 0 && (k as usize) < rank.len() { rank[k as usize] as i64 } else { k };
    let comments: Vec<i64> = o.comments.iter().map(|c| c.0).filter(|k| *k != 0).collect();
    json!({"log": o.log(), "comments": comments, "lww": map(o.lww()), "labels": map(o.labels_lww()), "hist": o.hist, "tips": o.tips})
}

/// Relabel a graph by `rank` (rank[k] = new label of change k).
pub fn relabel(g: &GraphSpec, rank: &[usize]) -> GraphSpec {
    let m = g.m();
    let mut changes: Vec<Option<ChangeSpec>> = vec![None; m];
    let r = |k: usize| if k == 0 { 0 } else { rank[k] };
    for k in 1..=m {
        let c = &g.changes[k - 1];
        let mut deps: Vec<usize> = c.deps.iter().map(|d| r(*d)).collect();
        deps.sort();
        changes[rank[k] - 1] = Some(ChangeSpec { deps, ts: c.ts, cls: c.cls.clone(), tgt: r(c.tgt) });
    }
    GraphSpec { changes: changes.into_iter().map(|c| c.unwrap()).collect() }
}

impl GraphSpec {
    pub fn to_json(&self) -> Value {
        json!({
            "m": self.m(),
            "deps": self.changes.iter().map(|c| c.deps.clone()).collect::<Vec<_>>(),
            "ts": self.changes.iter().map(|c| c.ts).collect::<Vec<_>>(),
            "cls": self.changes.iter().map(|c| c.cls.clone()).collect::<Vec<_>>(),
            "tgt": self.changes.iter().map(|c| c.tgt).collect::<Vec<_>>(),
        })
    }
}
