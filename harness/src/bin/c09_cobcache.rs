//! C09 — the COB cache answers exactly like direct evaluation.
//! Binds spec/CobCache.tla to `radicle::cob::{patch,issue}::Cache` over a real `Storage` and a real
//! (in-memory sqlite) `cob::cache::Store`, and to `radicle_node::worker::fetch::cache_cobs`.
//!
//! A behaviour is a list of steps (create / local operation / remove / creation, operation or
//! deletion by a peer that is then fetched / write_all).  "me" is a node with TWO repositories in
//! its storage and ONE cache database for both (as `rad` and the node have); "peer" is a second node
//! with clones of both.  Every query is asked of both repositories, with the identifiers of both as
//! arguments, so a cached query that forgets its `repo = ?` condition shows up.  Local steps go through the caching handles
//! (`Cache::create`, `PatchMut`, `IssueMut`, `Cache::remove`, `Cache::write_all`); peer steps are
//! made in the peer's storage, fetched into mine, and the resulting `RefUpdate`s are given to the
//! real `cache_cobs` (hook `worker::fetch::verif_cache_cobs`).
//! After EVERY step every query of the `Patches` / `Issues` traits is issued on
//! `Cache<_, StoreWriter>` and on `Cache<_, NoCache>`:
//!     get(id) and find_by_revision(id) for every identifier known so far (objects, revisions,
//!     comments, reviews) and an unknown one; list; list_by_status(every status); counts.
//! The two answers must be equal in full (serialised objects; errors are answers; lists compared
//! as sets), and both are compared with the model's answers where the step carries them.
//!
//! replay: behaviours emitted by TLC (MCCobCache).   record: seeded random longer behaviours,
//! logged as ndjson (steps + the real answers in model terms) for TraceCobCache.tla.
use std::collections::{BTreeMap, BTreeSet};
use std::ops::ControlFlow;
use std::path::Path;

use hwv::*;
use radicle::cob::cache::StoreWriter;
use radicle::cob::issue::cache::Issues;
use radicle::cob::issue::{self, CloseReason};
use radicle::cob::patch::cache::Patches;
use radicle::cob::patch::{self, Lifecycle, MergeTarget, Status, Verdict};
use amplify::Wrapper as _;
use radicle::cob::{migrate, ObjectId};
use radicle::crypto::test::signer::MockSigner;
use radicle::git::Oid;
use radicle::node::device::Device;
use radicle::storage::git::Repository;
use radicle::storage::{ReadStorage as _, RefUpdate};
use radicle::test::setup::Node;

/// Identifier tables: model id <-> real id, and where comments / reviews live.
#[derive(Default, Clone)]
struct Ids {
    real: BTreeMap<u64, Oid>,
    model: BTreeMap<Oid, u64>,
    is_patch: BTreeMap<u64, bool>,
    /// comment -> (revision (0 for issues), review if it is a review comment)
    comment_at: BTreeMap<u64, (u64, Option<u64>)>,
    review_rev: BTreeMap<u64, u64>,
    /// object -> repository (0-based)
    repo_of: BTreeMap<u64, usize>,
}

impl Ids {
    fn real(&self, m: u64) -> Oid {
        *self.real.get(&m).unwrap_or_else(|| fatal(&format!("unknown model id {m}")))
    }
    fn put(&mut self, m: u64, r: Oid) {
        self.real.insert(m, r);
        self.model.insert(r, m);
    }
    fn m(&self, r: &str) -> i64 {
        r.parse::<Oid>().ok().and_then(|o| self.model.get(&o).copied()).map(|x| x as i64).unwrap_or(-1)
    }
}

/// Number of repositories that share the node's storage and its one cache database.
const NREPOS: usize = 2;

struct World {
    me: Node,
    peer: Node,
    /// my repositories (one storage) and the peer's clones of them
    repos: Vec<Repository>,
    peer_repos: Vec<Repository>,
    /// the repository the current step is about
    cur: usize,
    /// ONE cache database for all repositories, as `rad` and the node have
    db: StoreWriter,
    nfiles: usize,
    /// I changed my storage since the peer last fetched from me (per repository)
    peer_stale: Vec<std::cell::Cell<bool>>,
    /// fetches that carried an unloadable bystander object
    bystanders: std::cell::Cell<u64>,
}

type Signer = Device<MockSigner>;

impl World {
    fn new(dir: &Path) -> Self {
        let t0 = std::time::Instant::now();
        let w = Self::new_(dir);
        if std::env::var("VERIF_DEBUG").is_ok() {
            eprintln!("world: {:?}", t0.elapsed());
        }
        w
    }
    fn new_(dir: &Path) -> Self {
        let t1 = tempfile::tempdir_in(dir).expect("tempdir");
        let t2 = tempfile::tempdir_in(dir).expect("tempdir");
        let me = Node::new(t1, MockSigner::from_seed([0xa1; 32]), "me");
        let mut peer = Node::new(t2, MockSigner::from_seed([0xb2; 32]), "peer");
        radicle::storage::git::transport::local::register(me.storage.clone());
        let mut repos = Vec::new();
        let mut peer_repos = Vec::new();
        for k in 0..NREPOS {
            // same initial commits, different project name: a different identity document, hence a
            // different repository id (and different COB ids for the same operations)
            let (working, _) = radicle::test::fixtures::repository(me.root.join(format!("working{k}")));
            let (rid, _, _) = radicle::rad::init(
                &working,
                format!("project{k}").as_str().try_into().expect("name"),
                "verification",
                radicle_git_ext::ref_format::refname!("master"),
                radicle::identity::Visibility::default(),
                &me.signer,
                &me.storage,
            )
            .expect("rad init");
            peer.clone(rid, &me);
            repos.push(me.storage.repository(rid).expect("repository"));
            peer_repos.push(peer.storage.repository(rid).expect("peer repository"));
        }
        let db = StoreWriter::memory().expect("cache db").with_migrations(migrate::ignore).expect("migrations");
        World {
            me,
            peer,
            repos,
            peer_repos,
            cur: 0,
            db,
            nfiles: 0,
            peer_stale: (0..NREPOS).map(|_| std::cell::Cell::new(true)).collect(),
            bystanders: std::cell::Cell::new(0),
        }
    }

    fn repo(&self) -> &Repository {
        &self.repos[self.cur]
    }
    fn peer_repo(&self) -> &Repository {
        &self.peer_repos[self.cur]
    }

    /// A new commit on top of the master branch, written straight into the storage of the actor
    /// (a patch revision needs a base and a head commit; the change commit of the patch keeps them
    /// reachable, so they travel with the patch).
    fn new_commit(&mut self, by_me: bool) -> (Oid, Oid) {
        self.nfiles += 1;
        let raw = if by_me { &self.repo().backend } else { &self.peer_repo().backend };
        let master = format!("refs/namespaces/{}/refs/heads/master", self.me.signer.public_key());
        let base = raw.refname_to_id(&master).expect("master");
        let parent = raw.find_commit(base).expect("commit");
        let blob = raw.blob(format!("content {} {:?}", self.nfiles, self.me.tmp.path()).as_bytes()).expect("blob");
        let mut tb = raw.treebuilder(Some(&parent.tree().expect("tree"))).expect("treebuilder");
        tb.insert(format!("file{}", self.nfiles), blob, 0o100644).expect("insert");
        let tree = raw.find_tree(tb.write().expect("tree")).expect("tree");
        let sig = git2::Signature::new("verif", "verif@localhost", &git2::Time::new(1_600_000_000 + self.nfiles as i64, 0)).unwrap();
        let oid = raw.commit(None, &sig, &sig, "revision", &tree, &[&parent]).expect("commit");
        (base.into(), oid.into())
    }

    /// Forget every collaborative object (references in both storages, cache database) so that the
    /// next behaviour starts from an empty project without paying for a new pair of nodes.
    fn reset(&mut self) {
        use radicle::storage::SignRepository as _;
        let all: Vec<(&Repository, &Signer)> = self
            .repos
            .iter()
            .map(|r| (r, &self.me.signer))
            .chain(self.peer_repos.iter().map(|r| (r, &self.peer.signer)))
            .collect();
        for (repo, signer) in all {
            let raw = &repo.backend;
            let names: Vec<String> = raw
                .references_glob("refs/namespaces/*/refs/cobs/*")
                .expect("references")
                .filter_map(|r| r.ok().and_then(|r| r.name().map(|n| n.to_string())))
                .filter(|n| !n.contains("xyz.radicle.id"))
                .collect();
            for n in names {
                raw.find_reference(&n).and_then(|mut r| r.delete()).expect("delete reference");
            }
            repo.sign_refs(signer).expect("sign refs");
        }
        // both sides see each other's (now empty) signed references again
        for k in 0..NREPOS {
            self.cur = k;
            self.peer_stale[k].set(true);
            self.sync_peer().expect("sync");
            Self::copy_namespace(self.repo(), self.peer_repo(), self.peer.signer.public_key()).expect("sync");
        }
        self.cur = 0;
        self.db = StoreWriter::memory().expect("cache db").with_migrations(migrate::ignore).expect("migrations");
    }

    /// What a fetch does to the references of one namespace: copy them (and the objects) from the
    /// other storage, pruning the ones that are gone, and report the changes. (`radicle::test::fetch`
    /// does the same through the mock transport, followed by head computations that take ~1 s.)
    fn copy_namespace(dst: &Repository, src: &Repository, ns: &radicle::crypto::PublicKey) -> Result<Vec<RefUpdate>, String> {
        let mut updates = Vec::new();
        {
            let mut callbacks = git2::RemoteCallbacks::new();
            callbacks.update_tips(|name, old, new| {
                if let Ok(name) = radicle::git::RefString::try_from(name) {
                    if name.to_namespaced().is_some() {
                        updates.push(RefUpdate::from(name, old, new));
                    }
                }
                true
            });
            let mut opts = git2::FetchOptions::default();
            opts.prune(git2::FetchPrune::On);
            opts.remote_callbacks(callbacks);
            let url = format!("file://{}", src.backend.path().display());
            let mut remote = dst.backend.remote_anonymous(&url).map_err(|e| format!("remote: {e}"))?;
            let refspec = format!("+refs/namespaces/{ns}/refs/*:refs/namespaces/{ns}/refs/*");
            remote.fetch(&[refspec], Some(&mut opts), None).map_err(|e| format!("fetch: {e}"))?;
        }
        Ok(updates)
    }

    fn sync_peer(&self) -> Result<(), String> {
        if !self.peer_stale[self.cur].get() {
            return Ok(());
        }
        self.peer_stale[self.cur].set(false);
        Self::copy_namespace(self.peer_repo(), self.repo(), self.me.signer.public_key()).map(|_| ())
    }

    /// Fetch the peer's namespace into my storage (pruning) and hand the reference updates to the
    /// worker's `cache_cobs`.
    fn fetch_from_peer(&mut self) -> Result<(), String> {
        let mut updates = Self::copy_namespace(self.repo(), self.peer_repo(), self.peer.signer.public_key())?;
        let rid = self.repo().id;
        // A bystander that cannot be loaded: every fetch also "delivers", ahead of the real updates, an object of
        // type issue whose reference is named after an id that is not the root of the history it points to (the
        // worker logs such objects and carries on). The reference exists only while cache_cobs runs, so that no
        // query ever sees it: the property is about the OTHER objects of the fetch.
        let ns = *self.peer.signer.public_key();
        let bystander = {
            let raw = &self.repos[self.cur].backend;
            let glob = format!("refs/namespaces/{ns}/refs/cobs/xyz.radicle.issue/*");
            let tip = raw.references_glob(&glob).ok().and_then(|mut it| it.next()).and_then(|r| r.ok()).and_then(|r| r.target());
            let fake = raw.refname_to_id(&format!("refs/namespaces/{ns}/refs/rad/id")).ok().or_else(|| raw.head().ok().and_then(|h| h.target()));
            match (tip, fake) {
                (Some(tip), Some(fake)) if tip != fake => {
                    let name = format!("refs/namespaces/{ns}/refs/cobs/xyz.radicle.issue/{fake}");
                    raw.reference(&name, tip, true, "verif bystander").ok().map(|_| (name, tip))
                }
                _ => None,
            }
        };
        if let Some((name, tip)) = &bystander {
            if let Ok(n) = radicle::git::RefString::try_from(name.as_str()) {
                updates.insert(0, RefUpdate::from(n, git2::Oid::zero(), *tip));
                self.bystanders.set(self.bystanders.get() + 1);
            }
        }
        let db = &mut self.db;
        let repo: &Repository = &self.repos[self.cur];
        let res = guard(|| radicle_node::worker::fetch::verif_cache_cobs(&rid, &updates, repo, db));
        if let Some((name, _)) = &bystander {
            if let Ok(mut r) = self.repos[self.cur].backend.find_reference(name) {
                r.delete().ok();
            }
        }
        match res.map_err(|p| format!("panic in cache_cobs: {p}"))? {
            Ok(()) => Ok(()),
            // with the bystander in the fetch an error of the worker's caching step is what the real node logs and
            // survives (the references are applied already): the queries below judge what it left in the cache
            Err(_) if bystander.is_some() => Ok(()),
            Err(e) => Err(format!("cache_cobs: {e}")),
        }
    }
}

fn issue_state(st: &str) -> issue::State {
    match st {
        "open" => issue::State::Open,
        "closed:solved" => issue::State::Closed { reason: CloseReason::Solved },
        "closed:other" => issue::State::Closed { reason: CloseReason::Other },
        s => fatal(&format!("unknown issue status {s}")),
    }
}

/// Apply a model operation through a `PatchMut`; returns the id of the entry it creates.
fn patch_op<R, C>(
    ids: &Ids,
    p: &mut patch::PatchMut<'_, '_, R, C>,
    o: &Value,
    signer: &Signer,
    base_oid: (Oid, Oid),
) -> Result<Oid, String>
where
    R: radicle::storage::WriteRepository + radicle::cob::Store<Namespace = radicle::prelude::NodeId>,
    C: radicle::cob::cache::Update<patch::Patch>,
{
    let k = o["k"].as_str().unwrap();
    let arg = o["arg"].as_u64().unwrap_or(0);
    let id = o["id"].as_u64().unwrap();
    let r = match k {
        "revision" => p.update(format!("revision {id}"), base_oid.0, base_oid.1, signer).map(|r| r.into_inner()),
        "redactRev" => p.redact(ids.real(arg).into(), signer),
        "comment" => p.comment(ids.real(arg).into(), format!("comment {id}"), None, None, [], signer),
        "redactComment" => {
            let (rev, review) = ids.comment_at[&arg];
            match review {
                None => p.comment_redact(ids.real(rev).into(), ids.real(arg), signer),
                Some(w) => p.redact_review_comment(ids.real(w).into(), ids.real(arg), signer),
            }
        }
        "review" => p
            .review(ids.real(arg).into(), Some(Verdict::Accept), Some(format!("review {id}")), vec![], signer)
            .map(|r| *r),
        "reviewComment" => p.review_comment(ids.real(arg).into(), format!("review comment {id}"), None, None, [], signer),
        "status" => match o["st"].as_str().unwrap() {
            "open" => p.lifecycle(Lifecycle::Open, signer),
            "draft" => p.lifecycle(Lifecycle::Draft, signer),
            "archived" => p.lifecycle(Lifecycle::Archived, signer),
            "merged" => {
                // the merge commit has to be on the merging delegate's default branch: use its head
                let rev = p.latest().0;
                p.merge(rev, base_oid.0, signer).map(|m| m.entry)
            }
            s => fatal(&format!("unknown patch status {s}")),
        },
        _ => fatal(&format!("unknown patch operation {k}")),
    };
    r.map_err(|e| format!("{k}: {e}"))
}

fn issue_op<R, C>(i: &mut issue::IssueMut<'_, '_, R, C>, o: &Value, signer: &Signer) -> Result<Oid, String>
where
    R: radicle::storage::WriteRepository + radicle::cob::Store<Namespace = radicle::prelude::NodeId>,
    C: radicle::cob::cache::Update<issue::Issue>,
{
    let k = o["k"].as_str().unwrap();
    let id = o["id"].as_u64().unwrap();
    match k {
        "comment" => {
            let root = *i.thread().root().ok_or("issue without root comment")?.0;
            i.comment(format!("comment {id}"), root, [], signer)
        }
        "status" => i.lifecycle(issue_state(o["st"].as_str().unwrap()), signer),
        _ => fatal(&format!("unknown issue operation {k}")),
    }
    .map_err(|e| format!("{k}: {e}"))
}

/// Execute one step of a behaviour.
fn step(w: &mut World, ids: &mut Ids, s: &Value) -> Result<(), String> {
    let a = s["a"].as_str().unwrap();
    let o = &s["op"];
    let obj = s["obj"].as_u64().unwrap_or(0);
    // the repository the step is about: named by creations and write_all, that of the object otherwise
    w.cur = match a {
        "create" | "fetchedCreate" | "writeAll" => (o["repo"].as_u64().unwrap_or(1).max(1) - 1) as usize,
        _ => *ids.repo_of.get(&obj).unwrap_or_else(|| fatal(&format!("unknown object {obj}"))),
    };
    if w.cur >= NREPOS {
        fatal("repository index out of range");
    }
    if matches!(a, "create" | "local" | "remove") || s["op"]["k"] == "revision" || s["op"]["k"] == "create" {
        w.peer_stale[w.cur].set(true);
    }
    let by_me = o["by"] == "me";
    match a {
        "create" | "fetchedCreate" => {
            let is_patch = o["kind"] == "patch";
            let id = o["id"].as_u64().unwrap();
            let draft = o["st"] == "draft";
            let entry: Oid = if a == "create" {
                if is_patch {
                    let (base, oid) = w.new_commit(true);
                    let mut patches = patch::Cache::open(patch::Patches::open(w.repo()).map_err(|e| e.to_string())?, w.db.clone());
                    let p = if draft {
                        patches.draft(format!("patch {id}"), "d", MergeTarget::Delegates, base, oid, &[], &w.me.signer)
                    } else {
                        patches.create(format!("patch {id}"), "d", MergeTarget::Delegates, base, oid, &[], &w.me.signer)
                    }
                    .map_err(|e| format!("create patch: {e}"))?;
                    *p.id
                } else {
                    let mut issues = issue::Cache::open(issue::Issues::open(w.repo()).map_err(|e| e.to_string())?, w.db.clone());
                    let i = issues
                        .create(format!("issue {id}"), "d", &[], &[], [], &w.me.signer)
                        .map_err(|e| format!("create issue: {e}"))?;
                    **i.id()
                }
            } else {
                w.sync_peer()?;
                let (base, oid) = w.new_commit(false);
                if is_patch {
                    let mut patches = patch::Cache::no_cache(w.peer_repo()).map_err(|e| e.to_string())?;
                    let p = if draft {
                        patches.draft(format!("patch {id}"), "d", MergeTarget::Delegates, base, oid, &[], &w.peer.signer)
                    } else {
                        patches.create(format!("patch {id}"), "d", MergeTarget::Delegates, base, oid, &[], &w.peer.signer)
                    }
                    .map_err(|e| format!("peer create patch: {e}"))?;
                    *p.id
                } else {
                    let mut issues = issue::Cache::no_cache(w.peer_repo()).map_err(|e| e.to_string())?;
                    let i = issues
                        .create(format!("issue {id}"), "d", &[], &[], [], &w.peer.signer)
                        .map_err(|e| format!("peer create issue: {e}"))?;
                    **i.id()
                }
            };
            ids.put(id, entry);
            ids.is_patch.insert(id, is_patch);
            ids.repo_of.insert(id, w.cur);
            if a == "fetchedCreate" {
                w.fetch_from_peer()?;
            }
            Ok(())
        }
        "local" | "fetched" => {
            let real_obj = ObjectId::from(ids.real(obj));
            let is_patch = ids.is_patch[&obj];
            if a == "fetched" {
                w.sync_peer()?;
            }
            let base_oid = if o["k"] == "revision" {
                w.new_commit(by_me)
            } else if o["st"] == "merged" {
                let master = format!("refs/namespaces/{}/refs/heads/master", w.me.signer.public_key());
                let head: Oid = w.repo().backend.refname_to_id(&master).map_err(|e| e.to_string())?.into();
                (head, head)
            } else {
                (Oid::from(git2::Oid::zero()), Oid::from(git2::Oid::zero()))
            };
            let entry: Oid = match (is_patch, by_me) {
                (true, true) => {
                    let mut patches = patch::Cache::open(patch::Patches::open(w.repo()).map_err(|e| e.to_string())?, w.db.clone());
                    let mut p = patches.get_mut(&real_obj).map_err(|e| format!("get_mut (cache): {e}"))?;
                    patch_op(ids, &mut p, o, &w.me.signer, base_oid)?
                }
                (true, false) => {
                    let mut patches = patch::Cache::no_cache(w.peer_repo()).map_err(|e| e.to_string())?;
                    let mut p = patches.get_mut(&real_obj).map_err(|e| format!("peer get_mut: {e}"))?;
                    patch_op(ids, &mut p, o, &w.peer.signer, base_oid)?
                }
                (false, true) => {
                    let mut issues = issue::Cache::open(issue::Issues::open(w.repo()).map_err(|e| e.to_string())?, w.db.clone());
                    let mut i = issues.get_mut(&real_obj).map_err(|e| format!("get_mut (cache): {e}"))?;
                    issue_op(&mut i, o, &w.me.signer)?
                }
                (false, false) => {
                    let mut issues = issue::Cache::no_cache(w.peer_repo()).map_err(|e| e.to_string())?;
                    let mut i = issues.get_mut(&real_obj).map_err(|e| format!("peer get_mut: {e}"))?;
                    issue_op(&mut i, o, &w.peer.signer)?
                }
            };
            let id = o["id"].as_u64().unwrap();
            let arg = o["arg"].as_u64().unwrap_or(0);
            ids.put(id, entry);
            match o["k"].as_str().unwrap() {
                "comment" => {
                    ids.comment_at.insert(id, (arg, None));
                }
                "reviewComment" => {
                    let rev = ids.review_rev.get(&arg).copied().unwrap_or(0);
                    ids.comment_at.insert(id, (rev, Some(arg)));
                }
                "review" => {
                    ids.review_rev.insert(id, arg);
                }
                _ => {}
            }
            if a == "fetched" {
                w.fetch_from_peer()?;
            }
            Ok(())
        }
        "remove" => {
            let real_obj = ObjectId::from(ids.real(obj));
            if ids.is_patch[&obj] {
                let mut patches = patch::Cache::open(patch::Patches::open(w.repo()).map_err(|e| e.to_string())?, w.db.clone());
                patches.remove(&real_obj, &w.me.signer).map_err(|e| format!("remove: {e}"))
            } else {
                let mut issues = issue::Cache::open(issue::Issues::open(w.repo()).map_err(|e| e.to_string())?, w.db.clone());
                issues.remove(&real_obj, &w.me.signer).map_err(|e| format!("remove: {e}"))
            }
        }
        "fetchedDelete" => {
            let real_obj = ObjectId::from(ids.real(obj));
            w.sync_peer()?;
            if ids.is_patch[&obj] {
                patch::Patches::open(w.peer_repo())
                    .map_err(|e| e.to_string())?
                    .remove(&real_obj, &w.peer.signer)
                    .map_err(|e| format!("peer remove: {e}"))?;
            } else {
                issue::Issues::open(w.peer_repo())
                    .map_err(|e| e.to_string())?
                    .remove::<radicle::cob::cache::NoCache, _>(&real_obj, &w.peer.signer)
                    .map_err(|e| format!("peer remove: {e}"))?;
            }
            w.fetch_from_peer()
        }
        "writeAll" => {
            if o["kind"] == "patch" {
                let mut patches = patch::Cache::open(patch::Patches::open(w.repo()).map_err(|e| e.to_string())?, w.db.clone());
                patches.write_all(|_, _| ControlFlow::Continue(())).map_err(|e| format!("write_all: {e}"))
            } else {
                let mut issues = issue::Cache::open(issue::Issues::open(w.repo()).map_err(|e| e.to_string())?, w.db.clone());
                issues.write_all(|_, _| ControlFlow::Continue(())).map_err(|e| format!("write_all: {e}"))
            }
        }
        _ => fatal(&format!("unknown step {a}")),
    }
}

// ---------------------------------------------------------------------------------------------
// Queries

fn res<T: serde::Serialize, E: std::fmt::Display>(r: Result<Option<T>, E>) -> Value {
    match r {
        Ok(Some(v)) => serde_json::to_value(&v).unwrap_or_else(|e| json!({"error": format!("serialize: {e}")})),
        Ok(None) => Value::Null,
        Err(e) => json!({"error": e.to_string().chars().take(160).collect::<String>()}),
    }
}

fn list_res<T: serde::Serialize, E1: std::fmt::Display, E2: std::fmt::Display>(
    r: Result<impl Iterator<Item = Result<(ObjectId, T), E2>>, E1>,
) -> Value {
    match r {
        Err(e) => json!({"error": e.to_string()}),
        Ok(it) => {
            let mut items: Vec<(String, Value)> = Vec::new();
            for x in it {
                match x {
                    Ok((id, v)) => items.push((id.to_string(), serde_json::to_value(&v).unwrap())),
                    Err(e) => items.push(("~".to_string(), json!({"error": e.to_string()}))),
                }
            }
            items.sort_by(|a, b| a.0.cmp(&b.0));
            json!(items)
        }
    }
}

const UNKNOWN: &str = "ffffffffffffffffffffffffffffffffffffffff";

/// All queries on a `Patches` implementation.
fn patch_answers<P: Patches>(p: &P, probe: &[Oid]) -> Value {
    let mut get = serde_json::Map::new();
    let mut find = serde_json::Map::new();
    for o in probe {
        get.insert(o.to_string(), guard(|| res(p.get(&ObjectId::from(*o)))).unwrap_or_else(|m| json!({"error": format!("panic: {m}")})));
        let f = guard(|| {
            res(p.find_by_revision(&patch::RevisionId::from(*o)).map(|r| {
                r.map(|b| json!({"id": b.id.to_string(), "patch": b.patch, "revision_id": b.revision_id.to_string(), "revision": b.revision}))
            }))
        })
        .unwrap_or_else(|m| json!({"error": format!("panic: {m}")}));
        find.insert(o.to_string(), f);
    }
    let mut by_status = serde_json::Map::new();
    for (name, s) in [("draft", Status::Draft), ("open", Status::Open), ("archived", Status::Archived), ("merged", Status::Merged)] {
        by_status.insert(name.to_string(), list_res(p.list_by_status(&s)));
    }
    let counts = match p.counts() {
        Ok(c) => json!({"draft": c.draft, "open": c.open, "archived": c.archived, "merged": c.merged}),
        Err(e) => json!({"error": e.to_string()}),
    };
    json!({"get": get, "find": find, "list": list_res(p.list()), "status": by_status, "counts": counts})
}

fn issue_answers<I: Issues>(p: &I, probe: &[Oid]) -> Value {
    let mut get = serde_json::Map::new();
    for o in probe {
        get.insert(o.to_string(), guard(|| res(p.get(&ObjectId::from(*o)))).unwrap_or_else(|m| json!({"error": format!("panic: {m}")})));
    }
    let mut by_status = serde_json::Map::new();
    for name in ["open", "closed:solved", "closed:other"] {
        by_status.insert(name.to_string(), list_res(p.list_by_status(&issue_state(name))));
    }
    let counts = match p.counts() {
        Ok(c) => json!({"open": c.open, "closed": c.closed}),
        Err(e) => json!({"error": e.to_string()}),
    };
    json!({"get": get, "list": list_res(p.list()), "status": by_status, "counts": counts})
}

/// (answers through the cache, answers by direct evaluation), one entry per repository. Every
/// identifier known so far -- of whichever repository -- is used as an argument in every repository.
fn all_answers(w: &World, ids: &Ids) -> Result<(Value, Value), String> {
    let mut probe: Vec<Oid> = ids.real.values().copied().collect();
    probe.push(UNKNOWN.parse().unwrap());
    let (mut cache, mut direct) = (Vec::new(), Vec::new());
    for repo in &w.repos {
        let pc = patch::Cache::open(patch::Patches::open(repo).map_err(|e| e.to_string())?, w.db.clone());
        let pd = patch::Cache::no_cache(repo).map_err(|e| e.to_string())?;
        let ic = issue::Cache::open(issue::Issues::open(repo).map_err(|e| e.to_string())?, w.db.clone());
        let id = issue::Cache::no_cache(repo).map_err(|e| e.to_string())?;
        cache.push(json!({"patch": patch_answers(&pc, &probe), "issue": issue_answers(&ic, &probe)}));
        direct.push(json!({"patch": patch_answers(&pd, &probe), "issue": issue_answers(&id, &probe)}));
    }
    Ok((json!(cache), json!(direct)))
}

/// Errors carry implementation-specific text: for the comparison of the two stores only the fact
/// of an error counts.
fn normalise(v: &Value) -> Value {
    match v {
        Value::Object(m) if m.contains_key("error") && m.len() == 1 => json!({"error": true}),
        Value::Object(m) => Value::Object(m.iter().map(|(k, x)| (k.clone(), normalise(x))).collect()),
        Value::Array(a) => Value::Array(a.iter().map(normalise).collect()),
        _ => v.clone(),
    }
}

/// Differences between two answer trees (paths of the first few differing leaves).
fn diff(a: &Value, b: &Value, path: &str, out: &mut Vec<String>) {
    if out.len() >= 6 || a == b {
        return;
    }
    match (a, b) {
        (Value::Object(x), Value::Object(y)) => {
            let keys: BTreeSet<&String> = x.keys().chain(y.keys()).collect();
            for k in keys {
                diff(x.get(k).unwrap_or(&Value::Null), y.get(k).unwrap_or(&Value::Null), &format!("{path}.{k}"), out);
            }
        }
        (Value::Array(x), Value::Array(y)) if x.len() == y.len() => {
            for (i, (p, q)) in x.iter().zip(y.iter()).enumerate() {
                diff(p, q, &format!("{path}[{i}]"), out);
            }
        }
        _ => {
            let short = |v: &Value| {
                let s = v.to_string();
                if s.len() > 90 {
                    format!("{}…", &s[..90])
                } else {
                    s
                }
            };
            out.push(format!("{path}: cache {} direct {}", short(a), short(b)));
        }
    }
}

// ---------------------------------------------------------------------------------------------
// Projection of real answers to the terms of the model

fn who(w: &World, did_or_key: &str) -> String {
    let me = w.me.signer.public_key().to_string();
    let peer = w.peer.signer.public_key().to_string();
    if did_or_key.ends_with(&me) {
        "me".into()
    } else if did_or_key.ends_with(&peer) {
        "peer".into()
    } else {
        "?".into()
    }
}

fn project_object(w: &World, ids: &Ids, kind: &str, v: &Value) -> Value {
    if v.is_null() {
        return json!({"kind": "none"});
    }
    if v.get("error").is_some() && v.as_object().map(|m| m.len() == 1).unwrap_or(false) {
        return json!({"kind": "error"});
    }
    let status = {
        let s = v["state"]["status"].as_str().unwrap_or("?");
        if s == "closed" {
            format!("closed:{}", v["state"]["reason"].as_str().unwrap_or("?"))
        } else {
            s.to_string()
        }
    };
    let author = if kind == "patch" {
        who(w, v["author"]["id"].as_str().unwrap_or(""))
    } else {
        // an issue's author is the author of the root comment of its thread
        v["thread"]["comments"]
            .as_object()
            .and_then(|cs| cs.iter().find(|(cid, _)| ids.is_patch.contains_key(&(ids.m(cid) as u64))))
            .map(|(_, c)| who(w, c["author"].as_str().unwrap_or("")))
            .unwrap_or_else(|| "?".into())
    };
    let mut revs = serde_json::Map::new();
    let mut comments = serde_json::Map::new();
    let mut reviews = serde_json::Map::new();
    let thread = |t: &Value, rev: i64, comments: &mut serde_json::Map<String, Value>| {
        if let Some(cs) = t["comments"].as_object() {
            for (cid, c) in cs {
                comments.insert(ids.m(cid).to_string(), json!({"rev": rev, "state": if c.is_null() { "redacted" } else { "live" }}));
            }
        }
    };
    if kind == "patch" {
        if let Some(rs) = v["revisions"].as_object() {
            for (rid, r) in rs {
                let m = ids.m(rid);
                revs.insert(m.to_string(), json!(if r.is_null() { "redacted" } else { "live" }));
                if r.is_null() {
                    continue;
                }
                thread(&r["discussion"], m, &mut comments);
                if let Some(rv) = r["reviews"].as_object() {
                    for (_, review) in rv {
                        let wid = ids.m(review["id"].as_str().unwrap_or(""));
                        reviews.insert(wid.to_string(), json!({"rev": m, "by": who(w, review["author"]["id"].as_str().unwrap_or(""))}));
                        thread(&review["comments"], m, &mut comments);
                    }
                }
            }
        }
    } else {
        // issue: the first comment is the description, not a comment of the model
        if let Some(cs) = v["thread"]["comments"].as_object() {
            for (cid, c) in cs {
                let m = ids.m(cid);
                if ids.is_patch.contains_key(&(m as u64)) {
                    continue;
                }
                comments.insert(m.to_string(), json!({"rev": 0, "state": if c.is_null() { "redacted" } else { "live" }}));
            }
        }
    }
    json!({"kind": kind, "status": status, "author": author, "revs": revs, "comments": comments, "reviews": reviews})
}

fn ids_of_list(ids: &Ids, l: &Value) -> Value {
    match l.as_array() {
        None => json!("error"),
        Some(a) => {
            let mut v: Vec<i64> = a.iter().map(|x| ids.m(x[0].as_str().unwrap_or(""))).collect();
            v.sort();
            json!(v)
        }
    }
}

/// Real answers of one store in the shape of `Answers` of CobCache.tla (normal form): one record
/// per repository.
fn project(w: &World, ids: &Ids, ans: &Value, n: u64) -> Value {
    json!(ans.as_array().map(|a| a.iter().map(|x| project_repo(w, ids, x, n)).collect::<Vec<_>>()).unwrap_or_default())
}

fn project_repo(w: &World, ids: &Ids, ans: &Value, n: u64) -> Value {
    let mut get = Vec::new();
    let mut find = Vec::new();
    let find_one = |f: &Value| -> Value {
        if f.is_null() {
            json!({"r": "none", "patch": 0})
        } else if f.get("error").is_some() && f.as_object().map(|m| m.len() == 1).unwrap_or(false) {
            json!({"r": "error", "patch": 0})
        } else {
            json!({"r": "found", "patch": ids.m(f["id"].as_str().unwrap_or(""))})
        }
    };
    for i in 1..=n {
        let key = ids.real.get(&i).map(|o| o.to_string()).unwrap_or_default();
        let pg = &ans["patch"]["get"][&key];
        let ig = &ans["issue"]["get"][&key];
        let o = if !pg.is_null() {
            project_object(w, ids, "patch", pg)
        } else if !ig.is_null() {
            project_object(w, ids, "issue", ig)
        } else {
            json!({"kind": "none"})
        };
        get.push(o);
        find.push(find_one(&ans["patch"]["find"][&key]));
    }
    let st = |k: &str, names: &[&str]| -> Value {
        let mut m = serde_json::Map::new();
        for s in names {
            m.insert(s.to_string(), ids_of_list(ids, &ans[k]["status"][*s]));
        }
        Value::Object(m)
    };
    json!({
        "get": get,
        "find": find,
        "findUnknown": find_one(&ans["patch"]["find"][UNKNOWN]),
        "list": {"patch": ids_of_list(ids, &ans["patch"]["list"]), "issue": ids_of_list(ids, &ans["issue"]["list"])},
        "status": {"patch": st("patch", &["draft", "open", "archived", "merged"]), "issue": st("issue", &["open", "closed:solved", "closed:other"])},
        "counts": {"patch": ans["patch"]["counts"], "issue": ans["issue"]["counts"]},
    })
}

/// TLC prints a function whose domain is 1..n as an array and any other as an object.
fn as_map(v: &Value) -> BTreeMap<String, Value> {
    match v {
        Value::Array(a) => a.iter().enumerate().map(|(i, x)| ((i + 1).to_string(), x.clone())).collect(),
        Value::Object(m) => m.iter().map(|(k, x)| (k.clone(), x.clone())).collect(),
        _ => BTreeMap::new(),
    }
}

/// Model answers (as printed by TLC) in the same normal form as `project`.
fn model_normal(a: &Value) -> Value {
    json!(as_map(a).values().map(model_normal_repo).collect::<Vec<_>>())
}

fn model_normal_repo(a: &Value) -> Value {
    let obj = |v: &Value| -> Value {
        if v["kind"] == "none" {
            return json!({"kind": "none"});
        }
        let revs: serde_json::Map<String, Value> = as_map(&v["revs"]).into_iter().collect();
        let comments: serde_json::Map<String, Value> =
            as_map(&v["comments"]).into_iter().map(|(k, c)| (k, json!({"rev": c["rev"], "state": c["state"]}))).collect();
        let reviews: serde_json::Map<String, Value> =
            as_map(&v["reviews"]).into_iter().map(|(k, c)| (k, json!({"rev": c["rev"], "by": c["by"]}))).collect();
        json!({"kind": v["kind"], "status": v["status"], "author": v["author"], "revs": revs, "comments": comments, "reviews": reviews})
    };
    let set = |v: &Value| -> Value {
        let mut x: Vec<i64> = v.as_array().map(|a| a.iter().map(|i| i.as_i64().unwrap()).collect()).unwrap_or_default();
        x.sort();
        json!(x)
    };
    let sets = |v: &Value| -> Value { Value::Object(as_map(v).into_iter().map(|(k, x)| (k, set(&x))).collect()) };
    json!({
        "get": a["get"].as_array().map(|g| g.iter().map(obj).collect::<Vec<_>>()).unwrap_or_default(),
        "find": a["find"].as_array().cloned().unwrap_or_default(),
        "findUnknown": a["findUnknown"],
        "list": {"patch": set(&a["list"]["patch"]), "issue": set(&a["list"]["issue"])},
        "status": {"patch": sets(&a["status"]["patch"]), "issue": sets(&a["status"]["issue"])},
        "counts": a["counts"],
    })
}

fn describe(s: &Value) -> String {
    let o = &s["op"];
    match s["a"].as_str().unwrap_or("?") {
        "create" | "fetchedCreate" => format!(
            "{}(r{} {} {} {})",
            s["a"].as_str().unwrap(),
            o["repo"].as_u64().unwrap_or(1),
            o["kind"].as_str().unwrap_or("?"),
            o["st"].as_str().unwrap_or("?"),
            o["id"]
        ),
        "local" | "fetched" => format!(
            "{}({}:{}{}{})",
            s["a"].as_str().unwrap(),
            s["obj"],
            o["k"].as_str().unwrap_or("?"),
            if o["arg"].as_u64().unwrap_or(0) > 0 { format!(" {}", o["arg"]) } else { String::new() },
            if o["st"] != "-" { format!(" {}", o["st"].as_str().unwrap_or("")) } else { String::new() }
        ),
        "writeAll" => format!("writeAll(r{} {})", o["repo"].as_u64().unwrap_or(1), o["kind"].as_str().unwrap_or("?")),
        a => format!("{a}({})", s["obj"]),
    }
}

fn shape(steps: &[Value]) -> String {
    steps.iter().map(describe).collect::<Vec<_>>().join(" ")
}

/// Run one behaviour; returns (failure record if any, number of query comparisons).
fn run_behaviour(w: &mut World, log: &[Value], with_model: bool, mut trace: Option<&mut Out>) -> (Option<Value>, usize) {
    let tr = std::time::Instant::now();
    w.reset();
    if std::env::var("VERIF_DEBUG").is_ok() {
        eprintln!("reset {:?}", tr.elapsed());
    }
    let mut ids = Ids::default();
    let mut compared = 0usize;
    let mut done: Vec<Value> = Vec::new();
    if let Some(t) = trace.as_mut() {
        t.emit(&json!({"ev": "reset"}));
    }
    for e in log {
        let s = &e["step"];
        done.push(s.clone());
        let t0 = std::time::Instant::now();
        if let Err(msg) = step(w, &mut ids, s) {
            return (Some(json!({"ok": false, "kind": "step", "shape": shape(&done), "detail": msg})), compared);
        }
        let t1 = std::time::Instant::now();
        let (c, d) = match all_answers(w, &ids) {
            Ok(x) => x,
            Err(m) => return (Some(json!({"ok": false, "kind": "step", "shape": shape(&done), "detail": m})), compared),
        };
        if std::env::var("VERIF_DEBUG").is_ok() {
            eprintln!("{}: step {:?} queries {:?}", describe(s), t1 - t0, t1.elapsed());
        }
        compared += NREPOS * (2 * ids.real.len() + 12);
        let (cn, dn) = (normalise(&c), normalise(&d));
        if let Some(t) = trace.as_mut() {
            // for validation by TraceCobCache.tla: the step and what direct evaluation answers
            let n = ids.real.keys().max().copied().unwrap_or(0);
            t.emit(&json!({"ev": "step", "step": s, "ans": project(w, &ids, &d, n)}));
        }
        if cn != dn {
            let mut out = Vec::new();
            diff(&cn, &dn, "", &mut out);
            // name the identifiers involved in model terms
            let out: Vec<String> = out
                .into_iter()
                .map(|l| ids.real.iter().fold(l, |acc, (m, r)| acc.replace(&r.to_string(), &format!("#{m}"))))
                .collect();
            return (Some(json!({"ok": false, "kind": "cache-vs-direct", "shape": shape(&done), "diff": out})), compared);
        }
        if with_model {
            let n = ids.real.keys().max().copied().unwrap_or(0);
            let real = project(w, &ids, &d, n);
            let model = model_normal(&e["ans"]);
            if real != model {
                let mut out = Vec::new();
                diff(&real, &model, "", &mut out);
                let out: Vec<String> = out.into_iter().map(|l| l.replace("cache ", "real ").replace(" direct ", " model ")).collect();
                return (Some(json!({"ok": false, "kind": "model", "shape": shape(&done), "diff": out})), compared);
            }
        }
    }
    (None, compared)
}

// ---------------------------------------------------------------------------------------------
// record: random behaviours

fn random_behaviour(w: &mut World, rng: &mut fastrand::Rng, nsteps: usize, out: &mut Out) -> Option<Value> {
    w.reset();
    let mut ids = Ids::default();
    let mut next: u64 = 1;
    let mut done: Vec<Value> = Vec::new();
    // the generator's view of the objects: last projected direct answers
    let mut view: Vec<Value> = Vec::new(); // index i-1 -> object projection
    let mut in_cache: BTreeSet<u64> = BTreeSet::new();
    let mut holders: BTreeMap<u64, BTreeSet<&'static str>> = BTreeMap::new();
    out.emit(&json!({"ev": "reset"}));
    for _ in 0..nsteps {
        let objs: Vec<u64> = holders.iter().filter(|(_, h)| !h.is_empty()).map(|(i, _)| *i).collect();
        let roll = rng.u8(0..100);
        let noop = json!({"k": "-", "id": 0, "by": "-", "arg": 0, "st": "-", "kind": "-", "repo": 0});
        let s: Value = if objs.is_empty() || (roll < 18 && holders.len() < 6) {
            let by_me = rng.bool();
            let kind = if rng.u8(0..3) == 0 { "issue" } else { "patch" };
            let st = if kind == "patch" && rng.u8(0..4) == 0 { "draft" } else { "open" };
            json!({"a": if by_me { "create" } else { "fetchedCreate" }, "obj": next,
                   "op": {"k": "create", "id": next, "by": if by_me { "me" } else { "peer" }, "arg": 0, "st": st, "kind": kind,
                          "repo": rng.usize(1..=NREPOS)}})
        } else if roll < 24 {
            let mine: Vec<u64> = holders.iter().filter(|(_, h)| h.contains("me")).map(|(i, _)| *i).collect();
            if mine.is_empty() {
                continue;
            }
            json!({"a": "remove", "obj": mine[rng.usize(0..mine.len())], "op": noop})
        } else if roll < 29 {
            let theirs: Vec<u64> = holders.iter().filter(|(_, h)| h.contains("peer")).map(|(i, _)| *i).collect();
            if theirs.is_empty() {
                continue;
            }
            json!({"a": "fetchedDelete", "obj": theirs[rng.usize(0..theirs.len())], "op": noop})
        } else if roll < 33 {
            let mut o = noop.clone();
            o["kind"] = json!(if rng.bool() { "patch" } else { "issue" });
            o["repo"] = json!(rng.usize(1..=NREPOS));
            json!({"a": "writeAll", "obj": 0, "op": o})
        } else {
            let i = objs[rng.usize(0..objs.len())];
            let by_me = rng.bool();
            if by_me && !in_cache.contains(&i) {
                continue;
            }
            let by = if by_me { "me" } else { "peer" };
            let v = &view[i as usize - 1];
            let live: Vec<u64> = v["revs"].as_object().map(|m| m.iter().filter(|(_, s)| *s == "live").map(|(k, _)| k.parse().unwrap()).collect()).unwrap_or_default();
            let mut cands: Vec<Value> = Vec::new();
            let op = |k: &str, arg: u64, st: &str| json!({"k": k, "id": next, "by": by, "arg": arg, "st": st, "kind": "-", "repo": 0});
            if v["kind"] == "patch" {
                cands.push(op("revision", 0, "-"));
                for r in &live {
                    cands.push(op("comment", *r, "-"));
                    cands.push(op("comment", *r, "-"));
                    let has_review = v["reviews"].as_object().map(|m| m.values().any(|x| x["rev"] == *r && x["by"] == by)).unwrap_or(false);
                    if !has_review {
                        cands.push(op("review", *r, "-"));
                    }
                    if *r != i && ids.review_rev.values().all(|_| true) && rev_author(&done, *r) == by {
                        cands.push(op("redactRev", *r, "-"));
                        cands.push(op("redactRev", *r, "-"));
                    }
                }
                if let Some(m) = v["reviews"].as_object() {
                    for (wid, _) in m {
                        cands.push(op("reviewComment", wid.parse().unwrap(), "-"));
                    }
                }
                if let Some(m) = v["comments"].as_object() {
                    for (cid, c) in m {
                        let cid: u64 = cid.parse().unwrap();
                        if c["state"] == "live" && op_author(&done, cid) == by {
                            cands.push(op("redactComment", cid, "-"));
                        }
                    }
                }
                if v["status"] != "merged" && (by_me || v["author"] == by) {
                    for s in ["draft", "open", "archived"] {
                        if v["status"] != s {
                            cands.push(op("status", 0, s));
                        }
                    }
                    if by_me {
                        cands.push(op("status", 0, "merged"));
                    }
                }
            } else {
                cands.push(op("comment", 0, "-"));
                if by_me || v["author"] == by {
                    for s in ["open", "closed:solved", "closed:other"] {
                        if v["status"] != s {
                            cands.push(op("status", 0, s));
                        }
                    }
                }
            }
            let o = cands[rng.usize(0..cands.len())].clone();
            json!({"a": if by_me { "local" } else { "fetched" }, "obj": i, "op": o})
        };
        done.push(s.clone());
        if let Err(msg) = step(w, &mut ids, &s) {
            return Some(json!({"ok": false, "kind": "step", "shape": shape(&done), "detail": msg, "steps": done}));
        }
        // bookkeeping mirrors of the model's `tip` domain and cache domain
        match s["a"].as_str().unwrap() {
            "create" => {
                holders.insert(next, BTreeSet::from(["me"]));
                in_cache.insert(next);
                next += 1;
            }
            "fetchedCreate" => {
                holders.insert(next, BTreeSet::from(["peer"]));
                in_cache.insert(next);
                next += 1;
            }
            "local" => {
                holders.get_mut(&s["obj"].as_u64().unwrap()).unwrap().insert("me");
                next += 1;
            }
            "fetched" => {
                holders.get_mut(&s["obj"].as_u64().unwrap()).unwrap().insert("peer");
                in_cache.insert(s["obj"].as_u64().unwrap());
                next += 1;
            }
            "remove" => {
                holders.get_mut(&s["obj"].as_u64().unwrap()).unwrap().remove("me");
            }
            "fetchedDelete" => {
                holders.get_mut(&s["obj"].as_u64().unwrap()).unwrap().remove("peer");
            }
            _ => {}
        }
        let (c, d) = match all_answers(w, &ids) {
            Ok(x) => x,
            Err(m) => return Some(json!({"ok": false, "kind": "step", "shape": shape(&done), "detail": m, "steps": done})),
        };
        let (cn, dn) = (normalise(&c), normalise(&d));
        if cn != dn {
            let mut o = Vec::new();
            diff(&cn, &dn, "", &mut o);
            let o: Vec<String> = o.into_iter().map(|l| ids.real.iter().fold(l, |acc, (m, r)| acc.replace(&r.to_string(), &format!("#{m}")))).collect();
            return Some(json!({"ok": false, "kind": "cache-vs-direct", "shape": shape(&done), "diff": o, "steps": done}));
        }
        let real = project(w, &ids, &d, next - 1);
        // an object shows up in the answers of its own repository only
        let merge = |p: &Value| -> Vec<Value> {
            (0..(next - 1) as usize)
                .map(|i| {
                    p.as_array()
                        .and_then(|rs| rs.iter().map(|r| r["get"][i].clone()).find(|v| v["kind"] != "none" && !v.is_null()))
                        .unwrap_or_else(|| json!({"kind": "none"}))
                })
                .collect()
        };
        view = merge(&real);
        // which objects does the cache hold (for the generator: local operations need them)
        let cached = project(w, &ids, &c, next - 1);
        in_cache = merge(&cached).iter().enumerate().filter(|(_, v)| v["kind"] != "none").map(|(i, _)| i as u64 + 1).collect();
        out.emit(&json!({"ev": "step", "step": s, "ans": real}));
    }
    None
}

/// author ("me"/"peer") of the operation with the given id in the steps executed so far
fn op_author(done: &[Value], id: u64) -> String {
    done.iter().find(|s| s["op"]["id"] == id).map(|s| s["op"]["by"].as_str().unwrap_or("?").to_string()).unwrap_or_default()
}
fn rev_author(done: &[Value], id: u64) -> String {
    op_author(done, id)
}

fn main() {
    let args = Args::parse();
    if std::env::var("VERIF_DEBUG").is_err() {
        quiet_panics();
    }
    let mode = args.req("--mode").to_string();
    let out_path = Path::new(args.req("--out")).to_path_buf();
    let work = std::env::current_dir().unwrap();
    let mut out = Out::create(&out_path);
    match mode.as_str() {
        "replay" => {
            let cases = read_ndjson(Path::new(args.req("--cases")));
            let (mut failures, mut compared, mut steps) = (0usize, 0usize, 0usize);
            let mut world = World::new(&work);
            let mut trace = args.get("--trace").map(|p| Out::create(Path::new(p)));
            for (n, c) in cases.iter().enumerate() {
                if n > 0 && n % 100 == 0 {
                    world = World::new(&work);
                }
                let log: Vec<Value> = c["log"].as_array().cloned().unwrap_or_default();
                steps += log.len();
                let with_model = log.iter().all(|e| e.get("ans").is_some());
                let (f, n) = run_behaviour(&mut world, &log, with_model, trace.as_mut());
                compared += n;
                if let Some(mut f) = f {
                    failures += 1;
                    f["case"] = c.clone();
                    out.emit(&f);
                }
            }
            out.emit(&json!({"summary": true, "stats": {"behaviours": cases.len(), "steps": steps, "failures": failures, "query_comparisons": compared}}));
            if let Some(t) = trace {
                t.finish();
            }
        }
        "record" => {
            let n = args.num("--n", 20) as usize;
            let nsteps = args.num("--steps", 10) as usize;
            let mut rng = fastrand::Rng::with_seed(seed() ^ args.num("--salt", 0));
            let mut failures = Vec::new();
            let mut world = World::new(&work);
            for k in 0..n {
                if k > 0 && k % 100 == 0 {
                    world = World::new(&work);
                }
                if let Some(f) = random_behaviour(&mut world, &mut rng, nsteps, &mut out) {
                    failures.push(f);
                }
            }
            println!("{}", json!({"summary": true, "stats": {"behaviours": n, "failures": failures}}));
        }
        _ => fatal("unknown mode"),
    }
    out.finish();
}
