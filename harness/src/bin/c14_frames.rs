//! C14 (and the wire part of C13) — binds spec/Wire.tla to the real framing code:
//! `radicle_node::deserializer::Deserializer<MAX_INBOX_SIZE, Frame>` over
//! `wire::frame::Frame::decode`, `wire::varint::{VarInt, payload}` (reached through the
//! `wire::verif` hook) and `Message::decode`.
//!
//! modes
//!   replay  --cases F --out G [--procs N --variants V --maxsplits M]
//!           every TLC case (a stream of frame descriptors + the model's expected observables) is
//!           concretised into real bytes (V random concretisations each), fed to the real
//!           deserializer under all / many splits, and compared after every chunk with the model:
//!           frames delivered (count and content), open/error status, unparsed length; allocation
//!           is observed by a counting global allocator and compared with K + Growth * received.
//!           Work is done in child processes under RLIMIT_AS; a child that dies is attributed to
//!           the case it logged before executing it.
//!   fuzz    --n N --out G [--procs N]
//!           seeded random and mutated frame bytes; oracle: no panic/abort (C13), allocation bound
//!           and whole-vs-chunked agreement (C14). Same worker scheme.
//!   record  --n N --out G
//!           random streams beyond the model's constants (real random messages, payloads up to
//!           64 KiB, up to 6 frames, random chunking), one ndjson event per `input` /
//!           `deserialize_next` call, validated by spec/TraceWire.tla.
//!   worker  (internal)
#[path = "../wiregen.rs"]
mod wiregen;

use std::path::Path;

use hwv::*;
use qcheck::Arbitrary;
use radicle_node::deserializer::Deserializer;
use radicle_node::service::message::{Message, Ping, ZeroBytes};
use radicle_node::wire;
use radicle_node::wire::verif::{Control, Frame, FrameData, MAX_INBOX_SIZE};
use wiregen::*;

#[global_allocator]
static ALLOC: Counting = Counting;

/// Address space limit of worker processes: a 1 GiB zeroed allocation still succeeds (and is
/// observed), 2 GiB and more abort the worker (and are attributed).
const WORKER_AS_LIMIT: u64 = 3 << 30;
/// Bound of the small-inbox instance (MCWire_ovf.cfg).
const SMALL_INBOX: usize = 16;

// ------------------------------------------------------------------------------------------------
// Descriptors (the records of Wire.tla) and their concretisation

#[derive(Clone, Debug)]
struct Desc {
    ver: String,
    sid_w: usize,
    kind: String,
    cmd: String,
    csid_w: usize,
    len_w: usize,
    declared: u64,
    avail: u64,
    inner: String,
}

const HUGE: u64 = 2147483647; // Wire!Huge: "at least 2^31-1"

impl Desc {
    fn from_json(v: &Value) -> Desc {
        let s = |k: &str| v[k].as_str().unwrap_or_else(|| fatal(&format!("descriptor field {k}"))).to_string();
        let n = |k: &str| v[k].as_u64().unwrap_or_else(|| fatal(&format!("descriptor field {k}")));
        Desc {
            ver: s("ver"),
            sid_w: n("sidW") as usize,
            kind: s("kind"),
            cmd: s("cmd"),
            csid_w: n("csidW") as usize,
            len_w: n("lenW") as usize,
            declared: n("declared"),
            avail: n("avail"),
            inner: s("inner"),
        }
    }
    fn to_json(&self) -> Value {
        json!({"ver": self.ver, "sidW": self.sid_w, "kind": self.kind, "cmd": self.cmd, "csidW": self.csid_w,
               "lenW": self.len_w, "declared": self.declared, "avail": self.avail, "inner": self.inner})
    }
    fn complete(&self) -> bool {
        self.kind == "control" || self.avail == self.declared
    }
    fn size(&self) -> usize {
        4 + self.sid_w + if self.kind == "control" { 1 + self.csid_w } else { self.len_w + self.avail as usize }
    }
    /// Class used in violation signatures.
    fn class(&self) -> String {
        if self.ver == "bad" {
            return "badversion".into();
        }
        match self.kind.as_str() {
            "control" => format!("control/{}", self.cmd),
            "unknown" => "unknownkind".into(),
            k => {
                let d = if self.declared >= HUGE {
                    ">=2^31"
                } else if self.declared >= (1 << 30) - 1 {
                    "2^30-1"
                } else if self.declared > 131072 {
                    ">K"
                } else {
                    "small"
                };
                let c = if self.complete() { "complete" } else { "short" };
                if k == "gossip" {
                    format!("gossip/{}/declared={d}/{c}", self.inner)
                } else {
                    format!("git/declared={d}/{c}")
                }
            }
        }
    }
}

/// What a decoded frame looks like, extracted field by field (`Frame`'s own fields are public;
/// stream ids are compared by value).
#[derive(Clone, Debug, PartialEq)]
enum View {
    Control { sid: u64, cmd: u8, target: u64 },
    Gossip { sid: u64, msg: Message },
    Git { sid: u64, data: Vec<u8> },
}

fn view(f: &Frame) -> (u8, View) {
    let sid = u64::from(f.stream);
    let v = match &f.data {
        FrameData::Control(Control::Open { stream }) => View::Control { sid, cmd: 0, target: u64::from(*stream) },
        FrameData::Control(Control::Close { stream }) => View::Control { sid, cmd: 1, target: u64::from(*stream) },
        FrameData::Control(Control::Eof { stream }) => View::Control { sid, cmd: 2, target: u64::from(*stream) },
        FrameData::Gossip(m) => View::Gossip { sid, msg: m.clone() },
        FrameData::Git(d) => View::Git { sid, data: d.clone() },
    };
    (f.version.number(), v)
}

fn view_brief(v: &View) -> String {
    match v {
        View::Control { sid, cmd, target } => format!("control(sid={sid},cmd={cmd},target={target})"),
        View::Gossip { sid, msg } => format!("gossip(sid={sid},{msg:?})"),
        View::Git { sid, data } => format!("git(sid={sid},{} bytes)", data.len()),
    }
}

struct Concrete {
    bytes: Vec<u8>,
    /// expected view of every good, complete frame
    expect: Vec<Option<View>>,
}

fn pong(n: usize) -> Message {
    Message::Pong { zeroes: ZeroBytes::new(n as u16) }
}

/// A real message whose encoding has exactly `n` bytes (n >= 4).
fn message_of_size(rng: &mut fastrand::Rng, n: usize) -> Message {
    assert!(n >= 4);
    if n >= 6 && rng.bool() {
        Message::Ping(Ping { ponglen: rng.u16(..), zeroes: ZeroBytes::new((n - 6) as u16) })
    } else {
        pong(n - 4)
    }
}

/// Payload bytes of a gossip frame of the given class; returns (payload of `declared` bytes,
/// expected message if the payload decodes).
fn gossip_payload(rng: &mut fastrand::Rng, inner: &str, declared: usize) -> (Vec<u8>, Option<Message>) {
    match inner {
        "valid" => {
            let m = message_of_size(rng, declared);
            let b = wire::serialize(&m);
            assert_eq!(b.len(), declared);
            (b, Some(m))
        }
        "overlong" => {
            assert!(declared >= 5);
            let msize = rng.usize(4..declared);
            let m = message_of_size(rng, msize);
            let mut b = wire::serialize(&m);
            b.extend(rand_bytes(rng, declared - msize));
            (b, Some(m))
        }
        "invalid" => {
            assert!(declared >= 2);
            let mut b = match rng.u8(0..4) {
                // unknown message type
                0 => vec![0, 1],
                1 => vec![rng.u8(1..), rng.u8(..)],
                // subscribe with a filter size that is not allowed
                2 if declared >= 4 => vec![0, 8, 0, 5],
                // info message of unknown type
                _ if declared >= 4 => vec![0, 14, 0, 9],
                _ => vec![0, 0],
            };
            let n = declared - b.len();
            b.extend(rand_bytes(rng, n));
            (b, None)
        }
        "truncated" => {
            // a real message cut short: its decoder runs into the end of the payload
            let full = match rng.u8(0..3) {
                0 => wire::serialize(&pong(declared + 1 + rng.usize(0..40))),
                1 => wire::serialize(&Message::Ping(Ping { ponglen: 1, zeroes: ZeroBytes::new((declared + 7) as u16) })),
                _ => {
                    // inventory announcement: type, node id, signature, then a vector
                    let mut b = vec![0u8, 4];
                    b.extend(rand_bytes(rng, 96));
                    b.extend([0, 200]);
                    b.extend(rand_bytes(rng, declared + 10));
                    b
                }
            };
            assert!(full.len() > declared);
            (full[..declared].to_vec(), None)
        }
        other => fatal(&format!("inner class {other}")),
    }
}

fn concretise(rng: &mut fastrand::Rng, frames: &[Desc]) -> Concrete {
    let mut bytes = Vec::new();
    let mut expect = Vec::new();
    for d in frames {
        let start = bytes.len();
        // version
        if d.ver == "ok" {
            bytes.extend(b"rad\x01");
        } else {
            let bad: [&[u8; 4]; 6] = [b"rad\x02", b"rad\x00", b"Rad\x01", b"\0\0\0\0", b"radx", b"\x01dar"];
            bytes.extend(bad[rng.usize(0..bad.len())]);
        }
        // stream id: (n << 3) | (kind << 1) | initiator
        let kind_bits: u64 = match d.kind.as_str() {
            "control" => 0,
            "gossip" => 1,
            "git" => 2,
            _ => 3,
        };
        let nmax = varint_max(d.sid_w) >> 3;
        let n = match rng.u8(0..3) {
            0 => 0,
            1 => nmax,
            _ => rng.u64(0..=nmax),
        };
        let sid = (n << 3) | (kind_bits << 1) | rng.u64(0..2);
        bytes.extend(varint(sid, d.sid_w));
        let good_header = d.ver == "ok" && d.kind != "unknown";
        if d.kind == "control" {
            let cmd: u8 = match d.cmd.as_str() {
                "open" => 0,
                "close" => 1,
                "eof" => 2,
                _ => rng.u8(3..),
            };
            bytes.push(cmd);
            let target = match rng.u8(0..3) {
                0 => 0,
                1 => varint_max(d.csid_w),
                _ => rng.u64(0..=varint_max(d.csid_w)),
            };
            bytes.extend(varint(target, d.csid_w));
            expect.push(if good_header && d.cmd != "bad" { Some(View::Control { sid, cmd, target }) } else { None });
        } else {
            let declared: u64 = if d.declared >= HUGE {
                let c = [HUGE, 1 << 31, (1 << 32) + 1, 1 << 40, (1 << 62) - 1];
                c[rng.usize(0..c.len())]
            } else {
                d.declared
            };
            bytes.extend(varint(declared, d.len_w));
            let avail = d.avail as usize;
            if d.kind == "gossip" && d.complete() {
                let (p, m) = gossip_payload(rng, &d.inner, avail);
                bytes.extend(&p);
                expect.push(if good_header { m.map(|msg| View::Gossip { sid, msg }) } else { None });
            } else {
                let p = rand_bytes(rng, avail);
                bytes.extend(&p);
                expect.push(if good_header && d.kind == "git" && d.complete() { Some(View::Git { sid, data: p }) } else { None });
            }
        }
        assert_eq!(bytes.len() - start, d.size(), "layout of {d:?}");
    }
    Concrete { bytes, expect }
}

// ------------------------------------------------------------------------------------------------
// The real decoder behind one interface for the two inbox bounds

trait Inbox {
    fn input(&mut self, b: &[u8]) -> bool;
    fn next(&mut self) -> Result<Option<Frame>, wire::Error>;
    fn unparsed(&self) -> usize;
}
struct Node(Deserializer<MAX_INBOX_SIZE, Frame>);
struct SmallNode(Deserializer<SMALL_INBOX, Frame>);
impl Inbox for Node {
    fn input(&mut self, b: &[u8]) -> bool {
        self.0.input(b).is_ok()
    }
    fn next(&mut self) -> Result<Option<Frame>, wire::Error> {
        self.0.deserialize_next()
    }
    fn unparsed(&self) -> usize {
        self.0.len()
    }
}
impl Inbox for SmallNode {
    fn input(&mut self, b: &[u8]) -> bool {
        self.0.input(b).is_ok()
    }
    fn next(&mut self) -> Result<Option<Frame>, wire::Error> {
        self.0.deserialize_next()
    }
    fn unparsed(&self) -> usize {
        self.0.len()
    }
}
fn inbox(bound: usize) -> Box<dyn Inbox> {
    if bound == MAX_INBOX_SIZE {
        // exactly what `Peer::connected` does
        Box::new(Node(Deserializer::default()))
    } else if bound == SMALL_INBOX {
        Box::new(SmallNode(Deserializer::new(SMALL_INBOX)))
    } else {
        fatal(&format!("no deserializer instance for inbox bound {bound}"))
    }
}

// ------------------------------------------------------------------------------------------------
// Running one stream under one split

struct Limits {
    k: u64,
    growth: u64,
}

#[derive(Debug)]
struct Obs {
    /// views of the frames delivered, in order
    out: Vec<View>,
    /// "open" | "error" | "overflow"
    status: &'static str,
    unparsed: usize,
    err: String,
    max_alloc: u64,
}

struct Fail {
    kind: &'static str,
    at_fed: usize,
    expected: String,
    actual: String,
}

/// The model's observables for a stream, from the emitted case.
struct Model {
    ends: Vec<usize>, // ends[0] = 0
    complete: Vec<bool>,
    fb: usize, // 1-based; len+1 if none
    detect: usize,
    bound: usize,
}
impl Model {
    fn count(&self, p: usize) -> usize {
        (1..self.fb).filter(|i| self.complete[*i - 1] && self.ends[*i] <= p).count()
    }
    fn status(&self, p: usize) -> &'static str {
        if p >= self.detect {
            "error"
        } else {
            "open"
        }
    }
    fn unparsed(&self, p: usize) -> usize {
        p - self.ends[self.count(p)]
    }
}

/// Feed `bytes` in the given chunks through the real input/deserialize loop (the loop of
/// `Wire::handle_transport_event`, `SessionEvent::Data`). If a model is given, compare after every
/// chunk. Returns the final observation, or the first failure.
fn run_split(bytes: &[u8], split: &[usize], bound: usize, lim: &Limits, model: Option<(&Model, &[Option<View>])>) -> Result<Obs, Fail> {
    let mut de = inbox(bound);
    let mut obs = Obs { out: Vec::new(), status: "open", unparsed: 0, err: String::new(), max_alloc: 0 };
    let mut fed = 0usize;
    for n in split {
        let chunk = &bytes[fed..fed + n];
        // inbox.input(&data)
        let base = mem_begin();
        let accepted = guard(|| de.input(chunk));
        let a = mem_end(base);
        let accepted = match accepted {
            Ok(x) => x,
            Err(p) => return Err(Fail { kind: "panic", at_fed: fed, expected: "no panic".into(), actual: format!("input panicked: {p}") }),
        };
        if let Some((m, _)) = model {
            let fits = m.unparsed(fed) + n <= m.bound;
            if fits != accepted {
                return Err(Fail { kind: "input", at_fed: fed, expected: format!("input accepted={fits}"), actual: format!("accepted={accepted}") });
            }
        }
        if !accepted {
            obs.status = "overflow";
            break;
        }
        fed += n;
        obs.max_alloc = obs.max_alloc.max(a);
        if a > lim.k + lim.growth * fed as u64 {
            return Err(Fail { kind: "alloc", at_fed: fed, expected: format!("input allocates <= {} + {}*{fed}", lim.k, lim.growth), actual: format!("{a} bytes") });
        }
        // loop { inbox.deserialize_next() }
        loop {
            let base = mem_begin();
            let r = guard(|| de.next());
            let a = mem_end(base);
            obs.max_alloc = obs.max_alloc.max(a);
            let r = match r {
                Ok(r) => r,
                Err(p) => return Err(Fail { kind: "panic", at_fed: fed, expected: "no panic".into(), actual: format!("deserialize_next panicked: {p}") }),
            };
            let over = a > lim.k + lim.growth * fed as u64;
            let mut done = true;
            match r {
                Ok(Some(f)) => {
                    let (vn, v) = view(&f);
                    if let Some((_, exp)) = model {
                        let k = obs.out.len();
                        match exp.get(k) {
                            Some(Some(e)) if *e == v && vn == 1 => {}
                            other => {
                                return Err(Fail { kind: "frame", at_fed: fed,
                                    expected: format!("frame #{}: {}", k + 1, other.and_then(|o| o.as_ref()).map(view_brief).unwrap_or("none".into())),
                                    actual: format!("version {vn} {}", view_brief(&v)) });
                            }
                        }
                    }
                    obs.out.push(v);
                    done = false;
                }
                Ok(None) => {}
                Err(e) => {
                    obs.status = "error";
                    obs.err = e.to_string();
                }
            }
            obs.unparsed = de.unparsed();
            if over {
                return Err(Fail { kind: "alloc", at_fed: fed, expected: format!("deserialize_next allocates <= {} + {}*{fed}", lim.k, lim.growth), actual: format!("{a} bytes") });
            }
            if done {
                break;
            }
        }
        if let Some((m, _)) = model {
            if obs.out.len() != m.count(fed) {
                return Err(Fail { kind: "count", at_fed: fed, expected: format!("{} frames delivered", m.count(fed)), actual: format!("{}", obs.out.len()) });
            }
            if obs.status != m.status(fed) {
                return Err(Fail { kind: "status", at_fed: fed, expected: m.status(fed).into(), actual: format!("{} {}", obs.status, obs.err) });
            }
            if obs.status == "open" && obs.unparsed != m.unparsed(fed) {
                return Err(Fail { kind: "unparsed", at_fed: fed, expected: format!("{} unparsed bytes", m.unparsed(fed)), actual: format!("{}", obs.unparsed) });
            }
        }
        if obs.status == "error" {
            break; // the node disconnects the peer
        }
    }
    Ok(obs)
}

/// Chunkings of n bytes: all compositions when n is small; otherwise whole, byte-wise, every
/// single cut, every (or sampled) double cut and random multi-cuts; at most `max`.
fn splits(n: usize, rng: &mut fastrand::Rng, max: usize) -> Vec<Vec<usize>> {
    let mut out: Vec<Vec<usize>> = Vec::new();
    if n == 0 {
        return vec![vec![]];
    }
    let from_cuts = |cuts: &[usize]| -> Vec<usize> {
        let mut v = Vec::with_capacity(cuts.len() + 1);
        let mut last = 0;
        for c in cuts {
            v.push(c - last);
            last = *c;
        }
        v.push(n - last);
        v
    };
    if n <= 12 {
        for mask in 0u32..(1 << (n - 1)) {
            let cuts: Vec<usize> = (1..n).filter(|i| mask & (1 << (i - 1)) != 0).collect();
            out.push(from_cuts(&cuts));
        }
        return out;
    }
    out.push(vec![n]);
    out.push(vec![1; n]);
    for c in 1..n {
        out.push(from_cuts(&[c]));
    }
    let pairs = (n - 1) * (n - 2) / 2;
    let budget = max.saturating_sub(out.len());
    if pairs <= budget * 3 / 4 {
        for a in 1..n {
            for b in (a + 1)..n {
                out.push(from_cuts(&[a, b]));
            }
        }
    } else {
        for _ in 0..budget * 3 / 4 {
            let a = rng.usize(1..n - 1);
            let b = rng.usize(a + 1..n);
            out.push(from_cuts(&[a, b]));
        }
    }
    let budget = max.saturating_sub(out.len());
    for _ in 0..budget {
        let k = rng.usize(3..=8.min(n - 1));
        let mut cuts: Vec<usize> = (0..k).map(|_| rng.usize(1..n)).collect();
        cuts.sort();
        cuts.dedup();
        out.push(from_cuts(&cuts));
    }
    out
}

fn rng_for(seed: u64, a: u64, b: u64) -> fastrand::Rng {
    fastrand::Rng::with_seed(seed ^ a.wrapping_mul(0x9E3779B97F4A7C15) ^ b.wrapping_mul(0xC2B2AE3D27D4EB4F))
}

// ------------------------------------------------------------------------------------------------
// Fuzz inputs (C13 wire part)

/// Coarse class of an arbitrary byte string, for signatures: what the frame headers say. Walks the
/// frames as far as they parse and reports the first frame that declares a huge payload, else the
/// first frame that cannot be skipped.
fn classify(bytes: &[u8]) -> String {
    fn varint_at(b: &[u8]) -> Option<(u64, usize)> {
        let first = *b.first()?;
        let w = 1usize << (first >> 6);
        if b.len() < w {
            return None;
        }
        let mut x: u64 = (first & 0x3f) as u64;
        for y in &b[1..w] {
            x = (x << 8) | *y as u64;
        }
        Some((x, w))
    }
    let mut b = bytes;
    let mut first: Option<String> = None;
    loop {
        let class = (|| -> (String, Option<usize>) {
            if b.len() < 5 || &b[..4] != b"rad\x01" {
                return ("noheader".into(), None);
            }
            let Some((sid, w)) = varint_at(&b[4..]) else { return ("shortheader".into(), None) };
            let rest = &b[4 + w..];
            match (sid >> 1) & 3 {
                0 => {
                    let cmd = rest.first().map(|c| if *c < 3 { c.to_string() } else { "bad".into() }).unwrap_or("none".into());
                    let skip = rest.get(1..).and_then(varint_at).filter(|_| cmd != "bad" && cmd != "none").map(|(_, cw)| 4 + w + 1 + cw);
                    (format!("control/cmd={cmd}"), skip)
                }
                3 => ("unknownkind".into(), None),
                k => {
                    let name = if k == 1 { "gossip" } else { "git" };
                    let Some((x, lw)) = varint_at(rest) else { return (format!("{name}/shortlength"), None) };
                    let d = if x >= 1 << 31 { ">=2^31" } else if x >= (1 << 30) - 1 { ">=2^30-1" } else if x > 131072 { ">K" } else { "small" };
                    let complete = (rest.len() - lw) as u64 >= x;
                    (format!("{name}/lenW={lw}/declared={d}/{}", if complete { "complete" } else { "short" }),
                     if complete { Some(4 + w + lw + x as usize) } else { None })
                }
            }
        })();
        let huge = class.0.contains("declared=>=2");
        if first.is_none() || huge {
            first = Some(class.0.clone());
        }
        match class.1 {
            Some(n) if !huge && n > 0 && n <= b.len() => b = &b[n..],
            _ => break,
        }
        if b.is_empty() {
            break;
        }
    }
    first.unwrap_or_else(|| "empty".into())
}

fn random_message(rng: &mut fastrand::Rng) -> Message {
    let mut g = qcheck::Gen::from_seed(rng.u64(..));
    g.set_size(rng.usize(1..40));
    Message::arbitrary(&mut g)
}

fn random_frame_bytes(rng: &mut fastrand::Rng) -> Vec<u8> {
    use radicle_node::Link;
    let link = if rng.bool() { Link::Inbound } else { Link::Outbound };
    match rng.u8(0..10) {
        0..=4 => Frame::<Message>::gossip(link, random_message(rng)).to_bytes(),
        5 | 6 => {
            let d = Desc { ver: "ok".into(), sid_w: [1, 2, 4, 8][rng.usize(0..4)], kind: "git".into(), cmd: "-".into(), csid_w: 1,
                           len_w: [2, 4, 8][rng.usize(0..3)], declared: 0, avail: 0, inner: "-".into() };
            let n = rng.u64(0..3000);
            concretise(rng, &[Desc { declared: n, avail: n, ..d }]).bytes
        }
        _ => {
            let d = Desc { ver: "ok".into(), sid_w: [1, 2, 4, 8][rng.usize(0..4)], kind: "control".into(),
                           cmd: ["open", "close", "eof", "bad"][rng.usize(0..4)].into(), csid_w: [1, 2, 4, 8][rng.usize(0..4)],
                           len_w: 1, declared: 0, avail: 0, inner: "-".into() };
            concretise(rng, &[d]).bytes
        }
    }
}

fn fuzz_input(rng: &mut fastrand::Rng) -> Vec<u8> {
    let mut b = Vec::new();
    match rng.u8(0..20) {
        0 => {
            let n = rng.usize(0..64);
            return rand_bytes(rng, n);
        }
        1 => {
            // valid header, random tail
            b.extend(b"rad\x01");
            let n = rng.usize(0..40);
            b.extend(rand_bytes(rng, n));
            return b;
        }
        _ => {}
    }
    for _ in 0..rng.usize(1..=4) {
        b.extend(random_frame_bytes(rng));
    }
    let boundary = [0x00u8, 0x01, 0x3f, 0x40, 0x7f, 0x80, 0xbf, 0xc0, 0xff];
    for _ in 0..rng.usize(0..4) {
        if b.is_empty() {
            break;
        }
        let i = rng.usize(0..b.len());
        // positions near the frame header are the interesting ones: bias towards the front
        let i = if rng.bool() { i.min(rng.usize(0..24)).min(b.len() - 1) } else { i };
        match rng.u8(0..9) {
            0 => b[i] ^= 1 << rng.u8(0..8),
            1 => b[i] = boundary[rng.usize(0..boundary.len())],
            2 => {
                let n = rng.usize(1..9);
                let ins = rand_bytes(rng, n);
                b.splice(i..i, ins);
            }
            3 => {
                let j = (i + rng.usize(1..20)).min(b.len());
                b.drain(i..j);
            }
            4 => b.truncate(i),
            5 => {
                let j = (i + rng.usize(1..40)).min(b.len());
                let dup = b[i..j].to_vec();
                b.splice(i..i, dup);
            }
            6 => {
                // overwrite with a length-like varint at a boundary value
                let w = [1usize, 2, 4, 8][rng.usize(0..4)];
                let vals = [0, 1, varint_max(w), varint_max(w) - 1, varint_max(w) / 2 + 1, 65535.min(varint_max(w)), 65536.min(varint_max(w))];
                let v = varint(vals[rng.usize(0..vals.len())], w);
                let i = if rng.bool() { 5.min(b.len() - 1) } else { i };
                let j = (i + w).min(b.len());
                b.splice(i..j, v);
            }
            7 => b[i] = rng.u8(..),
            _ => {
                let j = (i + rng.usize(1..6)).min(b.len());
                for x in &mut b[i..j] {
                    *x = 0xff;
                }
            }
        }
    }
    b
}

fn random_split(n: usize, rng: &mut fastrand::Rng) -> Vec<usize> {
    if n == 0 {
        return vec![];
    }
    match rng.u8(0..4) {
        0 if n <= 64 => vec![1; n],
        _ => {
            let k = rng.usize(1..=6.min(n));
            let mut cuts: Vec<usize> = (0..k - 1).map(|_| rng.usize(1..n.max(2))).filter(|c| *c < n).collect();
            cuts.sort();
            cuts.dedup();
            let mut v = Vec::new();
            let mut last = 0;
            for c in cuts {
                v.push(c - last);
                last = c;
            }
            v.push(n - last);
            v
        }
    }
}

// ------------------------------------------------------------------------------------------------

fn fail_record(idx: usize, variant: u64, frames: &[Desc], model: Option<&Model>, bytes: &[u8], split: &[usize], f: &Fail) -> Value {
    // the frame the decoder was working on
    let culprit = model
        .map(|m| {
            let c = if f.kind == "frame" { m.count(f.at_fed).saturating_sub(1) } else { m.count(f.at_fed) };
            frames.get(c).map(|d| d.class()).unwrap_or("end-of-stream".into())
        })
        .unwrap_or_else(|| classify(bytes));
    let mj = model.map(|m| json!({"ends": m.ends[1..], "total": m.ends.last(), "fb": m.fb, "detect": m.detect, "maxinbox": m.bound}));
    json!({"ok": false, "case": idx, "variant": variant, "fail": f.kind, "sig": format!("{}:{}", f.kind, culprit), "model": mj,
           "at_fed": f.at_fed, "expected": f.expected, "actual": f.actual, "split": split,
           "frames": frames.iter().map(|d| d.to_json()).collect::<Vec<_>>(), "bytes": hex(bytes)})
}

fn main() {
    let args = Args::parse();
    quiet_panics();
    let mode = args.req("--mode").to_string();
    let lim = Limits { k: args.num("--k", 131072), growth: args.num("--growth", 2) };
    let work = std::env::current_dir().unwrap();
    match mode.as_str() {
        // ---------------------------------------------------------------- parents
        "replay" | "fuzz" => {
            let out = Path::new(args.req("--out")).to_path_buf();
            let procs = args.num("--procs", 6) as usize;
            let mut extra: Vec<String> = vec!["--kind".into(), mode.clone(), "--k".into(), lim.k.to_string(), "--growth".into(), lim.growth.to_string(),
                                          "--idxbase".into(), args.num("--idxbase", 0).to_string()];
            let total = if mode == "replay" {
                let cases = args.req("--cases").to_string();
                let n = read_ndjson(Path::new(&cases)).len();
                extra.extend(["--cases".into(), cases, "--variants".into(), args.num("--variants", 2).to_string(),
                              "--maxsplits".into(), args.num("--maxsplits", 400).to_string()]);
                n
            } else {
                args.num("--n", 1000) as usize
            };
            let o = run_workers(total, procs, &work, &mode, &extra);
            let mut w = Out::create(&out);
            let mut sum = serde_json::Map::new();
            let mut add = |c: &Value| {
                if let Some(m) = c.as_object() {
                    for (k, v) in m {
                        if let Some(x) = v.as_u64() {
                            let cur = sum.get(k).and_then(|y| y.as_u64()).unwrap_or(0);
                            sum.insert(k.clone(), json!(cur + x));
                        }
                    }
                }
            };
            let mut maxalloc = 0u64;
            for r in &o.records {
                if r.get("summary").is_some() {
                    maxalloc = maxalloc.max(r["max_alloc"].as_u64().unwrap_or(0));
                    add(&r["counts"]);
                } else {
                    w.emit(r);
                }
            }
            for d in &o.deaths {
                add(&d["counts"]);
                w.emit(&json!({"ok": false, "fail": "abort", "case": d["idx"], "what": d["what"], "signal": d["signal"], "code": d["code"],
                               "sig": format!("abort:{}", d["what"].as_str().unwrap_or("?")), "bytes": d["bytes"], "frames": d["frames"]}));
            }
            w.emit(&json!({"summary": true, "counts": Value::Object(sum), "deaths": o.deaths.len(), "max_alloc_observed": maxalloc}));
            w.finish();
        }
        // ---------------------------------------------------------------- worker
        "worker" => {
            limit_address_space(WORKER_AS_LIMIT);
            let (from, to) = (args.num("--from", 0) as usize, args.num("--to", 0) as usize);
            let mut out = Out::create(Path::new(args.req("--out")));
            let mut prog = Progress::create(Path::new(args.req("--progress")));
            let kind = args.req("--kind").to_string();
            // replaying a single case / input: its original index seeds the concretisation
            let idxbase = args.num("--idxbase", 0);
            let mut classes: std::collections::BTreeMap<String, u64> = Default::default();
            let (mut evals, mut inputs, mut nontrivial, mut frames_out, mut errors, mut failures, mut maxalloc) = (0u64, 0u64, 0u64, 0u64, 0u64, 0u64, 0u64);
            macro_rules! counts {
                () => {
                    json!({"evaluations": evals, "inputs": inputs, "nontrivial": nontrivial, "frames_delivered": frames_out,
                           "error_outcomes": errors, "failures": failures})
                };
            }
            if kind == "replay" {
                let cases = read_ndjson(Path::new(args.req("--cases")));
                let variants = args.num("--variants", 2);
                let maxsplits = args.num("--maxsplits", 400) as usize;
                for idx in from..to {
                    let c = &cases[idx];
                    let frames: Vec<Desc> = c["frames"].as_array().unwrap().iter().map(Desc::from_json).collect();
                    let what = frames.iter().find(|d| d.declared >= (1 << 30) - 1).or(frames.last()).map(|d| d.class()).unwrap_or_default();
                    prog.set(&json!({"idx": idx, "what": what, "frames": c["frames"], "counts": counts!()}));
                    let mut ends = vec![0usize];
                    ends.extend(c["ends"].as_array().unwrap().iter().map(|x| x.as_u64().unwrap() as usize));
                    let model = Model {
                        ends,
                        complete: frames.iter().map(|d| d.complete()).collect(),
                        fb: c["fb"].as_u64().unwrap() as usize,
                        detect: c["detect"].as_u64().unwrap() as usize,
                        bound: c["maxinbox"].as_u64().unwrap() as usize,
                    };
                    let total = c["total"].as_u64().unwrap() as usize;
                    inputs += 1;
                    if frames.len() > 1 || frames.iter().any(|d| !d.complete() || d.declared > 131072) {
                        nontrivial += 1;
                    }
                    'case: for v in 0..variants {
                        let mut rng = rng_for(seed(), idx as u64 + idxbase, v);
                        let conc = concretise(&mut rng, &frames);
                        if conc.bytes.len() != total {
                            fatal(&format!("case {idx}: model says {total} bytes, concretisation has {}", conc.bytes.len()));
                        }
                        for split in splits(total, &mut rng, maxsplits) {
                            evals += 1;
                            match run_split(&conc.bytes, &split, model.bound, &lim, Some((&model, &conc.expect))) {
                                Ok(o) => {
                                    frames_out += o.out.len() as u64;
                                    errors += (o.status == "error") as u64;
                                    maxalloc = maxalloc.max(o.max_alloc);
                                }
                                Err(f) => {
                                    failures += 1;
                                    out.emit(&fail_record(idx + idxbase as usize, v, &frames, Some(&model), &conc.bytes, &split, &f));
                                    break 'case;
                                }
                            }
                        }
                    }
                }
            } else {
                for idx in from..to {
                    let mut rng = rng_for(seed(), idx as u64 + idxbase, 77);
                    let bytes = fuzz_input(&mut rng);
                    let what = classify(&bytes);
                    *classes.entry(what.clone()).or_default() += 1;
                    prog.set(&json!({"idx": idx, "what": what, "bytes": hex(&bytes), "counts": counts!()}));
                    inputs += 1;
                    evals += 2;
                    let n = bytes.len();
                    let split = random_split(n, &mut rng);
                    let whole = run_split(&bytes, &if n > 0 { vec![n] } else { vec![] }, MAX_INBOX_SIZE, &lim, None);
                    let parts = run_split(&bytes, &split, MAX_INBOX_SIZE, &lim, None);
                    match (whole, parts) {
                        (Ok(a), Ok(b)) => {
                            frames_out += a.out.len() as u64;
                            errors += (a.status == "error") as u64;
                            if !a.out.is_empty() && a.status == "error" {
                                nontrivial += 1;
                            }
                            maxalloc = maxalloc.max(a.max_alloc).max(b.max_alloc);
                            // chunking independence, without any model: same frames, same verdict
                            if a.out != b.out || a.status != b.status || (a.status == "open" && a.unparsed != b.unparsed) {
                                failures += 1;
                                let f = Fail { kind: "chunking", at_fed: n,
                                    expected: format!("whole: {} frames, {}, {} unparsed", a.out.len(), a.status, a.unparsed),
                                    actual: format!("chunked: {} frames, {}, {} unparsed", b.out.len(), b.status, b.unparsed) };
                                out.emit(&fail_record(idx + idxbase as usize, 0, &[], None, &bytes, &split, &f));
                            }
                        }
                        (Err(f), _) => {
                            failures += 1;
                            out.emit(&fail_record(idx + idxbase as usize, 0, &[], None, &bytes, &[n], &f));
                        }
                        (_, Err(f)) => {
                            failures += 1;
                            out.emit(&fail_record(idx + idxbase as usize, 0, &[], None, &bytes, &split, &f));
                        }
                    }
                }
            }
            let mut c = counts!();
            for (k, v) in &classes {
                c[format!("class:{k}")] = json!(v);
            }
            out.emit(&json!({"summary": true, "counts": c, "max_alloc": maxalloc}));
            out.finish();
        }
        // ---------------------------------------------------------------- realenc
        // Frames built through the real constructors and encoded by the real encoder (`Frame::to_bytes`), with
        // payload lengths and stream ids at every boundary between varint widths; the encoding of the sequence,
        // cut in chunks, must decode to exactly those frames in order.
        "realenc" => {
            use radicle_node::wire::verif::{Control as FrameControl, StreamId};
            use radicle_node::Link;
            let mut out = Out::create(Path::new(args.req("--out")));
            let mut rng = fastrand::Rng::with_seed(seed());
            let lens: [usize; 14] = [0, 1, 62, 63, 64, 65, 300, 16382, 16383, 16384, 16385, 16386, 70000, 100000];
            // stream numbers whose ids (n << 3 | kind << 1 | initiator) sit at the width boundaries
            let seqs: [u64; 10] = [0, 1, 7, 8, 2047, 2048, 134217727, 134217728, (1 << 59) - 1, 2];
            let (mut streams, mut frames_n, mut bad) = (0u64, 0u64, 0u64);
            let n = args.num("--n", 60);
            for it in 0..n {
                let mut frames: Vec<Frame> = Vec::new();
                let count = if it == 0 { lens.len() } else { rng.usize(1..6) };
                for j in 0..count {
                    let link = if rng.bool() { Link::Inbound } else { Link::Outbound };
                    let seq = seqs[rng.usize(0..seqs.len())];
                    let Ok(sid) = StreamId::git(link).nth(seq) else { continue };
                    let len = if it == 0 { lens[j] } else { lens[rng.usize(0..lens.len())] };
                    frames.push(match if it == 0 { 7 } else { rng.u8(0..8) } {
                        0 => Frame::control(link, FrameControl::Open { stream: sid }),
                        1 => Frame::control(link, FrameControl::Close { stream: sid }),
                        2 => Frame::control(link, FrameControl::Eof { stream: sid }),
                        _ => Frame::git(sid, (0..len).map(|i| (i % 251) as u8).collect()),
                    });
                }
                let bytes: Vec<u8> = frames.iter().flat_map(|f| f.to_bytes()).collect();
                for chunk in [1usize, 13, 1000, 16384, bytes.len().max(1)] {
                    streams += 1;
                    let res = guard(|| {
                        let mut de = inbox(MAX_INBOX_SIZE);
                        let mut got: Vec<Frame> = Vec::new();
                        let mut err = None;
                        'feed: for c in bytes.chunks(chunk) {
                            if !de.input(c) {
                                err = Some("inbox overflow".to_string());
                                break;
                            }
                            loop {
                                match de.next() {
                                    Ok(Some(f)) => got.push(f),
                                    Ok(None) => break,
                                    Err(e) => {
                                        err = Some(e.to_string());
                                        break 'feed;
                                    }
                                }
                            }
                        }
                        (got, err, de.unparsed())
                    });
                    let desc: Vec<Value> = frames.iter().map(|f| match &f.data {
                        radicle_node::wire::verif::FrameData::Git(d) => json!(["git", u64::from(f.stream), d.len()]),
                        radicle_node::wire::verif::FrameData::Control(_) => json!(["control", u64::from(f.stream)]),
                        _ => json!(["gossip"]),
                    }).collect();
                    let breach = match res {
                        Err(p) => Some(format!("panic: {p}")),
                        Ok((got, Some(e), _)) => Some(format!("decode error after {} of {} frames: {e}", got.len(), frames.len())),
                        Ok((got, None, rest)) if got != frames || rest != 0 => Some(format!("decoded {} frames ({} equal the encoded ones), {} bytes left unparsed",
                            got.len(), got.iter().zip(frames.iter()).take_while(|(a, b)| a == b).count(), rest)),
                        Ok(_) => None,
                    };
                    frames_n += frames.len() as u64;
                    if let Some(b) = breach {
                        bad += 1;
                        out.emit(&json!({"ok": false, "frames": desc, "chunk": chunk, "breach": b}));
                    }
                }
            }
            out.emit(&json!({"summary": true, "streams": streams, "frames": frames_n, "bad": bad}));
            out.finish();
        }
        // ---------------------------------------------------------------- record
        "record" => {
            let n = args.num("--n", 200);
            let mut out = Out::create(Path::new(args.req("--out")));
            let mut rng = fastrand::Rng::with_seed(seed());
            for _ in 0..n {
                let (frames, conc) = random_stream(&mut rng);
                out.emit(&json!({"ev": "reset", "frames": frames.iter().map(|d| d.to_json()).collect::<Vec<_>>()}));
                let total = conc.bytes.len();
                let split = if rng.u8(0..5) == 0 { vec![total] } else { random_split(total, &mut rng) };
                let mut log = Vec::new();
                let r = run_split_logged(&conc, &split, &lim, &mut log);
                for e in log {
                    out.emit(&e);
                }
                if let Err(p) = r {
                    out.emit(&json!({"ev": "panic", "msg": p}));
                }
            }
            out.finish();
        }
        _ => fatal("unknown mode"),
    }
}

/// Recorded run: like `run_split` without a model, but every delivered frame is compared with the
/// frame that was encoded (`eq`), and nothing is judged here -- TLC validates the log.
fn run_split_logged(conc: &Concrete, split: &[usize], lim: &Limits, log: &mut Vec<Value>) -> Result<(), String> {
    let mut de = inbox(MAX_INBOX_SIZE);
    let mut fed = 0;
    let mut delivered = 0usize;
    let _ = lim;
    for n in split {
        let base = mem_begin();
        let ok = guard(|| de.input(&conc.bytes[fed..fed + n]))?;
        let a = mem_end(base);
        log.push(json!({"ev": "input", "n": n, "ok": ok, "alloc": a}));
        if !ok {
            break;
        }
        fed += n;
        loop {
            let base = mem_begin();
            let r = guard(|| de.next())?;
            let a = mem_end(base);
            let buflen = de.unparsed();
            match r {
                Ok(Some(f)) => {
                    let (vn, v) = view(&f);
                    // the good, complete frames are delivered in order: the k-th delivered frame must
                    // be the k-th frame of the stream (the model checks that it may be delivered)
                    let eq = vn == 1 && matches!(conc.expect.get(delivered), Some(Some(e)) if *e == v);
                    delivered += 1;
                    log.push(json!({"ev": "next", "res": "frame", "eq": eq, "buflen": buflen, "alloc": a}));
                }
                Ok(None) => {
                    log.push(json!({"ev": "next", "res": "none", "eq": true, "buflen": buflen, "alloc": a}));
                    break;
                }
                Err(e) => {
                    log.push(json!({"ev": "next", "res": "error", "eq": true, "buflen": buflen, "alloc": a, "err": e.to_string()}));
                    return Ok(());
                }
            }
        }
    }
    Ok(())
}

/// A random stream outside the bounded model: up to 6 frames, real random messages, larger
/// payloads, every frame class.
fn random_stream(rng: &mut fastrand::Rng) -> (Vec<Desc>, Concrete) {
    let nframes = rng.usize(1..=6);
    let mut frames = Vec::new();
    let mut bytes = Vec::new();
    let mut expect = Vec::new();
    for i in 0..nframes {
        let last = i + 1 == nframes;
        let w = |rng: &mut fastrand::Rng| [1usize, 2, 4, 8][rng.usize(0..4)];
        let mut d = Desc { ver: "ok".into(), sid_w: w(rng), kind: "control".into(), cmd: "-".into(), csid_w: 1, len_w: 1,
                           declared: 0, avail: 0, inner: "-".into() };
        let roll = rng.u8(0..20);
        if roll == 0 {
            d.ver = "bad".into();
        }
        match rng.u8(0..10) {
            0 | 1 => {
                d.cmd = ["open", "close", "eof", "bad"][if rng.u8(0..6) == 0 { 3 } else { rng.usize(0..3) }].into();
                d.csid_w = w(rng);
                let c = concretise(rng, &[d.clone()]);
                bytes.extend(c.bytes);
                expect.extend(c.expect);
            }
            2 => {
                d.kind = "unknown".into();
                d.len_w = 1;
                d.declared = rng.u64(0..20);
                d.avail = d.declared;
                let c = concretise(rng, &[d.clone()]);
                bytes.extend(c.bytes);
                expect.extend(c.expect);
            }
            3 | 4 => {
                d.kind = "git".into();
                d.declared = [0, 1, 63, 64, 1000, 16383, 16384, 70000][rng.usize(0..8)] + rng.u64(0..3);
                d.len_w = [1usize, 2, 4, 8].into_iter().filter(|x| varint_max(*x) >= d.declared).nth(rng.usize(0..2)).unwrap_or(8);
                d.avail = d.declared;
                if last && rng.u8(0..4) == 0 {
                    d.declared = [200000u64, (1 << 30) - 1, 5_000_000][rng.usize(0..3)];
                    d.len_w = if rng.bool() { 4 } else { 8 };
                    d.avail = rng.u64(0..50);
                }
                let c = concretise(rng, &[d.clone()]);
                bytes.extend(c.bytes);
                expect.extend(c.expect);
            }
            _ => {
                // gossip frame around a real random message
                d.kind = "gossip".into();
                let msg = random_message(rng);
                let enc = wire::serialize(&msg);
                // the optional trailing user agent of a node announcement makes "cut short" ambiguous
                let is_node = enc[..2] == [0, 2];
                let class = rng.u8(0..10);
                let (payload, inner, exp): (Vec<u8>, &str, Option<Message>) = match class {
                    0 if !is_node && enc.len() > 2 => (enc[..rng.usize(0..enc.len())].to_vec(), "truncated", None),
                    1 => {
                        let mut p = enc.clone();
                        let n = rng.usize(1..30);
                        p.extend(rand_bytes(rng, n));
                        (p, "overlong", Some(msg))
                    }
                    2 => {
                        let mut p = enc.clone();
                        p[0] = 0x7f; // unknown message type
                        (p, "invalid", None)
                    }
                    _ => (enc.clone(), "valid", Some(msg)),
                };
                d.inner = inner.into();
                d.declared = payload.len() as u64;
                d.avail = d.declared;
                d.len_w = [1usize, 2, 4, 8].into_iter().filter(|x| varint_max(*x) >= d.declared).nth(rng.usize(0..3)).unwrap_or(8);
                let mut payload = payload;
                if last && rng.u8(0..5) == 0 {
                    // never completes
                    d.declared = [d.declared + 1 + rng.u64(0..100), 300000, (1 << 30) - 1][rng.usize(0..3)];
                    d.len_w = if d.declared > varint_max(2) { if rng.bool() { 4 } else { 8 } } else { [2usize, 4, 8][rng.usize(0..3)] };
                    d.inner = "valid".into();
                }
                // header by the generic concretiser (zero payload), then splice the real payload in
                let hd = Desc { declared: d.declared, avail: 0, ..d.clone() };
                let c = concretise(rng, &[hd]);
                let sid_start = 4;
                let sid = {
                    // recover the stream id value written by the concretiser
                    let mut x: u64 = (c.bytes[sid_start] & 0x3f) as u64;
                    for y in &c.bytes[sid_start + 1..sid_start + d.sid_w] {
                        x = (x << 8) | *y as u64;
                    }
                    x
                };
                bytes.extend(&c.bytes);
                payload.truncate(d.avail as usize);
                bytes.extend(&payload);
                let good = d.ver == "ok" && d.avail == d.declared;
                expect.push(if good { exp.map(|m| View::Gossip { sid, msg: m }) } else { None });
            }
        }
        let stop = !d.complete();
        frames.push(d);
        if stop {
            break;
        }
    }
    (frames, Concrete { bytes, expect })
}
