//! C25 — sync announcer / fetcher targets. Binds spec/Sync.tla to
//! `radicle::node::sync::{Announcer, Fetcher}`.
//!
//! replay: one CASE per distinct model state: the call sequence reaching it (with every return
//!   value), the projected state, and every outgoing call with return value and projected
//!   successor. The real object is rebuilt by replaying the sequence (every return value compared),
//!   its projection compared, then every outgoing call is made on a freshly rebuilt object.
//!   Gating fields (the statement): success / continue / timed-out / error kind of every call, the
//!   nodes handed out, the to-sync set, and the counters (synced, preferred, succeeded, failed).
//!   Other fields (unsynced / candidate counters, min-vs-max outcome kind, missed / required,
//!   clamped target) are compared too but reported as drift.
//! record: random configurations and call sequences with more nodes; one ndjson record per call for
//!   validation by TraceSync.tla.
use std::collections::{BTreeSet, HashSet, VecDeque};
use std::ops::ControlFlow;
use std::path::Path;
use std::time::Duration;

use hwv::*;
use radicle::node::sync::announce::{self, SuccessfulOutcome as AOutcome, SyncStatus};
use radicle::node::sync::fetch::{self, Candidate, SuccessfulOutcome as FOutcome};
use radicle::node::sync::{
    Announcer, AnnouncerConfig, AnnouncerError, AnnouncerResult, Fetcher, FetcherConfig, FetcherError,
    FetcherResult, ReplicationFactor,
};
use radicle::node::{Address, FetchResult, NodeId};

const NONE: i64 = -1;

/// Node ids whose order agrees with the model's integer order.
struct Ids(Vec<NodeId>);
impl Ids {
    fn new(n: usize) -> Self {
        let mut v: Vec<NodeId> = (0..n).map(|i| radicle::test::arbitrary::gen::<NodeId>(i + 1)).collect();
        v.sort();
        v.dedup();
        if v.len() != n {
            fatal("node id collision");
        }
        Ids(v)
    }
    fn id(&self, i: i64) -> NodeId {
        self.0[i as usize]
    }
    fn ix(&self, n: &NodeId) -> i64 {
        self.0.iter().position(|x| x == n).map(|i| i as i64).unwrap_or(-2)
    }
    fn set(&self, v: &Value) -> BTreeSet<NodeId> {
        v.as_array().unwrap().iter().map(|x| self.id(x.as_i64().unwrap())).collect()
    }
    fn ixs<'a>(&self, it: impl IntoIterator<Item = &'a NodeId>) -> Vec<i64> {
        let mut v: Vec<i64> = it.into_iter().map(|n| self.ix(n)).collect();
        v.sort();
        v
    }
}

fn rf_of(ctor: &Value) -> ReplicationFactor {
    let a = ctor[1].as_u64().unwrap() as usize;
    let b = ctor[2].as_u64().unwrap() as usize;
    match ctor[0].as_str().unwrap() {
        "must" => ReplicationFactor::must_reach(a),
        "range" => ReplicationFactor::range(a, b),
        _ => fatal("bad ctor"),
    }
}
fn rf_json(rf: &ReplicationFactor) -> Value {
    match rf.upper_bound() {
        None => json!({"kind": "must", "lo": rf.lower_bound(), "hi": NONE}),
        Some(u) => json!({"kind": "range", "lo": rf.lower_bound(), "hi": u}),
    }
}
fn addr() -> Address {
    Address::from(std::net::SocketAddr::from(([127, 0, 0, 1], 8776)))
}

// ------------------------------------------------------------------------------------ announcer

enum An {
    Active(Announcer),
    Gone,
}

fn an_progress(p: &announce::Progress) -> Value {
    json!([p.preferred(), p.synced(), p.unsynced()])
}
fn an_synced(ids: &Ids, m: &std::collections::BTreeMap<NodeId, SyncStatus>) -> (Vec<i64>, Vec<i64>) {
    let nodes = ids.ixs(m.keys());
    let already = ids.ixs(m.iter().filter(|(_, s)| matches!(s, SyncStatus::AlreadySynced)).map(|(k, _)| k));
    (nodes, already)
}
fn an_success(ids: &Ids, k: &str, s: &announce::Success) -> Value {
    let (outcome, preferred, synced) = match s.outcome() {
        AOutcome::MinReplicationFactor { preferred, synced } => ("min", preferred, synced),
        AOutcome::MaxReplicationFactor { preferred, synced } => ("max", preferred, synced),
    };
    let (nodes, already) = an_synced(ids, s.synced());
    json!({"k": k, "outcome": outcome, "preferred": preferred, "synced": synced, "nodes": nodes, "already": already})
}

fn an_new(ids: &Ids, cfg: &Value) -> (An, Value) {
    let config = AnnouncerConfig::public(
        ids.id(0),
        rf_of(&cfg["ctor"]),
        ids.set(&cfg["pref"]),
        ids.set(&cfg["synced"]),
        ids.set(&cfg["unsynced"]),
    );
    match Announcer::new(config) {
        Ok(a) => {
            let ret = json!({"k": "Ok", "pref": ids.ixs(a.target().preferred_seeds()), "rf": rf_json(a.target().replicas())});
            (An::Active(a), ret)
        }
        Err(AnnouncerError::NoSeeds) => (An::Gone, json!({"k": "NoSeeds"})),
        Err(AnnouncerError::AlreadySynced(s)) => {
            (An::Gone, json!({"k": "AlreadySynced", "preferred": s.preferred(), "synced": s.synced()}))
        }
        Err(AnnouncerError::Target(_)) => (An::Gone, json!({"k": "Target"})),
    }
}

/// One call on the announcer. Returns (next, ret).
fn an_call(ids: &Ids, a: Announcer, op: &str, arg: &Value) -> (An, Value) {
    match op {
        "synced_with" => {
            let mut a = a;
            let r = a.synced_with(ids.id(arg.as_i64().unwrap()), Duration::from_secs(1));
            let ret = match r {
                ControlFlow::Continue(p) => json!({"k": "continue", "progress": an_progress(&p)}),
                ControlFlow::Break(s) => an_success(ids, "break", &s),
            };
            (An::Active(a), ret)
        }
        "timed_out" => {
            let ret = match a.timed_out() {
                AnnouncerResult::Success(s) => an_success(ids, "Success", &s),
                AnnouncerResult::TimedOut(t) => {
                    let (nodes, already) = an_synced(ids, t.synced());
                    json!({"k": "TimedOut", "nodes": nodes, "already": already, "timed_out": ids.ixs(t.timed_out())})
                }
                AnnouncerResult::NoNodes(n) => {
                    let (nodes, already) = an_synced(ids, n.synced());
                    json!({"k": "NoNodes", "nodes": nodes, "already": already})
                }
            };
            (An::Gone, ret)
        }
        "can_continue" => match a.can_continue() {
            ControlFlow::Continue(a) => (An::Active(a), json!({"k": "continue"})),
            ControlFlow::Break(n) => {
                let (nodes, already) = an_synced(ids, n.synced());
                (An::Gone, json!({"k": "NoNodes", "nodes": nodes, "already": already}))
            }
        },
        _ => fatal(&format!("unknown announcer op {op}")),
    }
}
fn an_proj(ids: &Ids, a: &An) -> Value {
    match a {
        An::Active(a) => json!([ids.ixs(a.to_sync().iter()), an_progress(&a.progress())]),
        An::Gone => json!([]),
    }
}

// -------------------------------------------------------------------------------------- fetcher

enum Fe {
    Active(Fetcher),
    Gone,
}
fn fe_progress(p: &fetch::Progress) -> Value {
    json!([p.candidate(), p.succeeded(), p.failed(), p.preferred()])
}
fn fe_outcome(o: &FOutcome) -> &'static str {
    match o {
        FOutcome::PreferredNodes { .. } => "preferred",
        FOutcome::MinReplicas { .. } => "min",
        FOutcome::MaxReplicas { .. } => "max",
    }
}
fn fe_new(ids: &Ids, cfg: &Value) -> (Fe, Value) {
    let extra: Vec<Candidate> =
        cfg["extra"].as_array().unwrap().iter().map(|x| Candidate::new(ids.id(x.as_i64().unwrap()))).collect();
    let config = FetcherConfig::public(ids.set(&cfg["seeds"]), rf_of(&cfg["ctor"]), ids.id(0)).with_candidates(extra);
    match Fetcher::new(config) {
        Ok(f) => {
            let ret = json!({"k": "Ok", "seeds": ids.ixs(f.target().preferred_seeds()), "rf": rf_json(f.target().replicas())});
            (Fe::Active(f), ret)
        }
        Err(FetcherError::NoCandidates) => (Fe::Gone, json!({"k": "NoCandidates"})),
        Err(FetcherError::Target(_)) => (Fe::Gone, json!({"k": "Target"})),
        Err(_) => (Fe::Gone, json!({"k": "other"})),
    }
}
fn fetch_result(ok: bool) -> FetchResult {
    if ok {
        FetchResult::Success { updated: vec![], namespaces: HashSet::new(), clone: false }
    } else {
        FetchResult::Failed { reason: "verif".into() }
    }
}
fn fe_call(ids: &Ids, f: Fetcher, op: &str, arg: &Value, ok: bool) -> (Fe, Value) {
    let mut f = f;
    match op {
        "next_node" => {
            let r = f.next_node().map(|n| ids.ix(&n)).unwrap_or(NONE);
            (Fe::Active(f), json!(r))
        }
        "ready_to_fetch" => {
            f.ready_to_fetch(ids.id(arg.as_i64().unwrap()), addr());
            (Fe::Active(f), json!(NONE))
        }
        "next_fetch" => {
            let r = f.next_fetch().map(|(n, _)| ids.ix(&n)).unwrap_or(NONE);
            (Fe::Active(f), json!(r))
        }
        "fetch_failed" => {
            f.fetch_failed(ids.id(arg.as_i64().unwrap()), "verif");
            (Fe::Active(f), json!(NONE))
        }
        "fetch_complete" => {
            let ret = match f.fetch_complete(ids.id(arg.as_i64().unwrap()), fetch_result(ok)) {
                ControlFlow::Continue(p) => json!({"k": "continue", "progress": fe_progress(&p)}),
                ControlFlow::Break(s) => {
                    json!({"k": "break", "outcome": fe_outcome(s.outcome()), "progress": fe_progress(&s.progress())})
                }
            };
            (Fe::Active(f), ret)
        }
        "finish" => {
            let ret = match f.finish() {
                FetcherResult::TargetReached(s) => {
                    json!({"k": "TargetReached", "outcome": fe_outcome(s.outcome()), "progress": fe_progress(&s.progress())})
                }
                FetcherResult::TargetError(m) => {
                    json!({"k": "TargetError", "progress": fe_progress(&m.progress()),
                           "missed": ids.ixs(m.missed_nodes().iter()), "required": m.required_nodes()})
                }
            };
            (Fe::Gone, ret)
        }
        _ => fatal(&format!("unknown fetcher op {op}")),
    }
}
fn fe_proj(f: &Fe) -> Value {
    match f {
        Fe::Active(f) => fe_progress(&f.progress()),
        Fe::Gone => json!([]),
    }
}

// ------------------------------------------------------------------------------------- compare

/// Normalise model JSON: sets come out of TLC in arbitrary order.
fn norm(v: &Value) -> Value {
    match v {
        Value::Object(m) => {
            let mut keys: Vec<&String> = m.keys().collect();
            keys.sort();
            let mut o = serde_json::Map::new();
            for k in keys {
                let x = &m[k];
                // set-valued fields
                let x = if matches!(k.as_str(), "nodes" | "already" | "timed_out" | "missed" | "pref" | "seeds") {
                    let mut a: Vec<i64> = x.as_array().map(|a| a.iter().map(|y| y.as_i64().unwrap()).collect()).unwrap_or_default();
                    a.sort();
                    json!(a)
                } else {
                    norm(x)
                };
                o.insert(k.clone(), x);
            }
            Value::Object(o)
        }
        Value::Array(a) => Value::Array(a.iter().map(norm).collect()),
        _ => v.clone(),
    }
}

/// The part of a return value the statement talks about.
fn gate(m: &str, op: &str, ret: &Value) -> Value {
    let k = ret.get("k").cloned().unwrap_or(Value::Null);
    match (m, op) {
        ("announcer", "new") => json!([k, ret.get("preferred"), ret.get("synced")]),
        ("announcer", "synced_with") | ("announcer", "timed_out") | ("announcer", "can_continue") => {
            // kind, counters (preferred, synced), who is counted
            let counts = match ret.get("progress") {
                Some(p) => json!([p[0], p[1]]),
                None => json!([ret.get("preferred"), ret.get("synced")]),
            };
            json!([k, counts, ret.get("nodes"), ret.get("timed_out")])
        }
        ("fetcher", "new") => json!([k]),
        ("fetcher", "next_node") | ("fetcher", "next_fetch") => ret.clone(),
        ("fetcher", "fetch_complete") | ("fetcher", "finish") => {
            let p = &ret["progress"];
            json!([k, p[1], p[2], p[3]]) // succeeded, failed, preferred
        }
        _ => Value::Null,
    }
}
fn gate_proj(m: &str, p: &Value) -> Value {
    if p.as_array().map(|a| a.is_empty()).unwrap_or(true) {
        return json!([]);
    }
    match m {
        "announcer" => json!([p[0], p[1][0], p[1][1]]),
        _ => json!([p[1], p[2], p[3]]),
    }
}

#[derive(Default)]
struct Stats {
    calls: u64,
    drift: u64,
    fails: Vec<Value>,
    drifts: Vec<Value>,
    nontrivial: u64,
}

struct Machine {
    an: An,
    fe: Fe,
}

/// Apply one call; returns (ret, proj) of the real object, or None when the object is gone.
fn apply(ids: &Ids, m: &str, mach: &mut Machine, op: &str, arg: &Value, ok: bool) -> Option<(Value, Value)> {
    if op == "new" {
        if m == "announcer" {
            let (a, ret) = an_new(ids, arg);
            mach.an = a;
            return Some((ret, an_proj(ids, &mach.an)));
        } else {
            let (f, ret) = fe_new(ids, arg);
            mach.fe = f;
            return Some((ret, fe_proj(&mach.fe)));
        }
    }
    if m == "announcer" {
        match std::mem::replace(&mut mach.an, An::Gone) {
            An::Active(a) => {
                let (next, ret) = an_call(ids, a, op, arg);
                mach.an = next;
                Some((ret, an_proj(ids, &mach.an)))
            }
            An::Gone => None,
        }
    } else {
        match std::mem::replace(&mut mach.fe, Fe::Gone) {
            Fe::Active(f) => {
                let (next, ret) = fe_call(ids, f, op, arg, ok);
                mach.fe = next;
                Some((ret, fe_proj(&mach.fe)))
            }
            Fe::Gone => None,
        }
    }
}

/// Replays `path` on a fresh machine, comparing returns when `check` is set. Returns the machine
/// or the index of the first gating mismatch.
fn run_path(ids: &Ids, m: &str, path: &[Value], st: &mut Stats, check: bool, case_path: &Value) -> Option<Machine> {
    let mut mach = Machine { an: An::Gone, fe: Fe::Gone };
    for (i, step) in path.iter().enumerate() {
        let op = step[0].as_str().unwrap();
        let ok = step[2].as_bool().unwrap();
        let r = guard(|| apply(ids, m, &mut mach, op, &step[1], ok));
        let (ret, _proj) = match r {
            Ok(Some(x)) => x,
            Ok(None) => {
                if check {
                    st.fails.push(json!({"ok": false, "m": m, "path": case_path, "step": i, "what": "object consumed earlier than in the model"}));
                }
                return None;
            }
            Err(p) => {
                if check {
                    st.fails.push(json!({"ok": false, "m": m, "path": case_path, "step": i, "what": format!("panic: {p}")}));
                }
                return None;
            }
        };
        if check {
            st.calls += 1;
            let exp = norm(&step[3]);
            let act = norm(&ret);
            if gate(m, op, &exp) != gate(m, op, &act) {
                st.fails.push(json!({"ok": false, "m": m, "path": case_path, "step": i, "what": "return value",
                                     "call": [op, step[1], ok], "expected": exp, "actual": act}));
                return None;
            } else if exp != act {
                st.drift += 1;
                if st.drifts.len() < 20 {
                    st.drifts.push(json!({"drift": true, "m": m, "call": [op, step[1], ok], "expected": exp, "actual": act}));
                }
            }
        }
    }
    Some(mach)
}

fn replay_case(ids: &Ids, c: &Value, st: &mut Stats) {
    let m = c["m"].as_str().unwrap();
    let path = c["path"].as_array().unwrap();
    let case_path = json!(path.iter().map(|s| json!([s[0], s[1], s[2]])).collect::<Vec<_>>());
    let Some(mach) = run_path(ids, m, path, st, true, &case_path) else { return };
    // projected state
    let proj = if m == "announcer" { an_proj(ids, &mach.an) } else { fe_proj(&mach.fe) };
    let exp = norm(&c["proj"]);
    if gate_proj(m, &exp) != gate_proj(m, &proj) {
        st.fails.push(json!({"ok": false, "m": m, "path": case_path, "step": path.len(), "what": "projected state",
                             "expected": exp, "actual": proj}));
        return;
    } else if exp != proj {
        st.drift += 1;
        if st.drifts.len() < 20 {
            st.drifts.push(json!({"drift": true, "m": m, "path": case_path, "what": "projected state", "expected": exp, "actual": proj}));
        }
    }
    let outs = c["outs"].as_array().unwrap();
    if path.len() >= 3 && !outs.is_empty() {
        st.nontrivial += 1;
    }
    for o in outs {
        let op = o[0].as_str().unwrap();
        let ok = o[2].as_bool().unwrap();
        let Some(mut mach) = run_path(ids, m, path, st, false, &case_path) else { return };
        st.calls += 1;
        let r = guard(|| apply(ids, m, &mut mach, op, &o[1], ok));
        let call = json!([op, o[1], ok]);
        match r {
            Ok(Some((ret, proj))) => {
                let (er, ep) = (norm(&o[3]), norm(&o[4]));
                let act = norm(&ret);
                if gate(m, op, &er) != gate(m, op, &act) {
                    st.fails.push(json!({"ok": false, "m": m, "path": case_path, "step": path.len(), "what": "return value",
                                         "call": call, "expected": er, "actual": act}));
                } else if gate_proj(m, &ep) != gate_proj(m, &proj) {
                    st.fails.push(json!({"ok": false, "m": m, "path": case_path, "step": path.len(), "what": "projected state after call",
                                         "call": call, "expected": ep, "actual": proj}));
                } else if er != act || ep != proj {
                    st.drift += 1;
                    if st.drifts.len() < 20 {
                        st.drifts.push(json!({"drift": true, "m": m, "path": case_path, "call": call,
                                              "expected": [er, ep], "actual": [act, proj]}));
                    }
                }
            }
            Ok(None) => st.fails.push(json!({"ok": false, "m": m, "path": case_path, "step": path.len(), "what": "object gone", "call": call})),
            Err(p) => st.fails.push(json!({"ok": false, "m": m, "path": case_path, "step": path.len(), "what": format!("panic: {p}"), "call": call})),
        }
    }
}

// -------------------------------------------------------------------------------------- record

fn rand_set(rng: &mut fastrand::Rng, n: i64, p: u8) -> Vec<i64> {
    (0..n).filter(|_| rng.u8(0..10) < p).collect()
}
fn rand_ctor(rng: &mut fastrand::Rng, maxr: usize) -> Value {
    if rng.bool() {
        json!(["must", rng.usize(0..=maxr), 0])
    } else {
        json!(["range", rng.usize(0..=maxr), rng.usize(1..=maxr)])
    }
}

fn record(ids: &Ids, rng: &mut fastrand::Rng, o: &mut Out, n: i64) {
    let mut mach = Machine { an: An::Gone, fe: Fe::Gone };
    if rng.bool() {
        let m = "announcer";
        let cfg = json!({"pref": rand_set(rng, n, 3), "synced": rand_set(rng, n, 2), "unsynced": rand_set(rng, n, 6),
                         "ctor": rand_ctor(rng, 5)});
        let (ret, proj) = apply(ids, m, &mut mach, "new", &cfg, true).unwrap();
        o.emit(&json!({"m": m, "op": "new", "arg": cfg, "ok": true, "ret": ret, "proj": proj}));
        for _ in 0..rng.usize(1..14) {
            if !matches!(mach.an, An::Active(_)) {
                break;
            }
            let (op, arg) = match rng.u8(0..12) {
                0 => ("timed_out", json!(NONE)),
                1 | 2 => ("can_continue", json!(NONE)),
                _ => ("synced_with", json!(rng.i64(0..n))),
            };
            let (ret, proj) = apply(ids, m, &mut mach, op, &arg, true).unwrap();
            o.emit(&json!({"m": m, "op": op, "arg": arg, "ok": true, "ret": ret, "proj": proj}));
        }
    } else {
        let m = "fetcher";
        let extra: Vec<i64> = (0..rng.usize(0..5)).map(|_| rng.i64(0..n)).collect();
        let cfg = json!({"seeds": rand_set(rng, n, 3), "extra": extra, "ctor": rand_ctor(rng, 4)});
        let (ret, proj) = apply(ids, m, &mut mach, "new", &cfg, true).unwrap();
        o.emit(&json!({"m": m, "op": "new", "arg": cfg, "ok": true, "ret": ret, "proj": proj}));
        let mut handed: VecDeque<i64> = VecDeque::new();
        for _ in 0..rng.usize(1..24) {
            if !matches!(mach.fe, Fe::Active(_)) {
                break;
            }
            // mostly the protocol (next_node -> ready -> next_fetch -> complete), sometimes arbitrary nodes
            let pick = |rng: &mut fastrand::Rng, handed: &VecDeque<i64>| -> i64 {
                if !handed.is_empty() && rng.u8(0..4) != 0 { handed[rng.usize(0..handed.len())] } else { rng.i64(0..n) }
            };
            let (op, arg, ok) = match rng.u8(0..16) {
                0 => ("finish", json!(NONE), true),
                1..=4 => ("next_node", json!(NONE), true),
                5..=7 => ("ready_to_fetch", json!(pick(rng, &handed)), true),
                8..=10 => ("next_fetch", json!(NONE), true),
                11 => ("fetch_failed", json!(pick(rng, &handed)), false),
                _ => ("fetch_complete", json!(pick(rng, &handed)), rng.u8(0..4) != 0),
            };
            let (ret, proj) = apply(ids, m, &mut mach, op, &arg, ok).unwrap();
            if (op == "next_node" || op == "next_fetch") && ret.as_i64().unwrap() >= 0 {
                handed.push_back(ret.as_i64().unwrap());
            }
            o.emit(&json!({"m": m, "op": op, "arg": arg, "ok": ok, "ret": ret, "proj": proj}));
        }
    }
}

fn main() {
    let args = Args::parse();
    quiet_panics();
    let out = Path::new(args.req("--out")).to_path_buf();
    match args.req("--mode") {
        "replay" => {
            let cases = read_ndjson(Path::new(args.req("--cases")));
            let nthreads = (args.num("--threads", 6) as usize).max(1);
            let mut chunks: Vec<Vec<Value>> = (0..nthreads).map(|_| Vec::new()).collect();
            for (i, c) in cases.into_iter().enumerate() {
                chunks[i % nthreads].push(c);
            }
            let handles: Vec<_> = chunks
                .into_iter()
                .map(|chunk| {
                    std::thread::spawn(move || {
                        let ids = Ids::new(12);
                        let mut st = Stats::default();
                        for c in &chunk {
                            replay_case(&ids, c, &mut st);
                        }
                        st
                    })
                })
                .collect();
            let mut o = Out::create(&out);
            let (mut calls, mut drift, mut nontrivial, mut nfail) = (0, 0, 0, 0);
            let mut drifts = 0;
            for h in handles {
                let st = h.join().unwrap_or_else(|_| fatal("worker thread panicked"));
                for f in st.fails.iter().take(300) {
                    o.emit(f);
                }
                for d in &st.drifts {
                    if drifts < 20 {
                        o.emit(d);
                        drifts += 1;
                    }
                }
                nfail += st.fails.len();
                calls += st.calls;
                drift += st.drift;
                nontrivial += st.nontrivial;
            }
            o.emit(&json!({"summary": true, "calls": calls, "drift": drift, "states_nontrivial": nontrivial, "failures": nfail}));
            o.finish();
        }
        "trace" => {
            // print what the real objects answer along one call sequence (used by --replay)
            let cases = read_ndjson(Path::new(args.req("--cases")));
            let ids = Ids::new(12);
            let mut o = Out::create(&out);
            for c in &cases {
                let m = c["m"].as_str().unwrap();
                let mut steps: Vec<Value> = c["path"].as_array().unwrap().clone();
                if let Some(call) = args.get("--call") {
                    steps.push(serde_json::from_str(call).unwrap_or_else(|_| fatal("bad --call")));
                }
                let mut mach = Machine { an: An::Gone, fe: Fe::Gone };
                for s in &steps {
                    let op = s[0].as_str().unwrap();
                    let ok = s[2].as_bool().unwrap_or(true);
                    match guard(|| apply(&ids, m, &mut mach, op, &s[1], ok)) {
                        Ok(Some((ret, proj))) => o.emit(&json!({"call": [op, s[1], ok], "ret": ret, "proj": proj})),
                        Ok(None) => o.emit(&json!({"call": [op, s[1], ok], "ret": "object already consumed"})),
                        Err(p) => o.emit(&json!({"call": [op, s[1], ok], "panic": p})),
                    }
                }
            }
            o.finish();
        }
        "record" => {
            let n = args.num("--n", 200);
            let nodes = args.num("--nodes", 7) as i64;
            let ids = Ids::new(nodes as usize);
            let mut rng = fastrand::Rng::with_seed(seed());
            let mut o = Out::create(&out);
            for _ in 0..n {
                record(&ids, &mut rng, &mut o, nodes);
            }
            o.finish();
        }
        _ => fatal("unknown mode"),
    }
}
