//! C07 — issue and patch actions obey the authorisation rules (spec/Tracker.tla).
//! See `../tracker.rs` (shared with c08_merge) for the engine.
#[path = "../tracker.rs"]
mod tracker;

fn main() {
    tracker::main_with(false)
}
