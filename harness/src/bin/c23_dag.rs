//! C23 — DAG traversals, pruning, merge. Binds spec/Dag.tla to `radicle_dag::Dag`.
//!
//! replay: every reachable graph of MCDag (one CASE line per graph, carrying the arguments and the
//!   model's answers) is built as a real `Dag<u8, u8>` through `node` / `dependency`; `sorted_by`,
//!   `fold`, `prune_by`, `remove`, `merge` are run for every listed argument.
//!   Gating (the statement): result graphs (nodes, both adjacency directions, tips, roots) equal the
//!   model's; visit logs cover exactly the model's `Visited` set and respect dependencies; sorted
//!   output is a permutation that respects dependencies.
//!   Drift (informational): exact visiting order / sibling sets differ from the transcribed code.
//! record: random operation sequences on larger graphs, one ndjson record per call with the
//!   projected state, for validation by TraceDag.tla.
use std::collections::{BTreeMap, BTreeSet};
use std::ops::ControlFlow;
use std::path::Path;

use hwv::*;
use radicle_dag::Dag;

const MAXK: u8 = 40;

type G = Dag<u8, u8>;

/// Projection of a real graph: nodes, edges as seen from `dependencies`, edges as seen from
/// `dependents`, tips, roots, values.
#[derive(Debug, Clone, PartialEq, Eq)]
struct Proj {
    n: BTreeSet<u8>,
    d: BTreeSet<(u8, u8)>,
    r: BTreeSet<(u8, u8)>,
    tips: BTreeSet<u8>,
    roots: BTreeSet<u8>,
    vals: BTreeMap<u8, u8>,
    len: usize,
}

fn project(g: &G) -> Proj {
    let mut p = Proj {
        n: BTreeSet::new(),
        d: BTreeSet::new(),
        r: BTreeSet::new(),
        tips: g.tips().map(|(k, _)| *k).collect(),
        roots: g.roots().map(|(k, _)| *k).collect(),
        vals: BTreeMap::new(),
        len: g.len(),
    };
    for k in 0..=MAXK {
        if let Some(node) = g.get(&k) {
            p.n.insert(k);
            p.vals.insert(k, node.value);
            for t in &node.dependencies {
                p.d.insert((k, *t));
            }
            for f in &node.dependents {
                p.r.insert((*f, k));
            }
        }
    }
    p
}

impl Proj {
    fn json(&self) -> Value {
        json!({"n": self.n, "d": self.d.iter().map(|(a, b)| vec![*a, *b]).collect::<Vec<_>>(),
               "r": self.r.iter().map(|(a, b)| vec![*a, *b]).collect::<Vec<_>>(),
               "tips": self.tips, "roots": self.roots, "len": self.len})
    }
    /// Compare with a model graph {n, d, tips, roots}.
    fn matches(&self, m: &Model) -> bool {
        self.n == m.n && self.d == m.d && self.r == m.d && self.tips == m.tips && self.roots == m.roots && self.len == m.n.len()
    }
}

#[derive(Debug, Clone)]
struct Model {
    n: BTreeSet<u8>,
    d: BTreeSet<(u8, u8)>,
    tips: BTreeSet<u8>,
    roots: BTreeSet<u8>,
}

fn u8s(v: &Value) -> Vec<u8> {
    v.as_array().unwrap_or_else(|| fatal("expected array")).iter().map(|x| x.as_u64().unwrap() as u8).collect()
}
fn set(v: &Value) -> BTreeSet<u8> {
    u8s(v).into_iter().collect()
}
fn pairs(v: &Value) -> BTreeSet<(u8, u8)> {
    v.as_array().unwrap().iter().map(|p| (p[0].as_u64().unwrap() as u8, p[1].as_u64().unwrap() as u8)).collect()
}
fn model(v: &Value) -> Model {
    Model { n: set(&v["n"]), d: pairs(&v["d"]), tips: set(&v["tips"]), roots: set(&v["roots"]) }
}

fn build(n: &BTreeSet<u8>, d: &BTreeSet<(u8, u8)>, val: u8) -> G {
    let mut g = Dag::new();
    for k in n {
        g.node(*k, val);
    }
    for (a, b) in d {
        g.dependency(*a, *b);
    }
    g
}

fn respects(log: &[u8], d: &BTreeSet<(u8, u8)>) -> bool {
    for (i, a) in log.iter().enumerate() {
        for b in &log[i + 1..] {
            // b comes after a: a must not depend on b
            if d.contains(&(*a, *b)) {
                return false;
            }
        }
    }
    true
}
fn is_perm(log: &[u8], s: &BTreeSet<u8>) -> bool {
    log.len() == s.len() && log.iter().copied().collect::<BTreeSet<_>>() == *s
}

fn rank_of(rank: &[u8], k: u8) -> u8 {
    // rank sequence is indexed by key position (keys 1..N); keys beyond get their own value
    rank.get((k as usize).wrapping_sub(1)).copied().unwrap_or(k)
}

fn do_fold(g: &G, roots: &[u8], stop: &BTreeSet<u8>) -> Vec<u8> {
    g.fold(roots, Vec::new(), |mut acc: Vec<u8>, k, _| {
        acc.push(*k);
        if stop.contains(k) {
            ControlFlow::Break(acc)
        } else {
            ControlFlow::Continue(acc)
        }
    })
}

fn do_prune(g: &mut G, roots: &[u8], stop: &BTreeSet<u8>, rank: &[u8]) -> (Vec<u8>, Vec<Vec<u8>>) {
    let mut log = Vec::new();
    let mut sib = Vec::new();
    g.prune_by(
        roots,
        |k, _, siblings| {
            log.push(*k);
            let mut s: Vec<u8> = siblings.map(|(k, _)| *k).collect();
            s.sort();
            sib.push(s);
            if stop.contains(k) {
                ControlFlow::Break(())
            } else {
                ControlFlow::Continue(())
            }
        },
        |(a, _), (b, _)| rank_of(rank, *a).cmp(&rank_of(rank, *b)),
    );
    (log, sib)
}

#[derive(Default)]
struct Stats {
    evals: u64,
    drift: u64,
    fails: Vec<Value>,
    sorted: u64,
    folds: u64,
    prunes: u64,
    removes: u64,
    merges: u64,
    nontrivial: u64,
}

impl Stats {
    fn fail(&mut self, what: &str, g: &Model, args: Value, expected: Value, actual: Value) {
        if self.fails.len() < 200 {
            self.fails.push(json!({"ok": false, "what": what,
                "graph": {"n": g.n, "d": g.d.iter().map(|(a,b)| vec![*a,*b]).collect::<Vec<_>>()},
                "args": args, "expected": expected, "actual": actual}));
        }
    }
}

fn replay_case(c: &Value, st: &mut Stats) {
    let gm = model(&c["g"]);
    // the graph itself
    let g0 = match guard(|| build(&gm.n, &gm.d, 1)) {
        Ok(g) => g,
        Err(p) => {
            st.fail("build", &gm, json!({}), json!("graph"), json!(format!("panic: {p}")));
            return;
        }
    };
    st.evals += 1;
    let p0 = project(&g0);
    if !p0.matches(&gm) {
        st.fail("build", &gm, json!({}), c["g"].clone(), p0.json());
        return;
    }
    if gm.d.len() >= 2 {
        st.nontrivial += 1;
    }
    // sorted_by
    for s in c["sorted"].as_array().unwrap() {
        let rank = u8s(&s[0]);
        let exp = u8s(&s[1]);
        st.evals += 1;
        st.sorted += 1;
        match guard(|| g0.sorted_by(|a, b| rank_of(&rank, *a).cmp(&rank_of(&rank, *b)))) {
            Ok(v) => {
                let v: Vec<u8> = v.into_iter().collect();
                if !(is_perm(&v, &gm.n) && respects(&v, &gm.d)) {
                    st.fail("sorted_by", &gm, json!({"rank": rank}), json!({"topological order, model": exp}), json!(v));
                } else if v != exp {
                    st.drift += 1;
                }
            }
            Err(p) => st.fail("sorted_by", &gm, json!({"rank": rank}), json!(exp), json!(format!("panic: {p}"))),
        }
        if rank.iter().enumerate().all(|(i, r)| *r as usize == i + 1) {
            // `sorted()` is `sorted_by(Ord::cmp)`
            if let Ok(v) = guard(|| g0.sorted()) {
                let v: Vec<u8> = v.into_iter().collect();
                if !(is_perm(&v, &gm.n) && respects(&v, &gm.d)) {
                    st.fail("sorted", &gm, json!({}), json!(exp), json!(v));
                }
            }
        }
    }
    // fold
    for f in c["folds"].as_array().unwrap() {
        let roots = u8s(&f[0]);
        let stop = set(&f[1]);
        let exp = u8s(&f[2]);
        let visited = set(&f[3]);
        st.evals += 1;
        st.folds += 1;
        match guard(|| do_fold(&g0, &roots, &stop)) {
            Ok(log) => {
                if !(is_perm(&log, &visited) && respects(&log, &gm.d)) {
                    st.fail("fold", &gm, json!({"roots": roots, "stop": stop}), json!({"visited": visited, "model_log": exp}), json!(log));
                } else if log != exp {
                    st.drift += 1;
                }
            }
            Err(p) => st.fail("fold", &gm, json!({"roots": roots, "stop": stop}), json!(exp), json!(format!("panic: {p}"))),
        }
    }
    // prune_by
    for f in c["prunes"].as_array().unwrap() {
        let roots = u8s(&f[0]);
        let stop = set(&f[1]);
        let rank = u8s(&f[2]);
        let exp_log = u8s(&f[3]);
        let exp_sib: Vec<Vec<u8>> = f[4].as_array().unwrap().iter().map(u8s).collect();
        let after = model(&f[5]);
        let visited = set(&f[6]);
        st.evals += 1;
        st.prunes += 1;
        let args = || json!({"roots": roots, "stop": stop, "rank": rank});
        let mut g = g0.clone();
        match guard(|| do_prune(&mut g, &roots, &stop, &rank)) {
            Ok((log, sib)) => {
                let p = project(&g);
                if !p.matches(&after) {
                    st.fail("prune_by:graph", &gm, args(), f[5].clone(), p.json());
                } else if !(is_perm(&log, &visited) && respects(&log, &gm.d)) {
                    st.fail("prune_by:visits", &gm, args(), json!({"visited": visited, "model_log": exp_log}), json!(log));
                } else if log != exp_log || sib != exp_sib {
                    st.drift += 1;
                }
            }
            Err(p) => st.fail("prune_by", &gm, args(), f[5].clone(), json!(format!("panic: {p}"))),
        }
        // `prune` is `prune_by` with key order
        if rank.iter().enumerate().all(|(i, r)| *r as usize == i + 1) {
            let mut g = g0.clone();
            let r = guard(|| {
                g.prune(&roots, |k, _, _| if stop.contains(k) { ControlFlow::Break(()) } else { ControlFlow::Continue(()) })
            });
            if r.is_err() || !project(&g).matches(&after) {
                st.fail("prune:graph", &gm, args(), f[5].clone(), project(&g).json());
            }
        }
    }
    // remove
    for f in c["removes"].as_array().unwrap() {
        let k = f[0].as_u64().unwrap() as u8;
        let after = model(&f[1]);
        st.evals += 1;
        st.removes += 1;
        let mut g = g0.clone();
        match guard(|| g.remove(&k).map(|n| n.key)) {
            Ok(ret) => {
                let p = project(&g);
                let ret_ok = ret == if gm.n.contains(&k) { Some(k) } else { None };
                if !p.matches(&after) || !ret_ok {
                    st.fail("remove", &gm, json!({"k": k}), f[1].clone(), p.json());
                }
            }
            Err(p) => st.fail("remove", &gm, json!({"k": k}), f[1].clone(), json!(format!("panic: {p}"))),
        }
    }
    // merge
    for f in c["merges"].as_array().unwrap() {
        let on = set(&f[0]);
        let od = pairs(&f[1]);
        let after = model(&f[2]);
        st.evals += 1;
        st.merges += 1;
        let args = || json!({"other_n": on, "other_d": od.iter().map(|(a, b)| vec![*a, *b]).collect::<Vec<_>>()});
        let other = build(&on, &od, 2);
        let mut g = g0.clone();
        match guard(|| g.merge(other)) {
            Ok(()) => {
                let p = project(&g);
                // values: nodes already present keep their value, new ones bring the other's
                let vals_ok = p.vals.iter().all(|(k, v)| *v == if gm.n.contains(k) { 1 } else { 2 });
                if !p.matches(&after) {
                    st.fail("merge", &gm, args(), f[2].clone(), p.json());
                } else if !vals_ok {
                    st.drift += 1;
                }
            }
            Err(p) => st.fail("merge", &gm, args(), f[2].clone(), json!(format!("panic: {p}"))),
        }
    }
}

// ------------------------------------------------------------------------------------------- record

struct Ref {
    // reference bookkeeping used only to generate legal inputs (acyclic edges): a fixed random
    // topological position per key for the whole run
    pos: Vec<usize>,
}

fn record_run(rng: &mut fastrand::Rng, o: &mut Out, maxk: u8, steps: usize) {
    o.emit(&json!({"op": "reset"}));
    let mut g: G = Dag::new();
    let mut order: Vec<usize> = (0..=maxk as usize).collect();
    rng.shuffle(&mut order);
    let r = Ref { pos: order };
    let legal = |a: u8, b: u8| r.pos[a as usize] > r.pos[b as usize]; // a may depend on b
    let rand_set = |rng: &mut fastrand::Rng, p: u8| -> BTreeSet<u8> { (0..=maxk).filter(|_| rng.u8(0..10) < p).collect() };
    for _ in 0..steps {
        let p = project(&g);
        let present: Vec<u8> = p.n.iter().copied().collect();
        match rng.u8(0..20) {
            0..=4 => {
                let k = rng.u8(0..=maxk);
                if !p.n.contains(&k) {
                    g.node(k, 1);
                    o.emit(&json!({"op": "node", "k": k, "st": project(&g).json()}));
                }
            }
            5..=10 => {
                if present.len() >= 2 {
                    let a = present[rng.usize(0..present.len())];
                    let b = present[rng.usize(0..present.len())];
                    if a != b && legal(a, b) {
                        g.dependency(a, b);
                        o.emit(&json!({"op": "dep", "a": a, "b": b, "st": project(&g).json()}));
                    }
                }
            }
            11 => {
                let k = rng.u8(0..=maxk);
                let ret = g.remove(&k).map(|n| n.key);
                o.emit(&json!({"op": "remove", "k": k, "ret": ret.is_some(), "st": project(&g).json()}));
            }
            12 | 13 => {
                let rank: Vec<u8> = {
                    let mut v: Vec<u8> = (1..=maxk + 1).collect();
                    rng.shuffle(&mut v);
                    v
                };
                // sorted_by with keys k -> rank[k]
                let v: Vec<u8> = g.sorted_by(|a, b| rank[*a as usize].cmp(&rank[*b as usize])).into_iter().collect();
                o.emit(&json!({"op": "sorted", "res": v}));
            }
            14 | 15 => {
                let roots: Vec<u8> = if rng.bool() { p.roots.iter().copied().collect() } else { rand_set(rng, 3).into_iter().collect() };
                let stop = rand_set(rng, 2);
                let log = do_fold(&g, &roots, &stop);
                o.emit(&json!({"op": "fold", "roots": roots, "stop": stop, "log": log}));
            }
            16 | 17 => {
                let mut roots: Vec<u8> = if rng.bool() { p.roots.iter().copied().collect() } else { rand_set(rng, 3).into_iter().collect() };
                rng.shuffle(&mut roots);
                let stop = rand_set(rng, 1);
                let rank: Vec<u8> = {
                    let mut v: Vec<u8> = (0..=maxk + 1).collect();
                    rng.shuffle(&mut v);
                    v
                };
                let mut log = Vec::new();
                g.prune_by(
                    &roots,
                    |k, _, _| {
                        log.push(*k);
                        if stop.contains(k) { ControlFlow::Break(()) } else { ControlFlow::Continue(()) }
                    },
                    |(a, _), (b, _)| rank[*a as usize].cmp(&rank[*b as usize]),
                );
                o.emit(&json!({"op": "prune", "roots": roots, "stop": stop, "log": log, "st": project(&g).json()}));
            }
            _ => {
                // merge a random graph that is consistent with the run's topological positions
                let on = rand_set(rng, 4);
                let ov: Vec<u8> = on.iter().copied().collect();
                let mut od = BTreeSet::new();
                for a in &ov {
                    for b in &ov {
                        if a != b && legal(*a, *b) && rng.u8(0..10) < 3 {
                            od.insert((*a, *b));
                        }
                    }
                }
                let other = build(&on, &od, 2);
                g.merge(other);
                o.emit(&json!({"op": "merge", "n": on, "d": od.iter().map(|(a, b)| vec![*a, *b]).collect::<Vec<_>>(),
                               "st": project(&g).json()}));
            }
        }
    }
}

fn main() {
    let args = Args::parse();
    quiet_panics();
    let out = Path::new(args.req("--out")).to_path_buf();
    match args.req("--mode") {
        "replay" => {
            let cases = read_ndjson(Path::new(args.req("--cases")));
            let nthreads = (args.num("--threads", 6) as usize).max(1);
            let mut chunks: Vec<Vec<Value>> = (0..nthreads).map(|_| Vec::new()).collect();
            for (i, c) in cases.into_iter().enumerate() {
                chunks[i % nthreads].push(c);
            }
            let handles: Vec<_> = chunks
                .into_iter()
                .map(|chunk| {
                    std::thread::spawn(move || {
                        let mut st = Stats::default();
                        for c in &chunk {
                            replay_case(c, &mut st);
                        }
                        st
                    })
                })
                .collect();
            let mut o = Out::create(&out);
            let mut tot = Stats::default();
            for h in handles {
                let st = h.join().unwrap_or_else(|_| fatal("worker thread panicked"));
                for f in &st.fails {
                    o.emit(f);
                }
                tot.evals += st.evals;
                tot.drift += st.drift;
                tot.sorted += st.sorted;
                tot.folds += st.folds;
                tot.prunes += st.prunes;
                tot.removes += st.removes;
                tot.merges += st.merges;
                tot.nontrivial += st.nontrivial;
            }
            o.emit(&json!({"summary": true, "evaluations": tot.evals, "drift": tot.drift, "sorted": tot.sorted,
                           "folds": tot.folds, "prunes": tot.prunes, "removes": tot.removes, "merges": tot.merges,
                           "graphs_nontrivial": tot.nontrivial}));
            o.finish();
        }
        "record" => {
            let n = args.num("--n", 100);
            let maxk = args.num("--keys", 9) as u8;
            let steps = args.num("--steps", 30) as usize;
            let mut rng = fastrand::Rng::with_seed(seed());
            let mut o = Out::create(&out);
            for _ in 0..n {
                record_run(&mut rng, &mut o, maxk, steps);
            }
            o.finish();
        }
        _ => fatal("unknown mode"),
    }
}
