//! C22 — CRDT merges. Binds spec/Crdt.tla to `radicle_crdt`.
//!
//! replay:
//!  * "laws" cases {ty, a, b, j}: every PAIR of the model's bounded carrier with the model's join.
//!    Both values are built as real CRDTs through the public constructors / insert / remove / set;
//!    the real `Semilattice::join` is compared (PartialEq + observers) with the value built from the
//!    model's join (drift if different), and the laws are re-checked natively on the real values:
//!    commutativity and idempotence on every pair, associativity on EVERY TRIPLE of the carrier
//!    collected from the cases (gating).
//!  * "ops" cases {path, m, obs}: a delivery order of insert / remove operations; applied to a real
//!    `LWWMap<u8, Max<u8>, u64>` (and, value-less, `LWWSet<u8, u64>`) in the given order, reversed
//!    and rotated; `get` / `contains_key` must equal the model's declarative ObserveSpec (gating)
//!    and all orders must give equal structures (gating); structure equals the model's (drift).
//! record: three replicas of a bundle of CRDTs with random operations and merges over larger
//!   domains, observers logged after every step for TraceCrdt.tla.
use std::collections::BTreeMap;
use std::fmt::Debug;
use std::path::Path;

use hwv::*;
use radicle_crdt::{GMap, GSet, LWWMap, LWWReg, LWWSet, Max, Min, Redactable, Semilattice};

type RegMax = LWWReg<Max<u8>, u64>;
type RegOpt = LWWReg<Option<Max<u8>>, u64>;
type MapT = LWWMap<u8, Max<u8>, u64>;
type SetT = LWWSet<u8, u64>;

fn i(v: &Value) -> i64 {
    v.as_i64().unwrap_or_else(|| fatal(&format!("expected int, got {v}")))
}
fn opt(v: i64) -> Option<Max<u8>> {
    if v < 0 { None } else { Some(Max::from(v as u8)) }
}

fn mk_redactable(v: &Value) -> Redactable<u8> {
    if i(v) < 0 { Redactable::Redacted } else { Redactable::Present(i(v) as u8) }
}
fn mk_gset(v: &Value) -> GSet<u8> {
    let mut s = GSet::default();
    for k in v.as_array().unwrap() {
        s.insert(i(k) as u8);
    }
    s
}
fn mk_gmap(v: &Value) -> GMap<u8, Max<u8>> {
    let mut m = GMap::default();
    for e in v.as_array().unwrap() {
        m.insert(i(&e[0]) as u8, Max::from(i(&e[1]) as u8));
    }
    m
}
fn mk_reg(v: &Value) -> RegMax {
    LWWReg::new(Max::from(i(&v[1]) as u8), i(&v[0]) as u64)
}
fn mk_regopt(v: &Value) -> RegOpt {
    LWWReg::new(opt(i(&v[1])), i(&v[0]) as u64)
}
fn mk_map(v: &Value) -> MapT {
    let mut m = MapT::default();
    for e in v.as_array().unwrap() {
        let (k, c, x) = (i(&e[0]) as u8, i(&e[1]) as u64, i(&e[2]));
        if x < 0 { m.remove(k, c) } else { m.insert(k, Max::from(x as u8), c) }
    }
    m
}
fn mk_set(v: &Value) -> SetT {
    let mut m = SetT::default();
    for e in v.as_array().unwrap() {
        let (k, c, x) = (i(&e[0]) as u8, i(&e[1]) as u64, i(&e[2]));
        if x < 0 { m.remove(k, c) } else { m.insert(k, c) }
    }
    m
}

#[derive(Default)]
struct Stats {
    pairs: u64,
    triples: u64,
    drift: u64,
    fails: Vec<Value>,
    nontrivial: u64,
    ops_cases: u64,
    equal_clock_conflicts: u64,
}

/// Law checks on real values of one type. `carrier` = (encoding, value).
fn laws<T: Semilattice + Clone + PartialEq + Debug>(
    ty: &str,
    cases: &[(Value, Value, Value)],
    mk: &dyn Fn(&Value) -> T,
    st: &mut Stats,
) {
    let mut carrier: BTreeMap<String, (Value, T)> = BTreeMap::new();
    for (a, b, j) in cases {
        let (ra, rb, rj) = (mk(a), mk(b), mk(j));
        carrier.entry(a.to_string()).or_insert_with(|| (a.clone(), ra.clone()));
        st.pairs += 1;
        let r = guard(|| (ra.clone().join(rb.clone()), rb.clone().join(ra.clone()), ra.clone().join(ra.clone())));
        match r {
            Err(p) => st.fails.push(json!({"ok": false, "ty": ty, "law": "panic", "a": a, "b": b, "detail": p})),
            Ok((ab, ba, aa)) => {
                if ab != ba {
                    st.fails.push(json!({"ok": false, "ty": ty, "law": "commutativity", "a": a, "b": b,
                                         "detail": format!("{ab:?} != {ba:?}")}));
                } else if aa != ra {
                    st.fails.push(json!({"ok": false, "ty": ty, "law": "idempotence", "a": a, "b": a, "detail": format!("{aa:?} != {ra:?}")}));
                } else if ab != rj {
                    st.drift += 1;
                    if st.drift <= 5 {
                        st.fails.push(json!({"drift": true, "ty": ty, "a": a, "b": b, "model_join": j, "detail": format!("real {ab:?} vs model {rj:?}")}));
                    }
                }
                if a != b && ab != ra && ab != rb {
                    st.nontrivial += 1;
                }
            }
        }
    }
    // associativity on every triple of the carrier
    let vals: Vec<&(Value, T)> = carrier.values().collect();
    for x in &vals {
        for y in &vals {
            let xy = x.1.clone().join(y.1.clone());
            for z in &vals {
                st.triples += 1;
                let l = xy.clone().join(z.1.clone());
                let r = x.1.clone().join(y.1.clone().join(z.1.clone()));
                if l != r && st.fails.len() < 200 {
                    st.fails.push(json!({"ok": false, "ty": ty, "law": "associativity", "a": x.0, "b": y.0, "c": z.0,
                                         "detail": format!("{l:?} != {r:?}")}));
                }
            }
        }
    }
}

fn get_all(m: &MapT, keys: &[u8]) -> Vec<(u8, i64)> {
    keys.iter().map(|k| (*k, m.get(k).map(|v| *v.get() as i64).unwrap_or(-1))).collect()
}

fn apply_ops(ops: &[&Value]) -> (MapT, SetT) {
    let mut m = MapT::default();
    let mut s = SetT::default();
    for op in ops {
        let (k, v, c) = (i(&op[1]) as u8, i(&op[2]), i(&op[3]) as u64);
        if op[0] == "ins" {
            m.insert(k, Max::from(v as u8), c);
            s.insert(k, c);
        } else {
            m.remove(k, c);
            s.remove(k, c);
        }
    }
    (m, s)
}

fn replay_ops(c: &Value, st: &mut Stats) {
    st.ops_cases += 1;
    let path: Vec<&Value> = c["path"].as_array().unwrap().iter().collect();
    let obs: Vec<(u8, i64)> = c["obs"].as_array().unwrap().iter().map(|e| (i(&e[0]) as u8, i(&e[1]))).collect();
    let keys: Vec<u8> = obs.iter().map(|(k, _)| *k).collect();
    // an insertion and a removal (or two insertions) on the same key at the same clock
    let conflict = path.iter().any(|p| path.iter().any(|q| p != q && p[1] == q[1] && p[3] == q[3]));
    if conflict {
        st.equal_clock_conflicts += 1;
    }
    let mut orders: Vec<Vec<&Value>> = vec![path.clone()];
    let mut rev = path.clone();
    rev.reverse();
    orders.push(rev);
    if path.len() > 2 {
        let mut rot = path.clone();
        rot.rotate_left(1);
        orders.push(rot);
        let mut dup = path.clone();
        dup.extend(path.iter().copied()); // every operation delivered twice
        orders.push(dup);
    }
    let (m0, s0) = apply_ops(&orders[0]);
    for (n, o) in orders.iter().enumerate() {
        let (m, s) = apply_ops(o);
        let got = get_all(&m, &keys);
        let contains_ok = keys.iter().all(|k| m.contains_key(k) == (m.get(k).is_some()) && s.contains(k) == m.contains_key(k));
        let order = json!(o.iter().map(|x| (*x).clone()).collect::<Vec<_>>());
        if got != obs || !contains_ok {
            st.fails.push(json!({"ok": false, "ty": "lwwmap", "law": "observer", "ops": order, "expected": obs, "detail": format!("get = {got:?}, set = {:?}", keys.iter().map(|k| s.contains(k)).collect::<Vec<_>>())}));
            return;
        }
        if m != m0 || s != s0 {
            st.fails.push(json!({"ok": false, "ty": "lwwmap", "law": "order independence", "ops": order, "order_no": n, "detail": format!("{m:?} != {m0:?}")}));
            return;
        }
    }
    if m0 != mk_map(&c["m"]) {
        st.drift += 1;
    }
}

// -------------------------------------------------------------------------------------- record

struct Bundle {
    map: MapT,
    set: SetT,
    reg: RegMax,
    gmap: GMap<u8, Max<u8>>,
    gset: GSet<u8>,
    red: Redactable<u8>,
}
impl Bundle {
    fn new() -> Self {
        Bundle { map: MapT::default(), set: SetT::default(), reg: LWWReg::new(Max::from(0), 0), gmap: GMap::default(),
                 gset: GSet::default(), red: Redactable::Present(0) }
    }
    fn obs(&self, nk: u8) -> Value {
        let keys: Vec<u8> = (0..nk).collect();
        json!({
            "map": keys.iter().map(|k| self.map.get(k).map(|v| *v.get() as i64).unwrap_or(-1)).collect::<Vec<_>>(),
            "set": keys.iter().map(|k| self.set.contains(k)).collect::<Vec<_>>(),
            "reg": [*self.reg.clock().get(), *self.reg.get().get()],
            "gmap": keys.iter().map(|k| self.gmap.get(k).map(|v| *v.get() as i64).unwrap_or(-1)).collect::<Vec<_>>(),
            "gset": keys.iter().map(|k| self.gset.contains_key(k)).collect::<Vec<_>>(),
            "red": self.red.get().map(|v| *v as i64).unwrap_or(-1),
        })
    }
    fn clone_(&self) -> Self {
        Bundle { map: self.map.clone(), set: self.set.clone(), reg: self.reg.clone(), gmap: self.gmap.clone(), gset: self.gset.clone(), red: self.red }
    }
    fn merge(&mut self, o: Bundle) {
        self.map.merge(o.map);
        self.set.merge(o.set);
        self.reg.merge(o.reg);
        self.gmap.merge(o.gmap);
        self.gset.merge(o.gset);
        self.red.merge(o.red);
    }
}

fn record(rng: &mut fastrand::Rng, o: &mut Out, steps: usize, nk: u8, nclock: u64, nval: u8) {
    o.emit(&json!({"op": "reset", "nk": nk}));
    let mut reps: Vec<Bundle> = (0..3).map(|_| Bundle::new()).collect();
    for _ in 0..steps {
        let r = rng.usize(0..3);
        let (k, v, c) = (rng.u8(0..nk), rng.u8(0..nval), rng.u64(0..nclock));
        let rec = match rng.u8(0..14) {
            0..=2 => { reps[r].map.insert(k, Max::from(v), c); json!({"op": "map_ins", "k": k, "v": v, "c": c}) }
            3 | 4 => { reps[r].map.remove(k, c); json!({"op": "map_rem", "k": k, "c": c}) }
            5 => { reps[r].set.insert(k, c); json!({"op": "set_ins", "k": k, "c": c}) }
            6 => { reps[r].set.remove(k, c); json!({"op": "set_rem", "k": k, "c": c}) }
            7 => { reps[r].reg.set(Max::from(v), c); json!({"op": "reg_set", "v": v, "c": c}) }
            8 => { reps[r].gmap.insert(k, Max::from(v)); json!({"op": "gmap_ins", "k": k, "v": v}) }
            9 => { reps[r].gset.insert(k); json!({"op": "gset_ins", "k": k}) }
            10 => {
                let x = if rng.u8(0..4) == 0 { Redactable::Redacted } else { Redactable::Present(v % 2) };
                reps[r].red.merge(x);
                json!({"op": "red_merge", "v": x.get().map(|v| *v as i64).unwrap_or(-1)})
            }
            _ => {
                let from = rng.usize(0..3);
                let other = reps[from].clone_();
                reps[r].merge(other);
                json!({"op": "merge", "from": from})
            }
        };
        let mut rec = rec;
        rec["r"] = json!(r);
        rec["obs"] = reps[r].obs(nk);
        o.emit(&rec);
    }
}

fn main() {
    let args = Args::parse();
    quiet_panics();
    let out = Path::new(args.req("--out")).to_path_buf();
    match args.req("--mode") {
        "replay" => {
            let cases = read_ndjson(Path::new(args.req("--cases")));
            let mut st = Stats::default();
            let mut by_ty: BTreeMap<String, Vec<(Value, Value, Value)>> = BTreeMap::new();
            for c in &cases {
                let ty = c["ty"].as_str().unwrap();
                if ty == "ops" {
                    replay_ops(c, &mut st);
                } else {
                    by_ty.entry(ty.to_string()).or_default().push((c["a"].clone(), c["b"].clone(), c["j"].clone()));
                }
            }
            let mut types = Vec::new();
            for (ty, cs) in &by_ty {
                types.push(ty.clone());
                match ty.as_str() {
                    "bool" => laws(ty, cs, &|v| v.as_bool().unwrap(), &mut st),
                    "max" => laws(ty, cs, &|v| Max::from(i(v) as u8), &mut st),
                    "min" => laws(ty, cs, &|v| Min::from(i(v) as u8), &mut st),
                    "optmax" => laws(ty, cs, &|v| opt(i(v)), &mut st),
                    "redactable" => laws(ty, cs, &mk_redactable, &mut st),
                    "gset" => laws(ty, cs, &mk_gset, &mut st),
                    "gmap" => laws(ty, cs, &mk_gmap, &mut st),
                    "lwwreg" => laws(ty, cs, &mk_reg, &mut st),
                    "lwwregopt" => laws(ty, cs, &mk_regopt, &mut st),
                    "lwwmap" => laws(ty, cs, &mk_map, &mut st),
                    "lwwset" => laws(ty, cs, &mk_set, &mut st),
                    _ => fatal(&format!("unknown type {ty}")),
                }
            }
            let mut o = Out::create(&out);
            for f in st.fails.iter().take(300) {
                o.emit(f);
            }
            o.emit(&json!({"summary": true, "pairs": st.pairs, "triples": st.triples, "drift": st.drift, "types": types,
                           "pairs_nontrivial": st.nontrivial, "ops_cases": st.ops_cases,
                           "ops_equal_clock_conflicts": st.equal_clock_conflicts,
                           "failures": st.fails.iter().filter(|f| f.get("ok").is_some()).count()}));
            o.finish();
        }
        "record" => {
            let n = args.num("--n", 100);
            let steps = args.num("--steps", 40) as usize;
            let mut rng = fastrand::Rng::with_seed(seed());
            let mut o = Out::create(&out);
            for _ in 0..n {
                record(&mut rng, &mut o, steps, args.num("--keys", 4) as u8, args.num("--clocks", 5), args.num("--vals", 6) as u8);
            }
            o.finish();
        }
        _ => fatal("unknown mode"),
    }
}
