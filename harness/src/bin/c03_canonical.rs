//! C03 — canonical head. Binds spec/Canonical.tla to `radicle::git::canonical::Canonical`.
//!
//! replay: cases emitted by TLC ({par, tips, exp, alg}) are materialised as real commits and real
//!   per-delegate references in a storage repository; `Canonical::reference` + `quorum` is run for
//!   every threshold; the answer must be `exp[thr]` or "no head" (gating), and is compared with the
//!   transcribed algorithm's outcome set `alg[thr]` (drift, informational).
//! record: random larger graphs; the real answers are logged for validation by TraceCanonical.tla.
use std::collections::HashMap;
use std::path::Path;

use hwv::*;
use nonempty::NonEmpty;
use radicle::git::canonical::Canonical;
use radicle::git::Qualified;
use radicle::identity::{Did, RepoId};
use radicle::node::device::Device;
use radicle::storage::git::Repository;
use radicle::storage::{ReadRepository, WriteRepository};

struct World {
    _tmp: tempfile::TempDir,
    repo: Repository,
    dids: Vec<Did>,
    dags: HashMap<String, Vec<git2::Oid>>,
    refname: Qualified<'static>,
    counter: usize,
    current: Vec<Option<git2::Oid>>,
}

impl World {
    fn new(dir: &Path, ndelegates: usize) -> Self {
        let tmp = tempfile::tempdir_in(dir).expect("tempdir");
        let rid: RepoId = radicle::test::arbitrary::gen(1);
        let info = radicle::git::UserInfo {
            alias: radicle::node::Alias::new("verif"),
            key: *Device::mock_from_seed([1; 32]).public_key(),
        };
        let repo = Repository::create(tmp.path().join("repo"), rid, &info).expect("create repo");
        let dids = (0..ndelegates)
            .map(|i| Did::from(*Device::mock_from_seed([(i + 1) as u8; 32]).public_key()))
            .collect();
        World {
            _tmp: tmp,
            repo,
            dids,
            dags: HashMap::new(),
            refname: radicle_git_ext::ref_format::qualified!("refs/heads/master").to_owned(),
            counter: 0,
            current: Vec::new(),
        }
    }

    /// Create the commits of a graph (parents[c] for c = 1..n, 1-based ids) once.
    fn commits(&mut self, par: &[Vec<usize>]) -> Vec<git2::Oid> {
        let key = format!("{par:?}");
        if let Some(v) = self.dags.get(&key) {
            return v.clone();
        }
        self.counter += 1;
        let raw = self.repo.raw();
        let tree = raw.find_tree(raw.treebuilder(None).unwrap().write().unwrap()).unwrap();
        let sig = git2::Signature::new("a", "a@x", &git2::Time::new(1514817556, 0)).unwrap();
        let mut oids: Vec<git2::Oid> = Vec::new();
        for (i, ps) in par.iter().enumerate() {
            let parents: Vec<git2::Commit> =
                ps.iter().map(|p| raw.find_commit(oids[*p - 1]).unwrap()).collect();
            let prefs: Vec<&git2::Commit> = parents.iter().collect();
            let msg = format!("dag {} commit {}", self.counter, i + 1);
            let oid = raw.commit(None, &sig, &sig, &msg, &tree, &prefs).unwrap();
            oids.push(oid);
        }
        self.dags.insert(key, oids.clone());
        oids
    }

    /// Point each delegate's reference at its tip (0 = no reference). Only references that change
    /// are written.
    fn set_tips(&mut self, oids: &[git2::Oid], tips: &[usize]) {
        let raw = self.repo.raw();
        for d in 0..self.dids.len() {
            let want = tips.get(d).copied().filter(|t| *t != 0).map(|t| oids[t - 1]);
            if self.current.get(d).copied().flatten() == want && self.current.len() > d {
                continue;
            }
            let name = self.refname.with_namespace((&*self.dids[d]).into());
            match want {
                None => {
                    if let Ok(mut r) = raw.find_reference(name.as_str()) {
                        r.delete().unwrap();
                    }
                }
                Some(oid) => {
                    raw.reference(name.as_str(), oid, true, "verif").unwrap();
                }
            }
            if self.current.len() <= d {
                self.current.resize(d + 1, None);
            }
            self.current[d] = want;
        }
    }

    /// Compute the quorum through the public API. Returns 0 for "no head", else the 1-based commit
    /// index; -1 for a head that is not a commit of the graph.
    fn quorum(&mut self, oids: &[git2::Oid], tips: &[usize], thr: usize) -> (i64, String) {
        let raw = self.repo.raw();
        let delegates = NonEmpty::from_vec(self.dids[..tips.len()].to_vec()).unwrap();
        let canonical = Canonical::reference(&self.repo, &self.refname, &delegates, thr).expect("reference");
        match canonical.quorum(raw) {
            Ok(oid) => match oids.iter().position(|o| *o == *oid) {
                Some(i) => ((i + 1) as i64, "head".into()),
                None => (-1, format!("foreign head {oid}")),
            },
            Err(e) => (0, format!("{e}")),
        }
    }
}

fn usizes(v: &Value) -> Vec<usize> {
    v.as_array().unwrap().iter().map(|x| x.as_u64().unwrap() as usize).collect()
}

fn main() {
    let args = Args::parse();
    quiet_panics();
    let mode = args.req("--mode").to_string();
    let out = Path::new(args.req("--out")).to_path_buf();
    let work = std::env::current_dir().unwrap();
    match mode.as_str() {
        "replay" => {
            let cases = read_ndjson(Path::new(args.req("--cases")));
            let nthreads = args.num("--threads", 8) as usize;
            let chunks: Vec<Vec<Value>> = {
                let mut v: Vec<Vec<Value>> = (0..nthreads).map(|_| Vec::new()).collect();
                // keep cases with the same graph on the same thread
                for c in cases {
                    let h = c["par"].to_string().bytes().fold(0usize, |a, b| a.wrapping_mul(31).wrapping_add(b as usize));
                    v[h % nthreads].push(c);
                }
                v
            };
            let handles: Vec<_> = chunks
                .into_iter()
                .map(|chunk| {
                    let work = work.clone();
                    std::thread::spawn(move || {
                        let mut recs = Vec::new();
                        let (mut evals, mut heads, mut drift) = (0u64, 0u64, 0u64);
                        if chunk.is_empty() {
                            return (recs, evals, heads, drift);
                        }
                        let nd = chunk.iter().map(|c| c["tips"].as_array().unwrap().len()).max().unwrap();
                        let mut w = World::new(&work, nd);
                        for c in chunk {
                            let par: Vec<Vec<usize>> = c["par"].as_array().unwrap().iter().map(usizes).collect();
                            let tips = usizes(&c["tips"]);
                            let exp: Vec<i64> = c["exp"].as_array().unwrap().iter().map(|x| x.as_i64().unwrap()).collect();
                            let oids = w.commits(&par);
                            w.set_tips(&oids, &tips);
                            for (ti, e) in exp.iter().enumerate() {
                                let thr = ti + 1;
                                let res = guard(|| w.quorum(&oids, &tips, thr));
                                evals += 1;
                                let (actual, detail) = match res {
                                    Ok(r) => r,
                                    Err(p) => (-2, format!("panic: {p}")),
                                };
                                if actual > 0 {
                                    heads += 1;
                                }
                                let ok = actual == 0 || actual == *e && actual > 0;
                                let alg: Vec<i64> = c["alg"][ti].as_array().map(|a| a.iter().map(|x| x.as_i64().unwrap()).collect()).unwrap_or_default();
                                let in_alg = alg.contains(&actual);
                                if !in_alg {
                                    drift += 1;
                                }
                                if !ok || (!in_alg && recs.len() < 50) {
                                    recs.push(json!({"ok": ok, "drift": !in_alg, "par": par, "tips": tips, "thr": thr,
                                        "expected_head_or_none": e, "alg": alg, "actual": actual, "detail": detail}));
                                }
                            }
                        }
                        (recs, evals, heads, drift)
                    })
                })
                .collect();
            let mut o = Out::create(&out);
            let (mut evals, mut heads, mut drift) = (0, 0, 0);
            for h in handles {
                let (recs, e, hd, dr) = h.join().unwrap_or_else(|_| fatal("worker thread panicked"));
                for r in recs {
                    o.emit(&r);
                }
                evals += e;
                heads += hd;
                drift += dr;
            }
            o.emit(&json!({"summary": true, "evaluations": evals, "heads_returned": heads, "drift": drift}));
            o.finish();
        }
        "record" => {
            // Random graphs outside the bounded model's constants; logged for TLC.
            let n = args.num("--n", 200);
            let maxc = args.num("--commits", 9) as usize;
            let maxd = args.num("--delegates", 6) as usize;
            let mut rng = fastrand::Rng::with_seed(seed());
            let mut w = World::new(&work, maxd);
            let mut o = Out::create(&out);
            for _ in 0..n {
                let nc = rng.usize(2..=maxc);
                let mut par: Vec<Vec<usize>> = Vec::new();
                for c in 1..=nc {
                    let mut ps = Vec::new();
                    if c > 1 {
                        let k = if rng.u8(0..10) == 0 { 0 } else if rng.u8(0..4) == 0 { 2 } else { 1 };
                        while ps.len() < k.min(c - 1) {
                            let p = rng.usize(1..c);
                            if !ps.contains(&p) {
                                ps.push(p);
                            }
                        }
                        ps.sort();
                    }
                    par.push(ps);
                }
                let nd = rng.usize(1..=maxd);
                // bias towards shared tips
                let pool: Vec<usize> = (0..rng.usize(1..=4)).map(|_| rng.usize(0..=nc)).collect();
                let tips: Vec<usize> = (0..nd).map(|_| pool[rng.usize(0..pool.len())]).collect();
                let oids = w.commits(&par);
                w.set_tips(&oids, &tips);
                let res: Vec<i64> = (1..=nd)
                    .map(|thr| match guard(|| w.quorum(&oids, &tips, thr)) {
                        Ok((a, _)) => a,
                        Err(_) => -2,
                    })
                    .collect();
                o.emit(&json!({"par": par, "tips": tips, "res": res}));
            }
            o.finish();
        }
        _ => fatal("unknown mode"),
    }
}
