//! C19 — identity documents. Binds spec/Doc.tla to `radicle::identity::doc::{RawDoc, Doc}` and
//! `radicle::storage::git::Repository::init`.
//!
//! replay: cases emitted by TLC ({json: abstract JSON document, edits, accepted, errk, doc, init})
//!   are rendered as real JSON text (non-canonical key order and whitespace, real `did:key:` strings,
//!   malformed values of several kinds), parsed through `Doc::from_blob` on a real git blob,
//!   `serde_json::from_slice::<Doc>` and `RawDoc::from_json(..).verified()`, edited through
//!   `Doc::with_edits`, and judged:
//!   gating (property C19): a document that is accepted has 1..=255 distinct delegates, a threshold
//!   in 1..=delegates and version 1; `encode` → decode gives an equal document; the bytes `encode`
//!   produces are the canonical JSON text of the document (built independently here for this
//!   document family) and the object id / `Repository::init`'s `RepoId` is the SHA-1 git blob hash
//!   of that text (computed by an independent SHA-1); drift: verdict / accessor values differ from
//!   the model's.
//! record: random documents and up to three edits, logged for spec/TraceDoc.tla.
use std::collections::BTreeSet;
use std::path::Path;

use hwv::*;
use radicle::crypto::PublicKey;
use radicle::identity::doc::{Doc, DocError, RawDoc, Visibility};
use radicle::identity::{Did, RepoId};
use radicle::node::device::Device;
use radicle::node::Alias;
use radicle::storage::git::{Repository, Storage};
use radicle::storage::ReadRepository;

// ---------------------------------------------------------------------------------------------
// independent SHA-1 (git blob hash = sha1("blob <len>\0" + bytes))

fn sha1(data: &[u8]) -> [u8; 20] {
    let mut h: [u32; 5] = [0x67452301, 0xEFCDAB89, 0x98BADCFE, 0x10325476, 0xC3D2E1F0];
    let mut msg = data.to_vec();
    let bitlen = (data.len() as u64) * 8;
    msg.push(0x80);
    while msg.len() % 64 != 56 {
        msg.push(0);
    }
    msg.extend_from_slice(&bitlen.to_be_bytes());
    for chunk in msg.chunks(64) {
        let mut w = [0u32; 80];
        for i in 0..16 {
            w[i] = u32::from_be_bytes([chunk[4 * i], chunk[4 * i + 1], chunk[4 * i + 2], chunk[4 * i + 3]]);
        }
        for i in 16..80 {
            w[i] = (w[i - 3] ^ w[i - 8] ^ w[i - 14] ^ w[i - 16]).rotate_left(1);
        }
        let (mut a, mut b, mut c, mut d, mut e) = (h[0], h[1], h[2], h[3], h[4]);
        for (i, wi) in w.iter().enumerate() {
            let (f, k) = match i {
                0..=19 => ((b & c) | (!b & d), 0x5A827999u32),
                20..=39 => (b ^ c ^ d, 0x6ED9EBA1),
                40..=59 => ((b & c) | (b & d) | (c & d), 0x8F1BBCDC),
                _ => (b ^ c ^ d, 0xCA62C1D6),
            };
            let t = a.rotate_left(5).wrapping_add(f).wrapping_add(e).wrapping_add(k).wrapping_add(*wi);
            e = d;
            d = c;
            c = b.rotate_left(30);
            b = a;
            a = t;
        }
        h[0] = h[0].wrapping_add(a);
        h[1] = h[1].wrapping_add(b);
        h[2] = h[2].wrapping_add(c);
        h[3] = h[3].wrapping_add(d);
        h[4] = h[4].wrapping_add(e);
    }
    let mut out = [0u8; 20];
    for (i, v) in h.iter().enumerate() {
        out[4 * i..4 * i + 4].copy_from_slice(&v.to_be_bytes());
    }
    out
}

fn git_blob_hash(bytes: &[u8]) -> String {
    let mut v = format!("blob {}\0", bytes.len()).into_bytes();
    v.extend_from_slice(bytes);
    sha1(&v).iter().map(|b| format!("{b:02x}")).collect()
}

// ---------------------------------------------------------------------------------------------
// concretisation

/// Seed of the device that initialises repositories; DID 1 is this device's key (the founder of a
/// repository must be the first delegate of its initial document).
const FOUNDER_SEED: [u8; 32] = [3; 32];

fn did(i: i64) -> Did {
    if i == 1 {
        static FOUNDER: std::sync::OnceLock<Did> = std::sync::OnceLock::new();
        return *FOUNDER.get_or_init(|| Did::from(*Device::mock_from_seed(FOUNDER_SEED).public_key()));
    }
    let mut k = [0xA5u8; 32];
    k[0] = (i & 0xff) as u8;
    k[1] = ((i >> 8) & 0xff) as u8;
    Did::from(PublicKey::from(k))
}

fn did_id(d: &Did, universe: &[(i64, Did)]) -> i64 {
    universe.iter().find(|(_, x)| x == d).map(|(i, _)| *i).unwrap_or(-9)
}

const PROJECT_IN: &str = r#""xyz.radicle.project": { "name": "acme", "description": "Acme's repo", "defaultBranch": "master" }"#;
const PROJECT_CANON: &str = r#""xyz.radicle.project":{"defaultBranch":"master","description":"Acme's repo","name":"acme"}"#;

/// (JSON text of the payload field as written into the input, canonical text of the payload object)
fn payload(kind: &str) -> (Option<String>, Option<String>) {
    match kind {
        "absent" => (None, None),
        "bad" => (Some(r#"["not", "an", "object"]"#.into()), None),
        "empty" => (Some("{ }".into()), Some("{}".into())),
        "project" => (Some(format!("{{ {PROJECT_IN} }}")), Some(format!("{{{PROJECT_CANON}}}"))),
        "custom" => (
            Some(format!(r#"{{ {PROJECT_IN}, "com.example.custom": {{ "z": [1, {{"b": null, "a": true}}], "a": "x\n\"y", "n": -5 }} }}"#)),
            Some(format!(r#"{{"com.example.custom":{{"a":"x\n\"y","n":-5,"z":[1,{{"a":true,"b":null}}]}},{PROJECT_CANON}}}"#)),
        ),
        "nonnfc" => (
            Some(format!("{{ {PROJECT_IN}, \"com.example.text\": {{ \"s\": \"e\u{301}\" }} }}")),
            Some(format!("{{\"com.example.text\":{{\"s\":\"\u{e9}\"}},{PROJECT_CANON}}}")),
        ),
        "float" => (Some(format!(r#"{{ {PROJECT_IN}, "com.example.num": {{ "f": 1.5 }} }}"#)), None),
        "badid" => (Some(r#"{ "not a type name!": { "k": 1 } }"#.into()), Some(r#"{"not a type name!":{"k":1}}"#.into())),
        k => fatal(&format!("unknown payload class {k}")),
    }
}

/// Render the abstract JSON document as text. `r` rotates through the malformed variants.
fn render(j: &Value, r: usize) -> String {
    render_ver(j, r, None)
}

/// Integer literals that no supported version equals: beyond u32 (2^32 + 1 and 2^33 + 1 are 1 modulo
/// 2^32, 2^64 + 1 is 1 modulo 2^64), the first unsupported ones, and the largest u32.
const UNSUPPORTED_VERSIONS: [&str; 7] = ["4294967297", "8589934593", "18446744073709551617", "4294967296", "4294967295", "2", "0"];

/// As `render`, with the malformed version replaced by the given literal.
fn render_ver(j: &Value, r: usize, version: Option<&str>) -> String {
    let mut fields: Vec<String> = Vec::new();
    let thr = j["thr"].as_i64().unwrap();
    match thr {
        -1 => {}
        -2 => fields.push(format!("\"threshold\": {}", ["-1", "\"2\"", "1.5", "null", "18446744073709551616"][r % 5])),
        t => fields.push(format!("\"threshold\" : {t}")),
    }
    if j["unknown"].as_bool().unwrap() {
        fields.push(r#""extra": { "a": [1, 2], "b": "ignored" }"#.into());
    }
    match j["delsKind"].as_str().unwrap() {
        "absent" => {}
        "bad" => fields.push(format!("\"delegates\": {}", ["\"not-a-list\"", "[\"did:key:invalid\"]", "[42]", "{}"][r % 4])),
        _ => {
            let ds: Vec<String> = j["dels"].as_array().unwrap().iter().map(|d| format!("\"{}\"", did(d.as_i64().unwrap()))).collect();
            fields.push(format!("\"delegates\": [{}]", ds.join(", ")));
        }
    }
    match j["ver"].as_i64().unwrap() {
        -1 => {}
        -2 => fields.push(format!("\"version\": {}", version.unwrap_or(["\"1\"", "1.0", "-1", "4294967296", "null"][r % 5]))),
        v => fields.push(format!("\"version\": {v}")),
    }
    match j["vis"].as_str().unwrap() {
        "absent" => {}
        "public" => fields.push(r#""visibility": {"type": "public"}"#.into()),
        "private" => fields.push(r#""visibility": {"type": "private"}"#.into()),
        "allow" => fields.push(format!(r#""visibility": {{"allow": ["{}"], "type": "private"}}"#, did(1))),
        "bad" => fields.push(r#""visibility": {"type": "secret"}"#.into()),
        v => fatal(&format!("unknown visibility class {v}")),
    }
    if let (Some(p), _) = payload(j["payload"].as_str().unwrap()) {
        fields.push(format!("\"payload\": {p}"));
    }
    format!("{{\n  {}\n}}\n", fields.join(",\n  "))
}

/// Canonical JSON text of a verified document of this family (None if the payload has none).
fn canonical(delegates: &[i64], threshold: i64, pay: &str, vis: &str) -> Option<String> {
    let (_, pc) = payload(pay);
    let pc = pc?;
    let ds: Vec<String> = delegates.iter().map(|d| format!("\"{}\"", did(*d))).collect();
    let mut s = format!("{{\"delegates\":[{}],\"payload\":{pc},\"threshold\":{threshold}", ds.join(","));
    match vis {
        "public" => {}
        "private" => s.push_str(r#","visibility":{"type":"private"}"#),
        "allow" => s.push_str(&format!(r#","visibility":{{"allow":["{}"],"type":"private"}}"#, did(1))),
        v => fatal(&format!("unexpected visibility {v}")),
    }
    s.push('}');
    Some(s)
}

fn errk(e: &DocError) -> &'static str {
    match e {
        DocError::Json(_) => "json",
        DocError::Delegates(_) => "delegates",
        DocError::Threshold(_) => "threshold",
        _ => "other",
    }
}

fn vis_kind(v: &Visibility) -> &'static str {
    match v {
        Visibility::Public => "public",
        Visibility::Private { allow } if allow.is_empty() => "private",
        Visibility::Private { .. } => "allow",
    }
}

struct Verdict {
    accepted: bool,
    errk: String,
    doc: Option<Doc>,
    /// the three entry points disagree on accept / reject
    split: Option<String>,
}

/// Parse the text through the three entry points, then apply the edits.
fn run_doc(scratch: &git2::Repository, text: &str, edits: &[(String, i64)]) -> Verdict {
    let oid = scratch.blob(text.as_bytes()).expect("blob");
    let blob = scratch.find_blob(oid).expect("find blob");
    let a = Doc::from_blob(&blob);
    let b = serde_json::from_slice::<Doc>(text.as_bytes());
    let c = RawDoc::from_json(text.as_bytes()).and_then(|r| r.verified());
    let split = if a.is_ok() != b.is_ok() || a.is_ok() != c.is_ok() || (a.is_ok() && (a.as_ref().ok() != b.as_ref().ok() || a.as_ref().ok() != c.as_ref().ok())) {
        Some(format!("from_blob ok={} serde ok={} from_json+verified ok={}", a.is_ok(), b.is_ok(), c.is_ok()))
    } else {
        None
    };
    let mut cur = match a {
        Ok(d) => d,
        Err(e) => return Verdict { accepted: false, errk: errk(&e).into(), doc: None, split },
    };
    for (op, arg) in edits {
        let r = cur.clone().with_edits(|raw| match op.as_str() {
            "delegate" => raw.delegate(did(*arg)),
            "rescind" => {
                let _ = raw.rescind(&did(*arg));
            }
            "threshold" => raw.threshold = *arg as usize,
            o => fatal(&format!("unknown edit {o}")),
        });
        match r {
            Ok(d) => cur = d,
            Err(e) => return Verdict { accepted: false, errk: errk(&e).into(), doc: None, split },
        }
    }
    Verdict { accepted: true, errk: String::new(), doc: Some(cur), split }
}

/// C19 on a real accepted document. Returns the breach, if any.
fn validity_breach(d: &Doc) -> Option<String> {
    let n = d.delegates().len();
    let distinct: BTreeSet<String> = d.delegates().iter().map(|x| x.to_string()).collect();
    if n < 1 || n > 255 {
        return Some(format!("{n} delegates"));
    }
    if distinct.len() != n {
        return Some(format!("{n} delegates, only {} distinct", distinct.len()));
    }
    if d.threshold() < 1 || d.threshold() > n {
        return Some(format!("threshold {} with {n} delegates", d.threshold()));
    }
    if u32::from(*d.version()) != 1 {
        return Some(format!("version {}", d.version()));
    }
    None
}

/// Does the document's payload contain a string (key or value) that is not in Unicode NFC?
fn has_non_nfc(d: &Doc) -> bool {
    fn walk(v: &serde_json::Value) -> bool {
        use unicode_normalization::is_nfc;
        match v {
            serde_json::Value::String(s) => !is_nfc(s),
            serde_json::Value::Array(a) => a.iter().any(walk),
            serde_json::Value::Object(o) => o.iter().any(|(k, v)| !is_nfc(k) || walk(v)),
            _ => false,
        }
    }
    d.payload().values().any(|p| walk(p))
}

fn edits_of(v: &Value) -> Vec<(String, i64)> {
    v.as_array().unwrap().iter().map(|e| (e["op"].as_str().unwrap().to_owned(), e["arg"].as_i64().unwrap())).collect()
}

fn main() {
    let args = Args::parse();
    quiet_panics();
    let mode = args.req("--mode").to_string();
    let work = std::env::current_dir().unwrap();
    let tmp = tempfile::tempdir_in(&work).expect("tempdir");
    let scratch = git2::Repository::init_bare(tmp.path().join("scratch.git")).expect("scratch repo");
    // blobs of the cases go to memory, not to disk
    scratch.odb().and_then(|odb| odb.add_new_mempack_backend(1000).map(|_| ())).expect("mempack");
    let universe: Vec<(i64, Did)> = (0..=320).map(|i| (i, did(i))).collect();
    let mut o = Out::create(Path::new(args.req("--out")));
    match mode.as_str() {
        "replay" => {
            let cases = read_ndjson(Path::new(args.req("--cases")));
            let signer = Device::mock_from_seed(FOUNDER_SEED);
            let storage = Storage::open(tmp.path().join("storage"), radicle::git::UserInfo { alias: Alias::new("verif"), key: *signer.public_key() }).expect("storage");
            let (mut evals, mut accepted_n, mut rejected_n, mut bad, mut drift, mut logged) = (0u64, 0u64, 0u64, 0u64, 0u64, 0);
            let (mut roundtrips, mut encode_refused, mut canon_checked, mut inits) = (0u64, 0u64, 0u64, 0u64);
            let (mut wide_versions, mut wide_effective) = (0u64, 0u64);
            for (ci, c) in cases.iter().enumerate() {
                let j = &c["json"];
                let text = render(j, ci);
                let edits = edits_of(&c["edits"]);
                let g = guard(|| run_doc(&scratch, &text, &edits));
                evals += 1;
                let mut breaches: Vec<String> = Vec::new();
                let mut drifts: Vec<String> = Vec::new();
                let mut actual = json!({});
                // a document whose version field is an integer that is not a supported version is never
                // accepted, however wide the integer is
                if j["ver"].as_i64() == Some(-2) {
                    // vacuity guard: count the cases in which the version is the only possible objection
                    if matches!(guard(|| run_doc(&scratch, &render_ver(j, ci, Some("1")), &[])), Ok(v) if v.accepted) {
                        wide_effective += 1;
                    }
                    for lit in UNSUPPORTED_VERSIONS {
                        let t = render_ver(j, ci, Some(lit));
                        wide_versions += 1;
                        match guard(|| run_doc(&scratch, &t, &[])) {
                            Err(p) => breaches.push(format!("panic on version {lit}: {p}")),
                            Ok(v) if v.accepted || v.split.is_some() => breaches.push(format!("a document with the unsupported version {lit} was accepted ({})", v.split.unwrap_or("by every entry point".into()))),
                            Ok(_) => {}
                        }
                    }
                }
                match g {
                    Err(p) => breaches.push(format!("panic: {p}")),
                    Ok(v) => {
                        if let Some(s) = &v.split {
                            drifts.push(format!("entry points disagree: {s}"));
                        }
                        let exp_acc = c["accepted"].as_bool().unwrap();
                        if v.accepted != exp_acc || (!v.accepted && v.errk != c["errk"].as_str().unwrap()) {
                            drifts.push(format!("verdict accepted={} errk={:?}", v.accepted, v.errk));
                        }
                        actual = json!({"accepted": v.accepted, "errk": v.errk});
                        if let Some(d) = &v.doc {
                            accepted_n += 1;
                            let ids: Vec<i64> = d.delegates().iter().map(|x| did_id(x, &universe)).collect();
                            actual["doc"] = json!({"delegates": ids, "threshold": d.threshold(), "vis": vis_kind(d.visibility()), "version": u32::from(*d.version())});
                            if let Some(b) = validity_breach(d) {
                                breaches.push(format!("accepted document is invalid: {b}"));
                            }
                            if exp_acc {
                                let e = &c["doc"];
                                let eids: Vec<i64> = e["delegates"].as_array().unwrap().iter().map(|x| x.as_i64().unwrap()).collect();
                                if ids != eids || d.threshold() as i64 != e["threshold"].as_i64().unwrap() || vis_kind(d.visibility()) != e["vis"].as_str().unwrap() {
                                    drifts.push("accessor values differ from the model's document".into());
                                }
                            }
                            // encode -> decode
                            match d.encode() {
                                Ok((oid, bytes)) => {
                                    roundtrips += 1;
                                    match serde_json::from_slice::<Doc>(&bytes) {
                                        Ok(back) if back == *d => {}
                                        Ok(_) if has_non_nfc(d) => breaches.push("roundtrip-differs non-nfc-payload-string".into()),
                                        Ok(_) => breaches.push(format!("roundtrip-differs payload-class={}", j["payload"].as_str().unwrap())),
                                        Err(e) => breaches.push(format!("roundtrip: encode output does not decode: {e} (payload class {})", j["payload"].as_str().unwrap())),
                                    }
                                    let h = git_blob_hash(&bytes);
                                    if oid.to_string() != h {
                                        breaches.push(format!("encode: object id {oid} is not the git blob hash {h} of the encoder output"));
                                    }
                                    if drifts.is_empty() {
                                        if let Some(canon) = canonical(&ids, d.threshold() as i64, j["payload"].as_str().unwrap(), vis_kind(d.visibility())) {
                                            canon_checked += 1;
                                            if bytes != canon.as_bytes() {
                                                breaches.push(format!("encode output is not the canonical text: {:?} vs {canon:?}", String::from_utf8_lossy(&bytes)));
                                            }
                                            if c["init"].as_bool().unwrap_or(false) && edits.is_empty() {
                                                inits += 1;
                                                match guard(|| Repository::init(d, &storage, &signer)) {
                                                    Ok(Ok((repo, _))) => {
                                                        let want = git_blob_hash(canon.as_bytes());
                                                        let got = radicle::git::Oid::from(*repo.id).to_string();
                                                        if got != want {
                                                            breaches.push(format!("Repository::init: id {} ({got}) is not the blob hash {want} of the canonical document", repo.id));
                                                        }
                                                        if RepoId::from(oid) != repo.id {
                                                            breaches.push("Repository::init: id differs from encode()'s object id".into());
                                                        }
                                                        match repo.identity_doc_of(signer.public_key()) {
                                                            Ok(stored) if stored == *d => {}
                                                            Ok(_) => breaches.push("Repository::init: stored document differs".into()),
                                                            Err(e) => drifts.push(format!("stored document not readable: {e}")),
                                                        }
                                                        let _ = repo.remove();
                                                    }
                                                    Ok(Err(e)) => drifts.push(format!("Repository::init failed: {e}")),
                                                    Err(p) => breaches.push(format!("Repository::init panicked: {p}")),
                                                }
                                            }
                                        }
                                    }
                                }
                                Err(_) => encode_refused += 1,
                            }
                        } else {
                            rejected_n += 1;
                        }
                    }
                }
                if !breaches.is_empty() {
                    bad += 1;
                } else if !drifts.is_empty() {
                    drift += 1;
                }
                if !breaches.is_empty() || (!drifts.is_empty() && logged < 50) {
                    if breaches.is_empty() {
                        logged += 1;
                    }
                    let mut jj = j.clone();
                    if jj["dels"].as_array().map_or(0, |a| a.len()) > 12 {
                        jj["dels"] = json!(format!("<{} entries>", j["dels"].as_array().unwrap().len()));
                    }
                    o.emit(&json!({"ok": breaches.is_empty(), "drift": breaches.is_empty(), "case": ci, "json": jj, "full": c, "edits": c["edits"],
                        "text": if text.len() < 1500 { json!(text) } else { json!(format!("<{} bytes>", text.len())) },
                        "breaches": breaches, "drifts": drifts, "expected": {"accepted": c["accepted"], "errk": c["errk"]}, "actual": actual}));
                }
            }
            o.emit(&json!({"summary": true, "evaluations": evals, "accepted": accepted_n, "rejected": rejected_n, "violations": bad, "drift": drift,
                "unsupported_version_texts": wide_versions, "unsupported_version_only_objection": wide_effective, "roundtrips": roundtrips, "encode_refused": encode_refused, "canonical_text_checked": canon_checked, "repositories_initialised": inits}));
        }
        "record" => {
            let n = args.num("--n", 2000) as usize;
            let mut rng = fastrand::Rng::with_seed(seed());
            for i in 0..n {
                let len = match rng.u8(0..10) {
                    0 => rng.usize(250..=300),
                    _ => rng.usize(0..=8),
                };
                let pool: i64 = if len > 100 { [200, 255, 256, 300][rng.usize(0..4)] } else { rng.i64(1..=6) };
                let mut dels: Vec<i64> = (0..len).map(|_| rng.i64(1..=pool)).collect();
                if len > 100 && rng.bool() {
                    // exactly k distinct DIDs around the limit, shuffled, with a few repeats
                    let k = [253i64, 254, 255, 255, 256, 257][rng.usize(0..6)];
                    dels = (1..=k).collect();
                    for _ in 0..rng.usize(0..4) {
                        dels.push(rng.i64(1..=k));
                    }
                    rng.shuffle(&mut dels);
                }
                let distinct = dels.iter().collect::<BTreeSet<_>>().len() as i64;
                let thr = match rng.u8(0..12) {
                    0 => -1,
                    1 => -2,
                    2 => 0,
                    3 => 255,
                    4 => 256,
                    5 => 300,
                    6 => distinct + 1,
                    7 => dels.len() as i64,
                    _ => rng.i64(1..=distinct.max(1)),
                };
                let ver = [-1i64, -1, -1, 1, 1, 0, 2, -2, 7][rng.usize(0..9)];
                let pays = ["project", "project", "custom", "empty", "badid", "absent", "bad", "nonnfc", "float"];
                let viss = ["absent", "public", "private", "allow", "bad", "absent"];
                let kind = ["list", "list", "list", "list", "list", "list", "list", "absent", "bad"][rng.usize(0..9)];
                let j = json!({"ver": ver, "delsKind": kind, "dels": if kind == "list" { json!(dels) } else { json!([]) }, "thr": thr,
                    "payload": pays[rng.usize(0..pays.len())], "vis": viss[rng.usize(0..viss.len())], "unknown": rng.bool()});
                let edits: Vec<(String, i64)> = (0..rng.usize(0..=3))
                    .map(|_| match rng.u8(0..3) {
                        0 => ("delegate".to_owned(), rng.i64(1..=pool + 1)),
                        1 => ("rescind".to_owned(), rng.i64(1..=pool.min(8))),
                        _ => ("threshold".to_owned(), [0, 1, 2, 3, distinct, distinct + 1, 255, 256][rng.usize(0..8)]),
                    })
                    .collect();
                let text = render(&j, i);
                let ej: Vec<Value> = edits.iter().map(|(op, a)| json!({"op": op, "arg": a})).collect();
                let (accepted, ek, doc) = match guard(|| run_doc(&scratch, &text, &edits)) {
                    Ok(v) => match v.doc {
                        Some(d) => {
                            let ids: Vec<i64> = d.delegates().iter().map(|x| did_id(x, &universe)).collect();
                            (true, String::new(), json!({"version": u32::from(*d.version()), "delegates": ids, "threshold": d.threshold(),
                                "payload": j["payload"], "vis": vis_kind(d.visibility())}))
                        }
                        None => (false, v.errk, json!({"version": 0, "delegates": [], "threshold": 0, "payload": "", "vis": ""})),
                    },
                    Err(_) => (false, "panic".into(), json!({"version": 0, "delegates": [], "threshold": 0, "payload": "", "vis": ""})),
                };
                o.emit(&json!({"json": j, "edits": ej, "accepted": accepted, "errk": ek, "doc": doc}));
            }
        }
        _ => fatal("unknown mode"),
    }
    o.finish();
}
